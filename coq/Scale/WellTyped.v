(* Scale/WellTyped.v — what the tree's decoder returns is a well-typed value outside the guard of
   finding uint-5to7, for map-free types (no strictness about byte strings or canonicity needed):
     fix_read c, fix_uint57 c = false, wf_ty t, map_free t ->
     decode c t bs m = (Ok (v, r), m') -> has_type v t = true /\ has_uint57 t v = false
   With RoundTrip this gives re-encoding: decoding the encoding of a decoded message gives the
   same message (C33_reencode). *)
From Coq Require Import ZifyN ZifyNat ZifyBool.
From Common Require Import Bytes Outcome.
From Scale Require Import Compact CompactProofs BytesLemmas Types Spec Codec EncodeProofs MonadLemmas LeafProofs RoundTrip Prefix.
Local Open Scope N_scope.
Local Open Scope m_scope.
Ltac Zify.zify_post_hook ::= Z.div_mod_to_equations.

Fixpoint map_free (t : ty) : bool :=
  match t with
  | TOption t' => map_free t'
  | TResult a b => map_free a && map_free b
  | TEnum alts => map_free_tys alts
  | TArray _ t' => map_free t'
  | TSlice t' => map_free t'
  | TMap _ _ => false
  | TStruct fs => map_free_tys fs
  | _ => true
  end
with map_free_tys (fs : tys) : bool :=
  match fs with TNil => true | TCons _ t r => map_free t && map_free_tys r end.

(* no option of an enum anywhere: the guard some_enum is then false on every value *)
Fixpoint no_opt_enum (t : ty) : bool :=
  match t with
  | TOption t' => negb (is_enum t') && no_opt_enum t'
  | TResult a b => no_opt_enum a && no_opt_enum b
  | TEnum alts => no_opt_enum_tys alts
  | TArray _ t' => no_opt_enum t'
  | TSlice t' => no_opt_enum t'
  | TMap k v => no_opt_enum k && no_opt_enum v
  | TStruct fs => no_opt_enum_tys fs
  | _ => true
  end
with no_opt_enum_tys (fs : tys) : bool :=
  match fs with TNil => true | TCons _ t r => no_opt_enum t && no_opt_enum_tys r end.

Lemma pad_firstn_length k (l : list byte) : length (pad_back k (firstn k l)) = k.
Proof.
  unfold pad_back, zeros. rewrite app_length, repeat_length, firstn_length. lia.
Qed.

Lemma read_short_length k bs x r : read_short k bs = Some (x, r) -> length x = k.
Proof.
  unfold read_short. destruct k as [|k].
  - intro H. assert (x = []) by congruence. subst. reflexivity.
  - destruct bs as [|b0 t]; [discriminate|]. intro H.
    assert (E : x = pad_back (S k) (firstn (S k) (b0 :: t))) by congruence.
    rewrite E. apply pad_firstn_length.
Qed.

Section WellTyped.
Variable c : cfg.
Hypothesis Hread : fix_read c = true.
Hypothesis H57 : fix_uint57 c = false.

(* the tree's decodeUint never returns a value that needs 5..7 bytes *)
Lemma dec_uint_not57 bs m n r m' : dec_uint c bs m = (Ok (n, r), m') -> n < 2 ^ 64 /\ uint57 n = false.
Proof.
  intro H. pose proof (dec_uint_sound c _ _ _ _ _ Hread H) as [_ U]. split; [exact U|]. clear U.
  unfold dec_uint in H.
  apply bind_ok in H as ([b0 t] & m1 & R0 & H). cbv beta iota zeta in H.
  pose proof (b2n_lt b0) as B0. remember (b2n b0) as p eqn:Ep. rewrite !shiftr2 in H.
  destruct (p mod 4 =? 0).
  { apply ret_ok in H as [H _]. injection H as <- _. apply uint57_small. lia. }
  destruct (p mod 4 =? 1).
  { apply bind_ok in H as ([b1 r'] & m2 & _ & H). cbv beta iota zeta in H. rewrite shiftr2 in H.
    pose proof (b2n_lt b1). remember ((p + 256 * b2n b1) / 4) as v eqn:Ev.
    destruct ((v <=? 63) || _); [discriminate|].
    apply ret_ok in H as [H _]. injection H as <- _. apply uint57_small. lia. }
  destruct (p mod 4 =? 2).
  { apply bind_ok in H as ([x r'] & m2 & R & H). apply (read_ok c _ _ _ _ _ _ Hread) in R as [_ L].
    cbv beta iota zeta in H. rewrite shiftr2 in H.
    pose proof (le_val_lt x) as X. rewrite L in X. change (256 ^ N.of_nat 3) with 16777216 in X.
    remember ((p + 256 * le_val x) / 4) as v eqn:Ev.
    destruct ((v <=? 16383) || _); [discriminate|].
    apply ret_ok in H as [H _]. injection H as <- _. apply uint57_small. lia. }
  rewrite Hread, H57 in H. cbn [andb orb] in H. rewrite orb_false_r in H.
  remember (p / 4 + 4) as k eqn:Ek.
  destruct ((k =? 4) || (k =? 8)) eqn:SUP; cbn [negb] in H; [|discriminate].
  apply bind_ok in H as ([x r'] & m2 & R & H). apply (read_ok c _ _ _ _ _ _ Hread) in R as [_ L].
  cbv beta iota zeta in H.
  pose proof (le_val_lt x) as X. rewrite L, N2Nat.id in X.
  destruct (N.eqb_spec k 4) as [K4|K4].
  { destruct (le_val x <=? 1073741823); [discriminate|].
    apply ret_ok in H as [H _]. injection H as <- _. apply uint57_small.
    rewrite K4 in X. change (256 ^ 4) with 4294967296 in X. exact X. }
  destruct (N.eqb_spec k 8) as [K8|K8]; [|discriminate].
  destruct (N.leb_spec (le_val x) 72057594037927935) as [A|A]; [discriminate|].
  apply ret_ok in H as [H _]. injection H as <- _.
  unfold uint57. destruct (N.ltb_spec (le_val x) 72057594037927936); [lia|]. now rewrite andb_false_r.
Qed.

Lemma dec_big_lt bs m n r m' : dec_big c bs m = (Ok (n, r), m') -> n < 2 ^ 536.
Proof.
  intro H. unfold dec_big in H.
  apply bind_ok in H as ([b0 t] & m1 & R0 & H). cbv beta iota zeta in H.
  pose proof (b2n_lt b0) as B0. remember (b2n b0) as p eqn:Ep. rewrite !shiftr2, land3 in H.
  assert (SM : forall v, v < 1073741824 -> v < 2 ^ 536).
  { intros v Hv. apply N.lt_trans with 1073741824; [exact Hv|reflexivity]. }
  destruct (p mod 4 =? 0).
  { apply ret_ok in H as [H _]. injection H as <- _. apply SM. lia. }
  destruct (p mod 4 =? 1).
  { apply bind_ok in H as ([b1 r'] & m2 & _ & H). cbv beta iota zeta in H. rewrite shiftr2 in H.
    pose proof (b2n_lt b1). remember ((p + 256 * b2n b1) / 4) as v eqn:Ev.
    destruct (fix_big c && _); [discriminate|].
    apply ret_ok in H as [H _]. injection H as <- _. apply SM. lia. }
  destruct (p mod 4 =? 2).
  { apply bind_ok in H as ([x r'] & m2 & R & H). apply (read_ok c _ _ _ _ _ _ Hread) in R as [_ L].
    cbv beta iota zeta in H. rewrite shiftr2 in H.
    pose proof (le_val_lt x) as X. rewrite L in X. change (256 ^ N.of_nat 3) with 16777216 in X.
    remember ((p + 256 * le_val x) / 4) as v eqn:Ev.
    destruct (fix_big c && _); [discriminate|].
    apply ret_ok in H as [H _]. injection H as <- _. apply SM. lia. }
  apply bind_ok in H as ([x r'] & m2 & R & H). apply (read_ok c _ _ _ _ _ _ Hread) in R as [_ L].
  cbv beta iota zeta in H. rewrite be_val_rev in H.
  destruct (fix_big c && _); [discriminate|].
  apply ret_ok in H as [H _]. injection H as <- _.
  pose proof (le_val_lt x) as X. rewrite L, N2Nat.id in X.
  apply N.lt_le_trans with (256 ^ (p / 4 + 4)); [exact X|].
  rewrite pow256. apply N.pow_le_mono_r; lia.
Qed.

Lemma dec_bytes_len bs m l r m' : dec_bytes c bs m = (Ok (l, r), m') -> N.of_nat (length l) < 2 ^ 32.
Proof.
  intro H. unfold dec_bytes in H.
  apply bind_ok in H as ([n r0] & m1 & U & H). cbv beta iota in H.
  destruct (N.ltb_spec 4294967295 n) as [A|A]; [discriminate|].
  change (2 ^ 32) with 4294967296.
  destruct (fix_bytes c).
  - apply tick_seq_ok in H. destruct (_ <? _); [discriminate|].
    apply bind_ok in H as ([] & m2 & _ & H). apply ret_ok in H as [H _]. injection H as <- _.
    pose proof (firstn_le_length (N.to_nat n) r0). lia.
  - apply tick_seq_ok in H. destruct (N.eqb_spec n 0) as [E|E].
    + apply ret_ok in H as [H _]. injection H as <- _. cbn. lia.
    + apply lift_ok in H as [H _]. apply read_short_length in H. lia.
Qed.

Definition wt_ty (t : ty) : Prop :=
  wf_ty t = true -> map_free t = true -> forall bs m v r m',
    decode c t bs m = (Ok (v, r), m') -> has_type v t = true /\ has_uint57 t v = false.
Definition wt_tys (fs : tys) : Prop :=
  wf_tys fs = true -> map_free_tys fs = true ->
  (forall bs m vs r m', decode_fields c fs bs m = (Ok (vs, r), m') ->
     has_types vs fs = true /\ has_uint57_fields fs vs = false) /\
  (forall i bs m v r m', decode_alt c fs i bs m = (Ok (v, r), m') ->
     exists t v', alt_lookup fs i = Some t /\ v = VEnum i v' /\ has_type v' t = true /\ has_uint57 t v' = false).

Lemma array_wt t : (forall bs m v r m', decode c t bs m = (Ok (v, r), m') -> has_type v t = true /\ has_uint57 t v = false) ->
  forall n bs m vs r m', dec_array (decode c t) n bs m = (Ok (vs, r), m') ->
  all_type vs t = true /\ vals_len vs = n /\ has_uint57_all t vs = false.
Proof.
  intros IH. induction n as [|n IHn]; intros bs m vs r m' H; cbn [dec_array] in H.
  - apply ret_ok in H as [H _]. injection H as <- _. now repeat split.
  - apply bind_ok in H as ([v r1] & m1 & D & H). apply bind_ok in H as ([vs' r2] & m2 & D2 & H).
    apply ret_ok in H as [H _]. injection H as <- _.
    apply IH in D as [T U]. apply IHn in D2 as (T2 & L2 & U2).
    cbn [all_type vals_len has_uint57_all]. rewrite T, T2, U, U2, L2. now repeat split.
Qed.

Lemma loop_wt t : (forall bs m v r m', decode c t bs m = (Ok (v, r), m') -> has_type v t = true /\ has_uint57 t v = false) ->
  forall fuel cnt bs m vs r m', dec_loop (decode c t) fuel cnt bs m = (Ok (vs, r), m') ->
  all_type vs t = true /\ N.of_nat (vals_len vs) = cnt /\ has_uint57_all t vs = false.
Proof.
  intros IH. induction fuel as [|f IHf]; intros cnt bs m vs r m' H; cbn [dec_loop] in H;
    destruct (N.eqb_spec cnt 0) as [E|E].
  - apply ret_ok in H as [H _]. injection H as <- _. subst. now repeat split.
  - discriminate.
  - apply ret_ok in H as [H _]. injection H as <- _. subst. now repeat split.
  - apply bind_ok in H as ([v r1] & m1 & D & H). apply bind_ok in H as ([vs' r2] & m2 & D2 & H).
    apply ret_ok in H as [H _]. injection H as <- _.
    apply IH in D as [T U]. apply IHf in D2 as (T2 & L2 & U2).
    cbn [all_type vals_len has_uint57_all]. rewrite T, T2, U, U2. repeat split. lia.
Qed.

Ltac leaf_start H := cbn [decode] in H; apply tick_seq_ok in H.

Lemma wt_all : forall t, wt_ty t.
Proof.
  apply (ty_mut wt_ty wt_tys); unfold wt_ty, wt_tys.
  - intros _ _ bs m v r m' H. leaf_start H.
    apply bind_ok in H as ([b r1] & m1 & _ & H). apply ret_ok in H as [H _]. injection H as <- _.
    split; [apply N.ltb_lt, b2n_lt|reflexivity].
  - intros _ _ bs m v r m' H. leaf_start H.
    apply bind_ok in H as ([x r1] & m1 & R & H). apply (fixed_pf c Hread) in R as [_ L].
    apply ret_ok in H as [H _]. injection H as <- _. split; [apply N.ltb_lt; exact L|reflexivity].
  - intros _ _ bs m v r m' H. leaf_start H.
    apply bind_ok in H as ([x r1] & m1 & R & H). apply (fixed_pf c Hread) in R as [_ L].
    apply ret_ok in H as [H _]. injection H as <- _. split; [apply N.ltb_lt; exact L|reflexivity].
  - intros _ _ bs m v r m' H. leaf_start H.
    apply bind_ok in H as ([x r1] & m1 & R & H). apply (fixed_pf c Hread) in R as [_ L].
    apply ret_ok in H as [H _]. injection H as <- _. split; [apply N.ltb_lt; exact L|reflexivity].
  - intros _ _ bs m v r m' H. leaf_start H.
    apply bind_ok in H as ([b r1] & m1 & _ & H). apply ret_ok in H as [H _]. injection H as <- _.
    split; [apply (signed_in_z_1 (b2n b) (b2n_lt b))|reflexivity].
  - intros _ _ bs m v r m' H. leaf_start H.
    apply bind_ok in H as ([x r1] & m1 & R & H). apply (fixed_pf c Hread) in R as [_ L].
    apply ret_ok in H as [H _]. injection H as <- _. split; [apply (signed_in_z_2 _ L)|reflexivity].
  - intros _ _ bs m v r m' H. leaf_start H.
    apply bind_ok in H as ([x r1] & m1 & R & H). apply (fixed_pf c Hread) in R as [_ L].
    apply ret_ok in H as [H _]. injection H as <- _. split; [apply (signed_in_z_4 _ L)|reflexivity].
  - intros _ _ bs m v r m' H. leaf_start H.
    apply bind_ok in H as ([x r1] & m1 & R & H). apply (fixed_pf c Hread) in R as [_ L].
    apply ret_ok in H as [H _]. injection H as <- _. split; [apply (signed_in_z_8 _ L)|reflexivity].
  - (* TUint *) intros _ _ bs m v r m' H. leaf_start H.
    apply bind_ok in H as ([n r1] & m1 & R & H). apply dec_uint_not57 in R as [L U].
    apply ret_ok in H as [H _]. injection H as <- _. split; [now apply N.ltb_lt|exact U].
  - (* TInt *) intros _ _ bs m v r m' H. leaf_start H.
    apply bind_ok in H as ([n r1] & m1 & R & H). apply dec_uint_not57 in R as [L U].
    apply ret_ok in H as [H _]. injection H as <- _. cbn [has_type has_uint57].
    destruct (signed_in_z_8 n L) as [A B]. split; [exact A|]. rewrite wrap_twos, B. exact U.
  - (* TBig *) intros _ _ bs m v r m' H. leaf_start H.
    apply bind_ok in H as ([n r1] & m1 & R & H). apply dec_big_lt in R.
    apply ret_ok in H as [H _]. injection H as <- _. split; [now apply N.ltb_lt|reflexivity].
  - (* TU128 *) intros _ _ bs m v r m' H. leaf_start H. apply tick_seq_ok in H.
    apply bind_ok in H as ([x r1] & m1 & R & H). apply lift_ok in R as [R _].
    rewrite read_exact_take in R. apply take_spec in R as [_ L]. rewrite le_val_split8 in H by exact L.
    apply ret_ok in H as [H _]. injection H as <- _. split; [|reflexivity].
    apply N.ltb_lt. pose proof (le_val_lt x) as U. rewrite L in U. exact U.
  - (* TBool *) intros _ _ bs m v r m' H. leaf_start H.
    apply bind_ok in H as ([b r1] & m1 & _ & H). destruct (bool_of_byte b); [|discriminate].
    apply ret_ok in H as [H _]. injection H as <- _. now split.
  - (* TBytes *) intros _ _ bs m v r m' H. leaf_start H.
    apply bind_ok in H as ([l r1] & m1 & R & H). apply dec_bytes_len in R.
    apply ret_ok in H as [H _]. injection H as <- _. split; [now apply N.ltb_lt|reflexivity].
  - (* TStr *) intros _ _ bs m v r m' H. leaf_start H.
    apply bind_ok in H as ([l r1] & m1 & R & H). apply dec_bytes_len in R.
    apply ret_ok in H as [H _]. injection H as <- _. split; [now apply N.ltb_lt|reflexivity].
  - (* TOption *) intros t IH W MF bs m v r m' H. cbn [wf_ty map_free] in *. leaf_start H.
    apply bind_ok in H as ([b r1] & m1 & _ & H).
    destruct (bool_of_byte b) as [[|]|]; [| |discriminate].
    + apply bind_ok in H as ([v1 r2] & m2 & D & H). apply (IH W MF) in D as [T U].
      apply ret_ok in H as [H _]. injection H as <- _. now split.
    + apply ret_ok in H as [H _]. injection H as <- _. now split.
  - (* TResult *) intros a IHa b IHb W MF bs m v r m' H. cbn [wf_ty map_free] in *.
    apply andb_prop in W as [W1 W2]. apply andb_prop in MF as [M1 M2]. leaf_start H.
    apply bind_ok in H as ([x r1] & m1 & _ & H).
    destruct (bool_of_byte x) as [[|]|]; [| |discriminate].
    + apply bind_ok in H as ([v1 r2] & m2 & D & H). apply (IHb W2 M2) in D as [T U].
      apply ret_ok in H as [H _]. injection H as <- _. now split.
    + apply bind_ok in H as ([v1 r2] & m2 & D & H). apply (IHa W1 M1) in D as [T U].
      apply ret_ok in H as [H _]. injection H as <- _. now split.
  - (* TEnum *) intros alts IH W MF bs m v r m' H. cbn [wf_ty map_free] in *.
    apply andb_prop in W as [W1 W2]. leaf_start H.
    apply bind_ok in H as ([b r1] & m1 & _ & H).
    apply (proj2 (IH W2 MF)) in H as (t & v' & AL & -> & T & U).
    cbn [has_type has_uint57]. rewrite AL. now split.
  - (* TArray *) intros n t IH W MF bs m v r m' H. cbn [wf_ty map_free] in *. leaf_start H.
    apply bind_ok in H as ([vs r1] & m1 & D & H). apply (array_wt t (IH W MF)) in D as (T & L & U).
    apply ret_ok in H as [H _]. injection H as <- _. cbn [has_type has_uint57].
    rewrite T, L, Nat.eqb_refl. now split.
  - (* TSlice *) intros t IH W MF bs m v r m' H. cbn [wf_ty map_free] in *.
    apply andb_prop in W as [W1 W2]. leaf_start H.
    apply bind_ok in H as ([cnt r1] & m1 & R & H). apply dec_uint_not57 in R as [L U57].
    apply bind_ok in H as ([vs r2] & m2 & D & H). apply (loop_wt t (IH W1 MF)) in D as (T & LL & U).
    apply ret_ok in H as [H _]. injection H as <- _. cbn [has_type has_uint57].
    rewrite T, U, LL, U57. split; [|reflexivity]. cbn [andb]. now apply N.ltb_lt.
  - (* TMap *) intros kt _ vt _ _ MF. discriminate MF.
  - (* TStruct *) intros fs IH W MF bs m v r m' H. cbn [wf_ty map_free] in *. leaf_start H.
    apply bind_ok in H as ([vs r1] & m1 & D & H). apply (proj1 (IH W MF)) in D as [T U].
    apply ret_ok in H as [H _]. injection H as <- _. now split.
  - (* TNil *) intros _ _. split.
    + intros bs m vs r m' H. cbn [decode_fields] in H. apply ret_ok in H as [H _]. injection H as <- _. now split.
    + intros i bs m v r m' H. discriminate.
  - (* TCons *) intros tag t IHt fr IHf W MF. cbn [wf_tys map_free_tys] in *.
    apply andb_prop in W as [W1 W2]. apply andb_prop in MF as [M1 M2]. split.
    + intros bs m vs r m' H. cbn [decode_fields] in H.
      apply bind_ok in H as ([v r1] & m1 & D & H). apply bind_ok in H as ([vs' r2] & m2 & D2 & H).
      apply ret_ok in H as [H _]. injection H as <- _.
      apply (IHt W1 M1) in D as [T U]. apply (proj1 (IHf W2 M2)) in D2 as [T2 U2].
      cbn [has_types has_uint57_fields]. rewrite T, T2, U, U2. now split.
    + intros i bs m v r m' H. cbn [decode_alt alt_lookup] in *.
      destruct tag as [j|]; [|now apply (proj2 (IHf W2 M2)) in H].
      destruct (N.eqb_spec j i) as [E|E]; [|now apply (proj2 (IHf W2 M2)) in H].
      apply bind_ok in H as ([v1 r1] & m1 & D & H). apply (IHt W1 M1) in D as [T U].
      apply ret_ok in H as [H _]. injection H as <- _. exists t, v1. now repeat split.
Qed.

Theorem decode_well_typed t bs m v r m' :
  wf_ty t = true -> map_free t = true -> decode c t bs m = (Ok (v, r), m') ->
  has_type v t = true /\ has_uint57 t v = false.
Proof. intros W MF H. eapply wt_all; eassumption. Qed.

End WellTyped.

(* values of a type without option-of-enum never trigger the some-enum guard *)
Definition nse_value (v : value) : Prop := forall t, no_opt_enum t = true -> some_enum t v = false.
Definition nse_vals (vs : vals) : Prop :=
  (forall t, no_opt_enum t = true -> some_enum_all t vs = false) /\
  (forall fs, no_opt_enum_tys fs = true -> some_enum_fields fs vs = false).
Definition nse_kvals (kvs : kvals) : Prop :=
  forall kt vt, no_opt_enum kt = true -> no_opt_enum vt = true -> some_enum_kvs kt vt kvs = false.

Lemma alt_lookup_noe alts i t : no_opt_enum_tys alts = true -> alt_lookup alts i = Some t -> no_opt_enum t = true.
Proof.
  induction alts as [|tag t0 r IH]; [discriminate|]. cbn [no_opt_enum_tys alt_lookup].
  intros H L. apply andb_prop in H as [H1 H2]. destruct tag as [j|]; [|now apply IH].
  destruct (N.eqb_spec j i); [now injection L as <-|now apply IH].
Qed.

Lemma nse_all : forall v, nse_value v.
Proof.
  apply (value_mut nse_value nse_vals nse_kvals); unfold nse_value, nse_vals, nse_kvals.
  - intros n t _. destruct t; reflexivity.
  - intros z t _. destruct t; reflexivity.
  - intros b t _. destruct t; reflexivity.
  - intros l t _. destruct t; reflexivity.
  - intros t _. destruct t; reflexivity.
  - intros v IH t H. destruct t; try reflexivity. cbn [no_opt_enum some_enum] in *.
    apply andb_prop in H as [H1 H2]. apply negb_true_iff in H1. rewrite H1. cbn [orb]. now apply IH.
  - intros v IH t H. destruct t; try reflexivity. cbn [no_opt_enum some_enum] in *.
    apply andb_prop in H as [H1 H2]. now apply IH.
  - intros v IH t H. destruct t; try reflexivity. cbn [no_opt_enum some_enum] in *.
    apply andb_prop in H as [H1 H2]. now apply IH.
  - intros i v IH t H. destruct t; try reflexivity. cbn [no_opt_enum some_enum] in *.
    destruct (alt_lookup alts i) eqn:AL; [|reflexivity]. apply IH. eapply alt_lookup_noe; eassumption.
  - intros vs [IHa IHf] t H. destruct t; try reflexivity; cbn [no_opt_enum some_enum] in *.
    + now apply IHa.
    + now apply IHa.
    + now apply IHf.
  - intros kvs IH t H. destruct t; try reflexivity. cbn [no_opt_enum some_enum] in *.
    apply andb_prop in H as [H1 H2]. now apply IH.
  - split; intros; reflexivity.
  - intros v IHv r [IHa IHf]. split.
    + intros t H. cbn [some_enum_all]. now rewrite IHv, IHa.
    + intros fs H. destruct fs as [|tag t fr]; [reflexivity|]. cbn [no_opt_enum_tys some_enum_fields] in *.
      apply andb_prop in H as [H1 H2]. now rewrite IHv, IHf.
  - intros; reflexivity.
  - intros k IHk v IHv r IHr kt vt Hk Hv. cbn [some_enum_kvs]. now rewrite IHk, IHv, IHr.
Qed.

(* re-encoding on the tree: a decoded message, marshalled and decoded again, is the same message *)
Theorem reencode (c : cfg) t bs v r r' :
  fix_read c = true -> fix_map c = true -> fix_uint57 c = false ->
  wf_ty t = true -> map_free t = true -> no_opt_enum t = true ->
  decode_res c t bs = Ok (v, r) ->
  decode_res c t (encode_go t v ++ r') = Ok (v, r').
Proof.
  intros Hr Hm H57 W MF NOE D.
  unfold decode_res, run_decode in D. destruct (decode c t bs 0) as [o m'] eqn:E. cbn [fst] in D. subst o.
  destruct (decode_well_typed c Hr H57 t bs 0 v r m' W MF E) as [T U].
  rewrite encode_go_encode by (now apply nse_all).
  unfold decode_res, run_decode.
  destruct (decode_encode c Hm t v r' W T (or_intror U) 0) as [m2 ->]. reflexivity.
Qed.
