(* C37/ProofsField.v — the field laws of GF(2^128) that GHASH relies on, for the bit-serial
   multiplication gf_mul of ModelGcm.v (NIST SP 800-38D algorithm 1, reflected bit order: bit 127 of
   the number is the coefficient of x^0, bit 0 the coefficient of x^127).

   Route.  One loop iteration replaces v by mulx v = "v times x modulo x^128+x^7+x^2+x+1" (shift
   right, fold the dropped bit back with R).  mulx is linear over xor, so the loop is linear in
   (z, v) — linearity of gf_mul in its SECOND argument.  Every linear map T that commutes with mulx
   commutes with the whole loop: gf_mul x (T y) = T (gf_mul x y).  "Multiply by a constant"
   (fun v => gf_mul a v) is such a map, which gives the exchange law
        gf_mul x (gf_mul a y) = gf_mul a (gf_mul x y)            (all operands).
   The block 0x80 00..00 (= 2^127, the polynomial 1) is a left unit for all y and a right unit for
   x < 2^128 (the loop then just copies the 128 low bits of x).  Commutativity and associativity
   follow from exchange + unit.  Nothing is computed over a large domain; all laws hold for all
   operands (below 2^128 where stated). *)
From Coq Require Import ZifyN ZifyNat ZifyBool.
From Common Require Import Bytes Outcome Blake2b.
From C37 Require Import Model Proofs ProofsGhash.
Local Open Scope N_scope.

(* ---- one step of the loop ---- *)
Definition mulx (v : N) : N :=
  if N.testbit v 0 then N.lxor (N.shiftr v 1) gcm_r else N.shiftr v 1.

Lemma gf_mul_loop_S i x z v :
  gf_mul_loop (S i) x z v =
  gf_mul_loop i x (if N.testbit x (N.of_nat i) then N.lxor z v else z) (mulx v).
Proof. reflexivity. Qed.

Local Transparent gf_mul.
Lemma gf_mul_unfold x y : gf_mul x y = gf_mul_loop 128 x 0 y.
Proof. unfold gf_mul. reflexivity. Qed.
Global Opaque gf_mul.

Lemma mulx_linear a b : mulx (N.lxor a b) = N.lxor (mulx a) (mulx b).
Proof.
  unfold mulx. rewrite N.lxor_spec, N.shiftr_lxor.
  destruct (N.testbit a 0), (N.testbit b 0); cbn [xorb]; xor_ring.
Qed.

(* ---- (1) linearity in the second argument ---- *)
Lemma gf_mul_loop_linear_r i : forall x z1 z2 v1 v2,
  gf_mul_loop i x (N.lxor z1 z2) (N.lxor v1 v2) =
  N.lxor (gf_mul_loop i x z1 v1) (gf_mul_loop i x z2 v2).
Proof.
  induction i as [|i IH]; intros x z1 z2 v1 v2; [reflexivity|].
  rewrite !gf_mul_loop_S, mulx_linear, <- IH.
  destruct (N.testbit x (N.of_nat i)); f_equal; xor_ring.
Qed.

Lemma gf_mul_linear_r x a b : gf_mul x (N.lxor a b) = N.lxor (gf_mul x a) (gf_mul x b).
Proof. rewrite !gf_mul_unfold, <- gf_mul_loop_linear_r. reflexivity. Qed.

(* ---- linear maps commuting with mulx commute with the multiplication ---- *)
Section Commuting.
  Variable T : N -> N.
  Hypothesis T_linear : forall a b, T (N.lxor a b) = N.lxor (T a) (T b).
  Hypothesis T_mulx : forall v, T (mulx v) = mulx (T v).

  Lemma T_zero : T 0 = 0.
  Proof.
    pose proof (T_linear 0 0) as H. rewrite N.lxor_0_l in H.
    rewrite H at 1. apply N.lxor_nilpotent.
  Qed.

  Lemma gf_mul_loop_commute i : forall x z v,
    gf_mul_loop i x (T z) (T v) = T (gf_mul_loop i x z v).
  Proof.
    induction i as [|i IH]; intros x z v; [reflexivity|].
    rewrite !gf_mul_loop_S, <- IH, T_mulx.
    destruct (N.testbit x (N.of_nat i)); [rewrite T_linear|]; reflexivity.
  Qed.

  Lemma gf_mul_commute x y : gf_mul x (T y) = T (gf_mul x y).
  Proof. rewrite !gf_mul_unfold, <- gf_mul_loop_commute, T_zero. reflexivity. Qed.
End Commuting.

Lemma gf_mul_mulx x y : gf_mul x (mulx y) = mulx (gf_mul x y).
Proof. apply (gf_mul_commute mulx mulx_linear). reflexivity. Qed.

(* the exchange law: "multiply by a" and "multiply by x" commute, for all operands *)
Lemma gf_mul_exchange x a y : gf_mul x (gf_mul a y) = gf_mul a (gf_mul x y).
Proof.
  apply (gf_mul_commute (fun v => gf_mul a v)).
  - intros; apply gf_mul_linear_r.
  - intros; apply gf_mul_mulx.
Qed.

(* ---- (3) the unit: the block 0x80 00 .. 00, i.e. the polynomial 1 ---- *)
Definition gf_one : N := 170141183460469231731687303715884105728.
Lemma gf_one_pow : gf_one = 2 ^ 127. Proof. reflexivity. Qed.
Lemma gf_one_block : be_val (n2b 128 :: zeros 15) = gf_one.
Proof. vm_compute. reflexivity. Qed.
Lemma gf_one_lt : gf_one < B128. Proof. reflexivity. Qed.

Lemma gf_mul_loop_nobits i : forall x z v,
  (forall k, k < N.of_nat i -> N.testbit x k = false) -> gf_mul_loop i x z v = z.
Proof.
  induction i as [|i IH]; intros x z v H; [reflexivity|].
  rewrite gf_mul_loop_S, (H (N.of_nat i)) by lia.
  apply IH. intros k Hk. apply H. lia.
Qed.

Lemma gf_mul_one_l y : gf_mul gf_one y = y.
Proof.
  rewrite gf_mul_unfold. change 128%nat with (S 127). rewrite gf_mul_loop_S.
  replace (N.testbit gf_one (N.of_nat 127)) with true by (vm_compute; reflexivity).
  rewrite N.lxor_0_l. apply gf_mul_loop_nobits.
  intros k Hk. rewrite gf_one_pow. apply N.pow2_bits_false.
  assert (N.of_nat 127 = 127) by reflexivity. lia.
Qed.

Ltac bfin := repeat match goal with |- context [N.testbit ?a ?k] => destruct (N.testbit a k) end; reflexivity.

(* with v = 2^i the remaining i+1 iterations copy the i+1 low bits of x into z *)
Lemma gf_mul_loop_copy i : forall x z,
  gf_mul_loop (S i) x z (2 ^ N.of_nat i) = N.lxor z (x mod 2 ^ N.of_nat (S i)).
Proof.
  induction i as [|i IH]; intros x z.
  - rewrite gf_mul_loop_S. cbn [gf_mul_loop]. change (2 ^ N.of_nat 0) with 1.
    change (2 ^ N.of_nat 1) with 2. change (N.of_nat 0) with 0.
    rewrite <- N.bit0_mod. destruct (N.testbit x 0); cbn [N.b2n]; [reflexivity | now rewrite N.lxor_0_r].
  - rewrite gf_mul_loop_S.
    assert (Hm : mulx (2 ^ N.of_nat (S i)) = 2 ^ N.of_nat i).
    { unfold mulx. rewrite N.pow2_bits_false by lia.
      rewrite N.shiftr_div_pow2. replace (N.of_nat (S i)) with (N.of_nat i + 1) by lia.
      rewrite N.pow_add_r. change (2 ^ 1) with 2. apply N.div_mul. lia. }
    rewrite Hm, IH.
    apply N.bits_inj; intro k.
    assert (Hfin : forall a b c : bool, a = b -> xorb c a = xorb c b) by (intros; subst; reflexivity).
    destruct (N.testbit x (N.of_nat (S i))) eqn:Hb; rewrite ?N.lxor_spec.
    + rewrite Bool.xorb_assoc_reverse. apply Hfin.
      destruct (N.lt_ge_cases k (N.of_nat (S i))) as [Hk|Hk].
      * rewrite !N.mod_pow2_bits_low by lia. rewrite N.pow2_bits_false by lia. bfin.
      * rewrite (N.mod_pow2_bits_high x (N.of_nat (S i))) by lia.
        destruct (N.eq_dec k (N.of_nat (S i))) as [->|Hne].
        -- rewrite N.pow2_bits_true, N.mod_pow2_bits_low, Hb by lia. bfin.
        -- rewrite N.pow2_bits_false by lia.
           rewrite N.mod_pow2_bits_high by lia. bfin.
    + apply Hfin.
      destruct (N.lt_ge_cases k (N.of_nat (S i))) as [Hk|Hk].
      * now rewrite !N.mod_pow2_bits_low by lia.
      * rewrite (N.mod_pow2_bits_high x (N.of_nat (S i))) by lia.
        destruct (N.eq_dec k (N.of_nat (S i))) as [->|Hne].
        -- rewrite N.mod_pow2_bits_low, Hb by lia. reflexivity.
        -- rewrite N.mod_pow2_bits_high by lia. reflexivity.
Qed.

Lemma gf_mul_one_r x : x < B128 -> gf_mul x gf_one = x.
Proof.
  intro Hx. rewrite gf_mul_unfold. change 128%nat with (S 127).
  replace gf_one with (2 ^ N.of_nat 127) by reflexivity.
  rewrite gf_mul_loop_copy, N.lxor_0_l.
  replace (2 ^ N.of_nat (S 127)) with B128 by reflexivity.
  apply N.mod_small, Hx.
Qed.

(* for any x only its 128 low bits matter *)
Lemma gf_mul_one_r_mod x : gf_mul x gf_one = x mod B128.
Proof.
  rewrite gf_mul_unfold. change 128%nat with (S 127).
  replace gf_one with (2 ^ N.of_nat 127) by reflexivity.
  rewrite gf_mul_loop_copy, N.lxor_0_l. reflexivity.
Qed.

(* ---- (2) commutativity ---- *)
Lemma gf_mul_comm x y : x < B128 -> y < B128 -> gf_mul x y = gf_mul y x.
Proof.
  intros Hx Hy.
  rewrite <- (gf_mul_one_r y Hy) at 1.
  rewrite gf_mul_exchange, (gf_mul_one_r x Hx). reflexivity.
Qed.

(* ---- (4) associativity ---- *)
Lemma gf_mul_assoc x y z : y < B128 -> z < B128 ->
  gf_mul (gf_mul x y) z = gf_mul x (gf_mul y z).
Proof.
  intros Hy Hz.
  rewrite (gf_mul_comm (gf_mul x y) z (gf_mul_lt x y Hy) Hz).
  rewrite gf_mul_exchange, (gf_mul_comm z y Hz Hy). reflexivity.
Qed.

(* xor is the addition: distributivity on both sides is C37_gf_mul_linear / gf_mul_linear_r;
   zero annihilates *)
Lemma gf_mul_zero_l y : gf_mul 0 y = 0.
Proof. rewrite gf_mul_unfold. apply gf_mul_loop_nobits. intros; apply N.bits_0. Qed.
Lemma gf_mul_zero_r x : gf_mul x 0 = 0.
Proof.
  pose proof (gf_mul_linear_r x 0 0) as H. rewrite N.lxor_0_l in H.
  rewrite H at 1. apply N.lxor_nilpotent.
Qed.
