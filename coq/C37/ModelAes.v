(* C37/ModelAes.v — AES-256 block encryption (FIPS-197) in Gallina; definitions only.
   Used to *run* the GCM model of ModelGcm.v against crypto/aes (the theorems of C37 hold for
   every block function and do not depend on this file).  Bytes are N in [0,256); the state is
   the 16-element list in FIPS order (index r + 4c). *)
From Common Require Import Bytes.
Local Open Scope N_scope.

Definition sbox_rows : list (list N) :=
  [ [99; 124; 119; 123; 242; 107; 111; 197; 48; 1; 103; 43; 254; 215; 171; 118];
    [202; 130; 201; 125; 250; 89; 71; 240; 173; 212; 162; 175; 156; 164; 114; 192];
    [183; 253; 147; 38; 54; 63; 247; 204; 52; 165; 229; 241; 113; 216; 49; 21];
    [4; 199; 35; 195; 24; 150; 5; 154; 7; 18; 128; 226; 235; 39; 178; 117];
    [9; 131; 44; 26; 27; 110; 90; 160; 82; 59; 214; 179; 41; 227; 47; 132];
    [83; 209; 0; 237; 32; 252; 177; 91; 106; 203; 190; 57; 74; 76; 88; 207];
    [208; 239; 170; 251; 67; 77; 51; 133; 69; 249; 2; 127; 80; 60; 159; 168];
    [81; 163; 64; 143; 146; 157; 56; 245; 188; 182; 218; 33; 16; 255; 243; 210];
    [205; 12; 19; 236; 95; 151; 68; 23; 196; 167; 126; 61; 100; 93; 25; 115];
    [96; 129; 79; 220; 34; 42; 144; 136; 70; 238; 184; 20; 222; 94; 11; 219];
    [224; 50; 58; 10; 73; 6; 36; 92; 194; 211; 172; 98; 145; 149; 228; 121];
    [231; 200; 55; 109; 141; 213; 78; 169; 108; 86; 244; 234; 101; 122; 174; 8];
    [186; 120; 37; 46; 28; 166; 180; 198; 232; 221; 116; 31; 75; 189; 139; 138];
    [112; 62; 181; 102; 72; 3; 246; 14; 97; 53; 87; 185; 134; 193; 29; 158];
    [225; 248; 152; 17; 105; 217; 142; 148; 155; 30; 135; 233; 206; 85; 40; 223];
    [140; 161; 137; 13; 191; 230; 66; 104; 65; 153; 45; 15; 176; 84; 187; 22] ].

Definition sbox (x : N) : N :=
  nth (N.to_nat (N.land x 15)) (nth (N.to_nat (N.shiftr x 4)) sbox_rows []) 0.

(* multiplication by x in GF(2^8) modulo x^8+x^4+x^3+x+1 *)
Definition xtime (x : N) : N :=
  N.lxor (N.land (N.shiftl x 1) 255) (if N.testbit x 7 then 27 else 0).

Fixpoint map2 {A} (f : A -> A -> A) (a b : list A) : list A :=
  match a, b with
  | x :: a', y :: b' => f x y :: map2 f a' b'
  | _, _ => []
  end.
Definition xor_list (a b : list N) : list N := map2 N.lxor a b.

Definition shift_rows (s : list N) : list N :=
  match s with
  | [s0;s1;s2;s3;s4;s5;s6;s7;s8;s9;s10;s11;s12;s13;s14;s15] =>
    [s0;s5;s10;s15; s4;s9;s14;s3; s8;s13;s2;s7; s12;s1;s6;s11]
  | _ => s
  end.

Definition mix_col (a0 a1 a2 a3 : N) : list N :=
  let x0 := xtime a0 in let x1 := xtime a1 in let x2 := xtime a2 in let x3 := xtime a3 in
  [ N.lxor (N.lxor x0 (N.lxor x1 a1)) (N.lxor a2 a3);
    N.lxor (N.lxor a0 x1) (N.lxor (N.lxor x2 a2) a3);
    N.lxor (N.lxor a0 a1) (N.lxor x2 (N.lxor x3 a3));
    N.lxor (N.lxor (N.lxor x0 a0) a1) (N.lxor a2 x3) ].

Definition mix_columns (s : list N) : list N :=
  match s with
  | [s0;s1;s2;s3;s4;s5;s6;s7;s8;s9;s10;s11;s12;s13;s14;s15] =>
    mix_col s0 s1 s2 s3 ++ mix_col s4 s5 s6 s7 ++ mix_col s8 s9 s10 s11 ++ mix_col s12 s13 s14 s15
  | _ => s
  end.

(* ---- key expansion, Nk = 8 (AES-256): 60 words ---- *)
Definition rot_word (w : list N) : list N :=
  match w with [a;b;c;d] => [b;c;d;a] | _ => w end.
Definition sub_word (w : list N) : list N := map sbox w.
Definition rcon (i : N) : N :=   (* x^(i-1) *)
  nth (N.to_nat i) [0;1;2;4;8;16;32;64;128;27;54] 0.

(* [win] holds the previous 8 words, oldest first; produces words i, i+1, ... *)
Fixpoint expand (fuel : nat) (i : N) (win : list (list N)) : list (list N) :=
  match fuel with
  | O => []
  | S f =>
    match win with
    | w0 :: rest =>
      let prev := last rest [] in
      let t := if N.land i 7 =? 0 then xor_list (sub_word (rot_word prev)) [rcon (N.shiftr i 3); 0; 0; 0]
               else if N.land i 7 =? 4 then sub_word prev else prev in
      let w := xor_list w0 t in
      w :: expand f (i + 1) (rest ++ [w])
    | [] => []
    end
  end.

Fixpoint chunks4 (k : nat) (l : list N) : list (list N) :=
  match k with O => [] | S k' => firstn 4 l :: chunks4 k' (skipn 4 l) end.

(* 15 round keys of 16 bytes *)
Fixpoint group4 (k : nat) (ws : list (list N)) : list (list N) :=
  match k with O => [] | S k' => concat (firstn 4 ws) :: group4 k' (skipn 4 ws) end.

Definition round_keys (key : list N) : list (list N) :=
  let first8 := chunks4 8 key in
  group4 15 (first8 ++ expand 52 8 first8).

Definition aes_round (s rk : list N) : list N :=
  xor_list (mix_columns (shift_rows (map sbox s))) rk.
Definition aes_final (s rk : list N) : list N :=
  xor_list (shift_rows (map sbox s)) rk.

Definition encrypt_with (rks : list (list N)) (blk : list N) : list N :=
  match rks with
  | rk0 :: rest =>
    let s := xor_list blk rk0 in
    let mid := removelast rest in
    let s := fold_left aes_round mid s in
    aes_final s (last rest [])
  | [] => blk
  end.

(* byte-level interface: 32-byte key, 16-byte block (shorter inputs are zero-padded, longer
   truncated; crypto/aes is only ever called with exact sizes here) *)
Definition fit (k : nat) (l : list byte) : list byte := firstn k (l ++ zeros k).
Definition aes256_keys (key : list byte) : list (list N) := round_keys (map b2n (fit 32 key)).
Definition aes256_block (rks : list (list N)) (blk : list byte) : list byte :=
  map n2b (encrypt_with rks (map b2n (fit 16 blk))).
(* the key schedule is computed once per key (partial application) *)
Definition aes256 (key : list byte) : list byte -> list byte :=
  let rks := aes256_keys key in fun blk => aes256_block rks blk.
