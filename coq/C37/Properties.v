(* C37/Properties.v — property C37: keystore encryption is a faithful, tamper-evident round
   trip.  Only statements, each closed by `exact <lemma>`, with Print Assumptions beneath.
   Every theorem quantifies over the block cipher function [cipher : key -> block -> block]
   (AES-256 in the code), so it holds whatever AES computes; all passwords, all 12-byte nonces,
   all messages / byte strings; no size bound other than gcm.Seal's own limit max_plain. *)
From Common Require Import Bytes Outcome Blake2b.
From C37 Require Import ModelAes Model Proofs.
Local Open Scope N_scope.

(* Encrypt then Decrypt with the same password returns the message; the ciphertext is
   nonce ++ body ++ tag with |body| = |msg|. *)
Theorem C37_roundtrip : forall cipher pw nonce msg,
  length nonce = 12%nat -> N.of_nat (length msg) <= max_plain ->
  exists ct, encrypt cipher pw nonce msg = Ok ct
          /\ length ct = (12 + length msg + 16)%nat
          /\ firstn 12 ct = nonce
          /\ decrypt cipher pw ct = Ok msg.
Proof.
  intros cipher pw nonce msg Hn Hm.
  exists (nonce ++ seal_body (cipher (key_of pw)) nonce msg).
  pose proof (encrypt_ok cipher pw nonce msg Hn Hm) as H.
  repeat split.
  - exact H.
  - exact (encrypt_length cipher _ _ _ _ H).
  - exact (proj1 (proj2 (split_nonce cipher nonce _ Hn))).
  - exact (decrypt_encrypt cipher _ _ _ _ H).
Qed.
Print Assumptions C37_roundtrip.

(* Decrypt never crashes (and the model needs no fuel), on any byte string at all. *)
Theorem C37_total : forall cipher pw data,
  decrypt cipher pw data <> Panic /\ decrypt cipher pw data <> OutOfFuel.
Proof. exact decrypt_total. Qed.
Print Assumptions C37_total.

(* Every input shorter than nonce + tag — in particular every truncation of a stored
   ciphertext to fewer than 28 bytes — is an error. *)
Theorem C37_short_input : forall cipher pw data,
  (length data < 28)%nat -> exists c, decrypt cipher pw data = Err c.
Proof. exact decrypt_short. Qed.
Print Assumptions C37_short_input.

(* Replacing the tag of a stored ciphertext by any other 16 bytes is refused ... *)
Theorem C37_tag_tamper : forall cipher pw nonce msg ct t',
  encrypt cipher pw nonce msg = Ok ct ->
  length t' = 16%nat -> t' <> skipn (length ct - 16) ct ->
  decrypt cipher pw (firstn (length ct - 16) ct ++ t') = Err 1.
Proof. exact decrypt_wrong_tag. Qed.
Print Assumptions C37_tag_tamper.

(* ... in particular flipping any single bit of the tag. *)
Theorem C37_tag_bitflip : forall cipher pw nonce msg ct (i : nat) bit,
  encrypt cipher pw nonce msg = Ok ct -> (i < 16)%nat -> bit < 8 ->
  decrypt cipher pw (flip_bit ct (length ct - 16 + i) bit) = Err 1.
Proof. exact decrypt_tag_bitflip. Qed.
Print Assumptions C37_tag_bitflip.

(* Whatever Decrypt accepts — under any password, for any modified, truncated or extended
   byte string — is byte for byte the Encrypt output for the plaintext it returns (same
   password-derived key, the nonce the input starts with).  Hence a modified ciphertext or a
   wrong password can only be accepted through a collision of the GHASH tag; that this does not
   happen is the cryptographic assumption, outside the theorem. *)
Theorem C37_accept_only_genuine : forall cipher pw data p,
  decrypt cipher pw data = Ok p -> encrypt cipher pw (firstn 12 data) p = Ok data.
Proof. exact decrypt_ok_genuine. Qed.
Print Assumptions C37_accept_only_genuine.

(* Every private key of each supported scheme (as its encoding) comes back from
   DecryptPrivateKey(EncryptPrivateKey(key, pw), pw, scheme). *)
Theorem C37_key_roundtrip : forall cipher s pw nonce k,
  valid_key s k = true -> length nonce = 12%nat ->
  exists ct, encrypt_private_key cipher pw nonce k = Ok ct
          /\ decrypt_private_key cipher pw ct s = Ok k.
Proof.
  intros cipher s pw nonce k Hv Hn.
  pose proof (encrypt_ok cipher pw nonce k Hn (valid_key_short cipher s k Hv)) as H.
  eexists. split; [exact H|]. exact (key_roundtrip cipher s pw nonce k _ Hv H).
Qed.
Print Assumptions C37_key_roundtrip.

(* The pinned tree's Decrypt (no length check before data[:12]) crashes on a short input; it
   agrees with the repaired one on every input of at least 12 bytes. *)
Theorem C37_decrypt_prefix_refuted : forall cipher pw,
  exists data, decrypt_prefix cipher pw data = Panic.
Proof. intros cipher pw. exists []. exact (decrypt_prefix_panics cipher pw). Qed.
Print Assumptions C37_decrypt_prefix_refuted.

Theorem C37_decrypt_prefix_agrees : forall cipher pw data,
  (12 <= length data)%nat -> decrypt_prefix cipher pw data = decrypt cipher pw data.
Proof. exact decrypt_prefix_agrees. Qed.
Print Assumptions C37_decrypt_prefix_agrees.

(* ---- non-vacuity and the instantiation used to run the model ---- *)
(* FIPS-197 C.3: AES-256, key 00..1f, plaintext 00112233..ff *)
Example C37_aes256_fips197 :
  map b2n (aes256 (map n2b (map N.of_nat (seq 0 32)))
                  (map n2b [0;17;34;51;68;85;102;119;136;153;170;187;204;221;238;255]))
  = [142;162;183;202;81;103;69;191;234;252;73;144;75;73;96;137].
Proof. vm_compute. reflexivity. Qed.

(* GCM specification test cases 13 and 14 (AES-256, zero key, zero nonce; empty / one zero block) *)
Example C37_gcm_testcase13 :
  option_map (map b2n) (match seal (aes256 (zeros 32)) (zeros 12) [] with Ok x => Some (skipn 12 x) | _ => None end)
  = Some [83;15;138;251;199;69;54;185;169;99;180;241;196;203;115;139].
Proof. vm_compute. reflexivity. Qed.
Example C37_gcm_testcase14 :
  option_map (map b2n) (match seal (aes256 (zeros 32)) (zeros 12) (zeros 16) with Ok x => Some (skipn 12 x) | _ => None end)
  = Some [206;167;64;61;77;96;107;110;7;78;197;211;186;243;157;24;
          208;209;200;167;153;153;107;240;38;91;152;181;212;138;185;25].
Proof. vm_compute. reflexivity. Qed.

(* a concrete run of the keystore functions: password "noot", message "helloworld" *)
Example C37_nonvacuous :
  let pw := map n2b [110;111;111;116] in
  let msg := map n2b [104;101;108;108;111;119;111;114;108;100] in
  let nonce := map n2b [1;2;3;4;5;6;7;8;9;10;11;12] in
  match encrypt aes256 pw nonce msg with
  | Ok ct => length ct = 38%nat /\ decrypt aes256 pw ct = Ok msg
             /\ decrypt aes256 pw (flip_bit ct 20 3) = Err 1          (* body bit *)
             /\ decrypt aes256 (map n2b [110;111;111;117]) ct = Err 1 (* other password *)
             /\ decrypt aes256 pw (truncate ct 37) = Err 1
  | _ => False
  end.
Proof. vm_compute. repeat split; reflexivity. Qed.
