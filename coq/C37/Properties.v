(* C37/Properties.v — property C37: keystore encryption is a faithful, tamper-evident round
   trip.  Only statements, each closed by `exact <lemma>`, with Print Assumptions beneath.
   Every theorem quantifies over the block cipher function [cipher : key -> block -> block]
   (AES-256 in the code), so it holds whatever AES computes; all passwords, all 12-byte nonces,
   all messages / byte strings; no size bound other than gcm.Seal's own limit max_plain. *)
From Common Require Import Bytes Outcome Blake2b.
From C37 Require Import ModelAes Model Proofs ProofsGhash.
Local Open Scope N_scope.

(* Encrypt then Decrypt with the same password returns the message; the ciphertext is
   nonce ++ body ++ tag with |body| = |msg|. *)
Theorem C37_roundtrip : forall cipher pw nonce msg,
  length nonce = 12%nat -> N.of_nat (length msg) <= max_plain ->
  exists ct, encrypt cipher pw nonce msg = Ok ct
          /\ length ct = (12 + length msg + 16)%nat
          /\ firstn 12 ct = nonce
          /\ decrypt cipher pw ct = Ok msg.
Proof. exact roundtrip_full. Qed.
Print Assumptions C37_roundtrip.

(* Decrypt never crashes (and the model needs no fuel), on any byte string at all. *)
Theorem C37_total : forall cipher pw data,
  decrypt cipher pw data <> Panic /\ decrypt cipher pw data <> OutOfFuel.
Proof. exact decrypt_total. Qed.
Print Assumptions C37_total.

(* Every input shorter than nonce + tag — in particular every truncation of a stored
   ciphertext to fewer than 28 bytes — is an error. *)
Theorem C37_short_input : forall cipher pw data,
  (length data < 28)%nat -> exists c, decrypt cipher pw data = Err c.
Proof. exact decrypt_short. Qed.
Print Assumptions C37_short_input.

(* Replacing the tag of a stored ciphertext by any other 16 bytes is refused ... *)
Theorem C37_tag_tamper : forall cipher pw nonce msg ct t',
  encrypt cipher pw nonce msg = Ok ct ->
  length t' = 16%nat -> t' <> skipn (length ct - 16) ct ->
  decrypt cipher pw (firstn (length ct - 16) ct ++ t') = Err 1.
Proof. exact decrypt_wrong_tag. Qed.
Print Assumptions C37_tag_tamper.

(* ... in particular flipping any single bit of the tag. *)
Theorem C37_tag_bitflip : forall cipher pw nonce msg ct (i : nat) bit,
  encrypt cipher pw nonce msg = Ok ct -> (i < 16)%nat -> bit < 8 ->
  decrypt cipher pw (flip_bit ct (length ct - 16 + i) bit) = Err 1.
Proof. exact decrypt_tag_bitflip. Qed.
Print Assumptions C37_tag_bitflip.

(* Whatever Decrypt accepts — under any password, for any modified, truncated or extended
   byte string — is byte for byte the Encrypt output for the plaintext it returns (same
   password-derived key, the nonce the input starts with).  Hence a modified ciphertext or a
   wrong password can only be accepted through a collision of the GHASH tag; that this does not
   happen is the cryptographic assumption, outside the theorem. *)
Theorem C37_accept_only_genuine : forall cipher pw data p,
  decrypt cipher pw data = Ok p -> encrypt cipher pw (firstn 12 data) p = Ok data.
Proof. exact decrypt_ok_genuine. Qed.
Print Assumptions C37_accept_only_genuine.

(* Every private key of each supported scheme (as its encoding) comes back from
   DecryptPrivateKey(EncryptPrivateKey(key, pw), pw, scheme). *)
Theorem C37_key_roundtrip : forall cipher s pw nonce k,
  valid_key s k = true -> length nonce = 12%nat ->
  exists ct, encrypt_private_key cipher pw nonce k = Ok ct
          /\ decrypt_private_key cipher pw ct s = Ok k.
Proof. exact key_roundtrip_full. Qed.
Print Assumptions C37_key_roundtrip.

(* The exact acceptance condition of Decrypt on inputs of at least nonce + tag bytes: the last
   16 bytes must be the tag (under the password-derived key and the nonce the input starts with)
   of the bytes in between; then the CTR decryption of those is returned.  Every modification of
   a stored ciphertext - bit flips in nonce or body, truncation to 28 bytes or more, appended
   bytes - is therefore accepted exactly when it produces such a tag collision. *)
Theorem C37_decrypt_spec : forall cipher pw data,
  (28 <= length data)%nat -> N.of_nat (length data) <= max_plain + 28 ->
  decrypt cipher pw data =
    let K := cipher (key_of pw) in
    let nonce := firstn 12 data in
    let c := firstn (length data - 28) (skipn 12 data) in
    if bytes_eqb (tag K nonce c) (skipn (length data - 16) data) then Ok (ctr K nonce c) else Err 1.
Proof. exact decrypt_spec. Qed.
Print Assumptions C37_decrypt_spec.

Theorem C37_oversize_input : forall cipher pw data,
  max_plain + 28 < N.of_nat (length data) -> decrypt cipher pw data = Err 1.
Proof. exact decrypt_oversize. Qed.
Print Assumptions C37_oversize_input.

(* Decrypting a stored ciphertext with another password: accepted exactly when the GHASH tag of
   the stored body under the other password's key collides with the stored tag; otherwise the
   error of gcm.Open.  (That such a collision does not occur for AES is the cryptographic
   assumption; it is sampled by the correspondence check, not proved.) *)
Theorem C37_other_password : forall cipher pw pw' nonce msg ct,
  encrypt cipher pw nonce msg = Ok ct ->
  decrypt cipher pw' ct =
    let c := ctr (cipher (key_of pw)) nonce msg in
    if bytes_eqb (tag (cipher (key_of pw')) nonce c) (tag (cipher (key_of pw)) nonce c)
    then Ok (ctr (cipher (key_of pw')) nonce c) else Err 1.
Proof. exact decrypt_other_password. Qed.
Print Assumptions C37_other_password.

(* What "tag collision" means under ONE key (modifications of a stored ciphertext, right
   password).  gf_mul is linear over xor in its first argument, so GHASH is linear in the blocks;
   the mask E(nonce || 1) cancels: two bodies have the same tag iff their GHASH values agree, and
   for bodies of equal length iff GHASH of the blockwise difference (then a zero block) is 0 - the
   error polynomial vanishes at the hash key H = E(0^128).  Consequently a stored ciphertext whose
   body is replaced by any other body of the same length (any pattern of bit flips or byte
   substitutions; tag and nonce kept) is accepted exactly when that GHASH is zero, else refused.
   No field law of GF(2^128) is proved: that a non-zero difference has a non-zero GHASH for all but
   few H remains the cryptographic assumption.  (Under ANOTHER key, C37_other_password, the two
   masks differ and no such reduction exists: there the condition is the equality of the two tags.) *)
Theorem C37_tag_collision_same_key : forall E nonce c c',
  (tag E nonce c = tag E nonce c' <-> ghash (hkey E) (ghash_input c) = ghash (hkey E) (ghash_input c'))
  /\ (length c = length c' ->
      (tag E nonce c = tag E nonce c' <-> ghash (hkey E) (delta_input c c') = 0)).
Proof. intros E nonce c c'. split; [exact (tag_eq_iff E nonce c c') | exact (tag_eq_iff_delta E nonce c c')]. Qed.
Print Assumptions C37_tag_collision_same_key.

Theorem C37_same_length_body : forall cipher pw nonce msg ct c',
  encrypt cipher pw nonce msg = Ok ct -> length c' = length msg ->
  let K := cipher (key_of pw) in
  let c := ctr K nonce msg in
  decrypt cipher pw (nonce ++ c' ++ tag K nonce c) =
    if ghash (hkey K) (delta_input c' c) =? 0 then Ok (ctr K nonce c') else Err 1.
Proof. exact decrypt_same_length_body. Qed.
Print Assumptions C37_same_length_body.

Theorem C37_gf_mul_linear : forall x y h, gf_mul (N.lxor x y) h = N.lxor (gf_mul x h) (gf_mul y h).
Proof. exact gf_mul_linear. Qed.
Print Assumptions C37_gf_mul_linear.

(* DecryptPrivateKey (Decrypt, then helpers.go:DecodePrivateKey of the scheme) never crashes:
   any bytes, any password, any scheme.  Needs fixes/C37-secp256k1-decode-invalid-scalar.patch
   (see C37_key_decode_prefix_refuted). *)
Theorem C37_key_total : forall cipher pw data s,
  decrypt_private_key cipher pw data s <> Panic /\ decrypt_private_key cipher pw data s <> OutOfFuel.
Proof. exact decrypt_private_key_total. Qed.
Print Assumptions C37_key_total.

(* Never a different key: whatever key DecryptPrivateKey returns for whatever input, the input is
   byte for byte the EncryptPrivateKey output for exactly that key, and the key is a key of the
   scheme. *)
Theorem C37_key_accept_only_genuine : forall cipher pw data s k,
  decrypt_private_key cipher pw data s = Ok k ->
  valid_key s k = true /\ encrypt_private_key cipher pw (firstn 12 data) k = Ok data.
Proof. exact decrypt_private_key_genuine. Qed.
Print Assumptions C37_key_accept_only_genuine.

(* A genuine ciphertext, under the right password, of bytes that are not the encoding of a key
   of the scheme (wrong length; secp256k1 scalar 0 or >= n) is an error. *)
Theorem C37_non_key_refused : forall cipher s pw nonce raw ct,
  valid_key s raw = false -> encrypt cipher pw nonce raw = Ok ct ->
  exists c, decrypt_private_key cipher pw ct s = Err c.
Proof. exact non_key_refused. Qed.
Print Assumptions C37_non_key_refused.

(* Before the repair secp256k1.PrivateKey.Decode dereferenced the nil key that go-ethereum's
   ToECDSAUnsafe returns for the scalars 0 and >= n: DecryptPrivateKey crashed on the genuine
   ciphertext of 32 zero bytes (every password, every nonce).  The unchecked decoder crashes
   exactly on 32-byte secp256k1 inputs with such a scalar and agrees with the repaired one
   everywhere else. *)
Theorem C37_key_decode_prefix_refuted : forall cipher pw nonce, length nonce = 12%nat ->
  exists ct, encrypt cipher pw nonce (zeros 32) = Ok ct /\
             decrypt_private_key_unchecked cipher pw ct Secp256k1 = Panic.
Proof. exact decrypt_private_key_unchecked_panics. Qed.
Print Assumptions C37_key_decode_prefix_refuted.

Theorem C37_key_decode_prefix_agrees : forall s b,
  (decode_private_key_prefix s b = Panic <->
     s = Secp256k1 /\ length b = 32%nat /\ secp_scalar_ok (be_val b) = false)
  /\ (decode_private_key_prefix s b <> Panic -> decode_private_key_prefix s b = decode_private_key s b).
Proof. intros s b. split; [exact (decode_prefix_panic_iff s b) | exact (decode_prefix_agrees s b)]. Qed.
Print Assumptions C37_key_decode_prefix_agrees.

(* Decrypt is a function of (stored bytes, password) only and leaves the stored bytes alone: in
   any sequence of attempts on the same in-memory ciphertext every attempt answers what a first
   attempt would, the buffer is unchanged, and the right password still returns the message after
   any number of earlier (failed or successful) attempts.  [DstFresh] is the code's
   gcm.Open(nil, ...); the in-place alternative violates the statement (Example below). *)
Theorem C37_repeated_attempts : forall cipher buf pws,
  attempts cipher DstFresh buf pws = (map (fun pw => decrypt cipher pw buf) pws, buf).
Proof. exact attempts_fresh. Qed.
Print Assumptions C37_repeated_attempts.

Theorem C37_right_password_after_attempts : forall cipher pw nonce msg ct pws,
  encrypt cipher pw nonce msg = Ok ct ->
  exists rs, attempts cipher DstFresh ct (pws ++ [pw]) = (rs ++ [Ok msg], ct) /\ length rs = length pws.
Proof. exact attempts_then_right. Qed.
Print Assumptions C37_right_password_after_attempts.

(* The pinned tree's Decrypt (no length check before data[:12]) crashes on a short input; it
   agrees with the repaired one on every input of at least 12 bytes. *)
Theorem C37_decrypt_prefix_refuted : forall cipher pw,
  exists data, decrypt_prefix cipher pw data = Panic.
Proof. intros cipher pw. exists []. exact (decrypt_prefix_panics cipher pw). Qed.
Print Assumptions C37_decrypt_prefix_refuted.

Theorem C37_decrypt_prefix_agrees : forall cipher pw data,
  (12 <= length data)%nat -> decrypt_prefix cipher pw data = decrypt cipher pw data.
Proof. exact decrypt_prefix_agrees. Qed.
Print Assumptions C37_decrypt_prefix_agrees.

(* ---- non-vacuity and the instantiation used to run the model ---- *)
(* FIPS-197 C.3: AES-256, key 00..1f, plaintext 00112233..ff *)
Example C37_aes256_fips197 :
  map b2n (aes256 (map n2b (map N.of_nat (seq 0 32)))
                  (map n2b [0;17;34;51;68;85;102;119;136;153;170;187;204;221;238;255]))
  = [142;162;183;202;81;103;69;191;234;252;73;144;75;73;96;137].
Proof. vm_compute. reflexivity. Qed.

(* GCM specification test cases 13 and 14 (AES-256, zero key, zero nonce; empty / one zero block) *)
Example C37_gcm_testcase13 :
  option_map (map b2n) (match seal (aes256 (zeros 32)) (zeros 12) [] with Ok x => Some (skipn 12 x) | _ => None end)
  = Some [83;15;138;251;199;69;54;185;169;99;180;241;196;203;115;139].
Proof. vm_compute. reflexivity. Qed.
Example C37_gcm_testcase14 :
  option_map (map b2n) (match seal (aes256 (zeros 32)) (zeros 12) (zeros 16) with Ok x => Some (skipn 12 x) | _ => None end)
  = Some [206;167;64;61;77;96;107;110;7;78;197;211;186;243;157;24;
          208;209;200;167;153;153;107;240;38;91;152;181;212;138;185;25].
Proof. vm_compute. reflexivity. Qed.

(* a concrete run of the keystore functions: password "noot", message "helloworld" *)
Example C37_nonvacuous :
  let pw := map n2b [110;111;111;116] in
  let msg := map n2b [104;101;108;108;111;119;111;114;108;100] in
  let nonce := map n2b [1;2;3;4;5;6;7;8;9;10;11;12] in
  match encrypt aes256 pw nonce msg with
  | Ok ct => length ct = 38%nat /\ decrypt aes256 pw ct = Ok msg
             /\ decrypt aes256 pw (flip_bit ct 20 3) = Err 1          (* body bit *)
             /\ decrypt aes256 (map n2b [110;111;111;117]) ct = Err 1 (* other password *)
             /\ decrypt aes256 pw (truncate ct 37) = Err 1
  | _ => False
  end.
Proof. vm_compute. repeat split; reflexivity. Qed.

(* the key lengths of the three schemes are the Go constants (regenerated into Gen.v on every
   run); keys of every scheme exist; the secp256k1 scalars 1 and n-1 are keys, 0, n and 2^256-1
   are not: the repaired decoder answers an error, the unchecked one crashed *)
Example C37_key_lengths : (ed_len, sr_len, secp_len) = (64, 32, 32)%nat.
Proof. reflexivity. Qed.
Example C37_valid_keys_exist :
  valid_key Ed25519 (zeros 64) = true /\ valid_key Sr25519 (zeros 32) = true /\
  valid_key Secp256k1 (be_bytes 32 1) = true /\ valid_key Secp256k1 (be_bytes 32 (secp_n - 1)) = true /\
  valid_key Secp256k1 (zeros 32) = false /\ valid_key Secp256k1 (be_bytes 32 secp_n) = false /\
  valid_key Secp256k1 (be_bytes 32 (2 ^ 256 - 1)) = false /\ valid_key Ed25519 (zeros 32) = false.
Proof. vm_compute. repeat split; reflexivity. Qed.
Example C37_invalid_scalar_outcomes :
  decode_private_key Secp256k1 (be_bytes 32 secp_n) = Err 4 /\
  decode_private_key_prefix Secp256k1 (be_bytes 32 secp_n) = Panic /\
  decode_private_key Secp256k1 (zeros 32) = Err 4 /\
  decode_private_key_prefix Secp256k1 (zeros 32) = Panic.
Proof. vm_compute. repeat split; reflexivity. Qed.
(* secp_n is the order of the secp256k1 group (SEC 2): 2^256 - 432420386565659656852420866394968145599 *)
Example C37_secp_n : secp_n = 2 ^ 256 - 432420386565659656852420866394968145599.
Proof. reflexivity. Qed.

(* the in-place alternative (gcm.Open(ciphertext[:0], ...), seeded change C37-m2) destroys the
   stored ciphertext: a second attempt with the right password fails, after a right and after
   a wrong first attempt *)
Example C37_in_place_loses_the_key :
  let pw := map n2b [110;111;111;116] in
  let msg := map n2b [104;101;108;108;111;119;111;114;108;100] in
  let nonce := map n2b [1;2;3;4;5;6;7;8;9;10;11;12] in
  match encrypt aes256 pw nonce msg with
  | Ok ct => fst (attempts aes256 DstInPlace ct [pw; pw]) = [Ok msg; Err 1]
             /\ fst (attempts aes256 DstInPlace ct [map n2b [120]; pw]) = [Err 1; Err 1]
             /\ snd (attempts aes256 DstInPlace ct [pw]) <> ct
             /\ attempts aes256 DstFresh ct [map n2b [120]; pw; pw] = ([Err 1; Ok msg; Ok msg], ct)
  | _ => False
  end.
Proof. vm_compute. repeat split; try reflexivity. discriminate. Qed.

(* one flipped body bit of the "helloworld" ciphertext: the GHASH of the difference is not zero,
   the modified ciphertext is refused; the unmodified body gives GHASH 0 and is accepted *)
Example C37_same_length_body_nonvacuous :
  let pw := map n2b [110;111;111;116] in
  let msg := map n2b [104;101;108;108;111;119;111;114;108;100] in
  let nonce := map n2b [1;2;3;4;5;6;7;8;9;10;11;12] in
  let K := aes256 (key_of pw) in
  let c := ctr K nonce msg in
  let c' := flip_bit c 3 5 in
  (ghash (hkey K) (delta_input c' c) =? 0) = false /\
  decrypt aes256 pw (nonce ++ c' ++ tag K nonce c) = Err 1 /\
  (ghash (hkey K) (delta_input c c) =? 0) = true /\
  decrypt aes256 pw (nonce ++ c ++ tag K nonce c) = Ok msg.
Proof. vm_compute. repeat split; reflexivity. Qed.

(* ---- the field laws of GF(2^128) for the multiplication GHASH uses (ProofsField.v).  A block is
   the big-endian number of its 16 bytes (bit 127 = coefficient of x^0); xor is the addition.
   All laws are proved for all operands (no evaluation over a domain). ---- *)
From C37 Require Import ProofsField.

(* linear over xor in the SECOND argument too (with C37_gf_mul_linear: distributivity on both sides) *)
Theorem C37_gf_mul_linear_r : forall x a b, gf_mul x (N.lxor a b) = N.lxor (gf_mul x a) (gf_mul x b).
Proof. exact gf_mul_linear_r. Qed.
Print Assumptions C37_gf_mul_linear_r.

(* commutative on blocks *)
Theorem C37_gf_mul_comm : forall x y, x < 2 ^ 128 -> y < 2 ^ 128 -> gf_mul x y = gf_mul y x.
Proof. exact gf_mul_comm. Qed.
Print Assumptions C37_gf_mul_comm.

(* the block 80 00 .. 00 (the polynomial 1 in GCM's reflected bit order) is the unit: on the left
   for every y, on the right for every block (in general the right product keeps the low 128 bits) *)
Theorem C37_gf_mul_one :
  be_val (n2b 128 :: zeros 15) = 2 ^ 127 /\
  (forall y, gf_mul (2 ^ 127) y = y) /\
  (forall x, x < 2 ^ 128 -> gf_mul x (2 ^ 127) = x) /\
  (forall x, gf_mul x (2 ^ 127) = x mod 2 ^ 128).
Proof. exact (conj gf_one_block (conj gf_mul_one_l (conj gf_mul_one_r gf_mul_one_r_mod))). Qed.
Print Assumptions C37_gf_mul_one.

(* associative (x is unrestricted: only its low 128 bits are read) *)
Theorem C37_gf_mul_assoc : forall x y z, y < 2 ^ 128 -> z < 2 ^ 128 ->
  gf_mul (gf_mul x y) z = gf_mul x (gf_mul y z).
Proof. exact gf_mul_assoc. Qed.
Print Assumptions C37_gf_mul_assoc.

(* multiplications by constants commute with each other, for all operands (the lemma behind
   commutativity and associativity), and zero annihilates *)
Theorem C37_gf_mul_exchange : forall x a y, gf_mul x (gf_mul a y) = gf_mul a (gf_mul x y).
Proof. exact gf_mul_exchange. Qed.
Print Assumptions C37_gf_mul_exchange.

Theorem C37_gf_mul_zero : (forall y, gf_mul 0 y = 0) /\ (forall x, gf_mul x 0 = 0).
Proof. exact (conj gf_mul_zero_l gf_mul_zero_r). Qed.
Print Assumptions C37_gf_mul_zero.

(* non-vacuity: two concrete blocks, products differ from the operands, laws visible *)
Example C37_gf_mul_field_nonvacuous :
  let a := 1339673755198158349044581307228491520 in
  let b := 226854911280625642308916404954512140970 in
  a < 2 ^ 128 /\ b < 2 ^ 128 /\ gf_mul a b = gf_mul b a /\ gf_mul a b <> 0 /\ gf_mul a b <> a /\
  gf_mul (gf_mul a b) b = gf_mul a (gf_mul b b) /\ gf_mul a (2 ^ 127) = a.
Proof. vm_compute. repeat split; try reflexivity; discriminate. Qed.
