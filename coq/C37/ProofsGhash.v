(* C37/ProofsGhash.v — what "a collision of GHASH tags" means for a modification of a stored
   ciphertext under the SAME key: multiplication in GF(2^128) (gf_mul, NIST SP 800-38D alg. 1) is
   linear over xor in its first argument, hence GHASH is linear in the blocks, hence two bodies of
   equal length have the same tag exactly when GHASH of their blockwise difference (with a zero
   length block) is zero — "the error polynomial vanishes at the hash key H".  No field law of
   GF(2^128) is used or proved (that a non-zero polynomial vanishes at few H is not shown). *)
From Coq Require Import ZifyN ZifyNat ZifyBool.
From Common Require Import Bytes Outcome Blake2b.
From C37 Require Import Model Proofs.
Local Open Scope N_scope.

(* ---- xor bookkeeping ---- *)
Ltac xor_ring :=
  let k := fresh "k" in
  apply N.bits_inj; intro k; rewrite ?N.lxor_spec;
  repeat match goal with |- context [N.testbit ?a k] => destruct (N.testbit a k) end; reflexivity.

Lemma lxor_cancel a b : N.lxor a b = 0 <-> a = b.
Proof. split; [apply N.lxor_eq | intros ->; apply N.lxor_nilpotent]. Qed.

(* ---- linearity of the multiplication in its first argument ---- *)
Lemma gf_mul_loop_linear i : forall x y z1 z2 v,
  gf_mul_loop i (N.lxor x y) (N.lxor z1 z2) v = N.lxor (gf_mul_loop i x z1 v) (gf_mul_loop i y z2 v).
Proof.
  induction i as [|i IH]; intros x y z1 z2 v; [reflexivity|].
  cbn [gf_mul_loop]. rewrite N.lxor_spec.
  destruct (N.testbit x (N.of_nat i)), (N.testbit y (N.of_nat i)); cbn [xorb]; rewrite <- IH; f_equal; xor_ring.
Qed.

Lemma gf_mul_linear x y h : gf_mul (N.lxor x y) h = N.lxor (gf_mul x h) (gf_mul y h).
Proof. unfold gf_mul. rewrite <- gf_mul_loop_linear. reflexivity. Qed.

(* ---- everything stays below 2^128 ---- *)
Definition B128 : N := 340282366920938463463374607431768211456.
Lemma lxor_lt a b : a < B128 -> b < B128 -> N.lxor a b < B128.
Proof.
  intros Ha Hb. replace B128 with (2 ^ 128) in * by reflexivity.
  destruct (N.eq_dec (N.lxor a b) 0) as [->|Hn]; [reflexivity|].
  destruct (N.eq_dec a 0) as [->|Ha0]; [now rewrite N.lxor_0_l|].
  destruct (N.eq_dec b 0) as [->|Hb0]; [now rewrite N.lxor_0_r|].
  apply N.log2_lt_pow2; [lia|].
  apply N.log2_lt_pow2 in Ha; [|lia]. apply N.log2_lt_pow2 in Hb; [|lia].
  pose proof (N.log2_lxor a b). lia.
Qed.

Lemma gf_mul_loop_lt i : forall x z v, z < B128 -> v < B128 -> gf_mul_loop i x z v < B128.
Proof.
  induction i as [|i IH]; intros x z v Hz Hv; [exact Hz|].
  cbn [gf_mul_loop]. apply IH.
  - destruct (N.testbit x (N.of_nat i)); [now apply lxor_lt | exact Hz].
  - assert (Hs : N.shiftr v 1 < B128).
    { rewrite N.shiftr_div_pow2. change (2 ^ 1) with 2. pose proof (N.div_le_upper_bound v 2 v). unfold B128 in *. 
      assert (v / 2 <= v) by (apply N.div_le_upper_bound; lia). lia. }
    destruct (N.testbit v 0); [apply lxor_lt; [exact Hs | reflexivity] | exact Hs].
Qed.

Lemma gf_mul_lt x h : h < B128 -> gf_mul x h < B128.
Proof. intro H. unfold gf_mul. apply gf_mul_loop_lt; [reflexivity | exact H]. Qed.

Global Opaque gf_mul.

(* ---- linearity of GHASH in the blocks ---- *)
Definition gstep (h y x : N) : N := gf_mul (N.lxor y x) h.
Definition gh (h y : N) (xs : list N) : N := fold_left (gstep h) xs y.
Lemma gh_nil h y : gh h y [] = y. Proof. reflexivity. Qed.
Lemma gh_cons h y x xs : gh h y (x :: xs) = gh h (gf_mul (N.lxor y x) h) xs. Proof. reflexivity. Qed.
Lemma ghash_gh h xs : ghash h xs = gh h 0 xs. Proof. reflexivity. Qed.

Fixpoint zipx (xs ys : list N) : list N :=
  match xs, ys with
  | x :: xs', y :: ys' => N.lxor x y :: zipx xs' ys'
  | _, _ => []
  end.

Lemma gh_linear h : forall xs ys y1 y2, length xs = length ys ->
  gh h (N.lxor y1 y2) (zipx xs ys) = N.lxor (gh h y1 xs) (gh h y2 ys).
Proof.
  induction xs as [|x xs IH]; intros [|y ys] y1 y2 L; try discriminate; [reflexivity|].
  cbn [zipx]. rewrite !gh_cons.
  replace (N.lxor (N.lxor y1 y2) (N.lxor x y)) with (N.lxor (N.lxor y1 x) (N.lxor y2 y)) by xor_ring.
  rewrite gf_mul_linear. apply IH. now injection L.
Qed.

Lemma zipx_app xs ys a b : length xs = length ys ->
  zipx (xs ++ [a]) (ys ++ [b]) = zipx xs ys ++ [N.lxor a b].
Proof.
  revert ys; induction xs as [|x xs IH]; intros [|y ys] L; try discriminate; [reflexivity|].
  cbn [app zipx]. f_equal. apply IH. now injection L.
Qed.

(* two block lists of equal length have the same GHASH iff GHASH of their difference is zero *)
Lemma ghash_eq_iff h xs ys : length xs = length ys ->
  (ghash h xs = ghash h ys <-> ghash h (zipx xs ys) = 0).
Proof.
  intro L. rewrite !ghash_gh.
  replace 0 with (N.lxor 0 0) at 3 by reflexivity. rewrite (gh_linear h xs ys 0 0 L).
  symmetry. apply lxor_cancel.
Qed.

Lemma gh_lt h xs : forall y, h < B128 -> y < B128 -> gh h y xs < B128.
Proof.
  induction xs as [|x xs IH]; intros y Hh Hy; [exact Hy|].
  rewrite gh_cons. apply (IH _ Hh). now apply gf_mul_lt.
Qed.

Lemma ghash_lt h xs : h < B128 -> ghash h xs < B128.
Proof. intro H. rewrite ghash_gh. apply gh_lt; [exact H | reflexivity]. Qed.

(* ---- blocks of equally long byte strings ---- *)
Lemma blocks128_length f : forall a b : list byte, length a = length b ->
  length (blocks128 f a) = length (blocks128 f b).
Proof.
  induction f as [|f IH]; intros a b L; [reflexivity|].
  cbn [blocks128]. destruct a as [|x a], b as [|y b]; try discriminate; [reflexivity|].
  cbn [length]. f_equal. apply IH. rewrite !skipn_length. cbn [length] in *. lia.
Qed.

Section GCM.
  Variable E : list byte -> list byte.

  Definition hkey : N := be_val (Eb E (zeros 16)).
  Lemma hkey_lt : hkey < B128.
  Proof.
    unfold hkey. pose proof (be_val_lt (Eb E (zeros 16))) as H. unfold Eb in H at 2. rewrite fit16_length in H.
    replace (256 ^ N.of_nat 16) with B128 in H by reflexivity. exact H.
  Qed.

  (* the blocks GHASH runs over for a ciphertext body: its 16-byte blocks, then the lengths block *)
  Definition ghash_input (c : list byte) : list N := blocks128 (S (length c / 16)) c ++ [len_block c].

  (* same key, same nonce: the tags of two bodies agree iff their GHASH values agree (the mask
     E(nonce || 1) cancels) *)
  Lemma tag_eq_iff nonce c c' :
    tag E nonce c = tag E nonce c' <-> ghash hkey (ghash_input c) = ghash hkey (ghash_input c').
  Proof.
    unfold tag. fold hkey. fold (ghash_input c). fold (ghash_input c').
    set (m := Eb E (ctr_block nonce 1)).
    split.
    - intro H. apply (f_equal (fun t => xor_bytes t m)) in H. rewrite !xor_bytes_invol in H.
      apply (f_equal be_val) in H.
      rewrite !be_val_be_bytes_small in H
        by (replace (256 ^ N.of_nat 16) with B128 by reflexivity; apply ghash_lt, hkey_lt).
      exact H.
    - intros ->. reflexivity.
  Qed.

  (* ... and, for bodies of equal length, iff GHASH of the blockwise difference followed by a
     zero block is zero *)
  Definition delta_input (c c' : list byte) : list N :=
    zipx (blocks128 (S (length c / 16)) c) (blocks128 (S (length c' / 16)) c') ++ [0].

  Lemma tag_eq_iff_delta nonce c c' : length c = length c' ->
    (tag E nonce c = tag E nonce c' <-> ghash hkey (delta_input c c') = 0).
  Proof.
    intro L. rewrite tag_eq_iff. unfold ghash_input, delta_input, len_block. rewrite <- L.
    assert (LB : length (blocks128 (S (length c / 16)) c) = length (blocks128 (S (length c / 16)) c'))
      by (apply blocks128_length; exact L).
    rewrite ghash_eq_iff by (rewrite !app_length; cbn [length]; lia).
    rewrite zipx_app by exact LB. rewrite N.lxor_nilpotent. reflexivity.
  Qed.
End GCM.

(* ---- keystore level: a stored ciphertext whose body is replaced by any other body of the same
   length (every bit-flip pattern, every byte substitution) ---- *)
Section Keystore.
  Variable cipher : list byte -> list byte -> list byte.

  Lemma decrypt_body_tag pw nonce c' t :
    length nonce = 12%nat -> length t = 16%nat -> N.of_nat (length c') <= max_plain ->
    decrypt cipher pw (nonce ++ c' ++ t) =
      if bytes_eqb (tag (cipher (key_of pw)) nonce c') t then Ok (ctr (cipher (key_of pw)) nonce c') else Err 1.
  Proof.
    intros Hn Ht Hc. unfold decrypt, decrypt_k.
    destruct (split_nonce cipher nonce (c' ++ t) Hn) as (-> & -> & ->).
    unfold open. rewrite Hn. cbn [Nat.eqb negb].
    destruct (Nat.ltb_spec (length (c' ++ t)) 16) as [Hl|_]; [rewrite app_length in Hl; lia|].
    destruct (N.ltb_spec (max_plain + 16) (N.of_nat (length (c' ++ t)))) as [Hl|_]; [rewrite app_length in Hl; lia|].
    destruct (split_tail c' t Ht) as [-> ->]. reflexivity.
  Qed.

  Lemma decrypt_same_length_body pw nonce msg ct c' :
    encrypt cipher pw nonce msg = Ok ct -> length c' = length msg ->
    let K := cipher (key_of pw) in
    let c := ctr K nonce msg in
    decrypt cipher pw (nonce ++ c' ++ tag K nonce c) =
      if ghash (hkey K) (delta_input c' c) =? 0 then Ok (ctr K nonce c') else Err 1.
  Proof.
    intros H L. cbv zeta. apply encrypt_inv in H as (Hn & Hm & _).
    set (K := cipher (key_of pw)). set (c := ctr K nonce msg).
    rewrite (decrypt_body_tag pw nonce c' (tag K nonce c) Hn (tag_length K nonce c)) by lia. fold K.
    assert (Lc : length c' = length c) by (unfold c; rewrite ctr_length; exact L).
    pose proof (tag_eq_iff_delta K nonce c' c Lc) as I.
    destruct (bytes_eqb_spec (tag K nonce c') (tag K nonce c)) as [Heq|Hne];
      destruct (N.eqb_spec (ghash (hkey K) (delta_input c' c)) 0) as [Hz|Hnz]; try reflexivity.
    - exfalso. apply Hnz. now apply I.
    - exfalso. apply Hne. now apply I.
  Qed.
End Keystore.
