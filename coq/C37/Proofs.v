(* C37/Proofs.v — lemmas about the GCM / keystore model.  Everything here holds for an
   arbitrary block function (Section variable), i.e. it is about the mode of operation and the
   slicing / length checks of encrypt.go, not about AES. *)
From Coq Require Import ZifyN ZifyNat ZifyBool.
From Common Require Import Bytes Outcome Blake2b.
From C37 Require Import Model.
Local Open Scope N_scope.

(* ---- byte xor ---- *)
Lemma land_lxor_distr_l a b c : N.land (N.lxor a b) c = N.lxor (N.land a c) (N.land b c).
Proof.
  apply N.bits_inj. intro i. rewrite N.land_spec, !N.lxor_spec, !N.land_spec.
  destruct (N.testbit a i), (N.testbit b i), (N.testbit c i); reflexivity.
Qed.

Lemma b2n_bxor a b : b2n (bxor a b) = N.lxor (b2n a) (b2n b).
Proof.
  unfold bxor. rewrite b2n_n2b, <- land255_mod, land_lxor_distr_l, !land255_mod.
  rewrite !N.mod_small by apply b2n_lt. reflexivity.
Qed.

Lemma bxor_invol a b : bxor (bxor a b) b = a.
Proof.
  apply b2n_inj. rewrite !b2n_bxor, N.lxor_assoc, N.lxor_nilpotent, N.lxor_0_r. reflexivity.
Qed.

Lemma xor_bytes_length a b : length (xor_bytes a b) = length a.
Proof.
  revert b; induction a as [|x a IH]; intros [|y b]; cbn; try reflexivity. now rewrite IH.
Qed.

Lemma xor_bytes_invol a b : xor_bytes (xor_bytes a b) b = a.
Proof.
  revert b; induction a as [|x a IH]; intros [|y b]; cbn; try reflexivity.
  now rewrite bxor_invol, IH.
Qed.

Lemma fit16_length l : length (fit16 l) = 16%nat.
Proof.
  unfold fit16. rewrite firstn_length, app_length. unfold zeros. rewrite repeat_length. lia.
Qed.

Lemma bytes_eqb_refl a : bytes_eqb a a = true.
Proof. destruct (bytes_eqb_spec a a); congruence. Qed.

Lemma bytes_eqb_neq a b : a <> b -> bytes_eqb a b = false.
Proof. destruct (bytes_eqb_spec a b); congruence. Qed.

Lemma skipn_skipn_ {A} (x y : nat) (l : list A) : skipn x (skipn y l) = skipn (x + y) l.
Proof.
  revert l. induction y as [|y IH]; intro l.
  - now rewrite Nat.add_0_r.
  - rewrite Nat.add_succ_r. destruct l as [|a l]; [now rewrite !skipn_nil|]. cbn [skipn]. apply IH.
Qed.

Lemma split_tail (c t : list byte) :
  length t = 16%nat ->
  firstn (length (c ++ t) - 16) (c ++ t) = c /\ skipn (length (c ++ t) - 16) (c ++ t) = t.
Proof.
  intro Ht. rewrite app_length, Ht.
  replace (length c + 16 - 16)%nat with (length c + 0)%nat by lia.
  rewrite firstn_app_2, skipn_app. cbn [firstn].
  rewrite skipn_all2 by lia. replace (length c + 0 - length c)%nat with 0%nat by lia.
  cbn [skipn]. rewrite app_nil_r. auto.
Qed.


Section GCM.
  Variable E : list byte -> list byte.

  Lemma ctr_length nonce d : length (ctr E nonce d) = length d.
  Proof. unfold ctr. apply xor_bytes_length. Qed.

  (* CTR mode is an involution: the key stream depends on the nonce and the length only *)
  Lemma ctr_invol nonce d : ctr E nonce (ctr E nonce d) = d.
  Proof.
    unfold ctr at 1. rewrite ctr_length. unfold ctr. apply xor_bytes_invol.
  Qed.

  Lemma tag_length nonce c : length (tag E nonce c) = 16%nat.
  Proof. unfold tag. rewrite xor_bytes_length. apply be_bytes_length. Qed.

  Lemma seal_body_length nonce p : length (seal_body E nonce p) = (length p + 16)%nat.
  Proof. unfold seal_body. rewrite app_length, ctr_length, tag_length. reflexivity. Qed.

  Lemma open_seal_body nonce p :
    length nonce = 12%nat -> N.of_nat (length p) <= max_plain ->
    open E nonce (seal_body E nonce p) = Ok p.
  Proof.
    intros Hn Hp. unfold open.
    rewrite Hn. cbn [Nat.eqb negb].
    pose proof (seal_body_length nonce p) as HL.
    destruct (Nat.ltb_spec (length (seal_body E nonce p)) 16) as [H|_]; [lia|].
    destruct (N.ltb_spec (max_plain + 16) (N.of_nat (length (seal_body E nonce p)))) as [H|_]; [lia|].
    unfold seal_body in *.
    destruct (split_tail (ctr E nonce p) (tag E nonce (ctr E nonce p)) (tag_length _ _)) as [-> ->].
    rewrite bytes_eqb_refl, ctr_invol. reflexivity.
  Qed.

  (* whatever Open accepts is the body of a Seal of the returned plaintext *)
  Lemma open_ok_genuine nonce data p :
    open E nonce data = Ok p ->
    length nonce = 12%nat /\ N.of_nat (length p) <= max_plain /\ seal_body E nonce p = data.
  Proof.
    unfold open.
    destruct (Nat.eqb_spec (length nonce) 12) as [Hn|]; cbn [negb]; [|discriminate].
    destruct (Nat.ltb_spec (length data) 16) as [|H16]; [discriminate|].
    destruct (N.ltb_spec (max_plain + 16) (N.of_nat (length data))) as [|Hmax]; [discriminate|].
    set (n := (length data - 16)%nat).
    destruct (bytes_eqb_spec (tag E nonce (firstn n data)) (skipn n data)) as [Ht|]; [|discriminate].
    intro H; injection H as <-.
    split; [assumption|]. split.
    - rewrite ctr_length, firstn_length. subst n. lia.
    - unfold seal_body. rewrite ctr_invol, Ht. apply firstn_skipn.
  Qed.

  Lemma open_never_panics nonce data :
    length nonce = 12%nat -> open E nonce data <> Panic /\ open E nonce data <> OutOfFuel.
  Proof.
    intro Hn. unfold open. rewrite Hn. cbn [Nat.eqb negb].
    destruct (length data <? 16)%nat; [split; discriminate|].
    destruct (max_plain + 16 <? N.of_nat (length data)); [split; discriminate|].
    destruct (bytes_eqb _ _); split; discriminate.
  Qed.

  Lemma open_short nonce data :
    length nonce = 12%nat -> (length data < 16)%nat -> open E nonce data = Err 1.
  Proof.
    intros Hn H. unfold open. rewrite Hn. cbn [Nat.eqb negb].
    destruct (Nat.ltb_spec (length data) 16); [reflexivity | lia].
  Qed.

  (* same nonce and ciphertext body, any other 16-byte tag: refused *)
  Lemma open_wrong_tag nonce c t' :
    length nonce = 12%nat -> length t' = 16%nat -> t' <> tag E nonce c ->
    open E nonce (c ++ t') = Err 1.
  Proof.
    intros Hn Ht Hne. unfold open. rewrite Hn. cbn [Nat.eqb negb].
    destruct (Nat.ltb_spec (length (c ++ t')) 16) as [|_]; [reflexivity|].
    destruct (max_plain + 16 <? N.of_nat (length (c ++ t'))); [reflexivity|].
    destruct (split_tail c t' Ht) as [-> ->].
    rewrite bytes_eqb_neq by congruence. reflexivity.
  Qed.
End GCM.

(* ---- keystore level ---- *)
Section Keystore.
  Variable cipher : list byte -> list byte -> list byte.

  Lemma encrypt_ok pw nonce msg :
    length nonce = 12%nat -> N.of_nat (length msg) <= max_plain ->
    encrypt cipher pw nonce msg = Ok (nonce ++ seal_body (cipher (key_of pw)) nonce msg).
  Proof.
    intros Hn Hm. unfold encrypt, encrypt_k, seal. rewrite Hn. cbn [Nat.eqb negb].
    destruct (N.ltb_spec max_plain (N.of_nat (length msg))); [lia | reflexivity].
  Qed.

  Lemma encrypt_inv pw nonce msg ct :
    encrypt cipher pw nonce msg = Ok ct ->
    length nonce = 12%nat /\ N.of_nat (length msg) <= max_plain /\
    ct = nonce ++ seal_body (cipher (key_of pw)) nonce msg.
  Proof.
    unfold encrypt, encrypt_k, seal.
    destruct (Nat.eqb_spec (length nonce) 12) as [Hn|]; cbn [negb]; [|discriminate].
    destruct (N.ltb_spec max_plain (N.of_nat (length msg))) as [|Hm]; [discriminate|].
    intro H; injection H as <-. auto.
  Qed.

  Lemma split_nonce (nonce body : list byte) :
    length nonce = 12%nat ->
    (length (nonce ++ body) <? 12)%nat = false /\
    firstn 12 (nonce ++ body) = nonce /\ skipn 12 (nonce ++ body) = body.
  Proof.
    intro Hn. split; [|split].
    - rewrite app_length. destruct (Nat.ltb_spec (length nonce + length body) 12); [lia | reflexivity].
    - rewrite <- Hn, <- (Nat.add_0_r (length nonce)), firstn_app_2. cbn [firstn]. apply app_nil_r.
    - rewrite <- Hn, skipn_app, skipn_all2, Nat.sub_diag by lia. reflexivity.
  Qed.

  Lemma decrypt_encrypt pw nonce msg ct :
    encrypt cipher pw nonce msg = Ok ct -> decrypt cipher pw ct = Ok msg.
  Proof.
    intro H. apply encrypt_inv in H as (Hn & Hm & ->).
    unfold decrypt, decrypt_k. destruct (split_nonce nonce (seal_body (cipher (key_of pw)) nonce msg) Hn) as (-> & -> & ->).
    now apply open_seal_body.
  Qed.

  Lemma encrypt_length pw nonce msg ct :
    encrypt cipher pw nonce msg = Ok ct -> length ct = (12 + length msg + 16)%nat.
  Proof.
    intro H. apply encrypt_inv in H as (Hn & Hm & ->).
    rewrite app_length, seal_body_length. lia.
  Qed.

  Lemma firstn12_length (data : list byte) : (length data <? 12)%nat = false -> length (firstn 12 data) = 12%nat.
  Proof. intro H. rewrite firstn_length. destruct (Nat.ltb_spec (length data) 12); [discriminate | lia]. Qed.

  Lemma decrypt_total pw data :
    decrypt cipher pw data <> Panic /\ decrypt cipher pw data <> OutOfFuel.
  Proof.
    unfold decrypt, decrypt_k. destruct (length data <? 12)%nat eqn:H; [split; discriminate|].
    apply open_never_panics. now apply firstn12_length.
  Qed.

  Lemma decrypt_short pw data :
    (length data < 28)%nat -> exists c, decrypt cipher pw data = Err c.
  Proof.
    intro H. unfold decrypt, decrypt_k. destruct (length data <? 12)%nat eqn:H12; [eauto|].
    exists 1%nat. apply open_short; [now apply firstn12_length|].
    rewrite skipn_length. lia.
  Qed.

  Lemma decrypt_ok_genuine pw data p :
    decrypt cipher pw data = Ok p -> encrypt cipher pw (firstn 12 data) p = Ok data.
  Proof.
    unfold decrypt, decrypt_k. destruct (length data <? 12)%nat eqn:H12; [discriminate|].
    intro H. apply open_ok_genuine in H as (Hn & Hp & Hs).
    rewrite (encrypt_ok _ _ _ Hn Hp), Hs, firstn_skipn. reflexivity.
  Qed.

  Lemma decrypt_wrong_tag pw nonce msg ct t' :
    encrypt cipher pw nonce msg = Ok ct ->
    length t' = 16%nat -> t' <> skipn (length ct - 16) ct ->
    decrypt cipher pw (firstn (length ct - 16) ct ++ t') = Err 1.
  Proof.
    intros H Ht Hne. apply encrypt_inv in H as (Hn & Hm & ->).
    set (K := cipher (key_of pw)) in *.
    unfold seal_body in *. set (c := ctr K nonce msg) in *.
    assert (E1 : (nonce ++ c ++ tag K nonce c) = ((nonce ++ c) ++ tag K nonce c)) by now rewrite app_assoc.
    rewrite E1 in *.
    destruct (split_tail (nonce ++ c) (tag K nonce c) (tag_length _ _ _)) as [F S].
    rewrite F. rewrite S in Hne. rewrite <- app_assoc.
    unfold decrypt, decrypt_k. destruct (split_nonce nonce (c ++ t') Hn) as (-> & -> & ->).
    apply open_wrong_tag; auto.
  Qed.

  (* ---- bit flips ---- *)
  Lemma flip_changes x bit : n2b (N.lxor (b2n x) (N.shiftl 1 bit)) <> x \/ 8 <= bit.
  Proof.
    destruct (N.ltb_spec bit 8) as [Hb|]; [left | now right].
    intro H. apply (f_equal b2n) in H. rewrite b2n_n2b in H.
    rewrite <- land255_mod, land_lxor_distr_l, !land255_mod in H.
    rewrite (N.mod_small (b2n x)) in H by apply b2n_lt.
    rewrite N.shiftl_1_l in H.
    assert (Hp : 2 ^ bit < 256).
    { change 256 with (2 ^ 8). apply N.pow_lt_mono_r; lia. }
    rewrite (N.mod_small (2 ^ bit)) in H by assumption.
    assert (Hz : N.lxor (N.lxor (b2n x) (2 ^ bit)) (b2n x) = 0) by (rewrite H; apply N.lxor_nilpotent).
    rewrite (N.lxor_comm (b2n x)), N.lxor_assoc, N.lxor_nilpotent, N.lxor_0_r in Hz.
    pose proof (N.pow_nonzero 2 bit). lia.
  Qed.

  Lemma flip_bit_split (pre : list byte) x post bit :
    flip_bit (pre ++ x :: post) (length pre) bit = pre ++ n2b (N.lxor (b2n x) (N.shiftl 1 bit)) :: post.
  Proof.
    unfold flip_bit. rewrite <- (Nat.add_0_r (length pre)), firstn_app_2, skipn_app.
    cbn [firstn]. rewrite app_nil_r, skipn_all2 by lia.
    replace (length pre + 0 - length pre)%nat with 0%nat by lia. reflexivity.
  Qed.

  Lemma decrypt_tag_bitflip pw nonce msg ct (i : nat) bit :
    encrypt cipher pw nonce msg = Ok ct -> (i < 16)%nat -> bit < 8 ->
    decrypt cipher pw (flip_bit ct (length ct - 16 + i) bit) = Err 1.
  Proof.
    intros H Hi Hb.
    pose proof (encrypt_length _ _ _ _ H) as HL.
    set (n := (length ct - 16)%nat) in *.
    set (t := skipn n ct).
    assert (Hct : ct = firstn n ct ++ t) by (symmetry; apply firstn_skipn).
    assert (Htl : length t = 16%nat) by (subst t; rewrite skipn_length; lia).
    (* split the tag at i *)
    assert (Ht : t = firstn i t ++ skipn i t) by (symmetry; apply firstn_skipn).
    destruct (skipn i t) as [|x post] eqn:Hsk.
    { apply (f_equal (@length byte)) in Hsk. rewrite skipn_length in Hsk. cbn in Hsk. lia. }
    assert (Hpre : length (firstn n ct ++ firstn i t) = (n + i)%nat).
    { rewrite app_length, !firstn_length. lia. }
    assert (Hsplit : ct = (firstn n ct ++ firstn i t) ++ x :: post).
    { rewrite <- app_assoc, <- Ht. exact Hct. }
    rewrite Hsplit at 1. rewrite <- Hpre, flip_bit_split, <- app_assoc.
    destruct (flip_changes x bit) as [Hx|]; [|lia].
    apply (decrypt_wrong_tag pw nonce msg ct); auto.
    - rewrite app_length, firstn_length. cbn [length].
      assert (length post = (16 - i - 1)%nat).
      { apply (f_equal (@length byte)) in Hsk. rewrite skipn_length in Hsk. cbn in Hsk. lia. }
      lia.
    - fold n. fold t. rewrite Ht at 2. intro Heq. apply app_inv_head in Heq.
      injection Heq as Heq. auto.
  Qed.

  (* ---- the exact acceptance condition of Decrypt ---- *)
  (* an input of at least nonce + tag bytes (and within gcm.Open's size limit) is accepted
     exactly when its last 16 bytes are the tag of what lies between the nonce and them; the
     result is then the CTR decryption of that part *)
  Lemma decrypt_spec pw data :
    (28 <= length data)%nat -> N.of_nat (length data) <= max_plain + 28 ->
    decrypt cipher pw data =
      let K := cipher (key_of pw) in
      let nonce := firstn 12 data in
      let c := firstn (length data - 28) (skipn 12 data) in
      if bytes_eqb (tag K nonce c) (skipn (length data - 16) data) then Ok (ctr K nonce c) else Err 1.
  Proof.
    intros H28 Hmax. cbv zeta. unfold decrypt, decrypt_k.
    destruct (Nat.ltb_spec (length data) 12) as [|H12]; [lia|].
    unfold open. rewrite firstn_length, Nat.min_l by lia. cbn [Nat.eqb negb].
    rewrite skipn_length.
    destruct (Nat.ltb_spec (length data - 12) 16) as [|_]; [lia|].
    destruct (N.ltb_spec (max_plain + 16) (N.of_nat (length data - 12))) as [|_]; [lia|].
    replace (length data - 12 - 16)%nat with (length data - 28)%nat by lia.
    rewrite skipn_skipn_.
    replace (length data - 28 + 12)%nat with (length data - 16)%nat by lia.
    reflexivity.
  Qed.

  Lemma decrypt_oversize pw data :
    max_plain + 28 < N.of_nat (length data) -> decrypt cipher pw data = Err 1.
  Proof.
    intro H. unfold decrypt, decrypt_k. unfold max_plain in H.
    destruct (Nat.ltb_spec (length data) 12) as [|H12]; [lia|].
    unfold open. rewrite firstn_length, Nat.min_l by lia. cbn [Nat.eqb negb].
    rewrite skipn_length.
    destruct (Nat.ltb_spec (length data - 12) 16) as [|_]; [reflexivity|].
    destruct (N.ltb_spec (max_plain + 16) (N.of_nat (length data - 12))) as [|Hc]; [reflexivity|].
    unfold max_plain in Hc. lia.
  Qed.

  (* a stored ciphertext under another password: accepted exactly when the tag of the stored
     body under the other key equals the stored tag (a collision of the two GHASH tags) *)
  Lemma decrypt_other_password pw pw' nonce msg ct :
    encrypt cipher pw nonce msg = Ok ct ->
    decrypt cipher pw' ct =
      let c := ctr (cipher (key_of pw)) nonce msg in
      if bytes_eqb (tag (cipher (key_of pw')) nonce c) (tag (cipher (key_of pw)) nonce c)
      then Ok (ctr (cipher (key_of pw')) nonce c) else Err 1.
  Proof.
    intro H. apply encrypt_inv in H as (Hn & Hm & ->). cbv zeta.
    set (K := cipher (key_of pw)). set (K' := cipher (key_of pw')).
    unfold seal_body. set (c := ctr K nonce msg).
    unfold decrypt, decrypt_k. fold K'.
    destruct (split_nonce nonce (c ++ tag K nonce c) Hn) as (-> & -> & ->).
    unfold open. rewrite Hn. cbn [Nat.eqb negb].
    pose proof (tag_length K nonce c) as Ht.
    assert (Hc : length c = length msg) by apply ctr_length.
    destruct (Nat.ltb_spec (length (c ++ tag K nonce c)) 16) as [Hl|_].
    { rewrite app_length in Hl. lia. }
    destruct (N.ltb_spec (max_plain + 16) (N.of_nat (length (c ++ tag K nonce c)))) as [Hl|_].
    { rewrite app_length in Hl. lia. }
    destruct (split_tail c (tag K nonce c) Ht) as [-> ->]. reflexivity.
  Qed.

  (* ---- repeated attempts on the same stored buffer ---- *)
  (* Decrypt only reads its input: whatever was tried before (right or wrong passwords, in any
     number and order), every attempt answers what Decrypt answers on the stored bytes, and
     the stored bytes are still there afterwards *)
  Lemma attempts_fresh buf pws :
    attempts cipher DstFresh buf pws = (map (fun pw => decrypt cipher pw buf) pws, buf).
  Proof.
    induction pws as [|pw rest IH]; [reflexivity|].
    cbn [attempts decrypt_buf map]. rewrite IH. reflexivity.
  Qed.

  Lemma attempts_then_right pw nonce msg ct pws :
    encrypt cipher pw nonce msg = Ok ct ->
    exists rs, attempts cipher DstFresh ct (pws ++ [pw]) = (rs ++ [Ok msg], ct) /\ length rs = length pws.
  Proof.
    intro H. rewrite attempts_fresh, map_app. cbn [map]. rewrite (decrypt_encrypt _ _ _ _ H).
    eexists. split; [reflexivity | apply map_length].
  Qed.

  (* ---- private keys ---- *)
  Lemma be_bytes_be_val (b : list byte) : be_bytes (length b) (be_val b) = b.
  Proof.
    unfold be_bytes. rewrite <- le_val_rev, <- (rev_length b), le_bytes_le_val. apply rev_involutive.
  Qed.

  (* the key lengths the statements depend on, tied to the Go constants *)
  Example gen_ed_len : Gen.ed25519_private_key_length = 64%Z. Proof. reflexivity. Qed.
  Example gen_sr_len : Gen.sr25519_private_key_length = 32%Z. Proof. reflexivity. Qed.
  Example gen_secp_len : Gen.secp256k1_private_key_length = 32%Z. Proof. reflexivity. Qed.
  Lemma ed_len_eq : ed_len = 64%nat. Proof. reflexivity. Qed.
  Lemma sr_len_eq : sr_len = 32%nat. Proof. reflexivity. Qed.
  Lemma secp_len_eq : secp_len = 32%nat. Proof. reflexivity. Qed.

  Lemma decode_valid s k : valid_key s k = true -> decode_private_key s k = Ok k.
  Proof.
    destruct s; cbn [valid_key decode_private_key].
    - intros ->. reflexivity.
    - intros ->. reflexivity.
    - intro H. apply andb_prop in H as [H1 H2].
      rewrite H1, H2. apply Nat.eqb_eq in H1. rewrite secp_len_eq in H1.
      rewrite <- H1. now rewrite be_bytes_be_val.
  Qed.

  (* what the decoder accepts is the encoding of a key of the scheme, returned unchanged *)
  Lemma decode_ok_valid s b k : decode_private_key s b = Ok k -> k = b /\ valid_key s b = true.
  Proof.
    destruct s; cbn [valid_key decode_private_key].
    - destruct (length b =? ed_len)%nat; [|discriminate]. intro H; injection H as <-. auto.
    - destruct (length b =? sr_len)%nat; [|discriminate]. intro H; injection H as <-. auto.
    - destruct (Nat.eqb_spec (length b) secp_len) as [Hl|]; [|discriminate].
      destruct (secp_scalar_ok (be_val b)); [|discriminate].
      intro H; injection H as <-. rewrite secp_len_eq in Hl. rewrite <- Hl.
      now rewrite be_bytes_be_val.
  Qed.

  Lemma decode_invalid s b : valid_key s b = false -> exists c, decode_private_key s b = Err c.
  Proof.
    destruct s; cbn [valid_key decode_private_key].
    - intros ->. eauto.
    - intros ->. eauto.
    - destruct (length b =? secp_len)%nat; cbn [andb]; [|eauto]. intros ->. eauto.
  Qed.

  Lemma decode_total s b : decode_private_key s b <> Panic /\ decode_private_key s b <> OutOfFuel.
  Proof.
    destruct (valid_key s b) eqn:Hv.
    - rewrite (decode_valid _ _ Hv). split; discriminate.
    - destruct (decode_invalid _ _ Hv) as [c ->]. split; discriminate.
  Qed.

  Lemma key_roundtrip s pw nonce k ct :
    valid_key s k = true ->
    encrypt_private_key cipher pw nonce k = Ok ct ->
    decrypt_private_key cipher pw ct s = Ok k.
  Proof.
    intros Hv H. unfold decrypt_private_key, decrypt_private_key_k, encrypt_private_key in *. fold (decrypt cipher pw ct).
    rewrite (decrypt_encrypt _ _ _ _ H). cbn [obind]. now apply decode_valid.
  Qed.

  Lemma valid_key_short s k : valid_key s k = true -> N.of_nat (length k) <= max_plain.
  Proof.
    unfold max_plain. destruct s; cbn [valid_key]; intro H.
    - apply Nat.eqb_eq in H. rewrite ed_len_eq in H. lia.
    - apply Nat.eqb_eq in H. rewrite sr_len_eq in H. lia.
    - apply andb_prop in H as [H _]. apply Nat.eqb_eq in H. rewrite secp_len_eq in H. lia.
  Qed.

  (* DecryptPrivateKey never crashes, whatever the bytes, the password and the scheme *)
  Lemma decrypt_private_key_total pw data s :
    decrypt_private_key cipher pw data s <> Panic /\ decrypt_private_key cipher pw data s <> OutOfFuel.
  Proof.
    unfold decrypt_private_key, decrypt_private_key_k. fold (decrypt cipher pw data).
    pose proof (decrypt_total pw data) as [H1 H2].
    destruct (decrypt cipher pw data) as [p| | |]; cbn [obind]; try (split; congruence).
    apply decode_total.
  Qed.

  (* whatever key DecryptPrivateKey returns, the input is byte for byte the EncryptPrivateKey
     output for exactly that key (under the password-derived key and the nonce the input
     starts with) *)
  Lemma decrypt_private_key_genuine pw data s k :
    decrypt_private_key cipher pw data s = Ok k ->
    valid_key s k = true /\ encrypt_private_key cipher pw (firstn 12 data) k = Ok data.
  Proof.
    unfold decrypt_private_key, decrypt_private_key_k, encrypt_private_key. fold (decrypt cipher pw data).
    destruct (decrypt cipher pw data) as [p| | |] eqn:Hd; cbn [obind]; try discriminate.
    intro H. apply decode_ok_valid in H as [-> Hv]. split; [assumption|].
    now apply decrypt_ok_genuine.
  Qed.

  (* a genuine ciphertext whose plaintext is not the encoding of a key of the scheme is refused *)
  Lemma non_key_refused s pw nonce raw ct :
    valid_key s raw = false -> encrypt cipher pw nonce raw = Ok ct ->
    exists c, decrypt_private_key cipher pw ct s = Err c.
  Proof.
    intros Hv H. unfold decrypt_private_key, decrypt_private_key_k. fold (decrypt cipher pw ct).
    rewrite (decrypt_encrypt _ _ _ _ H). cbn [obind]. now apply decode_invalid.
  Qed.

  (* ---- the key decoder before the repair ---- *)
  Lemma decode_prefix_panic_iff s b :
    decode_private_key_prefix s b = Panic <->
    s = Secp256k1 /\ length b = 32%nat /\ secp_scalar_ok (be_val b) = false.
  Proof.
    split.
    - destruct s; cbn [decode_private_key_prefix decode_private_key].
      + destruct (length b =? ed_len)%nat; discriminate.
      + destruct (length b =? sr_len)%nat; discriminate.
      + destruct (Nat.eqb_spec (length b) secp_len) as [Hl|]; [|discriminate].
        destruct (secp_scalar_ok (be_val b)); [discriminate|]. auto.
    - intros (-> & Hl & Hs). cbn [decode_private_key_prefix].
      rewrite Hl, Hs. reflexivity.
  Qed.

  Lemma decode_prefix_agrees s b :
    decode_private_key_prefix s b <> Panic -> decode_private_key_prefix s b = decode_private_key s b.
  Proof.
    destruct s; cbn [decode_private_key_prefix decode_private_key]; try reflexivity.
    destruct (length b =? secp_len)%nat; [|reflexivity].
    destruct (secp_scalar_ok (be_val b)); [reflexivity | congruence].
  Qed.

  Lemma zero_scalar_bad : secp_scalar_ok (be_val (zeros 32)) = false.
  Proof. rewrite be_val_zeros. reflexivity. Qed.

  (* the crash is reachable through DecryptPrivateKey: the genuine ciphertext of 32 zero bytes *)
  Lemma decrypt_private_key_unchecked_panics pw nonce :
    length nonce = 12%nat ->
    exists ct, encrypt cipher pw nonce (zeros 32) = Ok ct /\
               decrypt_private_key_unchecked cipher pw ct Secp256k1 = Panic.
  Proof.
    intro Hn.
    assert (Hm : N.of_nat (length (zeros 32)) <= max_plain) by (unfold max_plain; cbn; lia).
    pose proof (encrypt_ok pw nonce (zeros 32) Hn Hm) as H.
    eexists. split; [exact H|].
    unfold decrypt_private_key_unchecked, decrypt_private_key_unchecked_k. fold (decrypt cipher pw (nonce ++ seal_body (cipher (key_of pw)) nonce (zeros 32))).
    rewrite (decrypt_encrypt _ _ _ _ H). cbn [obind].
    apply decode_prefix_panic_iff. split; [reflexivity|]. split; [reflexivity | apply zero_scalar_bad].
  Qed.

  (* ---- the pinned tree ---- *)
  Lemma decrypt_prefix_panics pw : decrypt_prefix cipher pw [] = Panic.
  Proof. reflexivity. Qed.

  Lemma decrypt_prefix_agrees pw data :
    (12 <= length data)%nat -> decrypt_prefix cipher pw data = decrypt cipher pw data.
  Proof.
    intro H. unfold decrypt_prefix, decrypt_prefix_k, decrypt, decrypt_k.
    destruct (Nat.ltb_spec (length data) 12); [lia | reflexivity].
  Qed.
End Keystore.

(* ---- the statements of Properties.v that combine several of the lemmas above ---- *)
Lemma roundtrip_full : forall cipher pw nonce msg,
  length nonce = 12%nat -> N.of_nat (length msg) <= max_plain ->
  exists ct, encrypt cipher pw nonce msg = Ok ct
          /\ length ct = (12 + length msg + 16)%nat
          /\ firstn 12 ct = nonce
          /\ decrypt cipher pw ct = Ok msg.
Proof.
  intros cipher pw nonce msg Hn Hm.
  exists (nonce ++ seal_body (cipher (key_of pw)) nonce msg).
  pose proof (encrypt_ok cipher pw nonce msg Hn Hm) as H.
  repeat split.
  - exact H.
  - exact (encrypt_length cipher _ _ _ _ H).
  - exact (proj1 (proj2 (split_nonce cipher nonce _ Hn))).
  - exact (decrypt_encrypt cipher _ _ _ _ H).
Qed.

Lemma key_roundtrip_full : forall cipher s pw nonce k,
  valid_key s k = true -> length nonce = 12%nat ->
  exists ct, encrypt_private_key cipher pw nonce k = Ok ct
          /\ decrypt_private_key cipher pw ct s = Ok k.
Proof.
  intros cipher s pw nonce k Hv Hn.
  pose proof (encrypt_ok cipher pw nonce k Hn (valid_key_short cipher s k Hv)) as H.
  eexists. split; [exact H|]. exact (key_roundtrip cipher s pw nonce k _ Hv H).
Qed.
