(* C37/Model.v — executable model of lib/keystore/encrypt.go (definitions only).
   Mirrors gcmFromPassphrase (key = BLAKE2b-256(password), AES-256, GCM), Encrypt (the random
   nonce is an argument), Decrypt, EncryptPrivateKey / DecryptPrivateKey with
   helpers.go:DecodePrivateKey for the three supported schemes (at the level of the encoded key
   bytes).  [cipher] is the block cipher: key -> block -> block; ModelAes.aes256 when running. *)
From Common Require Import Bytes Outcome Blake2b.
From C37 Require Export ModelGcm.
Local Open Scope N_scope.

Section Keystore.
  Variable cipher : list byte -> list byte -> list byte.

  Definition key_of (password : list byte) : list byte := blake2b_256 password.

  (* Encrypt(msg, password) with the nonce read from rand.Reader.  The [_k] forms take the
     derived key (so that a driver can derive it once); the password forms are the Go entry
     points. *)
  Definition encrypt_k (key nonce msg : list byte) : outcome (list byte) :=
    seal (cipher key) nonce msg.
  Definition encrypt (password nonce msg : list byte) : outcome (list byte) :=
    encrypt_k (key_of password) nonce msg.

  (* Decrypt(data, password) as repaired (fixes/C37-decrypt-short-input.patch): a length check
     precedes the slicing *)
  Definition decrypt_k (key data : list byte) : outcome (list byte) :=
    if (length data <? 12)%nat then Err 2
    else open (cipher key) (firstn 12 data) (skipn 12 data).
  Definition decrypt (password data : list byte) : outcome (list byte) :=
    decrypt_k (key_of password) data.

  (* Decrypt of the pinned tree: data[:nonceSize] / data[nonceSize:] without a length check;
     slicing beyond the length panics *)
  Definition decrypt_prefix_k (key data : list byte) : outcome (list byte) :=
    if (length data <? 12)%nat then Panic
    else open (cipher key) (firstn 12 data) (skipn 12 data).
  Definition decrypt_prefix (password data : list byte) : outcome (list byte) :=
    decrypt_prefix_k (key_of password) data.

  (* ---- private keys, as their encodings ---- *)
  Inductive scheme := Ed25519 | Sr25519 | Secp256k1.

  (* order of the secp256k1 group *)
  Definition secp_n : N := 115792089237316195423570985008687907852837564279074904382605163141518161494337.

  (* helpers.go:DecodePrivateKey followed by Encode of the result.
     ed25519.NewPrivateKey: 64 bytes kept as they are; sr25519.NewPrivateKey: 32 bytes kept;
     secp256k1.NewPrivateKey: 32 bytes -> big integer D (ToECDSAUnsafe returns nil when D = 0 or
     D >= n and the code dereferences it) -> Encode = D left-padded to 32 bytes. *)
  Definition decode_private_key (s : scheme) (b : list byte) : outcome (list byte) :=
    match s with
    | Ed25519 => if (length b =? 64)%nat then Ok b else Err 3
    | Sr25519 => if (length b =? 32)%nat then Ok b else Err 3
    | Secp256k1 =>
      if (length b =? 32)%nat then
        let d := be_val b in
        if (d =? 0) || (secp_n <=? d) then Panic else Ok (be_bytes 32 d)
      else Err 3
    end.

  (* which byte strings are encodings of a private key of the scheme *)
  Definition valid_key (s : scheme) (b : list byte) : bool :=
    match s with
    | Ed25519 => (length b =? 64)%nat
    | Sr25519 => (length b =? 32)%nat
    | Secp256k1 => (length b =? 32)%nat && negb (be_val b =? 0) && (be_val b <? secp_n)
    end.

  Definition encrypt_private_key (password nonce keybytes : list byte) : outcome (list byte) :=
    encrypt password nonce keybytes.

  Definition decrypt_private_key_k (key data : list byte) (s : scheme) : outcome (list byte) :=
    obind (decrypt_k key data) (decode_private_key s).
  Definition decrypt_private_key (password data : list byte) (s : scheme) : outcome (list byte) :=
    decrypt_private_key_k (key_of password) data s.
  Definition decrypt_private_key_prefix (password data : list byte) (s : scheme) : outcome (list byte) :=
    obind (decrypt_prefix password data) (decode_private_key s).
End Keystore.

(* ---- ciphertext mutations used by the correspondence harness and the tamper theorems ---- *)
Definition flip_bit (data : list byte) (pos : nat) (bit : N) : list byte :=
  firstn pos data ++
  match skipn pos data with
  | x :: r => n2b (N.lxor (b2n x) (N.shiftl 1 bit)) :: r
  | [] => []
  end.
Definition truncate (data : list byte) (len : nat) : list byte := firstn len data.

(* ---- the property predicates evaluated on observed behaviour (driver) and used in the
   statements of Properties.v ---- *)
Definition out_eqb (a b : outcome (list byte)) : bool :=
  match a, b with
  | Ok x, Ok y => bytes_eqb x y
  | Err _, Err _ => true
  | Panic, Panic => true
  | OutOfFuel, OutOfFuel => true
  | _, _ => false
  end.

Section Predicates.
  Variable cipher : list byte -> list byte -> list byte.

  (* [data] is exactly what Encrypt produces for plaintext [p] under the key with the nonce
     that [data] starts with *)
  Definition genuine_k (key data p : list byte) : bool :=
    match encrypt_k cipher key (firstn 12 data) p with
    | Ok d => bytes_eqb d data
    | _ => false
    end.
  Definition genuine (pw data p : list byte) : bool := genuine_k (key_of pw) data p.

  (* a Decrypt result is acceptable: an error, or a plaintext of which [data] is a genuine
     encryption; never a crash *)
  Definition prop_decrypt_k (key data : list byte) (res : outcome (list byte)) : bool :=
    match res with
    | Ok p => genuine_k key data p
    | Err _ => true
    | _ => false
    end.
  Definition prop_decrypt (pw data : list byte) (res : outcome (list byte)) : bool :=
    prop_decrypt_k (key_of pw) data res.

  (* Encrypt then Decrypt with the same password returns the message, and the stored
     ciphertext is a genuine encryption of it (under the nonce it starts with) *)
  Definition prop_roundtrip_k (key msg ct : list byte) (res : outcome (list byte)) : bool :=
    genuine_k key ct msg && out_eqb res (Ok msg).
  Definition prop_roundtrip (pw msg ct : list byte) (res : outcome (list byte)) : bool :=
    prop_roundtrip_k (key_of pw) msg ct res.

  (* a ciphertext that differs from the stored one, or a different password, must be refused *)
  Definition prop_refused (changed : bool) (res : outcome (list byte)) : bool :=
    if changed then match res with Err _ => true | _ => false end else true.
End Predicates.
