(* C37/Model.v — executable model of lib/keystore/encrypt.go (definitions only).
   Mirrors gcmFromPassphrase (key = BLAKE2b-256(password), AES-256, GCM), Encrypt (the random
   nonce is an argument), Decrypt, EncryptPrivateKey / DecryptPrivateKey with
   helpers.go:DecodePrivateKey for the three supported schemes (at the level of the encoded key
   bytes).  [cipher] is the block cipher: key -> block -> block; ModelAes.aes256 when running. *)
From Coq Require Import ZArith.
From Common Require Import Bytes Outcome Blake2b.
From C37 Require Export ModelGcm.
From C37 Require Gen.
Local Open Scope N_scope.

Section Keystore.
  Variable cipher : list byte -> list byte -> list byte.

  Definition key_of (password : list byte) : list byte := blake2b_256 password.

  (* Encrypt(msg, password) with the nonce read from rand.Reader.  The [_k] forms take the
     derived key (so that a driver can derive it once); the password forms are the Go entry
     points. *)
  Definition encrypt_k (key nonce msg : list byte) : outcome (list byte) :=
    seal (cipher key) nonce msg.
  Definition encrypt (password nonce msg : list byte) : outcome (list byte) :=
    encrypt_k (key_of password) nonce msg.

  (* Decrypt(data, password) as repaired (fixes/C37-decrypt-short-input.patch): a length check
     precedes the slicing *)
  Definition decrypt_k (key data : list byte) : outcome (list byte) :=
    if (length data <? 12)%nat then Err 2
    else open (cipher key) (firstn 12 data) (skipn 12 data).
  Definition decrypt (password data : list byte) : outcome (list byte) :=
    decrypt_k (key_of password) data.

  (* Decrypt with the caller's buffer as explicit state.  The code calls gcm.Open(nil, nonce,
     ciphertext, nil): the plaintext goes to a fresh slice and [data] is only read (DstFresh).
     DstInPlace is the alternative gcm.Open(ciphertext[:0], ...) (seeded change C37-m2): the
     plaintext overwrites the stored body on success, crypto/cipher zeroes it on an
     authentication failure; inputs gcm.Open refuses before writing (shorter than nonce + tag)
     are left alone.  Only DstFresh is the model of the code; DstInPlace exists to show that the
     statement C37_repeated_attempts can fail. *)
  Inductive dst_mode := DstFresh | DstInPlace.
  Definition decrypt_buf (m : dst_mode) (password buf : list byte) : outcome (list byte) * list byte :=
    let r := decrypt password buf in
    match m with
    | DstFresh => (r, buf)
    | DstInPlace =>
      if (length buf <? 28)%nat then (r, buf)
      else match r with
           | Ok p => (r, firstn 12 buf ++ p ++ skipn (length buf - 16) buf)
           | Err _ => (r, firstn 12 buf ++ zeros (length buf - 28) ++ skipn (length buf - 16) buf)
           | _ => (r, buf)
           end
    end.
  (* a sequence of Decrypt calls on the same in-memory buffer, one password per call *)
  Fixpoint attempts (m : dst_mode) (buf : list byte) (pws : list (list byte))
    : list (outcome (list byte)) * list byte :=
    match pws with
    | [] => ([], buf)
    | pw :: rest =>
      let '(r, buf') := decrypt_buf m pw buf in
      let '(rs, b) := attempts m buf' rest in (r :: rs, b)
    end.

  (* Decrypt of the pinned tree: data[:nonceSize] / data[nonceSize:] without a length check;
     slicing beyond the length panics *)
  Definition decrypt_prefix_k (key data : list byte) : outcome (list byte) :=
    if (length data <? 12)%nat then Panic
    else open (cipher key) (firstn 12 data) (skipn 12 data).
  Definition decrypt_prefix (password data : list byte) : outcome (list byte) :=
    decrypt_prefix_k (key_of password) data.

  (* ---- private keys, as their encodings ---- *)
  Inductive scheme := Ed25519 | Sr25519 | Secp256k1.

  (* order of the secp256k1 group *)
  Definition secp_n : N := 115792089237316195423570985008687907852837564279074904382605163141518161494337.

  (* private key lengths: the constants PrivateKeyLength of lib/crypto/{ed25519,sr25519,
     secp256k1}, read from the Go source on every run (Gen.v) *)
  Definition ed_len : nat := Z.to_nat Gen.ed25519_private_key_length.
  Definition sr_len : nat := Z.to_nat Gen.sr25519_private_key_length.
  Definition secp_len : nat := Z.to_nat Gen.secp256k1_private_key_length.

  (* the scalar of a secp256k1 private key must lie in [1, n-1] *)
  Definition secp_scalar_ok (d : N) : bool := negb (d =? 0) && (d <? secp_n).

  (* helpers.go:DecodePrivateKey followed by Encode of the result.
     ed25519.NewPrivateKey: 64 bytes kept as they are; sr25519.NewPrivateKey: 32 bytes kept;
     secp256k1.NewPrivateKey: 32 bytes -> big integer D; go-ethereum's ToECDSAUnsafe returns nil
     when D = 0 or D >= n.  As repaired (fixes/C37-secp256k1-decode-invalid-scalar.patch)
     PrivateKey.Decode returns an error then; otherwise Encode = D left-padded to 32 bytes. *)
  Definition decode_private_key (s : scheme) (b : list byte) : outcome (list byte) :=
    match s with
    | Ed25519 => if (length b =? ed_len)%nat then Ok b else Err 3
    | Sr25519 => if (length b =? sr_len)%nat then Ok b else Err 3
    | Secp256k1 =>
      if (length b =? secp_len)%nat then
        let d := be_val b in
        if secp_scalar_ok d then Ok (be_bytes 32 d) else Err 4
      else Err 3
    end.

  (* before the repair PrivateKey.Decode dereferenced the nil key: a crash *)
  Definition decode_private_key_prefix (s : scheme) (b : list byte) : outcome (list byte) :=
    match s with
    | Secp256k1 =>
      if (length b =? secp_len)%nat then
        let d := be_val b in
        if secp_scalar_ok d then Ok (be_bytes 32 d) else Panic
      else Err 3
    | _ => decode_private_key s b
    end.

  (* which byte strings are encodings of a private key of the scheme *)
  Definition valid_key (s : scheme) (b : list byte) : bool :=
    match s with
    | Ed25519 => (length b =? ed_len)%nat
    | Sr25519 => (length b =? sr_len)%nat
    | Secp256k1 => (length b =? secp_len)%nat && secp_scalar_ok (be_val b)
    end.

  Definition encrypt_private_key (password nonce keybytes : list byte) : outcome (list byte) :=
    encrypt password nonce keybytes.

  Definition decrypt_private_key_k (key data : list byte) (s : scheme) : outcome (list byte) :=
    obind (decrypt_k key data) (decode_private_key s).
  Definition decrypt_private_key (password data : list byte) (s : scheme) : outcome (list byte) :=
    decrypt_private_key_k (key_of password) data s.
  (* DecryptPrivateKey of the tree before fixes/C37-secp256k1-decode-invalid-scalar.patch (the
     repaired Decrypt, the unchecked key decoder) and of the pinned tree (neither repair) *)
  Definition decrypt_private_key_unchecked_k (key data : list byte) (s : scheme) : outcome (list byte) :=
    obind (decrypt_k key data) (decode_private_key_prefix s).
  Definition decrypt_private_key_unchecked (password data : list byte) (s : scheme) : outcome (list byte) :=
    decrypt_private_key_unchecked_k (key_of password) data s.
  Definition decrypt_private_key_prefix (password data : list byte) (s : scheme) : outcome (list byte) :=
    obind (decrypt_prefix password data) (decode_private_key_prefix s).
End Keystore.

(* ---- ciphertext mutations used by the correspondence harness and the tamper theorems ---- *)
Definition flip_bit (data : list byte) (pos : nat) (bit : N) : list byte :=
  firstn pos data ++
  match skipn pos data with
  | x :: r => n2b (N.lxor (b2n x) (N.shiftl 1 bit)) :: r
  | [] => []
  end.
Definition truncate (data : list byte) (len : nat) : list byte := firstn len data.

(* ---- the property predicates evaluated on observed behaviour (driver) and used in the
   statements of Properties.v ---- *)
Definition out_eqb (a b : outcome (list byte)) : bool :=
  match a, b with
  | Ok x, Ok y => bytes_eqb x y
  | Err _, Err _ => true
  | Panic, Panic => true
  | OutOfFuel, OutOfFuel => true
  | _, _ => false
  end.

(* used by the vm_compute cross-check of the extraction: a result against an observed class
   (0 ok + payload, 1 authentication error, 2 other error, 3 panic) *)
Definition res_is (r : outcome (list byte)) (cls : N) (payload : list byte) : bool :=
  match r with
  | Ok p => (cls =? 0) && bytes_eqb p payload
  | Err 1%nat => cls =? 1
  | Err _ => cls =? 2
  | Panic => cls =? 3
  | OutOfFuel => false
  end.
Definition typed_res (t : N) (r : outcome (list byte)) : outcome (list byte) :=
  match r with Ok k => Ok (n2b t :: k) | x => x end.

Section Predicates.
  Variable cipher : list byte -> list byte -> list byte.

  (* [data] is exactly what Encrypt produces for plaintext [p] under the key with the nonce
     that [data] starts with *)
  Definition genuine_k (key data p : list byte) : bool :=
    match encrypt_k cipher key (firstn 12 data) p with
    | Ok d => bytes_eqb d data
    | _ => false
    end.
  Definition genuine (pw data p : list byte) : bool := genuine_k (key_of pw) data p.

  (* a Decrypt result is acceptable: an error, or a plaintext of which [data] is a genuine
     encryption; never a crash *)
  Definition prop_decrypt_k (key data : list byte) (res : outcome (list byte)) : bool :=
    match res with
    | Ok p => genuine_k key data p
    | Err _ => true
    | _ => false
    end.
  Definition prop_decrypt (pw data : list byte) (res : outcome (list byte)) : bool :=
    prop_decrypt_k (key_of pw) data res.

  (* Encrypt then Decrypt with the same password returns the message, and the stored
     ciphertext is a genuine encryption of it (under the nonce it starts with) *)
  Definition prop_roundtrip_k (key msg ct : list byte) (res : outcome (list byte)) : bool :=
    genuine_k key ct msg && out_eqb res (Ok msg).
  Definition prop_roundtrip (pw msg ct : list byte) (res : outcome (list byte)) : bool :=
    prop_roundtrip_k (key_of pw) msg ct res.

  (* a ciphertext that differs from the stored one, or a different password, must be refused *)
  Definition prop_refused (changed : bool) (res : outcome (list byte)) : bool :=
    if changed then match res with Err _ => true | _ => false end else true.
End Predicates.
