(* C37/ModelGcm.v — AES-GCM as implemented by Go's crypto/cipher (NewGCM: 12-byte nonce,
   16-byte tag, no additional data), over an arbitrary block function E; definitions only.
     Seal(dst=nonce, nonce, p, nil)  = nonce ++ ctr(p) ++ tag
     Open(nil, nonce, c ++ tag, nil) = p | errOpen
   [E] is the block cipher under one fixed key (block -> block).  Its result is normalised to
   16 bytes with [fit16] so that the definitions are total for every E (for AES it is the
   identity). *)
From Common Require Import Bytes Outcome.
Local Open Scope N_scope.

Definition bxor (a b : byte) : byte := n2b (N.lxor (b2n a) (b2n b)).

(* subtle.XORBytes over the plaintext length; a short second operand leaves the rest as is *)
Fixpoint xor_bytes (a b : list byte) : list byte :=
  match a, b with
  | x :: a', y :: b' => bxor x y :: xor_bytes a' b'
  | _, [] => a
  | [], _ => []
  end.

Definition fit16 (l : list byte) : list byte := firstn 16 (l ++ zeros 16).

(* ---- GF(2^128) in GCM bit order: a block is the big-endian number of its 16 bytes;
   NIST SP 800-38D algorithm 1, R = 11100001 || 0^120 ---- *)
Definition gcm_r : N := 299076299051606071403356588563077529600.
Fixpoint gf_mul_loop (i : nat) (x z v : N) : N :=
  match i with
  | O => z
  | S i' =>
    let z' := if N.testbit x (N.of_nat i') then N.lxor z v else z in
    let v' := if N.testbit v 0 then N.lxor (N.shiftr v 1) gcm_r else N.shiftr v 1 in
    gf_mul_loop i' x z' v'
  end.
Definition gf_mul (x y : N) : N := gf_mul_loop 128 x 0 y.

(* 16-byte chunks of a byte string as numbers, the last one zero-padded *)
Fixpoint blocks128 (fuel : nat) (l : list byte) : list N :=
  match fuel with
  | O => []
  | S f =>
    match l with
    | [] => []
    | _ => be_val (fit16 (firstn 16 l)) :: blocks128 f (skipn 16 l)
    end
  end.

Definition ghash (h : N) (xs : list N) : N :=
  fold_left (fun y x => gf_mul (N.lxor y x) h) xs 0.

Section GCM.
  Variable E : list byte -> list byte.

  Definition Eb (b : list byte) : list byte := fit16 (E b).

  Definition ctr_block (nonce : list byte) (c : N) : list byte := nonce ++ be_bytes 4 c.

  (* the counter is the last 4 bytes, big-endian, wrapping (be_bytes truncates) *)
  Fixpoint keystream (nblocks : nat) (nonce : list byte) (c : N) : list byte :=
    match nblocks with
    | O => []
    | S k => Eb (ctr_block nonce c) ++ keystream k nonce (c + 1)
    end.

  Definition ctr (nonce data : list byte) : list byte :=
    xor_bytes data (keystream ((length data + 15) / 16) nonce 2).

  (* lengths block: 64-bit bit length of the (empty) additional data, then of the ciphertext *)
  Definition len_block (c : list byte) : N := N.land (8 * N.of_nat (length c)) 18446744073709551615.

  Definition tag (nonce c : list byte) : list byte :=
    let h := be_val (Eb (zeros 16)) in
    let s := ghash h (blocks128 (S (length c / 16)) c ++ [len_block c]) in
    xor_bytes (be_bytes 16 s) (Eb (ctr_block nonce 1)).

  (* gcm.Seal panics on a plaintext longer than ((1<<32)-2)*16 bytes *)
  Definition max_plain : N := 68719476704.

  Definition seal_body (nonce p : list byte) : list byte :=
    let c := ctr nonce p in c ++ tag nonce c.

  (* gcm.Seal(nonce, nonce, p, nil): appended to the nonce *)
  Definition seal (nonce p : list byte) : outcome (list byte) :=
    if negb (length nonce =? 12)%nat then Panic
    else if max_plain <? N.of_nat (length p) then Panic
    else Ok (nonce ++ seal_body nonce p).

  (* gcm.Open(nil, nonce, data, nil) *)
  Definition open (nonce data : list byte) : outcome (list byte) :=
    if negb (length nonce =? 12)%nat then Panic
    else if (length data <? 16)%nat then Err 1
    else if max_plain + 16 <? N.of_nat (length data) then Err 1
    else
      let n := (length data - 16)%nat in
      let c := firstn n data in
      let t := skipn n data in
      if bytes_eqb (tag nonce c) t then Ok (ctr nonce c) else Err 1.
End GCM.
