From Coq Require Import Extraction ExtrOcamlBasic.
From Common Require Import Bytes Outcome Blake2b Drv.
From C37 Require Import ModelAes Model.
Extraction "model.ml" drv_b2n drv_n2b drv_z_of_n drv_n_of_z drv_nat_of_n drv_n_of_nat
  aes256 key_of encrypt_k decrypt_k decrypt_private_key_k genuine_k prop_decrypt_k prop_roundtrip_k
  encrypt decrypt decrypt_prefix decode_private_key valid_key
  encrypt_private_key decrypt_private_key decrypt_private_key_prefix
  attempts flip_bit truncate out_eqb genuine prop_decrypt prop_roundtrip prop_refused bytes_eqb.
