(* C01/Model.v — put/delete histories, the state they denote, and the roots (definitions only). *)
From Common Require Import Bytes.
From Trie Require Import Nibbles Node Encode Model Spec.

Inductive op :=
| Put (k : list byte) (v : value)
| Del (k : list byte).

(* the trie after a history (model of InMemoryTrie.Put / Delete with the fix patches applied) *)
Definition step (t : trie) (o : op) : trie :=
  match o with Put k v => trie_put t k v | Del k => trie_delete t k end.
Definition run (ops : list op) : trie := fold_left step ops None.

(* the same history on the pinned tree *)
Definition step_pinned (t : trie) (o : op) : trie :=
  match o with Put k v => trie_put t k v | Del k => trie_delete_pinned t k end.
Definition run_pinned (ops : list op) : trie := fold_left step_pinned ops None.

(* the finite map a history denotes: last write wins, delete removes *)
Definition map_step (m : bmap) (o : op) : bmap :=
  match o with Put k v => bm_put m k v | Del k => bm_del m k end.
Definition map_of (ops : list op) : bmap := fold_left map_step ops [].

(* InMemoryTrie.Hash after the history, and the specification root of the denoted map *)
Definition root (H : list byte -> list byte) (ver : version) (ops : list op) : list byte :=
  trie_root H ver (run ops).
Definition root_pinned (H : list byte -> list byte) (ver : version) (ops : list op) : list byte :=
  trie_root H ver (run_pinned ops).
Definition spec (H : list byte -> list byte) (ver : version) (ops : list op) : list byte :=
  spec_root_bytes H ver (map_of ops).

(* known finding delete-exhausted-key: some Delete of the history meets the guard in the state
   it is applied to *)
Fixpoint hits_delete_exhausted (t : trie) (ops : list op) : bool :=
  match ops with
  | [] => false
  | o :: r =>
    (match o with Del k => guard_delete_exhausted t k | Put _ _ => false end)
    || hits_delete_exhausted (step t o) r
  end.

(* trie.TrieLayout.Root: puts of an entry list into an empty trie *)
Definition layout_ops (es : list (list byte * value)) : list op := map (fun e => Put (fst e) (snd e)) es.
