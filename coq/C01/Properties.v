(* C01/Properties.v — property C01: the state root equals the spec Merkle root of the state content.
   Only statements, each closed by `exact <lemma>`, with Print Assumptions beneath.

   root H ver ops  = InMemoryTrie.Hash() after the put/delete history ops on an empty trie of
                     version ver (model of in_memory.go + pkg/trie/node, fix patches applied)
   spec H ver ops  = spec_root_bytes H ver (map_of ops): hash of the encoding of the canonical
                     radix-16 trie of the finite map the history denotes (last write wins, delete
                     removes), built by longest common prefix and bucketing; H(0x00) for the empty map.
   H is an arbitrary hash function (no property of H is used).

   FULL STATEMENT (holds for the trie after the fix patches except for one input class):
       forall H ver ops, root H ver ops = spec H ver ops.
   It is refuted for histories that Delete the empty key "" while the root node has a non-empty
   partial key (known finding delete-exhausted-key, pinned by Test_Trie_deleteAtNode):
   C01_empty_key_delete_refuted.  C01_root_spec is the full statement outside that guard. *)
From Common Require Import Bytes Blake2b.
From Trie Require Import Nibbles Node Encode Model Spec.
From C01 Require Import Model Proofs.

(* for every history that does not meet the guard: the node's root is the spec root of the map *)
Theorem C01_root_spec_partial : forall H ver ops,
  hits_delete_exhausted None ops = false -> root H ver ops = spec H ver ops.
Proof. exact root_spec. Qed.
Print Assumptions C01_root_spec_partial.

(* in particular for every history without a Delete of the empty key, *)
Theorem C01_root_spec_no_empty_delete : forall H ver ops,
  no_empty_delete ops = true -> root H ver ops = spec H ver ops.
Proof. exact root_spec_no_empty_delete. Qed.
Print Assumptions C01_root_spec_no_empty_delete.

(* and for every history of inserts and overwrites (TrieLayout.Root, host functions) *)
Theorem C01_root_spec_puts : forall H ver ops,
  puts_only ops = true -> root H ver ops = spec H ver ops.
Proof. exact root_spec_puts. Qed.
Print Assumptions C01_root_spec_puts.

(* whatever order of inserts, overwrites and deletions produced the map *)
Theorem C01_order_independent : forall H ver ops1 ops2,
  hits_delete_exhausted None ops1 = false -> hits_delete_exhausted None ops2 = false ->
  map_of ops1 = map_of ops2 -> root H ver ops1 = root H ver ops2.
Proof. exact order_independent. Qed.
Print Assumptions C01_order_independent.

(* the empty state has root H(0x00) *)
Theorem C01_empty : forall H ver, root H ver [] = H [n2b 0] /\ spec H ver [] = H [n2b 0].
Proof. intros; split; reflexivity. Qed.
Print Assumptions C01_empty.

(* a value is stored by hash exactly in version 1 and when longer than 32 bytes *)
Theorem C01_inline_rule : forall H ver v,
  enc_value H ver v = (if must_be_hashed ver v then H v else scale_bytes v) /\
  (must_be_hashed ver v = true <-> ver = V1 /\ 32 < length v).
Proof. intros; split; [exact (inline_rule H ver v)|exact (must_be_hashed_iff ver v)]. Qed.
Print Assumptions C01_inline_rule.

(* the full statement fails inside the guard (model of the code with the fix patches) *)
Theorem C01_empty_key_delete_refuted :
  exists ops, root blake2b_256 V0 ops <> spec blake2b_256 V0 ops.
Proof. exists witness_empty_delete. exact empty_delete_refuted. Qed.
Print Assumptions C01_empty_key_delete_refuted.

(* the pinned tree violated the statement outside the guard as well (fixed by
   fixes/C02-delete-diverging-key and fixes/C02-delete-exhausted-key-nested) *)
Theorem C01_pinned_refuted :
  (exists ops, no_empty_delete ops = true /\ root_pinned blake2b_256 V0 ops <> spec blake2b_256 V0 ops) /\
  (exists ops, no_empty_delete ops = true /\ root_pinned blake2b_256 V0 ops <> spec blake2b_256 V0 ops).
Proof.
  split; [exists witness_diverging_delete; exact pinned_diverging_delete_refuted
         |exists witness_nested_delete; exact pinned_nested_delete_refuted].
Qed.
Print Assumptions C01_pinned_refuted.

(* non-vacuity: a branch with a value and an inlined child; a delete that merges a branch back into
   a leaf; a 64-nibble partial key; version 1 with a 33-byte value *)
Example C01_nonvacuous_branch_with_value :
  let ops := [Put [n2b 1] [n2b 170]; Put [n2b 1; n2b 2] [n2b 187]; Put [n2b 1; n2b 3] [n2b 204]] in
  hits_delete_exhausted None ops = false /\
  run ops = Some (Branch [0; 1]%nat (Some [n2b 170])
                   (set_child no_children 0 (Some (Branch []%nat None
                      (set_child (set_child no_children 2 (Some (Leaf [] [n2b 187]))) 3 (Some (Leaf [] [n2b 204]))))))).
Proof. vm_compute. split; reflexivity. Qed.

Example C01_nonvacuous_merge :
  let ops := [Put [n2b 1; n2b 2] [n2b 187]; Put [n2b 1; n2b 3] [n2b 204]; Del [n2b 1; n2b 3]] in
  hits_delete_exhausted None ops = false /\ run ops = Some (Leaf [0; 1; 0; 2]%nat [n2b 187]) /\
  length (map_of ops) = 1%nat.
Proof. vm_compute. repeat split; reflexivity. Qed.

Example C01_nonvacuous_v1_hashed :
  let v := repeat (n2b 7) 33 in
  must_be_hashed V1 v = true /\ must_be_hashed V0 v = false /\ must_be_hashed V1 (repeat (n2b 7) 32) = false /\
  root blake2b_256 V1 [Put [n2b 1] v] <> root blake2b_256 V0 [Put [n2b 1] v].
Proof. vm_compute. repeat split; try reflexivity. discriminate. Qed.

Example C01_nonvacuous_long_partial_key :
  let k := repeat (n2b 17) 32 in
  match run [Put k [n2b 1]] with Some (Leaf pk _) => length pk = 64%nat | _ => False end /\
  length (header leaf_bits 63 64) = 2%nat.
Proof. vm_compute. split; reflexivity. Qed.
