(* C01/Properties.v — property C01 (statements only). Under construction. *)
From Common Require Import Bytes.
From Trie Require Import Nibbles Node Encode Model Spec.
From C01 Require Import Model.
