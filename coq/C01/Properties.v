(* C01/Properties.v — property C01: the state root equals the spec Merkle root of the state content.
   Only statements, each closed by `exact <lemma>`, with Print Assumptions beneath.

   root H ver ops  = InMemoryTrie.Hash() after the put/delete history ops on an empty trie of
                     version ver (model of in_memory.go + pkg/trie/node, fix patches applied)
   spec H ver ops  = spec_root_bytes H ver (map_of ops): hash of the encoding of the canonical
                     radix-16 trie of the finite map the history denotes (last write wins, delete
                     removes), built by longest common prefix and bucketing; H(0x00) for the empty map.
   H is an arbitrary hash function (no property of H is used).

   FULL STATEMENT (holds for the trie after the fix patches except for one input class):
       forall H ver ops, root H ver ops = spec H ver ops.
   It is refuted for histories that Delete the empty key "" while the root node has a non-empty
   partial key (known finding delete-exhausted-key, pinned by Test_Trie_deleteAtNode):
   C01_empty_key_delete_refuted.  C01_root_spec is the full statement outside that guard.

   What "the Polkadot/Substrate Merkle-Patricia root of that map" is here (audit note): the trie
   SHAPE of the specification is built independently of the Go insertion/deletion algorithm
   (Spec.build: longest common prefix + bucketing; C01_spec_trie_adequate: it is canonical, its entry
   list is the map, every other representing trie equals it).  The node ENCODING (header variants
   and the 63/31/15 length escape, LE key packing, children bitmap, SCALE lengths, inline-or-hash of
   values and of child encodings) is one Gallina function, Trie.Encode.enc, used by the
   specification root and by the model alike: the theorems do not relate it to an independent
   rendition of the encoding rules.  It is tied to the outside world by known answers: the empty
   root constant and hand-derived node encodings below (the C01_known_answer Examples), and, in the thorough
   tier, the public genesis hashes of Westend, Paseo and Kusama (state version 0 only). *)
From Common Require Import Bytes Blake2b.
From Trie Require Import Nibbles Node Encode Model Spec.
From C01 Require Import Model Proofs ProofsEnc.
From C01 Require Gen.

(* for every history that does not meet the guard: the node's root is the spec root of the map *)
Theorem C01_root_spec_partial : forall H ver ops,
  hits_delete_exhausted None ops = false -> root H ver ops = spec H ver ops.
Proof. exact root_spec. Qed.
Print Assumptions C01_root_spec_partial.

(* in particular for every history without a Delete of the empty key, *)
Theorem C01_root_spec_no_empty_delete : forall H ver ops,
  no_empty_delete ops = true -> root H ver ops = spec H ver ops.
Proof. exact root_spec_no_empty_delete. Qed.
Print Assumptions C01_root_spec_no_empty_delete.

(* and for every history of inserts and overwrites (TrieLayout.Root, host functions) *)
Theorem C01_root_spec_puts : forall H ver ops,
  puts_only ops = true -> root H ver ops = spec H ver ops.
Proof. exact root_spec_puts. Qed.
Print Assumptions C01_root_spec_puts.

(* whatever order of inserts, overwrites and deletions produced the map *)
Theorem C01_order_independent : forall H ver ops1 ops2,
  hits_delete_exhausted None ops1 = false -> hits_delete_exhausted None ops2 = false ->
  map_of ops1 = map_of ops2 -> root H ver ops1 = root H ver ops2.
Proof. exact order_independent. Qed.
Print Assumptions C01_order_independent.

(* the empty state has root H(0x00) *)
Theorem C01_empty : forall H ver, root H ver [] = H [n2b 0] /\ spec H ver [] = H [n2b 0].
Proof. intros; split; reflexivity. Qed.
Print Assumptions C01_empty.

(* a value is stored by hash exactly in version 1 and when longer than 32 bytes *)
Theorem C01_inline_rule : forall H ver v,
  enc_value H ver v = (if must_be_hashed ver v then H v else scale_bytes v) /\
  (must_be_hashed ver v = true <-> ver = V1 /\ 32 < length v).
Proof. intros; split; [exact (inline_rule H ver v)|exact (must_be_hashed_iff ver v)]. Qed.
Print Assumptions C01_inline_rule.

(* the full statement fails inside the guard (model of the code with the fix patches) *)
Theorem C01_empty_key_delete_refuted :
  exists ops, root blake2b_256 V0 ops <> spec blake2b_256 V0 ops.
Proof. exists witness_empty_delete. exact empty_delete_refuted. Qed.
Print Assumptions C01_empty_key_delete_refuted.

(* the pinned tree violated the statement outside the guard as well (fixed by
   fixes/C02-delete-diverging-key and fixes/C02-delete-exhausted-key-nested) *)
Theorem C01_pinned_refuted :
  (exists ops, no_empty_delete ops = true /\ root_pinned blake2b_256 V0 ops <> spec blake2b_256 V0 ops) /\
  (exists ops, no_empty_delete ops = true /\ root_pinned blake2b_256 V0 ops <> spec blake2b_256 V0 ops).
Proof.
  split; [exists witness_diverging_delete; exact pinned_diverging_delete_refuted
         |exists witness_nested_delete; exact pinned_nested_delete_refuted].
Qed.
Print Assumptions C01_pinned_refuted.


(* ---------------- added by the audit round ---------------- *)

(* "for every finite key/value map": every sorted association list m is denoted by some history
   (of inserts only), and every history that denotes m (outside the guard) has the spec root of m *)
Theorem C01_root_every_map : forall H ver m, bm_sorted m = true ->
  (exists ops, puts_only ops = true /\ map_of ops = m) /\
  (forall ops, hits_delete_exhausted None ops = false -> map_of ops = m ->
     root H ver ops = spec_root_bytes H ver m).
Proof. exact root_of_every_map. Qed.
Print Assumptions C01_root_every_map.

(* the trie the specification root is the hash of: canonical, holds exactly the map, unique *)
Theorem C01_spec_trie_adequate : forall m, bm_sorted m = true ->
  let st := build_trie (kv_of_bmap m) in
  Trie.InsertProofs.Canon_opt st /\ entries st = kv_of_bmap m /\
  (forall k, Trie.Sem.lookup_opt st (key_le_to_nibbles k) = bm_get m k) /\
  (forall t, Trie.MapProofs.Rep t m -> t = st).
Proof. exact spec_trie_adequate. Qed.
Print Assumptions C01_spec_trie_adequate.

(* the root theorem rests on structural uniqueness: the state after the history is, node for
   node, the specification trie of the denoted map (hence equal encodings for every H) *)
Theorem C01_state_is_spec_trie : forall ops, hits_delete_exhausted None ops = false ->
  run ops = build_trie (kv_of_bmap (map_of ops)) /\ bm_sorted (map_of ops) = true.
Proof. intros ops G. split; [exact (run_is_spec_trie ops G)|exact (map_of_sorted ops G)]. Qed.
Print Assumptions C01_state_is_spec_trie.

(* the inline rule with the constant read from pkg/trie/layout.go (V1MaxInlineValueSize), and the
   two leaf encodings it selects; version 0 never hashes a value *)
Theorem C01_inline_rule_gen : forall H ver pk v,
  (must_be_hashed ver v = true <-> ver = V1 /\ Z.to_nat Gen.v1_max_inline_value_size < length v) /\
  (must_be_hashed ver v = false ->
     enc H ver (Leaf pk v) = header leaf_bits 63 (N.of_nat (length pk)) ++ nibbles_to_key_le pk ++ scale_bytes v) /\
  (must_be_hashed ver v = true ->
     enc H ver (Leaf pk v) = header leaf_hashed_bits 31 (N.of_nat (length pk)) ++ nibbles_to_key_le pk ++ H v) /\
  must_be_hashed V0 v = false.
Proof.
  intros H ver pk v. split; [exact (must_be_hashed_gen ver v)|].
  split; [exact (enc_leaf_inline H ver pk v)|]. split; [exact (enc_leaf_hashed H ver pk v)|reflexivity].
Qed.
Print Assumptions C01_inline_rule_gen.

(* known answers (not derived from the Go code): the empty state root is the well-known constant
   03170a2e7597b7b7e3d84c05391d139a62b157e78786d8c082f29dcf4c111314 = BLAKE2b-256(0x00) *)
Example C01_known_answer_empty :
  spec blake2b_256 V0 [] =
  map n2b [3;23;10;46;117;151;183;183;227;216;76;5;57;29;19;154;98;177;87;231;135;134;216;192;130;242;157;207;76;17;19;20]%N
  /\ root blake2b_256 V1 [] = spec blake2b_256 V0 [].
Proof. vm_compute. split; reflexivity. Qed.

(* node encodings written out by hand from the Polkadot specification (section "Trie", node header
   = variant bits + partial key length, key nibbles packed big-end first with a leading half byte
   when odd, SCALE compact length before an inlined value, 2-byte little-endian children bitmap):
   - leaf, key nibbles 0 1, value aa:            0x42            01  04 aa
   - leaf, odd key nibbles 1 2 3, value (empty): 0x43            01 23  00
   - branch without value, no partial key, children 1 and 15 (each an inlined leaf of 3 bytes
     40 04 xx under SCALE length 0c):            0x80  02 80  0c 40 04 aa  0c 40 04 bb
   - branch with value cc, partial key nibble 7, child 0:  0xc1 07  01 00  04 cc  0c 40 04 aa *)
Example C01_known_answer_encodings :
  enc blake2b_256 V0 (Leaf [0;1]%nat [n2b 170]) = map n2b [66;1;4;170]%N /\
  enc blake2b_256 V1 (Leaf [1;2;3]%nat []) = map n2b [67;1;35;0]%N /\
  enc blake2b_256 V0 (Branch []%nat None
      (set_child (set_child no_children 1 (Some (Leaf []%nat [n2b 170]))) 15 (Some (Leaf []%nat [n2b 187]))))
    = map n2b [128;2;128;12;64;4;170;12;64;4;187]%N /\
  enc blake2b_256 V1 (Branch [7]%nat (Some [n2b 204]) (set_child no_children 0 (Some (Leaf []%nat [n2b 170]))))
    = map n2b [193;7;1;0;4;204;12;64;4;170]%N.
Proof. vm_compute. repeat split; reflexivity. Qed.

(* header length escape: 62, 63, 64 and 63+255 nibbles in a leaf (mask 63); 30, 31, 32 in a leaf
   with a hashed value (mask 31); 14, 15, 16 in a branch with a hashed value (mask 15) *)
Example C01_known_answer_headers :
  map (header leaf_bits 63) [62; 63; 64; 318]%N =
    [map n2b [126]; map n2b [127; 0]; map n2b [127; 1]; map n2b [127; 255; 0]]%N /\
  map (header leaf_hashed_bits 31) [30; 31; 32]%N = [map n2b [62]; map n2b [63; 0]; map n2b [63; 1]]%N /\
  map (header branch_hashed_bits 15) [14; 15; 16]%N = [map n2b [30]; map n2b [31; 0]; map n2b [31; 1]]%N.
Proof. vm_compute. repeat split; reflexivity. Qed.

(* a child encoding of exactly 31 bytes is embedded, one of 32 bytes is referenced by its hash *)
Example C01_known_answer_child_threshold :
  let leaf n := Leaf [1]%nat (repeat (n2b 7) n) in
  length (enc blake2b_256 V0 (leaf 28%nat)) = 31%nat /\ length (enc blake2b_256 V0 (leaf 29%nat)) = 32%nat /\
  merkle_value blake2b_256 V0 (leaf 28%nat) = enc blake2b_256 V0 (leaf 28%nat) /\
  merkle_value blake2b_256 V0 (leaf 29%nat) = blake2b_256 (enc blake2b_256 V0 (leaf 29%nat)).
Proof. vm_compute. repeat split; reflexivity. Qed.


(* ---------------- round 3: the encoding, clause by clause, from the wording of the Polkadot
   specification (node header, partial key, children bitmap, subvalue, children); proofs in ProofsEnc.v.
   These theorems are about Trie.Encode.enc — the encoder of the specification root — and do not
   mention the Go code: they are the independent check of the "encoding half" of the statement. -------- *)
(* variant bits of the first header byte: 01 leaf, 10 branch, 11 branch with value, 001 / 0001 hashed subvalue *)
Theorem C01_law_header_variant : forall is_branch has_value hashed n,
  let b := first_byte (node_header is_branch has_value hashed n) in
  match is_branch, has_value, hashed with
  | false, _, false => (b / 64 = 1)%N
  | false, _, true => (b / 32 = 1)%N
  | true, false, _ => (b / 64 = 2)%N
  | true, true, false => (b / 64 = 3)%N
  | true, true, true => (b / 16 = 1)%N
  end.
Proof. exact law_header_variant. Qed.
Print Assumptions C01_law_header_variant.

(* partial key length: in the low k bits if < 2^k - 1, else all ones + bytes of 255 + one byte < 255 *)
Theorem C01_law_header_length : forall bits mask n,
  In mask [15; 31; 63]%N -> (bits + mask < 256)%N -> (bits mod (mask + 1) = 0)%N ->
  exists b0 rest, header bits mask n = b0 :: rest /\
    (b2n b0 mod (mask + 1) = N.min n mask)%N /\
    ((n < mask)%N -> rest = []) /\
    ((mask <= n)%N -> exists q last, rest = repeat (n2b 255) q ++ [last] /\ (b2n last < 255)%N /\
                  (n = mask + 255 * N.of_nat q + b2n last)%N).
Proof. exact law_header_length. Qed.
Print Assumptions C01_law_header_length.

(* partial key: two nibbles per byte, high first; an odd count gets a leading zero nibble *)
Theorem C01_law_key_packing : forall k : key, nibbles_ok k ->
  key_le_to_nibbles (nibbles_to_key_le k) = if Nat.even (length k) then k else 0%nat :: k.
Proof. exact law_key_packing. Qed.
Print Assumptions C01_law_key_packing.

(* children bitmap: two bytes little endian, bit i set iff child i is present *)
Theorem C01_law_children_bitmap : forall cs, length cs = 16%nat ->
  length (children_bitmap cs) = 2%nat /\
  forall j, (j < 16)%nat -> N.testbit (le_val (children_bitmap cs)) (N.of_nat j) = is_some (child_at cs j).
Proof. exact law_children_bitmap. Qed.
Print Assumptions C01_law_children_bitmap.

(* subvalue: SCALE-encoded value, or its hash exactly when version 1 and longer than 32 bytes *)
Theorem C01_law_subvalue : forall H ver v,
  enc_value H ver v =
  match ver with V0 => scale_bytes v | V1 => if (32 <? length v)%nat then H v else scale_bytes v end.
Proof. exact law_subvalue. Qed.
Print Assumptions C01_law_subvalue.

(* SCALE compact length: value * 4 + mode, little endian, in 1 / 2 / 4 bytes *)
Theorem C01_law_compact : forall n, (n < 2 ^ 30)%N ->
  (le_val (compact n) = 4 * n + (if n <? 64 then 0 else if n <? 16384 then 1 else 2))%N /\
  length (compact n) = if (n <? 64)%N then 1%nat else if (n <? 16384)%N then 2%nat else 4%nat.
Proof. exact law_compact. Qed.
Print Assumptions C01_law_compact.

(* a child is referenced by its encoding if shorter than 32 bytes, else by the hash of the encoding *)
Theorem C01_law_child_reference : forall H ver c,
  merkle_value H ver c = if (length (enc H ver c) <? 32)%nat then enc H ver c else H (enc H ver c).
Proof. exact law_child_reference. Qed.
Print Assumptions C01_law_child_reference.

(* A third-party state-version-1 node (round 4): Example v1_third_party_leaf in ProofsEnc.v — the
   hashed-value leaf of a live relay-chain storage proof quoted in pkg/trie/inmemory/proof/proof_test.go is
   reproduced byte for byte by enc from its partial key and its 188-byte value (and not under V0). *)
Example C01_v1_third_party_leaf :
  enc blake2b_256 V1 (Leaf (key_le_to_nibbles tp_leaf_key) tp_value) = tp_leaf_node.
Proof. exact (proj1 (proj2 v1_third_party_leaf)). Qed.

(* layout of the two node kinds *)
Theorem C01_law_node_layout : forall H ver pk,
  (forall v, enc H ver (Leaf pk v) =
     node_header false true (must_be_hashed ver v) (N.of_nat (length pk)) ++ nibbles_to_key_le pk ++ enc_value H ver v) /\
  (forall ov cs, enc H ver (Branch pk ov cs) =
     node_header true (is_some ov) (match ov with Some v => must_be_hashed ver v | None => false end) (N.of_nat (length pk))
     ++ nibbles_to_key_le pk ++ children_bitmap cs
     ++ (match ov with Some v => enc_value H ver v | None => [] end)
     ++ concat (map (fun c => scale_bytes (merkle_value H ver c)) (present cs))).
Proof. intros H ver pk. split; [exact (law_leaf_layout H ver pk)|exact (law_branch_layout H ver pk)]. Qed.
Print Assumptions C01_law_node_layout.

(* non-vacuity: a branch with a value and an inlined child; a delete that merges a branch back into
   a leaf; a 64-nibble partial key; version 1 with a 33-byte value *)
Example C01_nonvacuous_branch_with_value :
  let ops := [Put [n2b 1] [n2b 170]; Put [n2b 1; n2b 2] [n2b 187]; Put [n2b 1; n2b 3] [n2b 204]] in
  hits_delete_exhausted None ops = false /\
  run ops = Some (Branch [0; 1]%nat (Some [n2b 170])
                   (set_child no_children 0 (Some (Branch []%nat None
                      (set_child (set_child no_children 2 (Some (Leaf [] [n2b 187]))) 3 (Some (Leaf [] [n2b 204]))))))).
Proof. vm_compute. split; reflexivity. Qed.

Example C01_nonvacuous_merge :
  let ops := [Put [n2b 1; n2b 2] [n2b 187]; Put [n2b 1; n2b 3] [n2b 204]; Del [n2b 1; n2b 3]] in
  hits_delete_exhausted None ops = false /\ run ops = Some (Leaf [0; 1; 0; 2]%nat [n2b 187]) /\
  length (map_of ops) = 1%nat.
Proof. vm_compute. repeat split; reflexivity. Qed.

Example C01_nonvacuous_v1_hashed :
  let v := repeat (n2b 7) 33 in
  must_be_hashed V1 v = true /\ must_be_hashed V0 v = false /\ must_be_hashed V1 (repeat (n2b 7) 32) = false /\
  root blake2b_256 V1 [Put [n2b 1] v] <> root blake2b_256 V0 [Put [n2b 1] v].
Proof. vm_compute. repeat split; try reflexivity. discriminate. Qed.

Example C01_nonvacuous_long_partial_key :
  let k := repeat (n2b 17) 32 in
  match run [Put k [n2b 1]] with Some (Leaf pk _) => length pk = 64%nat | _ => False end /\
  length (header leaf_bits 63 64) = 2%nat.
Proof. vm_compute. split; reflexivity. Qed.
