From Coq Require Import Extraction ExtrOcamlBasic.
From Common Require Import Bytes Drv Blake2b Outcome.
From Trie Require Import Nibbles Node Encode Model Spec.
From C01 Require Import Model.
Extraction "model.ml" drv_b2n drv_n2b drv_z_of_n drv_n_of_z drv_nat_of_n drv_n_of_nat
  run run_pinned map_of step hits_delete_exhausted layout_ops
  enc must_be_hashed trie_root build_trie kv_of_bmap spec_root_bytes blake2b_256 V0 V1.
