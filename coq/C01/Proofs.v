(* C01/Proofs.v — the state root of every put/delete history is the spec root of the map it denotes. *)
From Common Require Import Bytes Blake2b.
From Trie Require Import Nibbles Node Encode Model Spec NibblesProofs Sem InsertProofs DeleteProofs BuildProofs MapProofs
     QueryProofs SpecProofs.
From C01 Require Import Model.
From C01 Require Gen.
From Coq Require Import Arith Lia.

Lemma run_rep ops : forall t m, Rep t m -> hits_delete_exhausted t ops = false ->
  Rep (fold_left step ops t) (fold_left map_step ops m).
Proof.
  induction ops as [|o ops IH]; intros t m R G; simpl in *; auto.
  apply orb_false_iff in G as [G1 G2]. apply IH; auto.
  destruct o as [k v|k]; simpl.
  - now apply Rep_put.
  - now apply Rep_delete.
Qed.

Theorem root_spec H ver ops : hits_delete_exhausted None ops = false -> root H ver ops = spec H ver ops.
Proof.
  intros G. unfold root, spec, run, map_of. apply Rep_root. apply run_rep; auto. apply Rep_empty.
Qed.

(* a sufficient condition on the history alone: no Delete of the empty key *)
Definition no_empty_delete (ops : list op) : bool :=
  forallb (fun o => match o with Del [] => false | _ => true end) ops.

Lemma no_empty_delete_guard ops : no_empty_delete ops = true -> forall t, hits_delete_exhausted t ops = false.
Proof.
  induction ops as [|o ops IH]; intros N t; simpl in *; auto.
  apply andb_true_iff in N as [N1 N2]. rewrite (IH N2). rewrite orb_false_r.
  destruct o as [k v|[|b k]]; auto; try discriminate.
Qed.

Theorem root_spec_no_empty_delete H ver ops : no_empty_delete ops = true -> root H ver ops = spec H ver ops.
Proof. intros N. apply root_spec. now apply no_empty_delete_guard. Qed.

Definition puts_only (ops : list op) : bool :=
  forallb (fun o => match o with Put _ _ => true | Del _ => false end) ops.
Theorem root_spec_puts H ver ops : puts_only ops = true -> root H ver ops = spec H ver ops.
Proof.
  intros P. apply root_spec_no_empty_delete. unfold puts_only, no_empty_delete in *.
  rewrite forallb_forall in *. intros o Ho. specialize (P o Ho). destruct o; [reflexivity|discriminate].
Qed.

Theorem order_independent H ver ops1 ops2 :
  hits_delete_exhausted None ops1 = false -> hits_delete_exhausted None ops2 = false ->
  map_of ops1 = map_of ops2 -> root H ver ops1 = root H ver ops2.
Proof. intros G1 G2 E. rewrite !root_spec by assumption. unfold spec. now rewrite E. Qed.

Lemma empty_root H ver : root H ver [] = H [n2b 0].
Proof. reflexivity. Qed.

Lemma inline_rule H ver v :
  enc_value H ver v = if must_be_hashed ver v then H v else scale_bytes v.
Proof. reflexivity. Qed.
Lemma must_be_hashed_iff ver v : must_be_hashed ver v = true <-> ver = V1 /\ 32 < length v.
Proof.
  unfold must_be_hashed, v1_max_inline_value. destruct ver; split.
  - discriminate.
  - intros [? _]; discriminate.
  - intros H. split; auto. now apply Nat.ltb_lt.
  - intros [_ H]. now apply Nat.ltb_lt.
Qed.

(* the unguarded statement fails for the model of the (repaired) code: Delete("") on a one-key trie *)
Definition witness_empty_delete : list op := [Put [n2b 16] [n2b 1]; Del []].
Lemma empty_delete_refuted :
  root blake2b_256 V0 witness_empty_delete <> spec blake2b_256 V0 witness_empty_delete.
Proof. vm_compute. discriminate. Qed.

(* the pinned tree (before fix: Delete leaves the trie unchanged when the key diverges ...) *)
Definition witness_diverging_delete : list op :=
  [Put [n2b 18; n2b 52; n2b 86] [n2b 1]; Put [n2b 18; n2b 60; n2b 86] [n2b 2]; Del [n2b 28; n2b 86]].
Lemma pinned_diverging_delete_refuted :
  no_empty_delete witness_diverging_delete = true /\
  root_pinned blake2b_256 V0 witness_diverging_delete <> spec blake2b_256 V0 witness_diverging_delete.
Proof. split; [reflexivity|]. vm_compute. discriminate. Qed.
Definition witness_nested_delete : list op :=
  [Put [n2b 171; n2b 18] [n2b 1]; Put [n2b 172; n2b 52] [n2b 2]; Del [n2b 171]].
Lemma pinned_nested_delete_refuted :
  no_empty_delete witness_nested_delete = true /\
  root_pinned blake2b_256 V0 witness_nested_delete <> spec blake2b_256 V0 witness_nested_delete.
Proof. split; [reflexivity|]. vm_compute. discriminate. Qed.

(* ====================================================================================
   Added by the audit round.
   ==================================================================================== *)
(* the literal constants of the Go source the statements depend on (Gen.v is regenerated from
   pkg/trie/layout.go and pkg/trie/node/children.go on every check run) *)
Example gen_v1_max_inline_value : Gen.v1_max_inline_value_size = Z.of_nat v1_max_inline_value.
Proof. reflexivity. Qed.
Example gen_children_capacity :
  Gen.children_capacity = Z.of_nat children_capacity /\ length no_children = Z.to_nat Gen.children_capacity.
Proof. split; reflexivity. Qed.

Lemma must_be_hashed_gen ver v :
  must_be_hashed ver v = true <-> ver = V1 /\ Z.to_nat Gen.v1_max_inline_value_size < length v.
Proof. rewrite must_be_hashed_iff. reflexivity. Qed.

(* ---- "for every finite key/value map": every sorted association list is denoted by a history,
   and the canonical trie the specification root is computed from holds exactly that map ---- *)
Definition history_of (m : bmap) : list op := map (fun e => Put (fst e) (snd e)) (rev m).

Lemma history_of_puts m : puts_only (history_of m) = true.
Proof.
  unfold puts_only, history_of. apply forallb_forall. intros o Ho.
  apply in_map_iff in Ho as (e & <- & _). reflexivity.
Qed.

Lemma map_of_history m : bm_sorted m = true -> map_of (history_of m) = m.
Proof.
  induction m as [|[k v] r IH]; intros S; [reflexivity|].
  unfold map_of, history_of in *. cbn [rev]. rewrite map_app, fold_left_app. cbn [map fold_left map_step fst snd].
  rewrite IH by (eapply bm_sorted_tail; eauto). now apply bm_put_head.
Qed.

(* the maps histories denote are sorted association lists (so [spec] is always applied to one) *)
Lemma map_of_sorted ops : hits_delete_exhausted None ops = false -> bm_sorted (map_of ops) = true.
Proof.
  intros G. apply (Rep_sorted_bmap (run ops)). unfold run, map_of. apply run_rep; auto. apply Rep_empty.
Qed.

(* the statement quantified over maps: every guard-free history that denotes m has the spec root of
   m, and at least one history (inserts only) denotes m *)
Theorem root_of_every_map H ver m : bm_sorted m = true ->
  (exists ops, puts_only ops = true /\ map_of ops = m) /\
  (forall ops, hits_delete_exhausted None ops = false -> map_of ops = m ->
     root H ver ops = spec_root_bytes H ver m).
Proof.
  intros S. split.
  - exists (history_of m). split; [apply history_of_puts|now apply map_of_history].
  - intros ops G E. rewrite root_spec by exact G. unfold spec. now rewrite E.
Qed.

(* the trie behind the specification root is the radix-16 trie OF THE MAP: it is in canonical form,
   its in-order entry list is the map, and looking a key up in it gives the map's value *)
Theorem spec_trie_adequate m : bm_sorted m = true ->
  let st := build_trie (kv_of_bmap m) in
  Canon_opt st /\ entries st = kv_of_bmap m /\
  (forall k, lookup_opt st (key_le_to_nibbles k) = bm_get m k) /\
  (forall t, Rep t m -> t = st).
Proof.
  intros S st. pose proof (build_trie_adequate m S) as R. fold st in R.
  split; [exact (proj1 R)|]. split; [exact (proj2 R)|]. split.
  - intros k. now apply Rep_lookup.
  - intros t Rt. exact (Rep_unique t st m Rt R).
Qed.

(* the state after a guard-free history IS the specification trie (structural uniqueness): this is
   what root_spec rests on; no property of the hash function is involved *)
Theorem run_is_spec_trie ops : hits_delete_exhausted None ops = false ->
  run ops = build_trie (kv_of_bmap (map_of ops)).
Proof.
  intros G. assert (R : Rep (run ops) (map_of ops)).
  { unfold run, map_of. apply run_rep; auto. apply Rep_empty. }
  destruct R as [C E]. rewrite <- E. symmetry. now apply build_trie_entries_opt.
Qed.

(* the encoding clauses of the statement, on the model encoder (which the specification root uses
   too, see the note in Properties.v): a leaf with an inlined value, a hashed value, the empty trie *)
Lemma enc_leaf_inline H ver pk v : must_be_hashed ver v = false ->
  enc H ver (Leaf pk v) =
  header leaf_bits 63 (N.of_nat (length pk)) ++ nibbles_to_key_le pk ++ scale_bytes v.
Proof. intros M. cbn [enc]. unfold enc_value, node_header. now rewrite M. Qed.
Lemma enc_leaf_hashed H ver pk v : must_be_hashed ver v = true ->
  enc H ver (Leaf pk v) =
  header leaf_hashed_bits 31 (N.of_nat (length pk)) ++ nibbles_to_key_le pk ++ H v.
Proof. intros M. cbn [enc]. unfold enc_value, node_header. now rewrite M. Qed.
Lemma v0_never_hashes v : must_be_hashed V0 v = false.
Proof. reflexivity. Qed.
