(* C01/Proofs.v — the state root of every put/delete history is the spec root of the map it denotes. *)
From Common Require Import Bytes Blake2b.
From Trie Require Import Nibbles Node Encode Model Spec NibblesProofs Sem InsertProofs DeleteProofs BuildProofs MapProofs.
From C01 Require Import Model.
From Coq Require Import Arith Lia.

Lemma run_rep ops : forall t m, Rep t m -> hits_delete_exhausted t ops = false ->
  Rep (fold_left step ops t) (fold_left map_step ops m).
Proof.
  induction ops as [|o ops IH]; intros t m R G; simpl in *; auto.
  apply orb_false_iff in G as [G1 G2]. apply IH; auto.
  destruct o as [k v|k]; simpl.
  - now apply Rep_put.
  - now apply Rep_delete.
Qed.

Theorem root_spec H ver ops : hits_delete_exhausted None ops = false -> root H ver ops = spec H ver ops.
Proof.
  intros G. unfold root, spec, run, map_of. apply Rep_root. apply run_rep; auto. apply Rep_empty.
Qed.

(* a sufficient condition on the history alone: no Delete of the empty key *)
Definition no_empty_delete (ops : list op) : bool :=
  forallb (fun o => match o with Del [] => false | _ => true end) ops.

Lemma no_empty_delete_guard ops : no_empty_delete ops = true -> forall t, hits_delete_exhausted t ops = false.
Proof.
  induction ops as [|o ops IH]; intros N t; simpl in *; auto.
  apply andb_true_iff in N as [N1 N2]. rewrite (IH N2). rewrite orb_false_r.
  destruct o as [k v|[|b k]]; auto; try discriminate.
Qed.

Theorem root_spec_no_empty_delete H ver ops : no_empty_delete ops = true -> root H ver ops = spec H ver ops.
Proof. intros N. apply root_spec. now apply no_empty_delete_guard. Qed.

Definition puts_only (ops : list op) : bool :=
  forallb (fun o => match o with Put _ _ => true | Del _ => false end) ops.
Theorem root_spec_puts H ver ops : puts_only ops = true -> root H ver ops = spec H ver ops.
Proof.
  intros P. apply root_spec_no_empty_delete. unfold puts_only, no_empty_delete in *.
  rewrite forallb_forall in *. intros o Ho. specialize (P o Ho). destruct o; [reflexivity|discriminate].
Qed.

Theorem order_independent H ver ops1 ops2 :
  hits_delete_exhausted None ops1 = false -> hits_delete_exhausted None ops2 = false ->
  map_of ops1 = map_of ops2 -> root H ver ops1 = root H ver ops2.
Proof. intros G1 G2 E. rewrite !root_spec by assumption. unfold spec. now rewrite E. Qed.

Lemma empty_root H ver : root H ver [] = H [n2b 0].
Proof. reflexivity. Qed.

Lemma inline_rule H ver v :
  enc_value H ver v = if must_be_hashed ver v then H v else scale_bytes v.
Proof. reflexivity. Qed.
Lemma must_be_hashed_iff ver v : must_be_hashed ver v = true <-> ver = V1 /\ 32 < length v.
Proof.
  unfold must_be_hashed, v1_max_inline_value. destruct ver; split.
  - discriminate.
  - intros [? _]; discriminate.
  - intros H. split; auto. now apply Nat.ltb_lt.
  - intros [_ H]. now apply Nat.ltb_lt.
Qed.

(* the unguarded statement fails for the model of the (repaired) code: Delete("") on a one-key trie *)
Definition witness_empty_delete : list op := [Put [n2b 16] [n2b 1]; Del []].
Lemma empty_delete_refuted :
  root blake2b_256 V0 witness_empty_delete <> spec blake2b_256 V0 witness_empty_delete.
Proof. vm_compute. discriminate. Qed.

(* the pinned tree (before fix: Delete leaves the trie unchanged when the key diverges ...) *)
Definition witness_diverging_delete : list op :=
  [Put [n2b 18; n2b 52; n2b 86] [n2b 1]; Put [n2b 18; n2b 60; n2b 86] [n2b 2]; Del [n2b 28; n2b 86]].
Lemma pinned_diverging_delete_refuted :
  no_empty_delete witness_diverging_delete = true /\
  root_pinned blake2b_256 V0 witness_diverging_delete <> spec blake2b_256 V0 witness_diverging_delete.
Proof. split; [reflexivity|]. vm_compute. discriminate. Qed.
Definition witness_nested_delete : list op :=
  [Put [n2b 171; n2b 18] [n2b 1]; Put [n2b 172; n2b 52] [n2b 2]; Del [n2b 171]].
Lemma pinned_nested_delete_refuted :
  no_empty_delete witness_nested_delete = true /\
  root_pinned blake2b_256 V0 witness_nested_delete <> spec blake2b_256 V0 witness_nested_delete.
Proof. split; [reflexivity|]. vm_compute. discriminate. Qed.
