(* C01/ProofsEnc.v — the node encoding clause by clause (audit round 3).
   Each theorem states one sentence of the Polkadot specification (chapter "State storage and the
   trie": node header, partial key, children bitmap, subvalue, children) about Trie.Encode.enc in
   arithmetic terms, so that the encoder which the specification root and the model share is checked
   against the wording of the specification and not only against the Go code. *)
From Common Require Import Bytes Blake2b.
From Trie Require Import Nibbles Node Encode Model Spec NibblesProofs.
From Coq Require Import Arith Lia ZifyN ZifyNat ZifyBool.
Local Open Scope N_scope.
Ltac Zify.zify_post_hook ::= Z.div_mod_to_equations.

Definition first_byte (l : list byte) : N := match l with b :: _ => b2n b | [] => 0 end.
Fixpoint sum_bytes (l : list byte) : N := match l with [] => 0 | b :: r => b2n b + sum_bytes r end.

Lemma first_byte_header bits mask n : bits + mask < 256 ->
  first_byte (header bits mask n) = bits + N.min n mask.
Proof.
  intros B. unfold header. destruct (N.ltb_spec n mask); cbn [first_byte]; rewrite b2n_n2b_small by lia; lia.
Qed.

(* "The most significant bits of the first byte give the variant: 01 leaf, 10 branch without value,
   11 branch with value, 001 leaf with hashed subvalue, 0001 branch with hashed subvalue." *)
Theorem law_header_variant is_branch has_value hashed n :
  let b := first_byte (node_header is_branch has_value hashed n) in
  match is_branch, has_value, hashed with
  | false, _, false => b / 64 = 1
  | false, _, true => b / 32 = 1
  | true, false, _ => b / 64 = 2
  | true, true, false => b / 64 = 3
  | true, true, true => b / 16 = 1
  end.
Proof.
  cbv zeta. unfold node_header, leaf_bits, leaf_hashed_bits, branch_bits, branch_value_bits, branch_hashed_bits.
  destruct is_branch, has_value, hashed; cbn [negb]; rewrite first_byte_header by lia; lia.
Qed.

(* "The remaining k bits hold the partial key length if it is smaller than 2^k - 1; otherwise they are
   all ones and the length continues in the following bytes: every byte 255 adds 255, the first byte
   smaller than 255 adds its value and ends the header."  (k = 6, 5, 4: masks 63, 31, 15) *)
Theorem law_header_length bits mask n : In mask [15; 31; 63] -> bits + mask < 256 -> bits mod (mask + 1) = 0 ->
  exists b0 rest, header bits mask n = b0 :: rest /\
    b2n b0 mod (mask + 1) = N.min n mask /\
    (n < mask -> rest = []) /\
    (mask <= n -> exists q last, rest = repeat (n2b 255) q ++ [last] /\ b2n last < 255 /\
                  n = mask + 255 * N.of_nat q + b2n last).
Proof.
  intros M B D. unfold header. destruct (N.ltb_spec n mask) as [Lt|Ge].
  - exists (n2b (bits + n)), []. split; [reflexivity|]. rewrite b2n_n2b_small by lia.
    split; [|split; [reflexivity|lia]].
    destruct M as [<-|[<-|[<-|[]]]]; lia.
  - exists (n2b (bits + mask)), (pk_len_rest (n - mask)). split; [reflexivity|]. rewrite b2n_n2b_small by lia.
    split; [destruct M as [<-|[<-|[<-|[]]]]; lia|]. split; [lia|]. intros _.
    unfold pk_len_rest. exists (N.to_nat ((n - mask) / 255)), (n2b ((n - mask) mod 255)).
    split; [reflexivity|]. rewrite b2n_n2b_small by lia. split; [lia|]. rewrite N2Nat.id. lia.
Qed.

(* ---------- children bitmap ---------- *)
(* "two bytes, little endian, bit i set iff the branch has a child with index i" *)
Fixpoint bitmap_bools (i : N) (l : list bool) : N :=
  match l with [] => 0 | b :: r => (if b then 2 ^ i else 0) + bitmap_bools (i + 1) r end.
Lemma bitmap_from_bools i cs : bitmap_from i cs = bitmap_bools i (map is_some cs).
Proof. revert i; induction cs as [|[c|] cs IH]; intros i; simpl; auto; now rewrite IH. Qed.

Fixpoint all_bools (n : nat) : list (list bool) :=
  match n with O => [[]] | S k => flat_map (fun l => [true :: l; false :: l]) (all_bools k) end.
Lemma all_bools_complete l : In l (all_bools (length l)).
Proof.
  induction l as [|b l IH]; simpl; auto. apply in_flat_map. exists l. split; auto. destruct b; simpl; auto.
Qed.
Definition bitmap_ok (l : list bool) : bool :=
  (bitmap_bools 0 l <? 65536) &&
  forallb (fun j => Bool.eqb (N.testbit (bitmap_bools 0 l) (N.of_nat j)) (nth j l false)) (seq 0 16).
Lemma bitmap_sweep : forallb bitmap_ok (all_bools 16) = true.
Proof. vm_compute. reflexivity. Qed.

Theorem law_children_bitmap cs : length cs = 16%nat ->
  length (children_bitmap cs) = 2%nat /\
  forall j, (j < 16)%nat -> N.testbit (le_val (children_bitmap cs)) (N.of_nat j) = is_some (child_at cs j).
Proof.
  intros L. unfold children_bitmap. split; [apply le_bytes_length|]. intros j Hj.
  pose proof (proj1 (forallb_forall _ _) bitmap_sweep (map is_some cs)) as X.
  rewrite <- (map_length is_some cs) in L. rewrite <- L in X at 1. specialize (X (all_bools_complete _)).
  unfold bitmap_ok in X. apply andb_true_iff in X as [X1 X2]. apply N.ltb_lt in X1.
  rewrite bitmap_from_bools, le_val_le_bytes_small by exact X1.
  rewrite forallb_forall in X2. specialize (X2 j). rewrite in_seq in X2. specialize (X2 ltac:(lia)).
  apply Bool.eqb_prop in X2. rewrite X2. unfold child_at.
  change false with (is_some (@None tnode)). now rewrite map_nth.
Qed.

(* ---------- subvalue and children ---------- *)
(* "a child is referenced by its Merkle value: the encoding itself if it is shorter than 32 bytes,
   else its 32-byte hash" *)
Theorem law_child_reference H ver c :
  merkle_value H ver c = if (length (enc H ver c) <? 32)%nat then enc H ver c else H (enc H ver c).
Proof. reflexivity. Qed.

(* "the subvalue is the SCALE-encoded value, or — state version 1, value longer than 32 bytes — its hash" *)
Theorem law_subvalue H ver v :
  enc_value H ver v =
  match ver with
  | V0 => scale_bytes v
  | V1 => if (32 <? length v)%nat then H v else scale_bytes v
  end.
Proof. unfold enc_value, must_be_hashed, v1_max_inline_value. destruct ver; reflexivity. Qed.

Definition present (cs : list (option tnode)) : list tnode :=
  flat_map (fun oc => match oc with Some c => [c] | None => [] end) cs.

(* "branch = header || partial key || children bitmap || subvalue (if any) || for every present child,
   in index order, the SCALE-encoded Merkle value of the child"; "leaf = header || partial key || subvalue" *)
Theorem law_branch_layout H ver pk ov cs :
  enc H ver (Branch pk ov cs) =
  node_header true (is_some ov) (match ov with Some v => must_be_hashed ver v | None => false end) (N.of_nat (length pk))
  ++ nibbles_to_key_le pk ++ children_bitmap cs
  ++ (match ov with Some v => enc_value H ver v | None => [] end)
  ++ concat (map (fun c => scale_bytes (merkle_value H ver c)) (present cs)).
Proof.
  cbn [enc]. destruct ov; cbn [is_some]; do 4 f_equal;
    (induction cs as [|[c|] cs IH]; simpl; auto; now rewrite IH).
Qed.
Theorem law_leaf_layout H ver pk v :
  enc H ver (Leaf pk v) =
  node_header false true (must_be_hashed ver v) (N.of_nat (length pk)) ++ nibbles_to_key_le pk ++ enc_value H ver v.
Proof. reflexivity. Qed.

(* SCALE compact length prefix: "the two least significant bits of the first byte are the mode (00 one
   byte, 01 two bytes, 10 four bytes), the remaining bits the number, little endian" *)
Theorem law_compact n : n < 2 ^ 30 ->
  le_val (compact n) = 4 * n + (if n <? 64 then 0 else if n <? 16384 then 1 else 2) /\
  length (compact n) = if n <? 64 then 1%nat else if n <? 16384 then 2%nat else 4%nat.
Proof.
  intros B. unfold compact. change (2 ^ 30) with 1073741824 in B.
  destruct (N.ltb_spec n 64); [|destruct (N.ltb_spec n 16384); [|destruct (N.ltb_spec n 1073741824); [|lia]]].
  - cbn [le_val length]. rewrite b2n_n2b_small by lia. split; [lia|reflexivity].
  - rewrite le_val_le_bytes_small, le_bytes_length by (change (256 ^ N.of_nat 2) with 65536; lia). split; [lia|reflexivity].
  - rewrite le_val_le_bytes_small, le_bytes_length by (change (256 ^ N.of_nat 4) with 4294967296; lia). split; [lia|reflexivity].
Qed.

(* ---------- partial key ---------- *)
(* "the nibbles are packed two per byte, most significant first; an odd number of nibbles is preceded by a
   zero nibble (the first byte holds the first nibble alone)" *)
Lemma nib_byte_hi a b : (a < 16)%nat -> (b < 16)%nat -> hi_nib (nib_byte a b) = a /\ lo_nib (nib_byte a b) = b.
Proof.
  intros A B. unfold hi_nib, lo_nib, nib_byte. rewrite !Nat.mod_small by lia. rewrite b2n_n2b_small by lia. split; lia.
Qed.
Lemma unpack_pack_pairs : forall n (k : key), length k = (2 * n)%nat -> nibbles_ok k ->
  key_le_to_nibbles (pack_pairs k) = k.
Proof.
  induction n as [|n IH]; intros k L Hk.
  - destruct k; [reflexivity|discriminate].
  - destruct k as [|a [|b r]]; try (simpl in L; lia). cbn [pack_pairs key_le_to_nibbles].
    inversion Hk as [|? ? Ha Hk']; subst. inversion Hk' as [|? ? Hb Hr]; subst.
    destruct (nib_byte_hi a b Ha Hb) as [-> ->]. rewrite IH; auto. simpl in L. lia.
Qed.
Theorem law_key_packing (k : key) : nibbles_ok k ->
  key_le_to_nibbles (nibbles_to_key_le k) = if Nat.even (length k) then k else 0%nat :: k.
Proof.
  intros Hk. unfold nibbles_to_key_le. destruct (Nat.even (length k)) eqn:Ev.
  - apply Nat.even_spec in Ev as [n E]. now apply (unpack_pack_pairs n).
  - destruct k as [|a r]; [discriminate|]. inversion Hk as [|? ? Ha Hr]; subst.
    cbn [key_le_to_nibbles]. unfold hi_nib, lo_nib. rewrite b2n_n2b_small by lia.
    assert (Er : Nat.even (length r) = true).
    { cbn [length] in Ev. rewrite Nat.even_succ in Ev. rewrite <- Nat.negb_odd in *. destruct (Nat.odd (length r)); auto; discriminate. }
    apply Nat.even_spec in Er as [n E]. rewrite (unpack_pack_pairs n r E Hr). f_equal; [lia|f_equal; lia].
Qed.

(* ---------- state version 1: hand-derived encodings with hashed subvalues ----------
   (digests are BLAKE2b-256 of hand-written pre-images; v33 = 33 bytes 0x07)
   leaf, key nibbles 0 1, hashed value:               0x22 01 || H(v33)              (001 00010)
   leaf with 31 nibbles 5 (escape of the 5-bit field): 0x3f 00 05 55*15 || H(v33)
   branch, key nibble 7, hashed value, child 3 = inlined leaf (empty key, value aa):
                                                       0x11 07 | 08 00 | H(v33) | 0c 40 04 aa
   branch without value, child 0 = leaf (key 1, hashed v33: 34 bytes, referenced by hash),
   child 2 = inlined leaf:                             0x80 | 05 00 | 80 H(21 01 || H(v33)) | 0c 40 04 01 *)
Definition v33 : list byte := repeat (n2b 7) 33.
Example v1_vectors :
  enc blake2b_256 V1 (Leaf [0;1]%nat v33) = map n2b [34; 1] ++ blake2b_256 v33 /\
  enc blake2b_256 V1 (Leaf (repeat 5%nat 31) v33) = map n2b (63 :: 0 :: 5 :: repeat 85 15) ++ blake2b_256 v33 /\
  enc blake2b_256 V1 (Branch [7]%nat (Some v33) (set_child no_children 3 (Some (Leaf []%nat [n2b 170]))))
    = map n2b [17; 7; 8; 0] ++ blake2b_256 v33 ++ map n2b [12; 64; 4; 170] /\
  enc blake2b_256 V1 (Branch []%nat None
      (set_child (set_child no_children 0 (Some (Leaf [1]%nat v33))) 2 (Some (Leaf []%nat [n2b 1]))))
    = map n2b [128; 5; 0] ++ (n2b 128 :: blake2b_256 (map n2b [33; 1] ++ blake2b_256 v33)) ++ map n2b [12; 64; 4; 1] /\
  (* the same 33-byte value is inlined under state version 0: 0x42 01 | 84 (33*4) | v33 *)
  enc blake2b_256 V0 (Leaf [0;1]%nat v33) = map n2b [66; 1; 132] ++ v33.
Proof. vm_compute. repeat split; reflexivity. Qed.

(* ---------- state version 1: a third-party node (round 4) ----------
   /repo pkg/trie/inmemory/proof/proof_test.go, TestParachainHeaderStateProof, quotes a storage proof
   taken from a live relay chain (Paras::Heads entry, state version 1): its first node is a LEAF WITH A
   HASHED VALUE (header 0x36 = 001 10110: 22 nibbles) and its last item is the value itself.  Encoding the
   leaf (that partial key, that value) under V1 with the encoder of the specification root reproduces the
   node byte for byte: header variant, key packing and the 32-byte value hash agree with what a Substrate
   node produced.  The bytes below are copied from the test file. *)
Definition tp_leaf_key : list byte := map n2b [255; 111; 125; 70; 123; 135; 169; 232; 3; 0; 0]%N.
Definition tp_value : list byte := map n2b [233; 2; 17; 106; 40; 17; 234; 170; 55; 47; 205; 140; 118; 155; 95; 67; 61; 57; 149; 135; 43; 33; 196; 104; 220; 252; 98; 112; 225; 249; 250; 7; 22; 126; 170; 76; 124; 0; 245; 249; 129; 192; 180; 218; 254; 60; 16; 41; 231; 15; 178; 144; 41; 79; 194; 31; 4; 1; 151; 172; 0; 242; 9; 219; 246; 89; 169; 123; 216; 63; 125; 195; 252; 66; 233; 133; 144; 94; 162; 49; 59; 37; 81; 183; 38; 146; 81; 14; 151; 68; 73; 59; 213; 37; 5; 94; 39; 226; 149; 148; 138; 17; 8; 6; 97; 117; 114; 97; 32; 146; 213; 92; 8; 0; 0; 0; 0; 5; 97; 117; 114; 97; 1; 1; 22; 253; 79; 237; 184; 236; 216; 235; 160; 217; 7; 183; 189; 83; 75; 38; 11; 192; 184; 106; 14; 154; 31; 216; 241; 140; 184; 94; 144; 115; 244; 66; 166; 169; 245; 70; 11; 251; 36; 67; 188; 230; 123; 143; 219; 161; 123; 189; 41; 39; 189; 173; 143; 198; 174; 2; 28; 3; 226; 200; 179; 227; 62; 137]%N.
Definition tp_leaf_node : list byte := map n2b [54; 255; 111; 125; 70; 123; 135; 169; 232; 3; 0; 0; 33; 89; 15; 72; 177; 24; 145; 174; 225; 242; 129; 248; 86; 37; 111; 55; 162; 15; 138; 188; 93; 2; 116; 52; 248; 157; 210; 222; 202; 185; 34; 254]%N.
Example v1_third_party_leaf :
  length tp_value = 188%nat /\
  enc blake2b_256 V1 (Leaf (key_le_to_nibbles tp_leaf_key) tp_value) = tp_leaf_node /\
  enc blake2b_256 V0 (Leaf (key_le_to_nibbles tp_leaf_key) tp_value) <> tp_leaf_node.
Proof. vm_compute. split; [reflexivity|]. split; [reflexivity|discriminate]. Qed.
