From Coq Require Import Extraction ExtrOcamlBasic.
From Common Require Import Bytes Outcome Drv Blake2b.
From TrieCodec Require Import ProofsDb ProofsWrite.
From C04 Require Import ProofsDiscipline.
From C04 Require Import Model.
Extraction "model.ml" drv_b2n drv_n2b drv_z_of_n drv_n_of_z drv_nat_of_n drv_n_of_nat
  hash256 encode erase entries lookup_bytes load_all get_from_db_fixed get_from_db_pinned
  write_dirty_fixed write_dirty_pinned db_get empty_root wf_node
  needs needs_clean wd_puts write_dirty_node norm parts all_sub pneeds.
