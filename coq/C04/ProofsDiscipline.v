(* C04/ProofsDiscipline.v — the Dirty-flag discipline, stated on trees and tied to histories.

   C04_history assumes, for every write, that what WriteDirty skips (clean subtrees) is already in
   the database [needs_clean].  Here that semantic hypothesis is derived from a syntactic contract
   with the trie mutation code (Put / Delete / ClearPrefix / Snapshot, not modelled here):

     a node of the trie being persisted is clean (Dirty = false) only if it is — with all its
     fields and descendants — a node of a trie persisted earlier in the history (or of the state
     the history started from, e.g. one built by Load); below a dirty inlined node, which WriteDirty
     marks clean without visiting its children, the same holds for the children.

   [parts r w] lists exactly those nodes; [dchain] is a history in which every written trie honours
   the contract with respect to the tries persisted before it; dchain_chain shows that such a
   history is a [chain], so C04_history / C04_history_reads apply to it.  The driver evaluates the
   contract on every dumped tree of every run (the Go side of the tie). *)
From Common Require Import Bytes Outcome Blake2b.
From Coq Require Import Strings.Byte ZifyN ZifyNat ZifyBool.
From TrieCodec Require Import Codec View Db ProofsBasic ProofsDecode ProofsDb ProofsWrite.
From C04 Require Import Model Proofs.
Local Open Scope N_scope.

Section Discipline.
Variable H : list byte -> list byte.
Hypothesis Hlen : forall x, length (H x) = 32%nat.

(* a persisted part: a subtree together with the position it was persisted at (root or not) *)
Definition part := (bool * tnode)%type.
Definition pneeds (p : part) : list binding := needs H (fst p) (snd p).

(* the nodes WriteDirty does not visit: maximal clean subtrees, and the children of dirty inlined nodes *)
Fixpoint parts (is_root : bool) (w : wnode) : list part :=
  match w with
  | WN pk sv mbh dirty cs =>
    if negb dirty then [(is_root, erase w)]
    else if small H is_root w then
      flat_map (fun oc => match oc with None => [] | Some c => [(false, erase c)] end) cs
    else flat_map (fun oc => match oc with None => [] | Some c => parts false c end) cs
  end.

(* every node of a persisted trie, with its position *)
Fixpoint all_sub (is_root : bool) (t : tnode) : list part :=
  match t with
  | TN pk sv mbh cs =>
    (is_root, t) :: flat_map (fun oc => match oc with None => [] | Some c => all_sub false c end) cs
  end.

(* a skipped part is covered by the persisted parts P: it needs nothing, it is one of them, or it
   was persisted as a root and now sits below one (a root is always stored, needs false ⊆ needs true) *)
Definition covered (P : list part) (p : part) : Prop :=
  pneeds p = [] \/ In p P \/ (fst p = false /\ In (true, snd p) P).

Lemma needs_clean_parts : forall w r, needs_clean H r w = flat_map pneeds (parts r w).
Proof.
  induction w as [pk sv mbh dirty cs IH] using wnode_ind'. intro r.
  cbn [needs_clean parts]. destruct dirty; cbn [negb].
  - destruct (small H r _).
    + induction cs as [|[c|] cs IHc]; cbn [flat_map]; [reflexivity| |].
      * inversion IH; subst. rewrite flat_map_app. cbn [flat_map pneeds fst snd]. rewrite app_nil_r.
        f_equal. now apply IHc.
      * inversion IH; subst. now apply IHc.
    + induction cs as [|[c|] cs IHc]; cbn [flat_map]; [reflexivity| |].
      * inversion IH as [|? ? Hc Hcs]; subst. rewrite flat_map_app. cbn in Hc. rewrite Hc.
        f_equal. now apply IHc.
      * inversion IH; subst. now apply IHc.
  - cbn [flat_map pneeds fst snd]. now rewrite app_nil_r.
Qed.

Lemma needs_false_incl t : incl (needs H false t) (needs H true t).
Proof.
  destruct t as [pk sv mbh cs]. rewrite !needs_unfold. cbn [orb].
  intros x Hx. apply in_app_or in Hx as [Hx|Hx]; [apply in_or_app; now left|].
  apply in_or_app; right. apply in_app_or in Hx as [Hx|Hx]; apply in_or_app; [left|now right].
  destruct (negb _); [assumption|contradiction].
Qed.

Lemma all_sub_needs : forall t r p, In p (all_sub r t) -> incl (pneeds p) (needs H r t).
Proof.
  induction t as [pk sv mbh cs IH] using tnode_ind'. intros r p Hp.
  cbn [all_sub] in Hp. destruct Hp as [<-|Hp]; [apply incl_refl|].
  apply in_flat_map in Hp as ([c|] & Hin & Hp); [|contradiction].
  rewrite Forall_forall in IH. specialize (IH _ Hin false p Hp). cbn in IH.
  intros x Hx. rewrite needs_unfold. apply in_or_app; right. apply in_or_app; right.
  apply in_flat_map. exists (Some c). split; [assumption|]. now apply IH.
Qed.

Definition inv (P : list part) (d : db) : Prop := forall p, In p P -> has d (pneeds p).

Lemma covered_has P d p : inv P d -> covered P p -> has d (pneeds p).
Proof.
  intros Hi [E|[Hin|[Ef Hin]]].
  - rewrite E. constructor.
  - now apply Hi.
  - destruct p as [r t]. cbn in Ef, Hin. subst r.
    eapply has_incl; [apply needs_false_incl|]. exact (Hi _ Hin).
Qed.

(* a history honouring the contract *)
Inductive dchain : list part -> db -> list wnode -> db -> Prop :=
| dchain_nil P d : dchain P d [] d
| dchain_cons P d w ws d' :
    (forall p, In p (parts true w) -> covered P p) ->
    dchain (all_sub true (erase w) ++ P) (fst (write_dirty_node H true d w)) ws d' ->
    dchain P d (w :: ws) d'.

(* the strings of one write: what it puts, what it skips, what the trie needs *)
Definition wstrings (w : wnode) : list (list byte) :=
  map snd (wd_puts H true w ++ needs_clean H true w ++ needs H true (erase w)).
Definition pstrings (P : list part) : list (list byte) := map snd (flat_map pneeds P).

Lemma in_map_snd_app (a b : list binding) x :
  In x (map snd (a ++ b)) <-> In x (map snd a) \/ In x (map snd b).
Proof. rewrite map_app. apply in_app_iff. Qed.

Theorem dchain_chain G : H_inj_on H G ->
  forall P d ws d', dchain P d ws d' ->
  Forall (fun w => incl (wstrings w) G) ws -> incl (pstrings P) G -> inv P d ->
  chain H d ws d'.
Proof.
  intros HG. induction 1 as [P d|P d w ws d' Hcov Hch IH]; intros Hws HP Hinv; [constructor|].
  inversion Hws as [|? ? Hw Hws']; subst.
  assert (Hnc : has d (needs_clean H true w)).
  { rewrite needs_clean_parts. unfold has. apply Forall_forall. intros x Hx.
    apply in_flat_map in Hx as (p & Hp & Hx).
    pose proof (covered_has P d p Hinv (Hcov p Hp)) as Hh. unfold has in Hh.
    rewrite Forall_forall in Hh. auto. }
  constructor; [exact Hnc|].
  assert (Hw1 : has (fst (write_dirty_node H true d w)) (needs H true (erase w))).
  { apply (write_dirty_node_has H Hlen); [exact Hnc|].
    intros x y Hx Hy. apply HG; apply Hw; unfold wstrings.
    - apply in_map_snd_app in Hx as [Hx|Hx]; apply in_map_snd_app; [now left|].
      right. apply in_map_snd_app. now left.
    - apply in_map_snd_app in Hy as [Hy|Hy]; apply in_map_snd_app; [now left|].
      right. apply in_map_snd_app. now left. }
  apply IH; [exact Hws'| |].
  - (* strings of the persisted parts stay inside G *)
    unfold pstrings. rewrite flat_map_app, map_app. apply incl_app; [|exact HP].
    intros x Hx. apply in_map_iff in Hx as (b & <- & Hb).
    apply in_flat_map in Hb as (p & Hp & Hb).
    apply Hw. unfold wstrings. apply in_map_snd_app. right. apply in_map_snd_app. right.
    apply in_map. exact (all_sub_needs _ _ _ Hp _ Hb).
  - intros p Hp. apply in_app_or in Hp as [Hp|Hp].
    + eapply has_incl; [exact (all_sub_needs _ _ _ Hp)|exact Hw1].
    + cbn [write_dirty_node fst]. apply (puts_preserve H Hlen); [exact (Hinv _ Hp)|apply wd_puts_keyed|apply needs_keyed|].
      intros x y Hx Hy. apply HG.
      * apply in_map_snd_app in Hx as [Hx|Hx].
        -- apply Hw. unfold wstrings. apply in_map_snd_app. now left.
        -- apply HP. unfold pstrings. apply in_map_iff in Hx as (b & <- & Hb). apply in_map.
           apply in_flat_map. exists p. auto.
      * apply in_map_snd_app in Hy as [Hy|Hy].
        -- apply Hw. unfold wstrings. apply in_map_snd_app. now left.
        -- apply HP. unfold pstrings. apply in_map_iff in Hy as (b & <- & Hb). apply in_map.
           apply in_flat_map. exists p. auto.
Qed.

(* the strings of the chain theorem are among those of the writes *)
Lemma all_strings_incl G ws : Forall (fun w => incl (wstrings w) G) ws -> incl (all_strings H ws) G.
Proof.
  intros Hws x Hx. unfold all_strings, all_puts in Hx.
  rewrite Forall_forall in Hws.
  apply in_map_snd_app in Hx as [Hx|Hx].
  - apply in_map_iff in Hx as (b & <- & Hb). apply in_flat_map in Hb as (w & Hw & Hb).
    apply (Hws w Hw). unfold wstrings. apply in_map. apply in_or_app. now left.
  - apply in_map_snd_app in Hx as [Hx|Hx];
      apply in_map_iff in Hx as (b & <- & Hb); apply in_flat_map in Hb as (w & Hw & Hb);
      apply (Hws w Hw); unfold wstrings; apply in_map; apply in_or_app; right; apply in_or_app; [now left|now right].
Qed.

(* every trie of a history that honours the contract reloads identically and reads back key by key *)
Theorem discipline_reads G st dfix P d ws d' :
  H_inj_on H G -> dchain P d ws d' ->
  Forall (fun w => incl (wstrings w) G) ws -> incl (pstrings P) G -> inv P d ->
  forall w, In w ws -> wf_node (erase w) = true -> H (encode H (erase w)) <> empty_root H ->
     load H st dfix (height (erase w)) d' (H (encode H (erase w))) = Ok (Some (erase w))
  /\ forall key, get_from_db_fixed H st dfix d' (H (encode H (erase w))) key
                 = Ok (lookup (erase w) (nibbles_of_bytes key)).
Proof.
  intros HG Hd Hws HP Hinv w Hin W Hne.
  pose proof (dchain_chain G HG P d ws d' Hd Hws HP Hinv) as Hc.
  assert (Hinj : H_inj_on H (all_strings H ws)).
  { intros x y Hx Hy. apply HG; now apply (all_strings_incl G ws Hws). }
  pose proof (chain_has H Hlen d ws d' Hc Hinj) as Hall. rewrite Forall_forall in Hall.
  specialize (Hall w Hin). split.
  - exact (load_has H Hlen st dfix (erase w) d' W Hall Hne (height (erase w)) (le_n _)).
  - intro key. exact (get_from_db_has H Hlen st dfix (erase w) d' key W Hall Hne).
Qed.

End Discipline.
