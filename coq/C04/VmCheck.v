(* C04/VmCheck.v — comparisons used by the vm_compute cross-check of the extraction (definitions only). *)
From Common Require Import Bytes Outcome Blake2b.
From C04 Require Import Model.

Definition get_is (r : outcome (option (list byte))) (e : option (list byte)) : bool :=
  match r, e with
  | Ok None, None => true
  | Ok (Some v), Some w => bytes_eqb v w
  | _, _ => false
  end.

Definition has_all (d : db) (l : list (list byte * list byte)) : bool :=
  forallb (fun kv => match db_get d (fst kv) with Some v => bytes_eqb v (snd kv) | None => false end) l.

(* the first persisted state of a history: root hash, table contents, reload, point reads *)
Definition first_store_ok (st : bool * bool) (dfix : bool) (w : wnode) (children : list wnode)
           (root : list byte) (dump : list (list byte * list byte))
           (probes : list (list byte * option (list byte))) : bool :=
  let d := write_dirty_fixed blake2b_256 [] (Some w) children in
  bytes_eqb (blake2b_256 (encode blake2b_256 (erase w))) root
  && has_all d dump
  && match load blake2b_256 st dfix 200 d root with
     | Ok (Some t) => bytes_eqb (blake2b_256 (encode blake2b_256 t)) root
     | _ => false
     end
  && forallb (fun kr => get_is (get_from_db_fixed blake2b_256 st dfix d root (fst kr)) (snd kr)) probes.
