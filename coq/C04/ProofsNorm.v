(* C04/ProofsNorm.v — stale MustBeHashed flags (a branch whose value was deleted) change nothing
   that is persisted or read: the tree encodes, needs, lists and looks up like its normal form. *)
From Common Require Import Bytes Outcome Blake2b.
From Coq Require Import Strings.Byte ZifyN ZifyNat ZifyBool.
From TrieCodec Require Import Codec View Db ProofsBasic ProofsDecode ProofsDb ProofsWrite ProofsLookup.
From C04 Require Import Model Proofs.
Local Open Scope N_scope.

Definition norm_opt (oc : option tnode) : option tnode :=
  match oc with None => None | Some c => Some (norm c) end.

Lemma norm_unfold pk sv mbh cs :
  norm (TN pk sv mbh cs) = TN pk sv (mbh && match sv with Some _ => true | None => false end) (map norm_opt cs).
Proof. reflexivity. Qed.

Lemma flat_map_map_in {A B C} (g : A -> B) (f : B -> list C) (h : A -> list C) l :
  (forall x, In x l -> f (g x) = h x) -> flat_map f (map g l) = flat_map h l.
Proof.
  induction l as [|x l IH]; intro Hx; [reflexivity|].
  cbn [map flat_map]. rewrite Hx by (now left). rewrite IH; [reflexivity|]. intros y Hy. apply Hx. now right.
Qed.

Section Norm.
Variable H : list byte -> list byte.
Hypothesis Hlen : forall x, length (H x) = 32%nat.

(* nodes without a value are branches: true of every tree the trie code builds (a leaf always has
   a value), and implied by wf_node of the normal form *)
Fixpoint valueless_are_branches (t : tnode) : bool :=
  match t with
  | TN _ sv _ cs =>
    match sv, cs with None, [] => false | _, _ => true end
    && forallb (fun oc => match oc with None => true | Some c => valueless_are_branches c end) cs
  end.

Lemma wf_norm_vab : forall t, wf_node (norm t) = true -> valueless_are_branches t = true.
Proof.
  induction t as [pk sv mbh cs IH] using tnode_ind'. rewrite norm_unfold. intro W.
  destruct (wf_unfold H Hlen _ _ _ _ W) as (_ & _ & Wsv & _ & Wch).
  cbn [valueless_are_branches]. apply andb_true_intro. split.
  - destruct sv as [v|]; [reflexivity|]. destruct Wsv as [_ Hne]. destruct cs; [now elim Hne|reflexivity].
  - apply forallb_forall. intros [c|] Hin; [|reflexivity].
    rewrite Forall_forall in IH, Wch. apply (IH _ Hin).
    apply (Wch (Some (norm c))). apply in_map_iff. exists (Some c). auto.
Qed.

Theorem encode_norm : forall t, valueless_are_branches t = true -> encode H (norm t) = encode H t.
Proof.
  induction t as [pk sv mbh cs IH] using tnode_ind'. intro V.
  cbn [valueless_are_branches] in V. apply andb_prop in V as [V1 V2].
  rewrite norm_unfold, !(encode_unfold H).
  assert (Hb : match map norm_opt cs with [] => false | _ => true end = match cs with [] => false | _ => true end)
    by (destruct cs; reflexivity).
  rewrite Hb.
  assert (Hbm : forall i, bitmap_of (map norm_opt cs) i = bitmap_of cs i).
  { clear. induction cs as [|[c|] cs IHc]; intro i; cbn [map norm_opt bitmap_of]; [reflexivity| |]; now rewrite IHc. }
  rewrite Hbm.
  assert (Hch : flat_map (enc_child H) (map norm_opt cs) = flat_map (enc_child H) cs).
  { apply flat_map_map_in. intros [c|] Hin; cbn [norm_opt enc_child]; [|reflexivity].
    rewrite Forall_forall in IH. rewrite forallb_forall in V2.
    rewrite (IH _ Hin (V2 _ Hin)). reflexivity. }
  rewrite Hch.
  destruct sv as [v|].
  - now rewrite andb_true_r.
  - rewrite andb_false_r. destruct cs as [|c0 cs0]; [discriminate|].
    unfold variant_of. cbn [negb]. reflexivity.
Qed.

Theorem needs_norm : forall t r, valueless_are_branches t = true -> needs H r (norm t) = needs H r t.
Proof.
  induction t as [pk sv mbh cs IH] using tnode_ind'. intros r V.
  pose proof (encode_norm _ V) as He.
  cbn [valueless_are_branches] in V. apply andb_prop in V as [V1 V2].
  rewrite needs_unfold. rewrite norm_unfold in He |- *. rewrite needs_unfold. rewrite He.
  f_equal; [destruct sv; [now rewrite andb_true_r|reflexivity]|]. f_equal.
  apply flat_map_map_in. intros [c|] Hin; cbn [norm_opt]; [|reflexivity].
  rewrite Forall_forall in IH. rewrite forallb_forall in V2. apply (IH _ Hin false (V2 _ Hin)).
Qed.

Theorem lookup_norm : forall t key, lookup (norm t) key = lookup t key.
Proof.
  induction t as [pk sv mbh cs IH] using tnode_ind'. intro key.
  rewrite norm_unfold. cbn [lookup].
  destruct (bytes_eqb pk key); [reflexivity|]. destruct (is_prefix pk key); [|reflexivity].
  destruct (skipn (length pk) key) as [|i rest]; [reflexivity|].
  rewrite !pick_nth.
  assert (Hn : forall k, nth k (map norm_opt cs) None = norm_opt (nth k cs None)).
  { intro k. change None with (norm_opt None) at 1. apply map_nth. }
  rewrite Hn. destruct (nth (N.to_nat (b2n i)) cs None) as [c|] eqn:En; cbn [norm_opt]; [|reflexivity].
  rewrite Forall_forall in IH. apply (IH (Some c)).
  rewrite <- En. apply nth_In. destruct (Nat.lt_ge_cases (N.to_nat (b2n i)) (length cs)); [assumption|].
  rewrite nth_overflow in En by assumption. discriminate.
Qed.

Theorem entries_norm : forall t p, entries_node p (norm t) = entries_node p t.
Proof.
  induction t as [pk sv mbh cs IH] using tnode_ind'. intro p.
  rewrite norm_unfold, !entries_node_unfold. f_equal.
  generalize 0 as i. induction cs as [|oc cs IHc]; intro i; [reflexivity|].
  inversion IH as [|? ? Hoc Hcs]; subst.
  destruct oc as [c|]; cbn [map norm_opt entries_children].
  - cbn in Hoc. rewrite Hoc. f_equal. now apply IHc.
  - now apply IHc.
Qed.

(* A history as in C04_history: every trie of it — stale flags allowed — reloads as its normal form
   (same encoding, same root hash, same entries) and reads back key by key *)
Theorem history_reads_norm st dfix d ws d' :
  chain H d ws d' -> H_inj_on H (all_strings H ws) ->
  forall w, In w ws -> wf_node (norm (erase w)) = true -> H (encode H (erase w)) <> empty_root H ->
     load H st dfix (height (norm (erase w))) d' (H (encode H (erase w))) = Ok (Some (norm (erase w)))
  /\ encode H (norm (erase w)) = encode H (erase w)
  /\ (forall p, entries_node p (norm (erase w)) = entries_node p (erase w))
  /\ forall key, get_from_db_fixed H st dfix d' (H (encode H (erase w))) key
                 = Ok (lookup (erase w) (nibbles_of_bytes key)).
Proof.
  intros Hc Hinj w Hin W Hne.
  pose proof (chain_has H Hlen d ws d' Hc Hinj) as Hall. rewrite Forall_forall in Hall.
  specialize (Hall w Hin).
  pose proof (wf_norm_vab _ W) as V.
  rewrite <- (needs_norm _ true V) in Hall.
  pose proof (encode_norm _ V) as He.
  rewrite <- He in Hne |- *.
  split; [exact (load_has H Hlen st dfix _ d' W Hall Hne _ (le_n _))|].
  split; [reflexivity|]. split; [intro p; apply entries_norm|].
  intro key. rewrite <- lookup_norm.
  exact (get_from_db_has H Hlen st dfix _ d' key W Hall Hne).
Qed.

End Norm.
