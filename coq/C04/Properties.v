(* C04/Properties.v — property C04: persisted state reads back identically.
   Only statements, each closed by `exact <lemma>`, with Print Assumptions beneath.

   Model: coq/TrieCodec/Db.v (Load / loadNode / loadStorageValue, GetFromDB / getFromDBAtNode,
   WriteDirty / writeDirtyNode of pkg/trie/inmemory/database.go) over the node codec of C07.
   H is the hash; only its 32-byte output length is used, and — for writes — that it does not
   collide on the finite set of strings written and relied upon in the history ([H_inj_on], checked
   for every run by the driver, which compares the whole table). *)
From Common Require Import Bytes Outcome Blake2b.
From TrieCodec Require Import Codec View Db ProofsBasic ProofsDecode ProofsDb ProofsWrite.
From TrieCodec Require Import ProofsLookup.
From C04 Require Import Model Proofs ProofsAll ProofsNorm ProofsDiscipline Examples.
Local Open Scope N_scope.

(* Reload: if the database holds what the trie t needs (every non-inlined node under its hash, every
   hashed value under partialKey ++ hash), Load by root hash rebuilds exactly t — same nodes, hence
   same root, same entries — for both state versions (mbh flags), inlined leaves and branches. *)
Theorem C04_reload :
  forall (H : list byte -> list byte), (forall x, length (H x) = 32%nat) ->
  forall st dfix t d, wf_node t = true -> has d (needs H true t) ->
  H (encode H t) <> empty_root H ->
  load H st dfix (height t) d (H (encode H t)) = Ok (Some t).
Proof. intros H Hlen st dfix t d W Hh Hne. exact (load_has H Hlen st dfix t d W Hh Hne (height t) (le_n _)). Qed.
Print Assumptions C04_reload.

(* Reload of a whole state (InMemoryTrie.Load = load_all): the main trie as in C04_reload and, for
   every entry under ":child_storage:default:" in key order, the child trie whose root hash the entry
   holds — each child trie that the database holds completely (child_ok: empty, or well-formed with
   all its needed bindings present) comes back identical, paired with its root hash. *)
Theorem C04_reload_state :
  forall (H : list byte -> list byte), (forall x, length (H x) = 32%nat) ->
  forall st dfix t d fuel cts,
  wf_node t = true -> has d (needs H true t) -> H (encode H t) <> empty_root H ->
  (height t <= fuel)%nat ->
  Forall2 (child_ok H d fuel) (child_roots (Some t)) cts ->
  load_all H st dfix fuel d (H (encode H t)) = Ok (Some t, combine (child_roots (Some t)) cts).
Proof. exact load_all_has. Qed.
Print Assumptions C04_reload_state.

(* The specification side of the point reads is the entry list of the state: a key reads v exactly
   when (key, v) is an entry, and reads as absent exactly when no entry has the key (keys in nibbles;
   [entries] and the harness's Entries() are the same list with byte keys). *)
Theorem C04_lookup_is_entry :
  forall (H : list byte -> list byte), (forall x, length (H x) = 32%nat) ->
  forall t key v, wf_node t = true ->
  (lookup t key = Some v <-> In (key, v) (entries_node [] t)).
Proof. exact lookup_is_entry. Qed.
Print Assumptions C04_lookup_is_entry.

Theorem C04_lookup_absent :
  forall (H : list byte -> list byte), (forall x, length (H x) = 32%nat) ->
  forall t key, wf_node t = true ->
  (lookup t key = None <-> forall v, ~ In (key, v) (entries_node [] t)).
Proof. exact lookup_absent. Qed.
Print Assumptions C04_lookup_absent.

(* Point read: GetFromDB (as repaired by fixes/C04-1..4) returns for every key, present or
   absent, what the in-memory trie holds under that key *)
Theorem C04_point_read :
  forall (H : list byte -> list byte), (forall x, length (H x) = 32%nat) ->
  forall st dfix t d key, wf_node t = true -> has d (needs H true t) ->
  H (encode H t) <> empty_root H ->
  get_from_db_fixed H st dfix d (H (encode H t)) key = Ok (lookup t (nibbles_of_bytes key)).
Proof. intros H Hlen st dfix t d key. exact (get_from_db_has H Hlen st dfix t d key). Qed.
Print Assumptions C04_point_read.

(* One WriteDirty: given that what it skips (clean subtrees) is in the database, afterwards the
   database has everything the trie needs *)
Theorem C04_write_dirty :
  forall (H : list byte -> list byte), (forall x, length (H x) = 32%nat) ->
  forall d r w, has d (needs_clean H r w) ->
  H_inj_on H (map snd (wd_puts H r w ++ needs_clean H r w)) ->
  has (fst (write_dirty_node H r d w)) (needs H r (erase w)).
Proof. exact write_dirty_node_has. Qed.
Print Assumptions C04_write_dirty.

(* Histories: tries written one after the other (successive block states and their child tries,
   each with the Dirty flags it has when written, sharing clean nodes with earlier ones).  After the
   last write every trie of the history is still completely in the database, so by C04_reload and
   C04_point_read each of them reloads identically and reads back key by key. *)
Theorem C04_history :
  forall (H : list byte -> list byte), (forall x, length (H x) = 32%nat) ->
  forall d ws d', chain H d ws d' -> H_inj_on H (all_strings H ws) ->
  Forall (fun w => has d' (needs H true (erase w))) ws.
Proof. exact chain_has. Qed.
Print Assumptions C04_history.

Theorem C04_history_reads :
  forall (H : list byte -> list byte), (forall x, length (H x) = 32%nat) ->
  forall st dfix d ws d', chain H d ws d' -> H_inj_on H (all_strings H ws) ->
  forall w, In w ws -> wf_node (erase w) = true -> H (encode H (erase w)) <> empty_root H ->
     load H st dfix (height (erase w)) d' (H (encode H (erase w))) = Ok (Some (erase w))
  /\ forall key, get_from_db_fixed H st dfix d' (H (encode H (erase w))) key
                 = Ok (lookup (erase w) (nibbles_of_bytes key)).
Proof.
  intros H Hlen st dfix d ws d' Hc Hinj w Hin W Hne.
  pose proof (chain_has H Hlen d ws d' Hc Hinj) as Hall. rewrite Forall_forall in Hall.
  specialize (Hall w Hin). split.
  - exact (load_has H Hlen st dfix (erase w) d' W Hall Hne (height (erase w)) (le_n _)).
  - intro key. exact (get_from_db_has H Hlen st dfix (erase w) d' key W Hall Hne).
Qed.
Print Assumptions C04_history_reads.

(* The Dirty-flag discipline tied to histories.  C04_history assumes per write that the skipped clean
   subtrees are already stored (the `chain` hypothesis).  That follows from a syntactic contract with
   the trie mutation code: in every trie handed to WriteDirty, a node is clean only if it is — with
   all its fields and descendants — a node of a trie persisted earlier in the history or of the
   persisted state P the history starts from ([parts] lists the nodes WriteDirty skips, [covered]
   says they are persisted nodes or need nothing, [dchain] is a history honouring the contract,
   [inv P d] says the database d holds what the initial parts P need).  Every such history is a
   chain, and every trie of it reloads identically and reads back key by key.  G is any finite set
   of strings containing those written, skipped and needed, on which H does not collide.
   The driver evaluates the contract on every tree of every run (tag discipline-checked). *)
Theorem C04_discipline_chain :
  forall (H : list byte -> list byte), (forall x, length (H x) = 32%nat) ->
  forall G, H_inj_on H G ->
  forall P d ws d', dchain H P d ws d' ->
  Forall (fun w => incl (wstrings H w) G) ws -> incl (pstrings H P) G -> inv H P d ->
  chain H d ws d'.
Proof. exact dchain_chain. Qed.
Print Assumptions C04_discipline_chain.

Theorem C04_discipline_reads :
  forall (H : list byte -> list byte), (forall x, length (H x) = 32%nat) ->
  forall G st dfix P d ws d',
  H_inj_on H G -> dchain H P d ws d' ->
  Forall (fun w => incl (wstrings H w) G) ws -> incl (pstrings H P) G -> inv H P d ->
  forall w, In w ws -> wf_node (erase w) = true -> H (encode H (erase w)) <> empty_root H ->
     load H st dfix (height (erase w)) d' (H (encode H (erase w))) = Ok (Some (erase w))
  /\ forall key, get_from_db_fixed H st dfix d' (H (encode H (erase w))) key
                 = Ok (lookup (erase w) (nibbles_of_bytes key)).
Proof. exact discipline_reads. Qed.
Print Assumptions C04_discipline_reads.

Example C04_discipline_nonvacuous :
     parts blake2b_256 true ex_block2 = [(false, TN [] (Some v33) false [])]
  /\ exists d', dchain blake2b_256 [] [] [ex_diverge; ex_block2] d'.
Proof. exact C04_discipline_nonvacuous_holds. Qed.

(* Reachable states that are not wf_node: deleting the value of a V1 branch leaves MustBeHashed set
   on a node without value (wf_node forbids that).  [norm] clears such stale flags.  The history
   theorem holds for them too: each trie of the history — stale flags allowed, its normal form
   well-formed — has the encoding, hence the root hash, and the entries of its normal form, reloads
   as its normal form, and reads back key by key.  (The stray entry partialKey ++ H(nil) that
   WriteDirty stores for such a node is one more keyed binding of the history.) *)
Theorem C04_history_reads_norm :
  forall (H : list byte -> list byte), (forall x, length (H x) = 32%nat) ->
  forall st dfix d ws d', chain H d ws d' -> H_inj_on H (all_strings H ws) ->
  forall w, In w ws -> wf_node (norm (erase w)) = true -> H (encode H (erase w)) <> empty_root H ->
     load H st dfix (height (norm (erase w))) d' (H (encode H (erase w))) = Ok (Some (norm (erase w)))
  /\ encode H (norm (erase w)) = encode H (erase w)
  /\ (forall p, entries_node p (norm (erase w)) = entries_node p (erase w))
  /\ forall key, get_from_db_fixed H st dfix d' (H (encode H (erase w))) key
                 = Ok (lookup (erase w) (nibbles_of_bytes key)).
Proof. exact history_reads_norm. Qed.
Print Assumptions C04_history_reads_norm.

Example C04_stale_nonvacuous :
     wf_node (erase ex_stale) = false /\ wf_node (norm (erase ex_stale)) = true
  /\ db_get (db_of ex_stale) (nib [1] ++ blake2b_256 []) = Some []
  /\ load blake2b_256 (false, false) true 2 (db_of ex_stale) (root_of ex_stale) = Ok (Some (norm (erase ex_stale)))
  /\ get_from_db_fixed blake2b_256 (false, false) true (db_of ex_stale) (root_of ex_stale) (nib [20]) = Ok (Some v33).
Proof. exact C04_stale_nonvacuous_holds. Qed.

(* the hash of the code satisfies the length hypothesis *)
Theorem C04_blake2b_length : forall m, length (blake2b_256 m) = 32%nat.
Proof. exact blake2b_256_length. Qed.
Print Assumptions C04_blake2b_length.

(* ------------------------------------------------------------------ non-vacuity and refutations
   (the tries ex_* and their evaluation are in Examples.v) *)
Example C04_nonvacuous :
     wf_node (erase ex_hashed) = true /\ wf_node (erase ex_inlined) = true
  /\ has (db_of ex_hashed) (needs blake2b_256 true (erase ex_hashed))
  /\ length (needs blake2b_256 true (erase ex_hashed)) = 2%nat
  /\ load blake2b_256 (false, false) true 3 (db_of ex_inlined) (root_of ex_inlined) = Ok (Some (erase ex_inlined))
  /\ get_from_db_fixed blake2b_256 (false, false) true (db_of ex_hashed) (root_of ex_hashed) (nib [31; 16]) = Ok (Some v33).
Proof. exact C04_nonvacuous_holds. Qed.

(* non-vacuity of C04_reload_state: a parent with one child trie, both written by WriteDirty *)
Example C04_reload_state_nonvacuous :
     child_roots (Some (erase ex_parent)) = [root_of ex_child]
  /\ child_ok blake2b_256 db_state 1 (root_of ex_child) (Some (erase ex_child))
  /\ load_all blake2b_256 (false, false) true 1 db_state (root_of ex_parent)
     = Ok (Some (erase ex_parent), [(root_of ex_child, Some (erase ex_child))]).
Proof. exact C04_reload_state_nonvacuous_holds. Qed.

(* GetFromDB of the pinned tree: (1) returns the 32-byte hash of a hashed value, (2) fails on a key
   below an inlined branch, (3) returns the value of 0x1234 for the absent key 0x14, (4) returns the
   value of 0x1f for the absent empty key — each against a database written by WriteDirty *)
Theorem C04_point_read_pinned_refuted :
     get_from_db_pinned blake2b_256 (false, false) true (db_of ex_hashed) (root_of ex_hashed) (nib [31; 16])
     = Ok (Some (blake2b_256 v33))
  /\ lookup (erase ex_hashed) (nibbles_of_bytes (nib [31; 16])) = Some v33
  /\ get_from_db_pinned blake2b_256 (false, false) true (db_of ex_inlined) (root_of ex_inlined) (nib [31; 16])
     = Err E_DBMISS
  /\ lookup (erase ex_inlined) (nibbles_of_bytes (nib [31; 16])) = Some (nib [101; 168])
  /\ get_from_db_pinned blake2b_256 (false, false) true (db_of ex_diverge) (root_of ex_diverge) (nib [20])
     = Ok (Some v33)
  /\ lookup (erase ex_diverge) (nibbles_of_bytes (nib [20])) = None
  /\ get_from_db_pinned blake2b_256 (false, false) true (db_of ex_exhaust) (root_of ex_exhaust) []
     = Ok (Some (nib [130; 185]))
  /\ lookup (erase ex_exhaust) (nibbles_of_bytes []) = None.
Proof. exact C04_point_read_pinned_refuted_holds. Qed.
Print Assumptions C04_point_read_pinned_refuted.

(* WriteDirty of the pinned tree does not write the child tries when the root of the parent trie is
   a leaf: the child trie root is missing from the database (so Load of the state fails) *)
Theorem C04_write_dirty_pinned_refuted :
  let child := WN (nib [1; 2; 0; 1; 1; 0]) (Some v33) false true [] in
  let parent := WN (nibbles_of_bytes (child_prefix ++ nib [99])) (Some (root_of child)) false true [] in
     db_get (write_dirty_pinned blake2b_256 [] (Some parent) [child]) (root_of child) = None
  /\ db_get (write_dirty_fixed blake2b_256 [] (Some parent) [child]) (root_of child)
     = Some (encode blake2b_256 (erase child)).
Proof. exact C04_write_dirty_pinned_refuted_holds. Qed.
Print Assumptions C04_write_dirty_pinned_refuted.

