(* C04/Properties.v — property C04 (work in progress) *)
From Common Require Import Bytes Outcome.
From C04 Require Import Model.

Theorem C04_placeholder : all_fixed <> none_fixed.
Proof. discriminate. Qed.
Print Assumptions C04_placeholder.
