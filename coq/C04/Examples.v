(* C04/Examples.v — concrete tries and databases (Blake2b-256) and the evaluated facts about them
   that Properties.v quotes: non-vacuity of the hypotheses and the refutation witnesses of the
   pinned tree.  Kept apart so that re-checking Properties.v does not recompute the hashes. *)
From Common Require Import Bytes Outcome Blake2b.
From TrieCodec Require Import Codec View Db ProofsBasic ProofsDecode ProofsDb ProofsWrite.
From C04 Require Import Model Proofs ProofsAll ProofsDiscipline.
Local Open Scope N_scope.

Definition nib (l : list N) : list byte := map n2b l.
Definition v33 : list byte := repeat (n2b 7) 33.
Definition v33' : list byte := repeat (n2b 9) 33.

(* a V1 leaf whose value is hashed *)
Definition ex_hashed : wnode := WN (nib [1; 15; 1; 0]) (Some v33) true true [].
(* 0xab1f, 0x1f10, 0x1f10a012: child 1 of the root is an inlined branch *)
Definition at_ (i : nat) (c : wnode) (l : list (option wnode)) : list (option wnode) :=
  firstn i l ++ Some c :: skipn (S i) l.
Definition none16 : list (option wnode) := repeat None 16.
Definition ex_inlined : wnode :=
  WN [] None false true
     (at_ 1 (WN (nib [15; 1; 0]) (Some (nib [101; 168])) false true
                (at_ 10 (WN (nib [0; 1; 2]) (Some (nib [83; 105])) false true []) none16))
      (at_ 10 (WN (nib [11; 1; 15]) (Some (nib [240])) false true []) none16)).
(* 0x1234 and 0x1235 with 33-byte values: the root branch has the partial key 1,2,3 *)
Definition ex_diverge : wnode :=
  WN (nib [1; 2; 3]) None false true
     (at_ 4 (WN [] (Some v33) false true []) (at_ 5 (WN [] (Some v33') false true []) none16)).
(* 0x1f and 0x1f1101: the root branch has the partial key 1,f and a value *)
Definition ex_exhaust : wnode :=
  WN (nib [1; 15]) (Some (nib [130; 185])) false true
     (at_ 1 (WN (nib [1; 0; 1]) (Some (nib [66; 49])) false true []) none16).

Definition db_of (w : wnode) : db := fst (write_dirty_node blake2b_256 true [] w).
Definition root_of (w : wnode) : list byte := blake2b_256 (encode blake2b_256 (erase w)).

Lemma C04_nonvacuous_holds :
     wf_node (erase ex_hashed) = true /\ wf_node (erase ex_inlined) = true
  /\ has (db_of ex_hashed) (needs blake2b_256 true (erase ex_hashed))
  /\ length (needs blake2b_256 true (erase ex_hashed)) = 2%nat
  /\ load blake2b_256 (false, false) true 3 (db_of ex_inlined) (root_of ex_inlined) = Ok (Some (erase ex_inlined))
  /\ get_from_db_fixed blake2b_256 (false, false) true (db_of ex_hashed) (root_of ex_hashed) (nib [31; 16]) = Ok (Some v33).
Proof.
  split; [vm_compute; reflexivity|]. split; [vm_compute; reflexivity|].
  split; [repeat (constructor; [vm_compute; reflexivity|]); constructor|].
  split; [vm_compute; reflexivity|]. split; vm_compute; reflexivity.
Qed.

Lemma C04_point_read_pinned_refuted_holds :
     get_from_db_pinned blake2b_256 (false, false) true (db_of ex_hashed) (root_of ex_hashed) (nib [31; 16])
     = Ok (Some (blake2b_256 v33))
  /\ lookup (erase ex_hashed) (nibbles_of_bytes (nib [31; 16])) = Some v33
  /\ get_from_db_pinned blake2b_256 (false, false) true (db_of ex_inlined) (root_of ex_inlined) (nib [31; 16])
     = Err E_DBMISS
  /\ lookup (erase ex_inlined) (nibbles_of_bytes (nib [31; 16])) = Some (nib [101; 168])
  /\ get_from_db_pinned blake2b_256 (false, false) true (db_of ex_diverge) (root_of ex_diverge) (nib [20])
     = Ok (Some v33)
  /\ lookup (erase ex_diverge) (nibbles_of_bytes (nib [20])) = None
  /\ get_from_db_pinned blake2b_256 (false, false) true (db_of ex_exhaust) (root_of ex_exhaust) []
     = Ok (Some (nib [130; 185]))
  /\ lookup (erase ex_exhaust) (nibbles_of_bytes []) = None.
Proof. repeat split; vm_compute; reflexivity. Qed.

Lemma C04_write_dirty_pinned_refuted_holds :
  let child := WN (nib [1; 2; 0; 1; 1; 0]) (Some v33) false true [] in
  let parent := WN (nibbles_of_bytes (child_prefix ++ nib [99])) (Some (root_of child)) false true [] in
     db_get (write_dirty_pinned blake2b_256 [] (Some parent) [child]) (root_of child) = None
  /\ db_get (write_dirty_fixed blake2b_256 [] (Some parent) [child]) (root_of child)
     = Some (encode blake2b_256 (erase child)).
Proof. split; vm_compute; reflexivity. Qed.


(* a state with one child trie: the parent (a leaf root under the child-storage prefix holding the
   child root hash) and the child are written by the repaired WriteDirty and loaded back together *)
Definition ex_child : wnode := WN (nib [1; 2; 0; 1; 1; 0]) (Some v33) false true [].
Definition ex_parent : wnode :=
  WN (nibbles_of_bytes (child_prefix ++ nib [99])) (Some (root_of ex_child)) false true [].
Definition db_state : db := write_dirty_fixed blake2b_256 [] (Some ex_parent) [ex_child].

Lemma C04_reload_state_nonvacuous_holds :
     child_roots (Some (erase ex_parent)) = [root_of ex_child]
  /\ child_ok blake2b_256 db_state 1 (root_of ex_child) (Some (erase ex_child))
  /\ load_all blake2b_256 (false, false) true 1 db_state (root_of ex_parent)
     = Ok (Some (erase ex_parent), [(root_of ex_child, Some (erase ex_child))]).
Proof.
  split; [vm_compute; reflexivity|]. split.
  - cbn [child_ok]. split; [vm_compute; reflexivity|]. split.
    + repeat (constructor; [vm_compute; reflexivity|]); constructor.
    + split; [reflexivity|]. split; [|vm_compute; lia].
      vm_compute. discriminate.
  - vm_compute. reflexivity.
Qed.

(* a branch whose value was deleted and whose MustBeHashed flag stayed: not wf_node as it stands,
   its normal form is; WriteDirty stores the stray entry partialKey ++ H(nil) *)
Definition ex_stale : wnode :=
  WN (nib [1]) None true true
     (at_ 4 (WN [] (Some v33) true true []) (at_ 5 (WN [] (Some (nib [7])) false true []) none16)).

Lemma C04_stale_nonvacuous_holds :
     wf_node (erase ex_stale) = false /\ wf_node (norm (erase ex_stale)) = true
  /\ db_get (db_of ex_stale) (nib [1] ++ blake2b_256 []) = Some []
  /\ load blake2b_256 (false, false) true 2 (db_of ex_stale) (root_of ex_stale) = Ok (Some (norm (erase ex_stale)))
  /\ get_from_db_fixed blake2b_256 (false, false) true (db_of ex_stale) (root_of ex_stale) (nib [20]) = Ok (Some v33).
Proof. repeat split; vm_compute; reflexivity. Qed.

(* a two-block history honouring the Dirty-flag contract: block 1 writes ex_diverge (all dirty);
   block 2 replaces the value under child 5, the leaf under child 4 stays clean *)
Definition ex_block2 : wnode :=
  WN (nib [1; 2; 3]) None false true
     (at_ 4 (WN [] (Some v33) false false []) (at_ 5 (WN [] (Some (nib [9; 9])) false true []) none16)).

Lemma C04_discipline_nonvacuous_holds :
     parts blake2b_256 true ex_block2 = [(false, TN [] (Some v33) false [])]
  /\ exists d', dchain blake2b_256 [] [] [ex_diverge; ex_block2] d'.
Proof.
  split; [vm_compute; reflexivity|].
  eexists. constructor.
  - intros p Hp. vm_compute in Hp. contradiction.
  - constructor; [|constructor].
    intros p Hp. vm_compute in Hp. destruct Hp as [<-|[]].
    right. left. vm_compute. auto.
Qed.
