(* C04/Proofs.v — histories of persisted block states (the per-trie lemmas live in
   coq/TrieCodec/ProofsDb.v and ProofsWrite.v). *)
From Common Require Import Bytes Outcome Blake2b.
From TrieCodec Require Import Codec View Db ProofsBasic ProofsHeader ProofsDecode ProofsDb ProofsWrite.
From C04 Require Import Model.
Local Open Scope N_scope.

Section History.
Variable H : list byte -> list byte.
Hypothesis Hlen : forall x, length (H x) = 32%nat.

(* a history: tries (main tries and child tries alike, each with its Dirty flags as they are when
   WriteDirty runs) are written one after the other; what each write skips (clean subtrees) is in
   the database at that moment *)
Inductive chain : db -> list wnode -> db -> Prop :=
| chain_nil d : chain d [] d
| chain_cons d w ws d' :
    has d (needs_clean H true w) ->
    chain (fst (write_dirty_node H true d w)) ws d' ->
    chain d (w :: ws) d'.

Definition all_puts (ws : list wnode) : list binding := flat_map (wd_puts H true) ws.
Definition all_strings (ws : list wnode) : list (list byte) :=
  map snd (all_puts ws ++ flat_map (needs_clean H true) ws ++ flat_map (fun w => needs H true (erase w)) ws).

Lemma chain_puts d ws d' : chain d ws d' -> d' = db_puts d (all_puts ws).
Proof.
  induction 1 as [d|d w ws d' Hc Hch IH]; [reflexivity|].
  unfold all_puts. cbn [flat_map]. rewrite db_puts_app. exact IH.
Qed.

Lemma H_inj_on_incl A B : incl A B -> H_inj_on H B -> H_inj_on H A.
Proof. intros Hi Hb x y Hx Hy. apply Hb; auto. Qed.

Lemma incl_map_snd (a b : list binding) : incl a b -> incl (map snd a) (map snd b).
Proof. intros Hi x Hx. apply in_map_iff in Hx as (y & <- & Hy). apply in_map. auto. Qed.

Theorem chain_has d ws d' :
  chain d ws d' -> H_inj_on H (all_strings ws) ->
  Forall (fun w => has d' (needs H true (erase w))) ws.
Proof.
  induction 1 as [d|d w ws d' Hc Hch IH]; intro Hinj; [constructor|].
  constructor.
  - (* the trie written now is readable right after its write and stays so *)
    rewrite (chain_puts _ _ _ Hch).
    apply (puts_preserve H Hlen).
    + apply (write_dirty_node_has H Hlen); [assumption|].
      eapply H_inj_on_incl; [|exact Hinj]. apply incl_map_snd.
      unfold all_strings, all_puts. cbn [flat_map].
      intros x Hx. apply in_app_or in Hx as [Hx|Hx].
      * apply in_or_app. left. apply in_or_app. now left.
      * apply in_or_app. right. apply in_or_app. left. apply in_or_app. now left.
    + unfold all_puts. apply Forall_forall. intros x Hx.
      apply in_flat_map in Hx as (w' & _ & Hx).
      pose proof (wd_puts_keyed H w' true) as K. rewrite Forall_forall in K. auto.
    + apply needs_keyed.
    + eapply H_inj_on_incl; [|exact Hinj]. apply incl_map_snd.
      unfold all_strings, all_puts. cbn [flat_map].
      intros x Hx. apply in_app_or in Hx as [Hx|Hx].
      * apply in_or_app. left. apply in_or_app. now right.
      * apply in_or_app. right. apply in_or_app. right. apply in_or_app. now left.
  - apply IH. eapply H_inj_on_incl; [|exact Hinj]. apply incl_map_snd.
    unfold all_strings, all_puts. cbn [flat_map].
    intros x Hx. apply in_app_or in Hx as [Hx|Hx].
    + apply in_or_app. left. apply in_or_app. now right.
    + apply in_or_app. right. apply in_app_or in Hx as [Hx|Hx].
      * apply in_or_app. left. apply in_or_app. now right.
      * apply in_or_app. right. apply in_or_app. now right.
Qed.

End History.

Lemma blake2b_256_length m : length (blake2b_256 m) = 32%nat.
Proof.
  unfold blake2b_256, blake2b, blake2b_keyed. cbv zeta.
  apply firstn_flat_le_bytes_length.
  assert (Hc : forall h b t l, length (compress h b t l) = 8%nat) by reflexivity.
  assert (Hb : forall fuel h msg t, length h = 8%nat -> length (blocks fuel h msg t) = 8%nat).
  { induction fuel as [|f IH]; intros h msg t Hh; cbn [blocks]; [assumption|].
    destruct (length msg <=? 128)%nat; [apply Hc|apply IH, Hc]. }
  rewrite Hb; [lia|reflexivity].
Qed.
