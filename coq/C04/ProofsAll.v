(* C04/ProofsAll.v — Load of a whole state: the main trie and the child tries it references
   (InMemoryTrie.Load = load_all), and the specification side of the point reads. *)
From Common Require Import Bytes Outcome Blake2b.
From TrieCodec Require Import Codec View Db ProofsBasic ProofsDecode ProofsDb ProofsLookup.
From C04 Require Import Model.
Local Open Scope N_scope.

Section All.
Variable H : list byte -> list byte.
Hypothesis Hlen : forall x, length (H x) = 32%nat.
Variable st : bool * bool.
Variable dfix : bool.

(* common.BytesToHash of the value stored under a child-storage key: the root hash of a child trie *)
Definition child_root (v : list byte) : list byte := pad_front 32 (skipn (length v - 32) v).

Definition roots_of (l : list (list byte * list byte)) : list (list byte) :=
  map (fun kv => child_root (snd kv)) (filter (fun kv => is_prefix child_prefix (fst kv)) l).

(* the child-trie roots a state references, in key order *)
Definition child_roots (t : option tnode) : list (list byte) := roots_of (entries t).

(* what the database must hold for the child trie with root h: nothing for the empty trie,
   otherwise all bindings the child trie needs *)
Definition child_ok (d : db) (fuel : nat) (h : list byte) (c : option tnode) : Prop :=
  match c with
  | None => h = empty_root H
  | Some ct => wf_node ct = true /\ has d (needs H true ct) /\ H (encode H ct) = h
               /\ h <> empty_root H /\ (height ct <= fuel)%nat
  end.

Lemma load_child d fuel h c : child_ok d fuel h c -> load H st dfix fuel d h = Ok c.
Proof.
  destruct c as [ct|]; cbn [child_ok].
  - intros (W & Hh & <- & Hne & Hf). now apply (load_has H Hlen st dfix ct d W Hh Hne fuel Hf).
  - intros ->. unfold load. now rewrite bytes_eqb_refl.
Qed.

Lemma obind_Ok {A B} (a : A) (f : A -> outcome B) : obind (Ok a) f = f a.
Proof. reflexivity. Qed.

Theorem load_all_has t d fuel cts :
  wf_node t = true -> has d (needs H true t) -> H (encode H t) <> empty_root H ->
  (height t <= fuel)%nat ->
  Forall2 (child_ok d fuel) (child_roots (Some t)) cts ->
  load_all H st dfix fuel d (H (encode H t)) = Ok (Some t, combine (child_roots (Some t)) cts).
Proof.
  intros W Hh Hne Hf Hc. unfold load_all.
  rewrite (load_has H Hlen st dfix t d W Hh Hne fuel Hf). rewrite obind_Ok.
  unfold child_roots in *. revert cts Hc. generalize (entries (Some t)) as l.
  assert (Hgo : forall l cts, Forall2 (child_ok d fuel) (roots_of l) cts ->
    (fix go (l : list (list byte * list byte)) : outcome (list (list byte * option tnode)) :=
       match l with
       | [] => Ok []
       | (k, v) :: r =>
         if is_prefix child_prefix k then
           let h := pad_front 32 (skipn (length v - 32) v) in
           obind (load H st dfix fuel d h) (fun c => obind (go r) (fun r' => Ok ((h, c) :: r')))
         else go r
       end) l = Ok (combine (roots_of l) cts)).
  { induction l as [|[k v] l IH]; intros cts Hc.
    - inversion Hc. reflexivity.
    - unfold roots_of in Hc |- *. cbn [filter fst] in Hc |- *.
      destruct (is_prefix child_prefix k).
      + cbn [map snd] in Hc |- *. inversion Hc as [|h c hs cs Hhc Hrest]; subst.
        cbv zeta. fold (child_root v). rewrite (load_child d fuel _ c Hhc). cbn [obind].
        fold (roots_of l) in Hrest. rewrite (IH cs Hrest). reflexivity.
      + fold (roots_of l) in Hc. exact (IH cts Hc). }
  intros l cts Hc. Show. rewrite (Hgo l cts Hc). rewrite obind_Ok. reflexivity.
Qed.

(* the in-memory state as a finite map: a key reads v exactly when (key, v) is an entry *)
Theorem lookup_is_entry t key v : wf_node t = true ->
  (lookup t key = Some v <-> In (key, v) (entries_node [] t)).
Proof. intro W. exact (lookup_entries H Hlen t key v W). Qed.

Theorem lookup_absent t key : wf_node t = true ->
  (lookup t key = None <-> forall v, ~ In (key, v) (entries_node [] t)).
Proof. intro W. exact (lookup_none_entries H Hlen t key W). Qed.

End All.
