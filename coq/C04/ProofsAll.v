(* C04/ProofsAll.v — Load of a whole state: the main trie and the child tries it references
   (InMemoryTrie.Load = load_all), and the specification side of the point reads. *)
From Common Require Import Bytes Outcome Blake2b.
From TrieCodec Require Import Codec View Db ProofsBasic ProofsDecode ProofsDb ProofsLookup.
From C04 Require Import Model Gen.
Local Open Scope N_scope.

Section All.
Variable H : list byte -> list byte.
Hypothesis Hlen : forall x, length (H x) = 32%nat.
Variable st : bool * bool.
Variable dfix : bool.

(* common.BytesToHash of the value stored under a child-storage key: the root hash of a child trie *)
Definition child_root (v : list byte) : list byte := pad_front 32 (skipn (length v - 32) v).

Definition roots_of (l : list (list byte * list byte)) : list (list byte) :=
  map (fun kv => child_root (snd kv)) (filter (fun kv => is_prefix child_prefix (fst kv)) l).

(* the child-trie roots a state references, in key order *)
Definition child_roots (t : option tnode) : list (list byte) := roots_of (entries t).

(* what the database must hold for the child trie with root h: nothing for the empty trie,
   otherwise all bindings the child trie needs *)
Definition child_ok (d : db) (fuel : nat) (h : list byte) (c : option tnode) : Prop :=
  match c with
  | None => h = empty_root H
  | Some ct => wf_node ct = true /\ has d (needs H true ct) /\ H (encode H ct) = h
               /\ h <> empty_root H /\ (height ct <= fuel)%nat
  end.

Lemma load_child d fuel h c : child_ok d fuel h c -> load H st dfix fuel d h = Ok c.
Proof.
  destruct c as [ct|]; cbn [child_ok].
  - intros (W & Hh & <- & Hne & Hf). now apply (load_has H Hlen st dfix ct d W Hh Hne fuel Hf).
  - intros ->. unfold load. now rewrite bytes_eqb_refl.
Qed.

Lemma obind_Ok {A B} (a : A) (f : A -> outcome B) : obind (Ok a) f = f a.
Proof. reflexivity. Qed.

(* the child-trie loop of load_all as a named function *)
Fixpoint load_cts (fuel : nat) (d : db) (l : list (list byte * list byte))
  : outcome (list (list byte * option tnode)) :=
  match l with
  | [] => Ok []
  | (k, v) :: r =>
    if is_prefix child_prefix k then
      obind (load H st dfix fuel d (child_root v)) (fun c =>
      obind (load_cts fuel d r) (fun r' => Ok ((child_root v, c) :: r')))
    else load_cts fuel d r
  end.

(* load_all's anonymous loop is load_cts *)
Lemma load_all_loop fuel d : forall l,
  (fix go (l : list (list byte * list byte)) : outcome (list (list byte * option tnode)) :=
     match l with
     | [] => Ok []
     | (k, v) :: r =>
       if is_prefix child_prefix k then
         let h := pad_front 32 (skipn (length v - 32) v) in
         obind (load H st dfix fuel d h) (fun c => obind (go r) (fun r' => Ok ((h, c) :: r')))
       else go r
     end) l = load_cts fuel d l.
Proof.
  induction l as [|[k v] l IH]; [reflexivity|].
  cbn [load_cts]. rewrite <- IH. reflexivity.
Qed.

Theorem load_all_has t d fuel cts :
  wf_node t = true -> has d (needs H true t) -> H (encode H t) <> empty_root H ->
  (height t <= fuel)%nat ->
  Forall2 (child_ok d fuel) (child_roots (Some t)) cts ->
  load_all H st dfix fuel d (H (encode H t)) = Ok (Some t, combine (child_roots (Some t)) cts).
Proof.
  intros W Hh Hne Hf Hc.
  assert (Hgo : forall l cts, Forall2 (child_ok d fuel) (roots_of l) cts ->
                load_cts fuel d l = Ok (combine (roots_of l) cts)).
  { induction l as [|[k v] l IH]; intros cts0 Hc0.
    - inversion Hc0. reflexivity.
    - unfold roots_of in Hc0 |- *. cbn [filter fst load_cts] in Hc0 |- *.
      destruct (is_prefix child_prefix k).
      + cbn [map snd] in Hc0 |- *. inversion Hc0 as [|h c hs cs Hhc Hrest]; subst.
        rewrite (load_child d fuel _ c Hhc). rewrite obind_Ok.
        fold (roots_of l) in Hrest. rewrite (IH cs Hrest). rewrite obind_Ok. reflexivity.
      + fold (roots_of l) in Hc0. exact (IH cts0 Hc0). }
  unfold load_all.
  rewrite (load_has H Hlen st dfix t d W Hh Hne fuel Hf). rewrite obind_Ok.
  rewrite load_all_loop. unfold child_roots in Hc |- *.
  rewrite (Hgo (entries (Some t)) cts Hc). rewrite obind_Ok. reflexivity.
Qed.

(* constants of the Go source (coq/C04/Gen.v is regenerated from /repo by every check run):
   common.BytesToHash yields common.HashLength bytes — the key under which a child trie root is looked up *)
Example gen_hash_length_child_root v : Z.of_nat (length (child_root v)) = Gen.hash_length.
Proof.
  unfold child_root, pad_front, Gen.hash_length. unfold zeros. rewrite app_length, repeat_length, skipn_length. lia.
Qed.

(* the in-memory state as a finite map: a key reads v exactly when (key, v) is an entry *)
Theorem lookup_is_entry t key v : wf_node t = true ->
  (lookup t key = Some v <-> In (key, v) (entries_node [] t)).
Proof. intro W. exact (lookup_entries H Hlen t key v W). Qed.

Theorem lookup_absent t key : wf_node t = true ->
  (lookup t key = None <-> forall v, ~ In (key, v) (entries_node [] t)).
Proof. intro W. exact (lookup_none_entries H Hlen t key W). Qed.

End All.
