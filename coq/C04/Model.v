(* C04/Model.v — entry points of the C04 model over TrieCodec/Db.v (definitions only).

   Repaired functions (what the tree looks like after the proposed fixes):
     get_from_db_fixed : GetFromDB with fixes/C04-1..4 (hashed values read from the database,
                         inlined branch children followed, diverging and exhausted keys absent)
     write_dirty_fixed : WriteDirty with fixes/C04-5 (child tries always written)
   Pinned functions (the tree as found): get_from_db_pinned, write_dirty_pinned. *)
From Common Require Import Bytes Outcome Blake2b.
From TrieCodec Require Export Codec View Db.

Definition hash256 : list byte -> list byte := blake2b_256.

Definition all_fixed : bool * bool * bool * bool := (true, true, true, true).
Definition none_fixed : bool * bool * bool * bool := (false, false, false, false).

Definition get_from_db_fixed (H : list byte -> list byte) st dfix d root key :=
  get_from_db H st dfix all_fixed d root key.
Definition get_from_db_pinned (H : list byte -> list byte) st dfix d root key :=
  get_from_db H st dfix none_fixed d root key.
Definition write_dirty_fixed (H : list byte -> list byte) d root children := write_dirty H true d root children.
Definition write_dirty_pinned (H : list byte -> list byte) d root children := write_dirty H false d root children.

(* ":child_storage:default:" *)
Definition child_prefix : list byte :=
  map n2b [58; 99; 104; 105; 108; 100; 95; 115; 116; 111; 114; 97; 103; 101; 58; 100; 101; 102; 97; 117; 108; 116; 58]%N.

(* key nibbles -> key bytes (all keys have an even number of nibbles) *)
Definition key_of_nibbles (nib : list byte) : list byte := nibbles_to_key_le nib.

Definition entries (t : option tnode) : list (list byte * list byte) :=
  match t with
  | None => []
  | Some n => map (fun kv => (key_of_nibbles (fst kv), snd kv)) (entries_node [] n)
  end.

(* InMemoryTrie.Load including the child tries: every entry under the child-storage prefix holds
   the root hash of a child trie which is loaded the same way *)
Definition load_all (H : list byte -> list byte) st dfix (fuel : nat) (d : db) (root : list byte)
  : outcome (option tnode * list (list byte * option tnode)) :=
  obind (load H st dfix fuel d root) (fun t =>
  obind ((fix go (l : list (list byte * list byte)) : outcome (list (list byte * option tnode)) :=
            match l with
            | [] => Ok []
            | (k, v) :: r =>
              if is_prefix child_prefix k then
                (* common.BytesToHash: the last 32 bytes, left-padded *)
                let h := pad_front 32 (skipn (length v - 32) v) in
                obind (load H st dfix fuel d h) (fun c => obind (go r) (fun r' => Ok ((h, c) :: r')))
              else go r
            end) (entries t))
        (fun cs => Ok (t, cs))).

Definition lookup_bytes (t : option tnode) (key : list byte) : option (list byte) :=
  match t with None => None | Some n => lookup n (nibbles_of_bytes key) end.

(* A branch whose value was deleted can keep MustBeHashed = true (deleteFromBranch sets StorageValue
   to nil and leaves the flag).  [norm] clears such stale flags: it is the tree that the encoding,
   the database and every reader see (ProofsNorm.v). *)
Fixpoint norm (t : tnode) : tnode :=
  match t with
  | TN pk sv mbh cs =>
    TN pk sv (mbh && match sv with Some _ => true | None => false end)
       (map (fun oc => match oc with None => None | Some c => Some (norm c) end) cs)
  end.
