(* C07/VmCheck.v — boolean comparisons used by the vm_compute cross-check of the extraction
   (bin/check renders sampled cases of the trace as Gallina terms over these; definitions only). *)
From Common Require Import Bytes Outcome Blake2b.
From Coq Require Import Strings.Byte.
From C07 Require Import Model.
Local Open Scope N_scope.

Definition zb_eqb (x y : zb) : bool := bytes_eqb (zb_bytes x) (zb_bytes y).
Definition dval_eqb (a b : dval) : bool :=
  match a, b with
  | DVInline x, DVInline y => zb_eqb x y
  | DVHashed x, DVHashed y => bytes_eqb x y
  | _, _ => false
  end.
Definition odval_eqb (a b : option dval) : bool :=
  match a, b with
  | None, None => true
  | Some x, Some y => dval_eqb x y
  | _, _ => false
  end.

Fixpoint dnode_eqb (a b : dnode) : bool :=
  match a, b with
  | DStub x, DStub y => zb_eqb x y
  | DLeaf p v, DLeaf q w => bytes_eqb p q && dval_eqb v w
  | DBranch p v d cs, DBranch q w e ds =>
    bytes_eqb p q && odval_eqb v w && (d =? e)
    && (fix go (l m : list (option dnode)) : bool :=
          match l, m with
          | [], [] => true
          | None :: l', None :: m' => go l' m'
          | Some x :: l', Some y :: m' => dnode_eqb x y && go l' m'
          | _, _ => false
          end) cs ds
  | _, _ => false
  end.

(* expected results of node.Decode as the harness prints them *)
Inductive dres := RNil | RErr (c : nat) | RNode (d : dnode).
Definition dres_eqb (r : outcome (option dnode)) (e : dres) : bool :=
  match r, e with
  | Ok None, RNil => true
  | Err c, RErr c' => Nat.eqb c c'
  | Ok (Some d), RNode d' => dnode_eqb d d'
  | _, _ => false
  end.

Definition cchild_eqb (a b : option cchild) : bool :=
  match a, b with
  | None, None => true
  | Some (CInline x), Some (CInline y) => zb_eqb x y
  | Some (CHashed x), Some (CHashed y) => bytes_eqb x y
  | _, _ => false
  end.
Fixpoint list_eqb {A} (f : A -> A -> bool) (l m : list A) : bool :=
  match l, m with
  | [], [] => true
  | x :: l', y :: m' => f x y && list_eqb f l' m'
  | _, _ => false
  end.
Definition cnode_eqb (a b : cnode) : bool :=
  match a, b with
  | CEmpty, CEmpty => true
  | CLeaf p v, CLeaf q w => bytes_eqb p q && dval_eqb v w
  | CBranch p v cs, CBranch q w ds => bytes_eqb p q && odval_eqb v w && list_eqb cchild_eqb cs ds
  | _, _ => false
  end.

(* hdr cases: encodeHeader then decodeHeader *)
Definition hdr_check (v : nat) (l : N) (enc : list byte) : bool :=
  let var := variant_of_nat v in
  bytes_eqb (encode_header var l) enc
  && match decode_header enc with
     | Ok (v', l', []) => Nat.eqb (variant_name v') v && (l' =? l)
     | _ => false
     end.
