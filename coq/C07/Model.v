(* C07/Model.v — the C07 entry points over the shared codec model TrieCodec/Codec.v
   (definitions only).

   node_decode / codec_decode : node.Decode and triedb/codec.Decode as repaired by
     fixes/C07-decode-compact-variant.patch and fixes/C07-decode-empty-inlined-child.patch;
   node_decode_pinned / codec_decode_pinned : the same functions of the pinned tree
     (panic on the compact-encoding variant and on an inlined child that is the empty node).
   [st] = (decodeUint, decodeBytes) of pkg/scale reject short reads — probed by the harness. *)
From Common Require Import Bytes Outcome Blake2b.
From TrieCodec Require Export Codec View Dencode.

Definition node_decode (st : bool * bool) (bs : list byte) : outcome (option dnode) := decode st true bs.
Definition node_decode_pinned (st : bool * bool) (bs : list byte) : outcome (option dnode) := decode st false bs.
Definition codec_decode (st : bool * bool) (bs : list byte) : outcome cnode := cdecode st true bs.
Definition codec_decode_pinned (st : bool * bool) (bs : list byte) : outcome cnode := cdecode st false bs.

(* Node.Encode applied to a node that node.Decode returned: as repaired by
   fixes/C07-encode-decoded-hashed-value.patch, and as found in the pinned tree (a stored value hash
   is encoded as an inline 32-byte value) *)
Definition node_reencode (H : list byte -> list byte) (d : dnode) : list byte := dencode H true d.
Definition node_reencode_pinned (H : list byte -> list byte) (d : dnode) : list byte := dencode H false d.

Definition variant_name (v : variant) : nat :=
  match v with VLeaf => 0 | VBranch => 1 | VBranchVal => 2 | VLeafHashed => 3 | VBranchHashed => 4
             | VEmpty => 5 | VCompact => 6 end.
Definition variant_of_nat (k : nat) : variant :=
  match k with 0 => VLeaf | 1 => VBranch | 2 => VBranchVal | 3 => VLeafHashed | 4 => VBranchHashed
             | 5 => VEmpty | _ => VCompact end%nat.

Definition hash256 : list byte -> list byte := blake2b_256.
