(* C07/Properties.v — property C07 (work in progress: statements are added as they are proved) *)
From Common Require Import Bytes Outcome.
From C07 Require Import Model.
Local Open Scope N_scope.

(* the pinned tree: node.Decode panics on the compact-encoding header byte and on a branch whose
   inlined child is the empty node *)
Theorem C07_total_pinned_refuted :
  (forall st, node_decode_pinned st [n2b 1] = Panic)
  /\ (forall st, node_decode_pinned st (map n2b [128; 1; 0; 4; 0]) = Panic).
Proof. split; intros [[|] [|]]; vm_compute; reflexivity. Qed.
Print Assumptions C07_total_pinned_refuted.
