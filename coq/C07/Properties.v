(* C07/Properties.v — property C07: trie node encoding round-trips and decoding is robust.
   Only statements, each closed by `exact <lemma>`, with Print Assumptions beneath.
   Model: coq/TrieCodec/Codec.v (node.Decode / node.Encode / header / key of pkg/trie/node and
   Decode of pkg/trie/triedb/codec), tied to the Go code by props/C07. *)
From Common Require Import Bytes Outcome Blake2b.
From TrieCodec Require Import Codec View Dencode ProofsBasic ProofsHeader ProofsDecode ProofsTotal.
From C07 Require Import Model Gen Proofs.
Local Open Scope N_scope.

(* Every well-formed in-memory node — leaf or branch, with or without a value, inline value or a
   value that must be hashed, partial key of any length up to 65535 nibbles, children inlined
   (encoding < 32 bytes, decoded in place, recursively) or referenced by hash — encodes to bytes
   that node.Decode maps back to its decoded view [view H n], and that triedb/codec.Decode maps to
   [cview H n].  H is the hash (only its 32-byte output length is used); the statement holds for
   both settings of the scale reader [st] and for the pinned and the repaired decoder [fixed]. *)
Theorem C07_roundtrip :
  forall (H : list byte -> list byte), (forall x, length (H x) = 32%nat) ->
  forall st fixed n, wf_node n = true ->
       decode st fixed (encode H n) = Ok (Some (view H n))
    /\ cdecode st fixed (encode H n) = Ok (cview H n).
Proof.
  intros H Hlen st fixed n W. split.
  - exact (decode_encode H Hlen st fixed n W).
  - rewrite <- (app_nil_r (encode H n)). exact (cdecode_encode H Hlen st fixed n [] W).
Qed.
Print Assumptions C07_roundtrip.

(* ... in particular with the hash the code uses *)
Theorem C07_roundtrip_blake2b :
  forall st n, wf_node n = true ->
  node_decode st (encode blake2b_256 n) = Ok (Some (view blake2b_256 n)).
Proof. intros st n W. exact (decode_encode blake2b_256 blake2b_256_length st true n W). Qed.
Print Assumptions C07_roundtrip_blake2b.

(* The other direction of "equivalent node": the node Decode returns for the encoding of n — hashed
   value kept as its hash (IsHashedValue), children referenced by hash kept as Merkle-value stubs,
   inlined children decoded in place — passed to Encode again (as repaired by
   fixes/C07-encode-decoded-hashed-value.patch) gives exactly the bytes it was decoded from, and
   therefore decodes to itself: Decode and Encode are mutually inverse on everything Encode emits. *)
Theorem C07_reencode :
  forall (H : list byte -> list byte), (forall x, length (H x) = 32%nat) ->
  forall st fixed n, wf_node n = true ->
     node_reencode H (view H n) = encode H n
  /\ decode st fixed (node_reencode H (view H n)) = Ok (Some (view H n)).
Proof. exact reencode_view. Qed.
Print Assumptions C07_reencode.

(* the pinned Encode ignores IsHashedValue: the decoded V1 leaf 21 01 <hash> is encoded back as
   41 01 80 <hash>, a plain leaf whose 32-byte inline value is the hash — not the node decoded *)
Theorem C07_reencode_pinned_refuted :
  let n := ex_hashed_leaf in
  let h := blake2b_256 (repeat (n2b 7) 33) in
     wf_node n = true
  /\ view blake2b_256 n = DLeaf [n2b 1] (DVHashed h)
  /\ encode blake2b_256 n = n2b 33 :: n2b 1 :: h
  /\ node_reencode_pinned blake2b_256 (view blake2b_256 n) = n2b 65 :: n2b 1 :: n2b 128 :: h
  /\ (forall st, node_decode st (node_reencode_pinned blake2b_256 (view blake2b_256 n))
                 = Ok (Some (DLeaf [n2b 1] (DVInline (h, 0)))))
  /\ node_reencode blake2b_256 (view blake2b_256 n) = encode blake2b_256 n.
Proof. exact reencode_pinned_witness. Qed.
Print Assumptions C07_reencode_pinned_refuted.

(* the header: every node variant and every partial-key length 0..65535 (the in-byte limit
   63/31/15, runs of 255, the final byte) survives encodeHeader ; decodeHeader, whatever follows *)
Theorem C07_header_roundtrip :
  forall v l rest, node_variant v = true -> l <= 65535 ->
  decode_header (encode_header v l ++ rest) = Ok (v, l, rest).
Proof. exact decode_header_encode. Qed.
Print Assumptions C07_header_roundtrip.

(* the same with the bound read from the Go source on every run (maxPartialKeyLength = ^uint16(0),
   regenerated into Gen.v): a changed constant breaks this statement's proof or the Examples in Proofs.v *)
Theorem C07_header_roundtrip_gen :
  forall v l rest, node_variant v = true -> (Z.of_N l <= Gen.max_partial_key_length)%Z ->
  decode_header (encode_header v l ++ rest) = Ok (v, l, rest).
Proof. exact header_roundtrip_gen. Qed.
Print Assumptions C07_header_roundtrip_gen.

(* the partial key: nibbles -> packed bytes -> nibbles, odd and even lengths *)
Theorem C07_key_roundtrip :
  forall pk rest, nibbles_ok pk = true ->
  decode_key (nibbles_to_key_le pk ++ rest) (lenN pk) = Ok (pk, rest).
Proof. intros pk rest Hp. apply decode_key_encode. now apply nibbles_ok_P. Qed.
Print Assumptions C07_key_roundtrip.

(* robustness: on every byte string both (repaired) decoders return a node or an error; they
   never panic, and the recursion into inlined children never exhausts the fuel
   S (length bs) that [decode] provides — no hang *)
Theorem C07_total :
  forall st bs,
     ((exists r, node_decode st bs = Ok r) \/ (exists c, node_decode st bs = Err c))
  /\ ((exists r, codec_decode st bs = Ok r) \/ (exists c, codec_decode st bs = Err c)).
Proof. intros st bs. split; [exact (total_node st bs)|exact (total_codec st bs)]. Qed.
Print Assumptions C07_total.

(* non-vacuity: a branch with a 70-nibble partial key, a value that must be hashed, an inlined
   leaf child and a child referenced by hash is well-formed, and its encoding is 109 bytes *)
Example C07_nonvacuous :
  let leaf_small := TN [n2b 1] (Some [n2b 7]) false [] in
  let leaf_big := TN [n2b 2; n2b 3] (Some (repeat (n2b 9) 40)) false [] in
  let n := TN (repeat (n2b 5) 70) (Some (repeat (n2b 8) 33)) true
              (Some leaf_small :: None :: Some leaf_big :: repeat None 13) in
  wf_node n = true /\ length (encode blake2b_256 n) = 109%nat
  /\ (length (encode blake2b_256 leaf_small) < 32)%nat /\ (32 <= length (encode blake2b_256 leaf_big))%nat.
Proof. vm_compute. repeat split; lia. Qed.

(* the pinned tree violated the robustness half: node.Decode and codec.Decode panic on the
   compact-encoding header byte 0x01, node.Decode panics on a branch whose inlined child is the
   empty node (80 01 00 04 00) *)
Theorem C07_total_pinned_refuted :
  (forall st, node_decode_pinned st [n2b 1] = Panic)
  /\ (forall st, codec_decode_pinned st [n2b 1] = Panic)
  /\ (forall st, node_decode_pinned st (map n2b [128; 1; 0; 4; 0]) = Panic).
Proof. repeat split; intros [[|] [|]]; vm_compute; reflexivity. Qed.
Print Assumptions C07_total_pinned_refuted.
