(* C07/Proofs.v — lemmas behind Properties.v (the codec lemmas live in coq/TrieCodec). *)
From Common Require Import Bytes Outcome Blake2b.
From TrieCodec Require Import Codec View ProofsBasic ProofsHeader ProofsDecode ProofsTotal.
From C07 Require Import Model.
Local Open Scope N_scope.

(* Blake2b-256 digests are 32 bytes long: the hypothesis of the round-trip theorem holds for
   the hash the code uses *)
Lemma compress_length h b t last : length (compress h b t last) = 8%nat.
Proof. reflexivity. Qed.

Lemma blocks_length fuel : forall h msg t, length h = 8%nat -> length (blocks fuel h msg t) = 8%nat.
Proof.
  induction fuel as [|f IH]; intros h msg t Hh; cbn [blocks]; [assumption|].
  destruct (length msg <=? 128)%nat.
  - apply compress_length.
  - apply IH. apply compress_length.
Qed.

Lemma blake2b_256_length m : length (blake2b_256 m) = 32%nat.
Proof.
  unfold blake2b_256, blake2b, blake2b_keyed. cbv zeta.
  apply firstn_flat_le_bytes_length. rewrite blocks_length; [lia|reflexivity].
Qed.

Lemma okerr_cases {A} (x : outcome A) : okerr x -> (exists r, x = Ok r) \/ (exists c, x = Err c).
Proof. destruct x; cbn; intro Hx; try contradiction; eauto. Qed.

Lemma total_node st bs :
  (exists r, node_decode st bs = Ok r) \/ (exists c, node_decode st bs = Err c).
Proof. apply okerr_cases, decode_total. Qed.
Lemma total_codec st bs :
  (exists r, codec_decode st bs = Ok r) \/ (exists c, codec_decode st bs = Err c).
Proof. apply okerr_cases, cdecode_total. Qed.
