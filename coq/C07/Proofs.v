(* C07/Proofs.v — lemmas behind Properties.v (the codec lemmas live in coq/TrieCodec). *)
From Common Require Import Bytes Outcome Blake2b.
From TrieCodec Require Import Codec View Dencode ProofsBasic ProofsHeader ProofsDecode ProofsTotal ProofsDencode.
From C07 Require Import Model Gen.
Local Open Scope N_scope.

(* Blake2b-256 digests are 32 bytes long: the hypothesis of the round-trip theorem holds for
   the hash the code uses *)
Lemma compress_length h b t last : length (compress h b t last) = 8%nat.
Proof. reflexivity. Qed.

Lemma blocks_length fuel : forall h msg t, length h = 8%nat -> length (blocks fuel h msg t) = 8%nat.
Proof.
  induction fuel as [|f IH]; intros h msg t Hh; cbn [blocks]; [assumption|].
  destruct (length msg <=? 128)%nat.
  - apply compress_length.
  - apply IH. apply compress_length.
Qed.

Lemma blake2b_256_length m : length (blake2b_256 m) = 32%nat.
Proof.
  unfold blake2b_256, blake2b, blake2b_keyed. cbv zeta.
  apply firstn_flat_le_bytes_length. rewrite blocks_length; [lia|reflexivity].
Qed.

Lemma okerr_cases {A} (x : outcome A) : okerr x -> (exists r, x = Ok r) \/ (exists c, x = Err c).
Proof. destruct x; cbn; intro Hx; try contradiction; eauto. Qed.

Lemma total_node st bs :
  (exists r, node_decode st bs = Ok r) \/ (exists c, node_decode st bs = Err c).
Proof. apply okerr_cases, decode_total. Qed.
Lemma total_codec st bs :
  (exists r, codec_decode st bs = Ok r) \/ (exists c, codec_decode st bs = Err c).
Proof. apply okerr_cases, cdecode_total. Qed.

(* re-encoding a decoded node (repaired Encode) *)
Lemma reencode_view H (Hlen : forall x, length (H x) = 32%nat) st fixed n : wf_node n = true ->
     node_reencode H (view H n) = encode H n
  /\ decode st fixed (node_reencode H (view H n)) = Ok (Some (view H n)).
Proof.
  intro W. split; [exact (dencode_view H Hlen n W)|exact (decode_dencode_view H Hlen st fixed n W)].
Qed.

(* the pinned Encode: a V1 leaf {key nibbles 1, value of 33 bytes, hashed} decodes to a leaf holding
   the value hash; encoding that node again gives a plain leaf whose inline value is the hash *)
Definition ex_hashed_leaf : tnode := TN [n2b 1] (Some (repeat (n2b 7) 33)) true [].
Lemma reencode_pinned_witness :
  let n := ex_hashed_leaf in
  let h := blake2b_256 (repeat (n2b 7) 33) in
     wf_node n = true
  /\ view blake2b_256 n = DLeaf [n2b 1] (DVHashed h)
  /\ encode blake2b_256 n = n2b 33 :: n2b 1 :: h
  /\ node_reencode_pinned blake2b_256 (view blake2b_256 n) = n2b 65 :: n2b 1 :: n2b 128 :: h
  /\ (forall st, node_decode st (node_reencode_pinned blake2b_256 (view blake2b_256 n))
                 = Ok (Some (DLeaf [n2b 1] (DVInline (h, 0)))))
  /\ node_reencode blake2b_256 (view blake2b_256 n) = encode blake2b_256 n.
Proof.
  cbv zeta. repeat split; try (vm_compute; reflexivity).
  intros [[|] [|]]; vm_compute; reflexivity.
Qed.

(* ------------------------------------------------------------------ constants of the Go source
   (coq/C07/Gen.v is regenerated from /repo by every check run: a changed constant breaks these) *)
Example gen_children_capacity : Z.of_nat (length child_indices) = Gen.children_capacity.
Proof. reflexivity. Qed.
Example gen_codec_children_capacity : Z.of_nat (length child_indices) = Gen.codec_children_capacity.
Proof. reflexivity. Qed.
(* decodeHashedValue reads exactly common.HashLength bytes *)
Example gen_hash_length_hashed_value r d r' :
  dec_hashed r = Ok (d, r') -> Z.of_N (lenN d) = Gen.hash_length.
Proof.
  unfold dec_hashed, rd. destruct r as [|x r0]; [discriminate|].
  destruct (lenN (takeN 32 (x :: r0)) <? 32) eqn:E; [discriminate|].
  intro Hd. assert (Hd' : d = takeN 32 (x :: r0)) by congruence. subst d.
  pose proof (lenN_takeN_le 32 (x :: r0)). unfold Gen.hash_length. lia.
Qed.
(* a child whose encoding is shorter than common.HashLength is inlined, otherwise hashed *)
Example gen_hash_length_merkle_value H e :
  merkle_value H e = if (Z.of_nat (length e) <? Gen.hash_length)%Z then e else H e.
Proof.
  unfold merkle_value, Gen.hash_length.
  destruct (Nat.ltb_spec (length e) 32), (Z.ltb_spec (Z.of_nat (length e)) 32); try lia; reflexivity.
Qed.

(* maxPartialKeyLength = ^uint16(0) of pkg/trie/node and pkg/trie/triedb/codec: the bound of the
   round-trip theorems, of wf_node, and (plus one) the modulus of the uint16 accumulator of decodeHeader *)
Example gen_max_partial_key_length :
  Gen.max_partial_key_length = 65535%Z /\ Gen.codec_max_partial_key_length = 65535%Z.
Proof. split; reflexivity. Qed.
Lemma header_roundtrip_gen v l rest :
  node_variant v = true -> (Z.of_N l <= Gen.max_partial_key_length)%Z ->
  decode_header (encode_header v l ++ rest) = Ok (v, l, rest).
Proof. intros Hv Hl. apply decode_header_encode; [assumption|]. unfold Gen.max_partial_key_length in Hl. lia. Qed.
Example gen_wf_node_key_bound pk sv mbh cs :
  wf_node (TN pk sv mbh cs) = true -> (Z.of_N (lenN pk) <= Gen.max_partial_key_length)%Z.
Proof.
  intro W. destruct (wf_unfold blake2b_256 blake2b_256_length _ _ _ _ W) as (_ & Hl & _).
  unfold Gen.max_partial_key_length. lia.
Qed.
Example gen_pklen_wraps_at_uint16 r acc :
  dec_pklen r acc = match r with
                    | [] => Err E_EOF
                    | b :: r' =>
                      let acc' := (acc + b2n b) mod (Z.to_N Gen.max_partial_key_length + 1) in
                      if acc' <? acc then Err E_KEYBIG
                      else if b2n b <? 255 then Ok (acc', r') else dec_pklen r' acc'
                    end.
Proof. destruct r; reflexivity. Qed.
