From Coq Require Import Extraction ExtrOcamlBasic.
From Common Require Import Bytes Outcome Drv Blake2b.
From TrieCodec Require Import Dencode.
From C07 Require Import Model.
Extraction "model.ml" drv_b2n drv_n2b drv_z_of_n drv_n_of_z drv_nat_of_n drv_n_of_nat
  node_decode node_decode_pinned codec_decode codec_decode_pinned encode view cview wf_node
  encode_header decode_header variant_name variant_of_nat hash256 zb_len zb_bytes lenN dencode dnode_big.
