(* C33/Model.v — the network message decoders as instances of the SCALE decoder model
   (Scale/Codec.v) at the message schemas (definitions only).

   decoder (Go)                                   schema
   dot/network   decodeBlockAnnounceMessage       s_bam     BlockAnnounceMessage
                 decodeBlockAnnounceHandshake     s_bah     BlockAnnounceHandshake
                 decodeTransactionMessage         s_txm     []types.Extrinsic (named byte slices)
                 LightRequest.Decode              s_lreq    struct request
                 LightResponse.Decode             s_lresp   struct response
   lib/grandpa   decodeHandshake                  s_ghs     GrandpaHandshake
                 decodeMessage (ConsensusMessage) s_gmsg    vote / commit / neighbour / catch-up
   dot/types     NewBodyFromBytes                 s_body    [][]byte   (empty input = empty body)
   dot/network/messages  WarpProofRequest.Decode  s_warp
                 BlockResponseMessage.Decode      per block: s_header for the header bytes, s_body for
                                                  compact(#extrinsics) ++ concatenated body entries
                                                  (the protobuf parse is done by the harness)
   [32]byte hashes and the other fixed byte arrays are decoded element by element by pkg/scale:
   TArray n TU8; []byte fields are TBytes; types.Extrinsic and types.OtherDigest (named []byte types)
   are TSlice TU8 (pkg/scale decodes them element by element). *)
From Common Require Import Bytes Outcome.
From Scale Require Import Compact Types Spec Codec.
Local Open Scope N_scope.

Fixpoint fields (l : list ty) : tys :=
  match l with [] => TNil | t :: r => TCons None t (fields r) end.
Definition st (l : list ty) : ty := TStruct (fields l).
Fixpoint alts (l : list (N * ty)) : tys :=
  match l with [] => TNil | (i, t) :: r => TCons (Some i) t (alts r) end.
Definition enum (l : list (N * ty)) : ty := TEnum (alts l).

Definition s_hash : ty := TArray 32 TU8.
Definition s_sig : ty := TArray 64 TU8.
Definition s_pk : ty := TArray 32 TU8.
Definition s_digestdata : ty := st [TArray 4 TU8; TBytes].
Definition s_digestitem : ty :=
  enum [(0, TSlice TU8); (4, s_digestdata); (5, s_digestdata); (6, s_digestdata); (8, st [])].
Definition s_digest : ty := TSlice s_digestitem.
Definition s_header : ty := st [s_hash; TUint; s_hash; s_hash; s_digest].

Definition s_bam : ty := st [s_hash; TUint; s_hash; s_hash; s_digest; TBool].
Definition s_bah : ty := st [TU8; TU32; s_hash; s_hash].
Definition s_txm : ty := TSlice (TSlice TU8).
Definition s_body : ty := TSlice TBytes.
Definition s_ghs : ty := st [TU8].
Definition s_vote : ty := st [s_hash; TU32].
Definition s_signedmsg : ty := st [TU8; s_hash; TU32; s_sig; s_pk].
Definition s_votemsg : ty := st [TU64; TU64; s_signedmsg].
Definition s_authdata : ty := st [s_sig; s_pk].
Definition s_commit : ty := st [TU64; TU64; s_vote; TSlice s_vote; TSlice s_authdata].
Definition s_neighbour : ty := enum [(1, st [TU64; TU64; TU32])].
Definition s_catchreq : ty := st [TU64; TU64].
Definition s_signedvote : ty := st [s_vote; s_sig; s_pk].
Definition s_catchresp : ty :=
  st [TU64; TU64; TSlice s_signedvote; TSlice s_signedvote; s_hash; TU32].
Definition s_gmsg : ty :=
  enum [(0, s_votemsg); (1, s_commit); (2, s_neighbour); (3, s_catchreq); (4, s_catchresp)].
Definition s_warp : ty := st [s_hash].
Definition s_lreq : ty :=
  st [st [TBytes; TStr; TBytes]; st [TBytes; TSlice TBytes]; st [TBytes];
      st [TBytes; TBytes; TSlice TBytes];
      st [TOption s_hash; TOption s_hash; TBytes; TBytes; TOption TBytes]].
Definition s_pair : ty := st [TBytes; TBytes].
Definition s_lresp : ty :=
  st [st [TBytes]; st [TBytes]; st [TSlice (TOption s_header)];
      st [TBytes; TSlice TBytes; TSlice (TSlice s_pair); TBytes]].

Definition schemas : list ty :=
  [s_bam; s_bah; s_txm; s_body; s_ghs; s_gmsg; s_warp; s_lreq; s_lresp; s_header].

(* NewBodyFromBytes: an empty input is the empty body *)
Definition dec_body (c : cfg) (bs : list byte) : outcome (value * list byte) * N :=
  match bs with
  | [] => (Ok (VList VNil, []), 0)
  | _ => run_decode c s_body bs
  end.

(* ---- BlockRequestMessage.Decode above the protobuf parse (dot/network/messages/block.go) *)
Inductive from_block := FromHash (b : list byte) | FromNumber (b : list byte) | FromNone.
Inductive start_block := StartHash (h : list byte) | StartNumber (n : N).
(* common.BytesToHash: keep the last 32 bytes, right-aligned in a zero hash *)
Definition bytes_to_hash (b : list byte) : list byte := pad_front 32 (skipn (length b - 32) b).
(* parsed protobuf fields: fields (uint32), from_block, direction (enum as uint32), max_blocks *)
Definition breq_decode (fields : N) (from : from_block) (dir maxb : N)
  : option (N * start_block * N * option N) :=
  let data := N.land (N.shiftr fields 24) 255 in          (* byte(msg.Fields >> 24) *)
  let d := N.land dir 255 in                              (* SyncDirection(byte(msg.Direction)) *)
  let mx := if maxb =? 0 then None else Some maxb in
  match from with
  | FromHash b => Some (data, StartHash (bytes_to_hash b), d, mx)
  | FromNumber b => if (length b =? 4)%nat then Some (data, StartNumber (le_val b), d, mx) else None
  | FromNone => None
  end.

(* ---- BlockResponseMessage.Decode above the protobuf parse: per block, the header bytes (when
   present) must decode as a Header and the body entries, concatenated behind the compact number
   of entries, as [][]byte (types.NewBodyFromEncodedBytes -> NewBodyFromBytes) *)
Definition body_bytes (entries : list (list byte)) : list byte :=
  compact_encode (N.of_nat (length entries)) ++ concat entries.
Definition block_ok (c : cfg) (hdr : list byte) (entries : list (list byte)) : outcome unit * N :=
  let '(h, ch) := match hdr with
                  | [] => (Ok tt, 0)
                  | _ => match run_decode c s_header hdr with
                         | (Ok _, k) => (Ok tt, k) | (Err e, k) => (Err e, k)
                         | (Panic, k) => (Panic, k) | (OutOfFuel, k) => (OutOfFuel, k) end
                  end in
  match h with
  | Ok _ =>
      match entries with
      | [] => (Ok tt, ch)
      | _ => match dec_body c (body_bytes entries) with
             | (Ok _, k) => (Ok tt, ch + k) | (Err e, k) => (Err e, ch + k)
             | (Panic, k) => (Panic, ch + k) | (OutOfFuel, k) => (OutOfFuel, ch + k) end
      end
  | _ => (h, ch)
  end.
Fixpoint bresp_decode (c : cfg) (blocks : list (list byte * list (list byte))) : outcome unit * N :=
  match blocks with
  | [] => (Ok tt, 0)
  | (hdr, entries) :: r =>
      match block_ok c hdr entries with
      | (Ok _, k) => let '(o, k') := bresp_decode c r in (o, k + k')
      | x => x
      end
  end.

(* what the harness observed of one decoder call *)
Inductive impl_obs :=
| IOk (reencode_ok : bool) (large_alloc slow : bool)
| IErr (large_alloc slow : bool)
| IPanic.

(* the property predicate: a message or an error, no panic, allocation and time within the
   budget proportional to the input, and a decoded message re-encodes to an equal message *)
Definition c33_prop (o : impl_obs) : bool :=
  match o with
  | IOk re large slow => re && negb large && negb slow
  | IErr large slow => negb large && negb slow
  | IPanic => false
  end.

Definition alloc_budget (bs : list byte) : N := 262144 + 2048 * N.of_nat (length bs).

(* guard of finding C33 bytes-alloc (the same defect as C12 bytes-overrun): the input makes
   decodeBytes request more than the budget although the repaired decodeBytes would not *)
Definition with_bytes (c : cfg) : cfg :=
  {| fix_read := fix_read c; fix_big := fix_big c; fix_bytes := true; fix_map := fix_map c;
     fix_uint57 := fix_uint57 c; strict_map := strict_map c |}.
Definition bytes_alloc (t : ty) (bs : list byte) : bool :=
  (alloc_budget bs <? 2 * decode_cost current t bs) &&
  (decode_cost (with_bytes current) t bs <=? alloc_budget bs).

(* ---- second round (auditor): what BlockResponseMessage.Decode RETURNS, not only whether it
   succeeds.  protobufToBlockData per block: Hash = common.BytesToHash(pbd.Hash); Header = the
   decoded header when header bytes are present; Body = the decoded extrinsics when at least one
   body entry is present; Receipt / MessageQueue = the bytes when non-empty (an empty protobuf
   bytes field arrives as nil); Justification = the bytes when non-empty, the empty byte string
   when empty and is_empty_justification is set, absent otherwise. *)
Definition pb_opt (b : list byte) : option (list byte) :=
  match b with [] => None | _ => Some b end.
Definition pb_just (b : list byte) (flag : bool) : option (list byte) :=
  match b with [] => if flag then Some [] else None | _ => Some b end.

Definition block_view (c : cfg) (hdr : list byte) (entries : list (list byte))
  : outcome (option value * option value) :=
  let h := match hdr with
           | [] => Ok None
           | _ => match decode_res c s_header hdr with
                  | Ok (v, _) => Ok (Some v) | Err e => Err e | Panic => Panic | OutOfFuel => OutOfFuel
                  end
           end in
  match h with
  | Ok hv =>
      match entries with
      | [] => Ok (hv, None)
      | _ => match fst (dec_body c (body_bytes entries)) with
             | Ok (v, _) => Ok (hv, Some v) | Err e => Err e | Panic => Panic | OutOfFuel => OutOfFuel
             end
      end
  | Err e => Err e | Panic => Panic | OutOfFuel => OutOfFuel
  end.

Fixpoint bresp_view (c : cfg) (blocks : list (list byte * list (list byte)))
  : outcome (list (option value * option value)) :=
  match blocks with
  | [] => Ok []
  | (hdr, entries) :: r =>
      match block_view c hdr entries with
      | Ok x => match bresp_view c r with
                | Ok l => Ok (x :: l) | Err e => Err e | Panic => Panic | OutOfFuel => OutOfFuel
                end
      | Err e => Err e | Panic => Panic | OutOfFuel => OutOfFuel
      end
  end.
