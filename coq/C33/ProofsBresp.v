(* C33/ProofsBresp.v — closer: the declared-length cost bound (ProofsDeclared.v, per schema) lifted to
   the block response layer `bresp_decode` (BlockResponseMessage.Decode above the protobuf parse).
   The meter is the one Model.bresp_decode already threads: snd (bresp_decode c blocks) = the sum of
   the costs of the header / body decodes in the order the model runs them, stopping at the first
   failing decode (a failing header skips the body of its block and every later block). *)
From Coq Require Import ZifyN ZifyNat ZifyBool.
From Common Require Import Bytes Outcome.
From Scale Require Import Compact CompactProofs Types Spec Codec Cost WellTyped CostExcess CostDeclared.
From C33 Require Import Model Proofs ProofsDeclared.
Local Open Scope N_scope.

Definition blk : Type := (list byte * list (list byte))%type.

(* the constant: computed from the two schemas the block response layer runs *)
Definition k_header : N := ca s_header + cb s_header.
Definition k_body : N := ca s_body + cb s_body.
Definition a_bresp : N := k_header + k_body.

(* per field: the bytes handed to the SCALE decoder and the byte-string lengths it accepts there;
   an absent field (empty header bytes, no body entry) is not decoded *)
Definition hdr_bytes (hdr : list byte) : N := len hdr.
Definition body_in_bytes (entries : list (list byte)) : N :=
  match entries with [] => 0 | _ => len (body_bytes entries) end.
Definition hdr_declared (hdr : list byte) : N :=
  match hdr with [] => 0 | _ => declared_total s_header hdr end.
Definition body_declared (entries : list (list byte)) : N :=
  match entries with [] => 0 | _ => declared_total s_body (body_bytes entries) end.

(* does the header field let the decoder go on to the body? *)
Definition hdr_okb (hdr : list byte) : bool :=
  match hdr with
  | [] => true
  | _ => match decode_res current s_header hdr with Ok _ => true | _ => false end
  end.

(* the fields of one block the decoder actually runs *)
Definition block_bytes_run (b : blk) : N :=
  hdr_bytes (fst b) + (if hdr_okb (fst b) then body_in_bytes (snd b) else 0).
Definition block_declared_run (b : blk) : N :=
  hdr_declared (fst b) + (if hdr_okb (fst b) then body_declared (snd b) else 0).
(* all the fields of one block *)
Definition block_bytes (b : blk) : N := hdr_bytes (fst b) + body_in_bytes (snd b).
Definition block_declared (b : blk) : N := hdr_declared (fst b) + body_declared (snd b).

Definition sumN {A} (f : A -> N) (l : list A) : N := fold_right (fun x a => f x + a) 0 l.

(* the blocks the decoder visits: up to and including the first block that fails *)
Fixpoint visited (blocks : list blk) : list blk :=
  match blocks with
  | [] => []
  | b :: r => b :: match fst (block_ok current (fst b) (snd b)) with Ok _ => visited r | _ => [] end
  end.

Definition bresp_cost (blocks : list blk) : N := snd (bresp_decode current blocks).

Lemma in_header : In s_header schemas. Proof. cbn. tauto. Qed.
Lemma in_body : In s_body schemas. Proof. cbn. tauto. Qed.

Lemma dec_body_cost bs :
  snd (dec_body current bs) <= k_body * (1 + len bs) + declared_total s_body bs.
Proof.
  unfold dec_body. destruct bs as [|x r]; [cbn [snd]; lia|].
  exact (cost_schemas_declared s_body (x :: r) in_body).
Qed.

Lemma header_cost bs :
  snd (run_decode current s_header bs) <= k_header * (1 + len bs) + declared_total s_header bs.
Proof. exact (cost_schemas_declared s_header bs in_header). Qed.

Lemma combine_le kh kb h b dh db ch cb :
  ch <= kh * (1 + h) + dh -> cb <= kb * (1 + b) + db ->
  ch + cb <= (kh + kb) * (1 + (h + b)) + (dh + db).
Proof. intros. nia. Qed.

(* one block: the cost of what block_ok runs *)
Lemma block_cost hdr entries :
  snd (block_ok current hdr entries) <=
    a_bresp * (1 + block_bytes_run (hdr, entries)) + block_declared_run (hdr, entries).
Proof.
  unfold block_ok, block_bytes_run, block_declared_run, hdr_okb, hdr_bytes, hdr_declared,
    body_in_bytes, body_declared, decode_res, a_bresp. cbn [fst snd].
  destruct hdr as [|x hr].
  - change (len []) with 0.
    destruct entries as [|e er]; [cbn [snd]; lia|].
    pose proof (dec_body_cost (body_bytes (e :: er))) as B.
    assert (G : snd (dec_body current (body_bytes (e :: er))) <=
                (k_header + k_body) * (1 + (0 + len (body_bytes (e :: er)))) +
                (0 + declared_total s_body (body_bytes (e :: er)))).
    { replace (snd (dec_body current (body_bytes (e :: er))))
        with (0 + snd (dec_body current (body_bytes (e :: er)))) by lia.
      apply combine_le; [lia|exact B]. }
    destruct (dec_body current (body_bytes (e :: er))) as [[ | | | ] k]; cbn [snd] in *;
      rewrite ?N.add_0_l in *; exact G.
  - pose proof (header_cost (x :: hr)) as H.
    destruct (run_decode current s_header (x :: hr)) as [[ | | | ] k]; cbn [fst snd] in *;
      try (rewrite !N.add_0_r; eapply N.le_trans; [exact H|];
           apply N.add_le_mono_r, N.mul_le_mono_r; lia).
    destruct entries as [|e er].
    + cbn [snd]. rewrite !N.add_0_r. eapply N.le_trans; [exact H|].
      apply N.add_le_mono_r, N.mul_le_mono_r; lia.
    + pose proof (dec_body_cost (body_bytes (e :: er))) as B.
      pose proof (combine_le _ _ _ _ _ _ _ _ H B) as G.
      destruct (dec_body current (body_bytes (e :: er))) as [[ | | | ] k2]; cbn [snd] in *; exact G.
Qed.

Lemma sumN_cons {A} (f : A -> N) x l : sumN f (x :: l) = f x + sumN f l.
Proof. reflexivity. Qed.

(* the whole response, exact to the fields decoded: no "1 +" needed, one a_bresp per visited block *)
Lemma bresp_cost_run blocks :
  bresp_cost blocks <=
    a_bresp * (sumN block_bytes_run (visited blocks) + N.of_nat (length (visited blocks))) +
    sumN block_declared_run (visited blocks).
Proof.
  unfold bresp_cost.
  induction blocks as [|[hdr entries] r IH]; [cbn; lia|].
  cbn [bresp_decode visited fst snd]. pose proof (block_cost hdr entries) as C.
  destruct (block_ok current hdr entries) as [[[] | | | ] k]; cbn [fst snd] in *;
    rewrite !sumN_cons; cbn [length].
  - destruct (bresp_decode current r) as [o k']. cbn [snd] in *.
    remember (sumN block_bytes_run (visited r)) as sb.
    remember (sumN block_declared_run (visited r)) as sd.
    remember (block_bytes_run (hdr, entries)) as bb.
    remember (block_declared_run (hdr, entries)) as bd.
    remember (length (visited r)) as n. nia.
  - cbn [sumN fold_right length]. nia.
  - cbn [sumN fold_right length]. nia.
  - cbn [sumN fold_right length]. nia.
Qed.

(* visited is a prefix of the response, and a run field is a field *)
Lemma visited_prefix blocks : exists rest, blocks = visited blocks ++ rest.
Proof.
  induction blocks as [|b r [rest IH]]; [now exists []|].
  cbn [visited]. destruct (fst (block_ok current (fst b) (snd b))).
  - exists rest. cbn [app]. now rewrite <- IH.
  - now exists r.
  - now exists r.
  - now exists r.
Qed.

Lemma sumN_app {A} (f : A -> N) l1 l2 : sumN f (l1 ++ l2) = sumN f l1 + sumN f l2.
Proof. induction l1 as [|x l IH]; cbn [app]; rewrite ?sumN_cons; [cbn; lia|rewrite IH; lia]. Qed.

Lemma sumN_le {A} (f g : A -> N) l : (forall x, f x <= g x) -> sumN f l <= sumN g l.
Proof.
  intro H. induction l as [|x l IH]; [cbn; lia|]. rewrite !sumN_cons. specialize (H x). lia.
Qed.

Lemma run_le_bytes b : block_bytes_run b <= block_bytes b.
Proof. unfold block_bytes_run, block_bytes. destruct (hdr_okb (fst b)); lia. Qed.
Lemma run_le_declared b : block_declared_run b <= block_declared b.
Proof. unfold block_declared_run, block_declared. destruct (hdr_okb (fst b)); lia. Qed.

Lemma visited_sum_le (f g : blk -> N) blocks :
  (forall b, f b <= g b) -> sumN f (visited blocks) <= sumN g blocks.
Proof.
  intro H. destruct (visited_prefix blocks) as [rest E].
  rewrite E at 2. rewrite sumN_app. pose proof (sumN_le f g (visited blocks) H). lia.
Qed.

Lemma visited_length_le blocks : (length (visited blocks) <= length blocks)%nat.
Proof.
  destruct (visited_prefix blocks) as [rest E]. rewrite E at 2. rewrite app_length. lia.
Qed.

(* the statement of the task: every block response, failing decodes included *)
Lemma bresp_cost_declared blocks :
  bresp_cost blocks <=
    a_bresp * (1 + sumN block_bytes blocks + N.of_nat (length blocks)) +
    sumN block_declared blocks.
Proof.
  eapply N.le_trans; [apply bresp_cost_run|].
  pose proof (visited_sum_le block_bytes_run block_bytes blocks run_le_bytes) as B.
  pose proof (visited_sum_le block_declared_run block_declared blocks run_le_declared) as D.
  pose proof (visited_length_le blocks) as L.
  apply N.add_le_mono; [|exact D]. apply N.mul_le_mono_l. lia.
Qed.

Lemma a_bresp_value : a_bresp = ca s_header + cb s_header + (ca s_body + cb s_body) /\ a_bresp <= 109000.
Proof. split; [reflexivity|]. vm_compute. discriminate. Qed.

(* ---- the same bound in the protobuf fields themselves: header bytes, body entries.  The body
   decoder input is compact(#entries) ++ concat entries and the compact prefix is at most
   4 + #entries bytes long *)
Lemma size_le n : N.size n <= n.
Proof.
  destruct (N.eq_dec n 0) as [->|Z]; [cbn; lia|].
  rewrite (N.size_log2 n Z). pose proof (N.log2_lt_lin n). lia.
Qed.

Lemma compact_encode_len_le n : len (compact_encode n) <= 4 + n.
Proof.
  unfold compact_encode, len.
  destruct (N.ltb_spec n 64); [cbn [length]; lia|].
  destruct (N.ltb_spec n 16384); [rewrite le_bytes_length; lia|].
  destruct (N.ltb_spec n 1073741824); [rewrite le_bytes_length; lia|].
  cbn [length]. rewrite le_bytes_length. unfold byte_len. pose proof (size_le n). lia.
Qed.

Definition pb_bytes (b : blk) : N := len (fst b) + sumN len (snd b).
Definition pb_entries (b : blk) : N := N.of_nat (length (snd b)).

Lemma len_app (a b : list byte) : len (a ++ b) = len a + len b.
Proof. unfold len. rewrite app_length. lia. Qed.

Lemma len_concat (l : list (list byte)) : len (concat l) = sumN len l.
Proof.
  induction l as [|x l IH]; [reflexivity|]. cbn [concat]. rewrite len_app, IH. reflexivity.
Qed.

Lemma block_bytes_pb b : block_bytes b <= pb_bytes b + pb_entries b + 4.
Proof.
  unfold block_bytes, pb_bytes, pb_entries, hdr_bytes, body_in_bytes.
  destruct (snd b) as [|e er] eqn:E; [cbn [sumN fold_right length]; lia|].
  unfold body_bytes. rewrite len_app, len_concat.
  pose proof (compact_encode_len_le (N.of_nat (length (e :: er)))). lia.
Qed.

Lemma sum_block_bytes_pb blocks :
  sumN block_bytes blocks <=
    sumN pb_bytes blocks + sumN pb_entries blocks + 4 * N.of_nat (length blocks).
Proof.
  induction blocks as [|b r IH]; [cbn; lia|].
  rewrite !sumN_cons. cbn [length]. pose proof (block_bytes_pb b). lia.
Qed.

Lemma bresp_cost_declared_pb blocks :
  bresp_cost blocks <=
    a_bresp * (1 + sumN pb_bytes blocks + sumN pb_entries blocks + 5 * N.of_nat (length blocks)) +
    sumN block_declared blocks.
Proof.
  eapply N.le_trans; [apply bresp_cost_declared|].
  apply N.add_le_mono_r, N.mul_le_mono_l. pose proof (sum_block_bytes_pb blocks). lia.
Qed.

(* ---- non-vacuity: a response of two blocks.  Block 1: a 98-byte header with an empty digest and
   one body entry (the byte string 01 02): decodes.  Block 2: a header whose digest announces two
   items, the first (tag 6: engine id + byte vector) declaring a byte vector of 4 194 303 bytes
   (compact fe ff ff 00) and supplying one - decodeBytes accepts (short read) - the second item
   missing: Err.  The body of block 2 is never decoded (its declared 2 bytes are not in the run
   sum).  The meter (4 194 728) is above the linear term alone (3 711 134), so the declared term is
   needed, and within the bound. *)
Definition w_hdr_ok : list byte := map n2b (zeros 32 ++ [0] ++ zeros 32 ++ zeros 32 ++ [0]).
Definition w_hdr_big : list byte :=
  map n2b (zeros 32 ++ [0] ++ zeros 32 ++ zeros 32 ++ [8; 6; 66; 65; 66; 69; 254; 255; 255; 0; 65]).
Definition w_entry : list byte := map n2b [8; 1; 2].
Definition w_bresp : list blk := [(w_hdr_ok, [w_entry]); (w_hdr_big, [w_entry])].

Lemma bresp_declared_witness :
  bresp_decode current w_bresp = (Err 1%nat, 4194728) /\
  fst (block_ok current w_hdr_ok [w_entry]) = Ok tt /\
  decode_res current s_header w_hdr_big = Err 1%nat /\
  hdr_declared w_hdr_big = 4194303 /\
  length (visited w_bresp) = 2%nat /\
  sumN block_bytes w_bresp = 214 /\ sumN block_declared w_bresp = 4194307 /\
  sumN block_bytes_run (visited w_bresp) = 210 /\
  sumN block_declared_run (visited w_bresp) = 4194305 /\
  a_bresp * (1 + sumN block_bytes w_bresp + 2) < bresp_cost w_bresp /\
  bresp_cost w_bresp <= a_bresp * (1 + sumN block_bytes w_bresp + 2) + sumN block_declared w_bresp.
Proof.
  assert (E : bresp_decode current w_bresp = (Err 1%nat, 4194728)) by (vm_compute; reflexivity).
  assert (B : sumN block_bytes w_bresp = 214) by (vm_compute; reflexivity).
  split; [exact E|]. split; [vm_compute; reflexivity|]. split; [vm_compute; reflexivity|].
  split; [vm_compute; reflexivity|]. split; [vm_compute; reflexivity|].
  split; [exact B|]. split; [vm_compute; reflexivity|].
  split; [vm_compute; reflexivity|]. split; [vm_compute; reflexivity|].
  split.
  - unfold bresp_cost. rewrite E, B. vm_compute. reflexivity.
  - exact (bresp_cost_declared w_bresp).
Qed.
