(* C33/Properties.v — property C33: network message decoders withstand arbitrary peer input.
   Only statements, each closed by `exact <lemma>`, with Print Assumptions beneath.

   The SCALE-based decoders are Scale.Codec.decode (the model of pkg/scale, tied to the code by
   C11/C12 and by the C33 harnesses) at the message schemas of C33/Model.v:
   schemas = [s_bam; s_bah; s_txm; s_body; s_ghs; s_gmsg; s_warp; s_lreq; s_lresp; s_header]. *)
From Common Require Import Bytes Outcome.
From Scale Require Import Compact Types Spec Codec Total Cost WellTyped.
From Scale Require Import CostExcess CostDeclared.
From C33 Require Import Model Proofs ProofsExcess ProofsDeclared.
From C33 Require Import ProofsBresp.
Local Open Scope N_scope.

Theorem C33_schemas_wf : forallb wf_ty schemas = true.
Proof. exact schemas_wf. Qed.
Print Assumptions C33_schemas_wf.

(* every decoder returns a message or an error, for every byte string: never a panic, never a
   non-terminating loop *)
Theorem C33_total : forall t bs, In t schemas ->
  decode_res current t bs <> Panic /\ decode_res current t bs <> OutOfFuel.
Proof. exact total_schemas. Qed.
Print Assumptions C33_total.

Theorem C33_total_body : forall bs,
  fst (dec_body current bs) <> Panic /\ fst (dec_body current bs) <> OutOfFuel.
Proof. exact total_body. Qed.
Print Assumptions C33_total_body.

(* block responses (the gossamer layer above the protobuf parse: per block the header bytes through
   s_header, the body entries behind their compact count through s_body): a message or an error;
   and what Decode returns (bresp_view: per block the decoded header and body) exists exactly when
   the decoder succeeds, with one entry per block *)
Theorem C33_total_bresp : forall blocks,
  fst (bresp_decode current blocks) <> Panic /\ fst (bresp_decode current blocks) <> OutOfFuel.
Proof. exact bresp_total. Qed.
Print Assumptions C33_total_bresp.

Theorem C33_bresp_view : forall blocks,
  (exists l, bresp_view current blocks = Ok l /\ length l = length blocks) <->
  fst (bresp_decode current blocks) = Ok tt.
Proof. exact bresp_view_ok. Qed.
Print Assumptions C33_bresp_view.

(* block requests: an accepted request has a 32-byte start hash or a start number below 2^32 taken
   from exactly four bytes, one-byte requested-data and direction fields, and no maximum exactly
   when max_blocks is 0 *)
Theorem C33_breq_shape : forall fields from dir maxb data start d mx,
  breq_decode fields from dir maxb = Some (data, start, d, mx) ->
  data < 256 /\ d < 256 /\ (mx = None <-> maxb = 0) /\
  match start with
  | StartHash h => length h = 32%nat
  | StartNumber n => n < 4294967296
  end.
Proof. exact breq_shape. Qed.
Print Assumptions C33_breq_shape.

(* a successfully decoded message re-encodes to an equal message: marshalling the decoded value
   (encode_go = what scale.Marshal does) and decoding again returns the same value *)
Theorem C33_reencode : forall t bs v r r', In t schemas ->
  decode_res current t bs = Ok (v, r) ->
  decode_res current t (encode_go t v ++ r') = Ok (v, r').
Proof. exact reencode_schemas. Qed.
Print Assumptions C33_reencode.

(* steps and allocation (the model's meter counts both) linear in the input length, with the
   repaired decodeBytes ... *)
Theorem C33_cost_ideal : forall t bs, In t schemas ->
  decode_cost ideal t bs <= (ca t + cb t) * (1 + len bs).
Proof. exact cost_schemas_ideal. Qed.
Print Assumptions C33_cost_ideal.

(* ... and on the current tree for the messages without byte-string fields: block announce
   handshake, transactions, GRANDPA handshake and messages, warp sync request *)
Theorem C33_cost_partial : forall t bs, In t bytes_free_schemas ->
  decode_cost current t bs <= (ca t + cb t) * (1 + len bs).
Proof. exact cost_schemas_current. Qed.
Print Assumptions C33_cost_partial.

(* round 5: on the current tree, for EVERY schema, a message that decodes cost at most the linear
   bound plus the total length of the byte strings in the decoded message (the declared lengths
   decodeBytes accepted): the excess of finding bytes-alloc, named.  Failing decodes: only
   C33_cost_partial. *)
Theorem C33_cost_excess : forall t bs v r, In t schemas ->
  decode_res current t bs = Ok (v, r) ->
  decode_cost current t bs <= (ca t + cb t) * (1 + len bs) + bytes_total v.
Proof. exact cost_schemas_excess. Qed.
Print Assumptions C33_cost_excess.

(* closer: on the current tree, for EVERY schema and EVERY input - failing decodes included - the
   cost is at most the linear bound plus declared_total t bs = Scale.CostDeclared.declared current
   t bs, a walker over the input that sums the byte-string lengths decodeBytes accepts (the
   arguments of make([]byte, length)) whether or not the read that follows, or a later field,
   fails.  It extends C33_cost_excess to all outcomes ... *)
Theorem C33_cost_declared : forall t bs, In t schemas ->
  decode_cost current t bs <= (ca t + cb t) * (1 + len bs) + declared_total t bs.
Proof. exact cost_schemas_declared. Qed.
Print Assumptions C33_cost_declared.

(* ... and on success the walker's sum is the byte-string total of the decoded message *)
Theorem C33_cost_declared_success : forall t bs v r, In t schemas ->
  decode_res current t bs = Ok (v, r) -> declared_total t bs = bytes_total v.
Proof. exact declared_schemas_success. Qed.
Print Assumptions C33_cost_declared_success.

(* non-vacuity, FAILING decodes: a 108-byte block announce whose digest item declares a byte vector
   of 1 048 575 bytes and supplies one (accepted: short read), the best-block flag then missing -
   an error, cost above the linear term alone, within the bound with the declared term; a header
   (block response) with 16 383 declared bytes and the second digest item missing *)
Example C33_cost_declared_nonvacuous :
  (In s_bam schemas /\ decode_res current s_bam w_bam = Err 1%nat /\ len w_bam = 108 /\
   declared_total s_bam w_bam = 1048575 /\ 1048575 <= decode_cost current s_bam w_bam /\
   (ca s_bam + cb s_bam) * (1 + len w_bam) < decode_cost current s_bam w_bam /\
   decode_cost current s_bam w_bam <=
     (ca s_bam + cb s_bam) * (1 + len w_bam) + declared_total s_bam w_bam) /\
  (In s_header schemas /\ decode_res current s_header w_header = Err 1%nat /\
   declared_total s_header w_header = 16383 /\ 16383 <= decode_cost current s_header w_header).
Proof. exact cost_declared_witness. Qed.

(* closer: the declared-length bound lifted to the block response layer.  bresp_cost blocks =
   snd (bresp_decode current blocks) is the meter Model.bresp_decode threads: the sum of the
   header / body decode costs in the order the model (and BlockResponseMessage.Decode) runs them,
   stopping at the first failing decode.  For EVERY response - any number of blocks, any field
   bytes, failing decodes included - it is at most a_bresp * (1 + decoder input bytes + number of
   blocks) + the declared totals of the fields, a_bresp = (ca + cb) s_header + (ca + cb) s_body
   = 17 102.  block_bytes = header bytes + (when there is a body entry) compact(#entries) ++
   entries; block_declared = declared_total s_header (header bytes, when present) +
   declared_total s_body (body bytes, when there is an entry). *)
Theorem C33_bresp_cost_declared : forall blocks,
  bresp_cost blocks <=
    a_bresp * (1 + sumN block_bytes blocks + N.of_nat (length blocks)) +
    sumN block_declared blocks.
Proof. exact bresp_cost_declared. Qed.
Print Assumptions C33_bresp_cost_declared.

(* ... exact to the fields the decoder runs: only the visited blocks (up to and including the first
   failing one) count, and in a block whose header fails the body does not *)
Theorem C33_bresp_cost_declared_run : forall blocks,
  bresp_cost blocks <=
    a_bresp * (sumN block_bytes_run (visited blocks) + N.of_nat (length (visited blocks))) +
    sumN block_declared_run (visited blocks).
Proof. exact bresp_cost_run. Qed.
Print Assumptions C33_bresp_cost_declared_run.

(* ... and in the protobuf fields themselves (header bytes, body entry bytes, number of entries):
   the compact count in front of the body entries is at most 4 + #entries bytes *)
Theorem C33_bresp_cost_declared_pb : forall blocks,
  bresp_cost blocks <=
    a_bresp * (1 + sumN pb_bytes blocks + sumN pb_entries blocks + 5 * N.of_nat (length blocks)) +
    sumN block_declared blocks.
Proof. exact bresp_cost_declared_pb. Qed.
Print Assumptions C33_bresp_cost_declared_pb.

Theorem C33_bresp_constant :
  a_bresp = ca s_header + cb s_header + (ca s_body + cb s_body) /\ a_bresp <= 109000.
Proof. exact a_bresp_value. Qed.
Print Assumptions C33_bresp_constant.

(* non-vacuity: two blocks; the first decodes (header with an empty digest, one body entry), the
   header of the second declares a byte vector of 4 194 303 bytes, supplies one and then lacks its
   second digest item: Err, the body of block 2 is never decoded, the meter (4 194 728) is above
   the linear term alone and within the bound with the declared term *)
Example C33_bresp_cost_declared_nonvacuous :
  bresp_decode current w_bresp = (Err 1%nat, 4194728) /\
  fst (block_ok current w_hdr_ok [w_entry]) = Ok tt /\
  decode_res current s_header w_hdr_big = Err 1%nat /\
  hdr_declared w_hdr_big = 4194303 /\
  length (visited w_bresp) = 2%nat /\
  sumN block_bytes w_bresp = 214 /\ sumN block_declared w_bresp = 4194307 /\
  sumN block_bytes_run (visited w_bresp) = 210 /\
  sumN block_declared_run (visited w_bresp) = 4194305 /\
  a_bresp * (1 + sumN block_bytes w_bresp + 2) < bresp_cost w_bresp /\
  bresp_cost w_bresp <= a_bresp * (1 + sumN block_bytes w_bresp + 2) + sumN block_declared w_bresp.
Proof. exact bresp_declared_witness. Qed.

Theorem C33_cost_constants : forallb (fun t => ca t + cb t <=? 54500) schemas = true.
Proof. exact cost_constants. Qed.
Print Assumptions C33_cost_constants.

(* finding bytes-alloc: messages with byte-string fields have no such bound on the current tree *)
Theorem C33_cost_refuted :
  let bs := map n2b [2; 104; 34; 0; 84; 150; 141] in
  decode_res current s_lreq bs = Err 1%nat /\ 500000 <= decode_cost current s_lreq bs /\
  bytes_alloc s_lreq bs = true /\ decode_cost ideal s_lreq bs <= 5000.
Proof. exact bytes_alloc_witness. Qed.
Print Assumptions C33_cost_refuted.

(* non-vacuity: a GRANDPA neighbour packet and a block announce handshake decode *)
Example C33_nonvacuous :
  decode_res current s_gmsg (map n2b [2; 1; 5; 0; 0; 0; 0; 0; 0; 0; 7; 0; 0; 0; 0; 0; 0; 0; 9; 0; 0; 0]) =
    Ok (VEnum 2 (VEnum 1 (VList (VCons (VN 5) (VCons (VN 7) (VCons (VN 9) VNil))))), []) /\
  decode_res current s_ghs [n2b 4] = Ok (VList (VCons (VN 4) VNil), []) /\
  decode_res current s_gmsg [n2b 9] = Err 1%nat.
Proof. vm_compute. repeat split; reflexivity. Qed.
