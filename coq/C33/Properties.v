(* C33/Properties.v — property C33: network message decoders withstand arbitrary peer input.
   Only statements, each closed by `exact <lemma>`, with Print Assumptions beneath. *)
From Common Require Import Bytes Outcome.
From Scale Require Import Compact Types Spec Codec.
From C33 Require Import Model Proofs.
Local Open Scope N_scope.

(* every message schema is a well-formed SCALE shape (so the theorems of Scale apply to it) *)
Theorem C33_schemas_wf : forallb wf_ty schemas = true.
Proof. exact schemas_wf. Qed.
Print Assumptions C33_schemas_wf.
