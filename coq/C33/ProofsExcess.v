(* C33/ProofsExcess.v — round 5 (auditor): cost of the message decoders on the CURRENT tree with the
   excess term named (Scale/CostExcess.v): every schema is map-free. *)
From Coq Require Import ZifyN ZifyNat ZifyBool.
From Common Require Import Bytes Outcome.
From Scale Require Import Compact Types Spec Codec Cost WellTyped CostExcess.
From C33 Require Import Model Proofs.
Local Open Scope N_scope.

Lemma cost_schemas_excess t bs v r : In t schemas ->
  decode_res current t bs = Ok (v, r) ->
  decode_cost current t bs <= (ca t + cb t) * (1 + len bs) + bytes_total v.
Proof.
  intros H D. destruct schemas_shape as [MF _].
  pose proof (decode_cost_excess current eq_refl eq_refl eq_refl t bs v r (schema_wf t H)
                (proj1 (forallb_forall map_free _) MF t H) D) as C.
  eapply N.le_trans; [exact C|]. apply N.add_le_mono_r. apply linear_of. apply N.le_refl.
Qed.
