(* C33/ProofsDeclared.v — closer: cost of the message decoders on the CURRENT tree for EVERY input
   (failing decodes included), the excess over the linear bound named by the walker
   Scale.CostDeclared.declared (sum of the byte-string lengths decodeBytes accepts on the way,
   whether or not the read that follows, or a later field, fails). *)
From Coq Require Import ZifyN ZifyNat ZifyBool.
From Common Require Import Bytes Outcome.
From Scale Require Import Compact Types Spec Codec Cost WellTyped CostExcess CostDeclared.
From C33 Require Import Model Proofs.
Local Open Scope N_scope.

Definition declared_total (t : ty) (bs : list byte) : N := declared current t bs.

Lemma cost_schemas_declared t bs : In t schemas ->
  decode_cost current t bs <= (ca t + cb t) * (1 + len bs) + declared_total t bs.
Proof.
  intro H.
  pose proof (decode_cost_declared current eq_refl eq_refl eq_refl eq_refl t bs (schema_wf t H)) as C.
  eapply N.le_trans; [exact C|]. apply N.add_le_mono_r. apply linear_of. apply N.le_refl.
Qed.

(* on success the walker's sum is the byte-string total of the decoded message (every schema is
   map-free): C33_cost_excess is the successful case of cost_schemas_declared *)
Lemma declared_schemas_success t bs v r : In t schemas ->
  decode_res current t bs = Ok (v, r) -> declared_total t bs = bytes_total v.
Proof.
  intros H D. destruct schemas_shape as [MF _].
  exact (declared_bytes_total current eq_refl eq_refl eq_refl t bs v r
           (proj1 (forallb_forall map_free _) MF t H) D).
Qed.

Definition zeros (n : nat) : list N := repeat 0 n.

(* witnesses: FAILING decodes of real schemas.
   1. a block announce (s_bam): parent hash, number 0, state root, extrinsics root, a digest of one
      item with tag 4 (engine id + byte vector) whose byte vector declares 1 048 575 bytes
      (compact fe ff 3f 00) and supplies one; decodeBytes accepts (short read), then the
      best-block flag meets the end of the input: Err, the message is never built, and the
      1 048 575 bytes requested are named by the walker; the cost (1 048 794) is above the linear
      term alone (948 082), so the declared term is needed;
   2. a header inside a block response (s_header): the same with 16 383 declared bytes (fd ff) and
      a second digest item missing. *)
Definition w_bam : list byte :=
  map n2b (zeros 32 ++ [0] ++ zeros 32 ++ zeros 32 ++ [4; 4; 66; 65; 66; 69; 254; 255; 63; 0; 65]).
Definition w_header : list byte :=
  map n2b (zeros 32 ++ [0] ++ zeros 32 ++ zeros 32 ++ [8; 6; 66; 65; 66; 69; 253; 255; 65]).

Lemma cost_declared_witness :
  (In s_bam schemas /\ decode_res current s_bam w_bam = Err 1%nat /\ len w_bam = 108 /\
   declared_total s_bam w_bam = 1048575 /\ 1048575 <= decode_cost current s_bam w_bam /\
   (ca s_bam + cb s_bam) * (1 + len w_bam) < decode_cost current s_bam w_bam /\
   decode_cost current s_bam w_bam <=
     (ca s_bam + cb s_bam) * (1 + len w_bam) + declared_total s_bam w_bam) /\
  (In s_header schemas /\ decode_res current s_header w_header = Err 1%nat /\
   declared_total s_header w_header = 16383 /\ 16383 <= decode_cost current s_header w_header).
Proof.
  split.
  - split; [cbn; tauto|]. split; [vm_compute; reflexivity|]. split; [vm_compute; reflexivity|].
    split; [vm_compute; reflexivity|]. split; [vm_compute; discriminate|].
    split; [vm_compute; reflexivity|].
    apply cost_schemas_declared. cbn; tauto.
  - split; [cbn; tauto|]. split; [vm_compute; reflexivity|]. split; [vm_compute; reflexivity|].
    vm_compute; discriminate.
Qed.
