(* C33/Proofs.v — lemmas behind C33/Properties.v: the theorems of Scale (Total, Cost) instantiated
   at the message schemas. *)
From Coq Require Import ZifyN ZifyNat ZifyBool.
From Common Require Import Bytes Outcome.
From Scale Require Import Compact Types Spec Codec MonadLemmas Total Cost WellTyped.
From C33 Require Import Model.
Local Open Scope N_scope.

Lemma schemas_wf : forallb wf_ty schemas = true.
Proof. vm_compute. reflexivity. Qed.

Lemma schema_wf t : In t schemas -> wf_ty t = true.
Proof. intro H. exact (proj1 (forallb_forall wf_ty schemas) schemas_wf t H). Qed.

(* every SCALE message decoder returns a message or an error on every input: no panic, no
   exhausted fuel (= termination within |input| + 1 element-loop iterations per sequence) *)
Lemma total_schemas t bs : In t schemas ->
  decode_res current t bs <> Panic /\ decode_res current t bs <> OutOfFuel.
Proof.
  intro H. unfold decode_res, run_decode.
  exact (decode_total current eq_refl eq_refl t bs 0 (schema_wf t H)).
Qed.

Lemma total_body bs : fst (dec_body current bs) <> Panic /\ fst (dec_body current bs) <> OutOfFuel.
Proof.
  unfold dec_body. destruct bs as [|x r]; [split; discriminate|].
  apply (total_schemas s_body (x :: r)). cbn. tauto.
Qed.

(* the layer above protobuf: block requests *)
Lemma breq_total fields from dir maxb : exists o, breq_decode fields from dir maxb = o.
Proof. eexists. reflexivity. Qed.

Lemma linear_of t bs k : k <= ca t + cb t * len bs -> k <= (ca t + cb t) * (1 + len bs).
Proof. intro H. eapply N.le_trans; [exact H|]. rewrite N.mul_add_distr_r, !N.mul_add_distr_l. lia. Qed.

(* cost (calls of unmarshal + bytes requested from make) linear in the input, for the decoder with
   the repaired decodeBytes *)
Lemma cost_schemas_ideal t bs : In t schemas ->
  decode_cost ideal t bs <= (ca t + cb t) * (1 + len bs).
Proof.
  intro H. apply linear_of. apply (decode_cost_linear ideal eq_refl eq_refl t bs (schema_wf t H)). now left.
Qed.

(* and on the current tree for the messages without []byte / string fields *)
Definition bytes_free_schemas : list ty := [s_bah; s_txm; s_ghs; s_gmsg; s_warp].
Lemma bytes_free_ok : forallb bytes_free bytes_free_schemas = true /\ forallb wf_ty bytes_free_schemas = true.
Proof. vm_compute. split; reflexivity. Qed.

Lemma cost_schemas_current t bs : In t bytes_free_schemas ->
  decode_cost current t bs <= (ca t + cb t) * (1 + len bs).
Proof.
  intro H. destruct bytes_free_ok as [B W].
  apply linear_of. apply (decode_cost_linear current eq_refl eq_refl t bs).
  - exact (proj1 (forallb_forall wf_ty _) W t H).
  - right. exact (proj1 (forallb_forall bytes_free _) B t H).
Qed.

(* the constants: no schema needs more than 54 500 per input byte *)
Lemma cost_constants : forallb (fun t => ca t + cb t <=? 54500) schemas = true.
Proof. vm_compute. reflexivity. Qed.

(* finding bytes-alloc: a light request of 7 bytes makes the current decoder request 563 KiB *)
Lemma bytes_alloc_witness :
  let bs := map n2b [2; 104; 34; 0; 84; 150; 141] in
  decode_res current s_lreq bs = Err 1%nat /\ 500000 <= decode_cost current s_lreq bs /\
  bytes_alloc s_lreq bs = true /\ decode_cost ideal s_lreq bs <= 5000.
Proof. vm_compute. repeat split; try reflexivity; discriminate. Qed.

(* successfully decoded messages re-encode to equal messages: marshalling the decoded value and
   decoding again gives the same value (every schema is map-free and has no option of an enum) *)
Lemma schemas_shape : forallb map_free schemas = true /\ forallb no_opt_enum schemas = true.
Proof. vm_compute. split; reflexivity. Qed.

Lemma reencode_schemas t bs v r r' : In t schemas ->
  decode_res current t bs = Ok (v, r) ->
  decode_res current t (encode_go t v ++ r') = Ok (v, r').
Proof.
  intros H D. destruct schemas_shape as [MF NOE].
  apply (reencode current t bs v r r' eq_refl eq_refl eq_refl (schema_wf t H)); [| |exact D].
  - exact (proj1 (forallb_forall map_free _) MF t H).
  - exact (proj1 (forallb_forall no_opt_enum _) NOE t H).
Qed.
