(* C33/Proofs.v — lemmas behind C33/Properties.v: the theorems of Scale (Total, Cost) instantiated
   at the message schemas. *)
From Coq Require Import ZifyN ZifyNat ZifyBool.
From Common Require Import Bytes Outcome.
From Scale Require Import Compact Types Spec Codec MonadLemmas Total Cost WellTyped.
From C33 Require Import Model.
Local Open Scope N_scope.

Lemma schemas_wf : forallb wf_ty schemas = true.
Proof. vm_compute. reflexivity. Qed.

Lemma schema_wf t : In t schemas -> wf_ty t = true.
Proof. intro H. exact (proj1 (forallb_forall wf_ty schemas) schemas_wf t H). Qed.

(* every SCALE message decoder returns a message or an error on every input: no panic, no
   exhausted fuel (= termination within |input| + 1 element-loop iterations per sequence) *)
Lemma total_schemas t bs : In t schemas ->
  decode_res current t bs <> Panic /\ decode_res current t bs <> OutOfFuel.
Proof.
  intro H. unfold decode_res, run_decode.
  exact (decode_total current eq_refl eq_refl t bs 0 (schema_wf t H)).
Qed.

Lemma total_body bs : fst (dec_body current bs) <> Panic /\ fst (dec_body current bs) <> OutOfFuel.
Proof.
  unfold dec_body. destruct bs as [|x r]; [split; discriminate|].
  apply (total_schemas s_body (x :: r)). cbn. tauto.
Qed.

(* the layer above protobuf: block requests *)
Lemma breq_total fields from dir maxb : exists o, breq_decode fields from dir maxb = o.
Proof. eexists. reflexivity. Qed.

Lemma linear_of t bs k : k <= ca t + cb t * len bs -> k <= (ca t + cb t) * (1 + len bs).
Proof. intro H. eapply N.le_trans; [exact H|]. rewrite N.mul_add_distr_r, !N.mul_add_distr_l. lia. Qed.

(* cost (calls of unmarshal + bytes requested from make) linear in the input, for the decoder with
   the repaired decodeBytes *)
Lemma cost_schemas_ideal t bs : In t schemas ->
  decode_cost ideal t bs <= (ca t + cb t) * (1 + len bs).
Proof.
  intro H. apply linear_of. apply (decode_cost_linear ideal eq_refl eq_refl t bs (schema_wf t H)). now left.
Qed.

(* and on the current tree for the messages without []byte / string fields *)
Definition bytes_free_schemas : list ty := [s_bah; s_txm; s_ghs; s_gmsg; s_warp].
Lemma bytes_free_ok : forallb bytes_free bytes_free_schemas = true /\ forallb wf_ty bytes_free_schemas = true.
Proof. vm_compute. split; reflexivity. Qed.

Lemma cost_schemas_current t bs : In t bytes_free_schemas ->
  decode_cost current t bs <= (ca t + cb t) * (1 + len bs).
Proof.
  intro H. destruct bytes_free_ok as [B W].
  apply linear_of. apply (decode_cost_linear current eq_refl eq_refl t bs).
  - exact (proj1 (forallb_forall wf_ty _) W t H).
  - right. exact (proj1 (forallb_forall bytes_free _) B t H).
Qed.

(* the constants: no schema needs more than 54 500 per input byte *)
Lemma cost_constants : forallb (fun t => ca t + cb t <=? 54500) schemas = true.
Proof. vm_compute. reflexivity. Qed.

(* finding bytes-alloc: a light request of 7 bytes makes the current decoder request 563 KiB *)
Lemma bytes_alloc_witness :
  let bs := map n2b [2; 104; 34; 0; 84; 150; 141] in
  decode_res current s_lreq bs = Err 1%nat /\ 500000 <= decode_cost current s_lreq bs /\
  bytes_alloc s_lreq bs = true /\ decode_cost ideal s_lreq bs <= 5000.
Proof. vm_compute. repeat split; try reflexivity; discriminate. Qed.

(* successfully decoded messages re-encode to equal messages: marshalling the decoded value and
   decoding again gives the same value (every schema is map-free and has no option of an enum) *)
Lemma schemas_shape : forallb map_free schemas = true /\ forallb no_opt_enum schemas = true.
Proof. vm_compute. split; reflexivity. Qed.

Lemma reencode_schemas t bs v r r' : In t schemas ->
  decode_res current t bs = Ok (v, r) ->
  decode_res current t (encode_go t v ++ r') = Ok (v, r').
Proof.
  intros H D. destruct schemas_shape as [MF NOE].
  apply (reencode current t bs v r r' eq_refl eq_refl eq_refl (schema_wf t H)); [| |exact D].
  - exact (proj1 (forallb_forall map_free _) MF t H).
  - exact (proj1 (forallb_forall no_opt_enum _) NOE t H).
Qed.

(* ---- second round (auditor): the block response layer *)
Lemma pair_fst {A B} (p : A * B) a b : p = (a, b) -> fst p = a.
Proof. now intros ->. Qed.

Lemma block_ok_total hdr entries :
  fst (block_ok current hdr entries) <> Panic /\ fst (block_ok current hdr entries) <> OutOfFuel.
Proof.
  unfold block_ok.
  assert (TH : forall bs, fst (run_decode current s_header bs) <> Panic /\
                          fst (run_decode current s_header bs) <> OutOfFuel).
  { intro bs. apply (total_schemas s_header bs). cbn. tauto. }
  assert (TB := total_body (body_bytes entries)).
  destruct hdr as [|x hr].
  - destruct entries as [|e er]; [cbn; split; discriminate|].
    destruct (dec_body current (body_bytes (e :: er))) as [[ | | | ] k]; cbn [fst] in *; cbn;
      split; try discriminate; tauto.
  - specialize (TH (x :: hr)).
    destruct (run_decode current s_header (x :: hr)) as [[ | | | ] k]; cbn [fst] in *;
      try (cbn; split; try discriminate; tauto).
    destruct entries as [|e er]; [cbn; split; discriminate|].
    destruct (dec_body current (body_bytes (e :: er))) as [[ | | | ] k2]; cbn [fst] in *; cbn;
      split; try discriminate; tauto.
Qed.

(* BlockResponseMessage.Decode above the protobuf parse: a message or an error *)
Lemma bresp_total blocks :
  fst (bresp_decode current blocks) <> Panic /\ fst (bresp_decode current blocks) <> OutOfFuel.
Proof.
  induction blocks as [|[hdr entries] r IH]; [cbn; split; discriminate|].
  cbn [bresp_decode]. pose proof (block_ok_total hdr entries) as T.
  destruct (block_ok current hdr entries) as [[ | | | ] k]; cbn [fst] in *;
    try (split; try discriminate; tauto).
  destruct (bresp_decode current r) as [o k']. cbn [fst] in *. exact IH.
Qed.

Lemma block_view_ok hdr entries :
  (exists x, block_view current hdr entries = Ok x) <-> fst (block_ok current hdr entries) = Ok tt.
Proof.
  unfold block_view, block_ok, decode_res.
  destruct hdr as [|x hr].
  - destruct entries as [|e er]; [cbn; split; [reflexivity|eauto]|].
    destruct (dec_body current (body_bytes (e :: er))) as [[[v rest] | | | ] k]; cbn [fst];
      split; intro H; try discriminate; try (destruct H as [? H]; discriminate); eauto.
  - destruct (run_decode current s_header (x :: hr)) as [[[v rest] | | | ] k]; cbn [fst];
      try (split; intro H; try discriminate; destruct H as [? H]; discriminate).
    destruct entries as [|e er]; [split; [reflexivity|eauto]|].
    destruct (dec_body current (body_bytes (e :: er))) as [[[v2 rest2] | | | ] k2]; cbn [fst];
      split; intro H; try discriminate; try (destruct H as [? H]; discriminate); eauto.
Qed.

(* the view (what Decode returns) exists exactly when the decoder succeeds, and has one entry
   per block *)
Lemma bresp_view_ok blocks :
  (exists l, bresp_view current blocks = Ok l /\ length l = length blocks) <->
  fst (bresp_decode current blocks) = Ok tt.
Proof.
  induction blocks as [|[hdr entries] r IH]; [cbn; split; [reflexivity|intros _; now exists []]|].
  cbn [bresp_view bresp_decode]. pose proof (block_view_ok hdr entries) as B.
  destruct (block_ok current hdr entries) as [[[] | | | ] k] eqn:E; cbn [fst] in *.
  - destruct (proj2 B eq_refl) as [x ->].
    destruct (bresp_decode current r) as [o k']. cbn [fst] in *. split.
    + intros (l & H & L). destruct (bresp_view current r) as [l'| | | ]; try discriminate.
      apply IH. exists l'. split; [reflexivity|]. injection H as <-. cbn in L. lia.
    + intro H. destruct (proj2 IH H) as (l' & -> & L'). exists (x :: l'). split; [reflexivity|]. cbn. lia.
  - split; [|discriminate]. intros (l & H & _).
    destruct (block_view current hdr entries) as [p| | | ] eqn:V; try discriminate.
    assert (X : exists x, Ok p = Ok x) by eauto. apply B in X. discriminate.
  - split; [|discriminate]. intros (l & H & _).
    destruct (block_view current hdr entries) as [p| | | ] eqn:V; try discriminate.
    assert (X : exists x, Ok p = Ok x) by eauto. apply B in X. discriminate.
  - split; [|discriminate]. intros (l & H & _).
    destruct (block_view current hdr entries) as [p| | | ] eqn:V; try discriminate.
    assert (X : exists x, Ok p = Ok x) by eauto. apply B in X. discriminate.
Qed.

(* block requests: a start hash is always 32 bytes; a start number comes from exactly 4 bytes and
   is below 2^32; the requested-data and direction fields are single bytes *)
Lemma breq_shape fields from dir maxb data start d mx :
  breq_decode fields from dir maxb = Some (data, start, d, mx) ->
  data < 256 /\ d < 256 /\ (mx = None <-> maxb = 0) /\
  match start with
  | StartHash h => length h = 32%nat
  | StartNumber n => n < 4294967296
  end.
Proof.
  unfold breq_decode.
  assert (B : forall x, N.land x 255 < 256).
  { intro x. rewrite land255_mod. apply N.mod_lt. lia. }
  assert (MX : (if maxb =? 0 then None else Some maxb) = None <-> maxb = 0).
  { destruct (N.eqb_spec maxb 0) as [E|E]; split; intro X;
      [exact E|reflexivity|discriminate X|contradiction]. }
  pose proof (B (N.shiftr fields 24)) as B1. pose proof (B dir) as B2.
  remember (N.land (N.shiftr fields 24) 255) as x1 eqn:E1.
  remember (N.land dir 255) as x3 eqn:E3.
  remember (if maxb =? 0 then None else Some maxb) as x4 eqn:E4.
  destruct from as [b|b|]; [| |discriminate].
  - assert (L : length (bytes_to_hash b) = 32%nat).
    { unfold bytes_to_hash, pad_front, zeros. rewrite app_length, repeat_length, skipn_length. lia. }
    remember (bytes_to_hash b) as x2 eqn:E2.
    intro H. injection H as <- <- <- <-. repeat split; try assumption; apply MX.
  - destruct (Nat.eqb_spec (length b) 4) as [L|L]; [|discriminate].
    pose proof (le_val_lt b) as LT. rewrite L in LT. change (256 ^ N.of_nat 4) with 4294967296 in LT.
    remember (le_val b) as x2 eqn:E2.
    intro H. injection H as <- <- <- <-. repeat split; try assumption; apply MX.
Qed.
