(* C33/Proofs.v — lemmas behind C33/Properties.v. *)
From Common Require Import Bytes Outcome.
From Scale Require Import Compact Types Spec Codec.
From C33 Require Import Model.
Local Open Scope N_scope.

Lemma schemas_wf : forallb wf_ty schemas = true.
Proof. vm_compute. reflexivity. Qed.
