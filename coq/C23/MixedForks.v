(* C23/MixedForks.v -- fifth round: INDUCTIVE refinement for histories that MIX scheduled and forced
   changes on ARBITRARY well-formed block trees (forks included): any announcements, every history
   of imports and finalisations of any length outside the guard of the known finding; agreement on
   ok/error, current set id, authorities per set id, set id per block number (obs_eq3).  Combines
   the simulation relations of Forks.v (s_roots = filter known g_roots) and Forced2.v
   (g_forced = filter live s_forced) and adds the two places where the containers interact: the
   dependency check + reset of ApplyForcedChanges, and Substrate's forced-change filter that only
   runs when its standard-change tree changed. *)
From Coq Require Import NArith List Bool Arith Lia.
From C23 Require Import Model Spec Enum Proofs Local Reach Bounded Chain Forced OnePerFork Forks Forced2.
Import ListNotations.
Local Open Scope N_scope.

Record xinv (t : tree) (imported : list nat) (fin : nat) (g : gst) (q : sst) : Prop := {
  x_closed : forall a d, In d imported -> is_anc t a d = true -> In a imported;
  x_fin_in : In fin imported;
  x_rel : g_forced g = filter (livec t fin) (s_forced q);
  x_sorted : sorted_by_key t (s_forced q) = true;
  x_each : forall x, In x (s_forced q) ->
           In (pc_blk x) imported /\ is_anc t (pc_blk x) fin = false /\ 1 <= eff t x;
  x_fwf : allP (fwf t) (g_roots g);
  x_blocks : forall b, In b (fblocks (g_roots g)) -> In b imported;
  x_roots : s_roots q = filter (lroot t fin) (g_roots g);
  x_dis : forall x b, In x (s_forced q) -> In b (fblocks (g_roots g)) -> pc_blk x <> b;
  x_setid : g_setid g = s_setid q;
  x_auths : forall id, aget (g_auths g) id = aget (s_hist q) id;
  x_tables : exists ls, tables_inv g ls /\ s_changes q = spec_table_from 0 ls;
  x_gfin : g_fin g = fin;
  x_bestfin : match s_bestfin q with Some bf => bf <= number t fin | None => True end
}.

Lemma xinv_init : forall t, wf t = true -> xinv t [O] O ginit sinit.
Proof.
  intros t W. constructor.
  - intros a d [<-|[]] H. rewrite is_anc_unfold in H by exact W. rewrite orb_false_r in H.
    apply Nat.eqb_eq in H. left. symmetry. exact H.
  - left. reflexivity.
  - reflexivity.
  - reflexivity.
  - intros x [].
  - exact I.
  - intros b [].
  - reflexivity.
  - intros x b [].
  - reflexivity.
  - intros id. reflexivity.
  - exists []. split; [apply tables_inv_init | reflexivity].
  - reflexivity.
  - exact I.
Qed.

Lemma xinv_obs : forall t imported fin g q, xinv t imported fin g q -> obs_eq3 t g q = true.
Proof.
  intros t imported fin g q K. destruct K. destruct x_tables0 as [ls [T C]].
  unfold obs_eq3. apply andb_true_iff; split; [apply andb_true_iff; split|].
  - apply N.eqb_eq. exact x_setid0.
  - apply forallb_forall. intros id _. rewrite x_auths0. apply opt_n_eqb_refl.
  - destruct (nondecr (s_changes q)) eqn:ND; [|reflexivity]. cbn [negb orb].
    rewrite C, nondecr_table in ND. apply forallb_forall. intros k _.
    rewrite (setid_obs g q ls _ T ND C x_setid0). apply opt_n_eqb_refl.
Qed.

(* ---- the dependency check of a forced change on pending scheduled changes ---- *)
Lemma find_existsb : forall {A B} (p : A -> bool) l (a b : B),
  match find p l with Some _ => a | None => b end = if existsb p l then a else b.
Proof.
  intros A B p l a b. induction l as [|x r IH]; [reflexivity|]. cbn [find existsb].
  destruct (p x); [reflexivity | exact IH].
Qed.

Lemma dep_equiv : forall t fin fc G, wf t = true -> is_anc t fin (pc_blk fc) = true ->
  (forall b, In b (fblocks G) -> pc_blk fc <> b) ->
  existsb (depends_on t fin fc) G =
  existsb (fun n => (eff t (n_change n) <=? pc_bestfin fc) && sdesc t (pc_blk (n_change n)) (pc_blk fc))
          (filter (lroot t fin) G).
Proof.
  intros t fin fc G W Hc. induction G as [|n r IH]; intros Hd; [reflexivity|].
  assert (Hr : forall b, In b (fblocks r) -> pc_blk fc <> b).
  { intros b Hb. apply Hd. unfold fblocks in *. cbn [flat_map]. apply in_or_app. right. exact Hb. }
  assert (Hn : pc_blk fc <> nblk n) by (apply Hd; apply in_fblocks_root; left; reflexivity).
  cbn [existsb filter]. rewrite (IH Hr). unfold depends_on at 1. rewrite rel_live by assumption. fold (nblk n).
  destruct (lroot t fin n) eqn:L.
  - cbn [existsb]. f_equal. unfold sdesc. fold (nblk n).
    assert (E : Nat.eqb (nblk n) (pc_blk fc) = false) by (apply Nat.eqb_neq; congruence). rewrite E. reflexivity.
  - assert (A : is_anc t (nblk n) (pc_blk fc) = false).
    { destruct (is_anc t (nblk n) (pc_blk fc)) eqn:A; [|reflexivity].
      unfold lroot in L. rewrite (known_of_anc t fin _ _ W Hc A) in L. discriminate. }
    rewrite A, andb_false_r. reflexivity.
Qed.

(* ---- ApplyForcedChanges / apply_forced_changes after the import of a live block b ---- *)
Lemma xapply : forall t imported fin g q b, wf t = true -> xinv t imported fin g q ->
  is_anc t fin b = true ->
  match s_apply_forced t q b with
  | None => apply_forced fixed t g b = None
  | Some q' => exists g', apply_forced fixed t g b = Some g' /\ xinv t imported fin g' q'
  end.
Proof.
  intros t imported fin g q b W K Hb. pose proof K as K0.
  destruct K as [Kc Kf Kr Ks Ke Kw Kb Kro Kd Ksi Ka Kt Kgf Kbf]. destruct Kt as [ls [T C]].
  rewrite apply_forced_fixed. unfold s_apply_forced. rewrite Kgf, Kr, Kro.
  rewrite find_forced_sorted2 by assumption.
  assert (FA' : forall l, find (forced_applicable t fin b) l = find (applicable t b) l).
  { intros l. induction l as [|x r IH]; [reflexivity|]. cbn [find]. unfold forced_applicable at 1, applicable at 1.
    rewrite rel_live by assumption. rewrite IH. reflexivity. }
  rewrite FA'. rewrite find_filter.
  2:{ intros x Hx P. unfold applicable in P. apply andb_true_iff in P. destruct P as [_ P].
      destruct (Ke x Hx) as [_ [Hn _]]. unfold livec. apply (live_of_anc t fin _ b); assumption. }
  destruct (find (applicable t b) (s_forced q)) as [fc|] eqn:FF.
  - apply find_some in FF. destruct FF as [Hin Hap].
    unfold applicable in Hap. apply andb_true_iff in Hap. destruct Hap as [_ Hap].
    destruct (Ke fc Hin) as [_ [Hnf _]].
    assert (Hfl : is_anc t fin (pc_blk fc) = true) by (apply (live_of_anc t fin _ b); assumption).
    rewrite find_existsb. rewrite (dep_equiv t fin fc (g_roots g) W Hfl (fun b0 Hb0 => Kd fc b0 Hin Hb0)).
    destruct (existsb _ (filter (lroot t fin) (g_roots g))); [reflexivity|].
    eexists. split; [reflexivity|].
    destruct T as [J1 R1]. pose proof (conj J1 R1) as T.
    constructor; cbn [g_forced g_roots g_setid g_auths g_changes g_fin s_forced s_roots s_setid s_hist s_changes s_bestfin filter];
      try assumption; try reflexivity; try (intros ? ? []); try (intros ? []); try exact I.
    + rewrite Ksi. reflexivity.
    + intros id. rewrite aget_aput, aget_snoc. rewrite <- Ka. rewrite <- Ksi.
      destruct (g_setid g + 1 =? id) eqn:E; [|destruct (aget (g_auths g) id); reflexivity].
      apply N.eqb_eq in E. subst id.
      destruct T as [_ [_ [_ [_ [_ I6]]]]]. rewrite I6 by lia. reflexivity.
    + exists (ls ++ [pc_bestfin fc]). split.
      * apply (tables_inv_push g _ ls (pc_bestfin fc) (pc_auth fc) T); reflexivity.
      * rewrite C, spec_table_snoc. cbn [Nat.add]. rewrite <- Ksi, J1. reflexivity.
  - exists g. split; [reflexivity | exact K0].
Qed.

Lemma filter_filter_imp_in : forall {A} (p q : A -> bool) l, (forall x, In x l -> p x = true -> q x = true) ->
  filter p (filter q l) = filter p l.
Proof.
  intros A p q. induction l as [|x r IH]; intros H; [reflexivity|]. cbn [filter].
  assert (Hr : forall y, In y r -> p y = true -> q y = true) by (intros y Hy; apply H; right; exact Hy).
  destruct (q x) eqn:Q; cbn [filter]; [rewrite (IH Hr); reflexivity|].
  destruct (p x) eqn:P; [rewrite (H x (or_introl eq_refl) P) in Q; discriminate | apply IH; exact Hr].
Qed.

Definition keepP (t : tree) (h : nat) (c : pchange) : bool := (number t h <? eff t c) && sdesc t h (pc_blk c).

(* one event (a finalisation only outside the guard of the known finding) *)
Lemma xstep : forall t sched forced, wf t = true -> sched_ok sched -> forced_ok forced ->
  forall imported fin g q e, xinv t imported fin g q -> In e (next_events t imported fin) ->
  guard_forced_on_finalised t q e = false ->
  match spec_step t sched forced q e with
  | None => is_rok (snd (go_step fixed t sched forced g e)) = false
  | Some q' =>
    is_rok (snd (go_step fixed t sched forced g e)) = true /\
    xinv t (match e with Import b => b :: imported | Finalise _ => imported end)
           (match e with Import _ => fin | Finalise b => b end)
           (fst (go_step fixed t sched forced g e)) q'
  end.
Proof.
  intros t sched forced W Hok Hfok imported fin g q e K Hin Hguard.
  unfold next_events in Hin. apply in_app_or in Hin. destruct e as [b|h].
  - (* Import b *)
    destruct Hin as [Hin|Hin]; apply in_map_iff in Hin; destruct Hin as [x [E Hx]]; [|discriminate].
    injection E as ->. apply filter_In in Hx. destruct Hx as [Hseq Hc].
    apply in_seq in Hseq.
    apply andb_true_iff in Hc. destruct Hc as [Hc H3]. apply andb_true_iff in Hc. destruct Hc as [H1 H2].
    apply negb_true_iff in H1.
    assert (Hnb : ~ In b imported) by (intros X; apply has_in in X; congruence).
    apply has_in in H2. destruct b as [|j]; [lia|].
    assert (Hfb : is_anc t fin (S j) = true) by (rewrite is_anc_unfold by exact W; rewrite H3; apply orb_true_r).
    assert (Fin : forall g1 q1, xinv t (S j :: imported) fin g1 q1 ->
      match s_apply_forced t q1 (S j) with
      | None => is_rok (snd (match apply_forced fixed t g1 (S j) with None => (g1, RErrForced) | Some s2 => (s2, ROk) end)) = false
      | Some q' => is_rok (snd (match apply_forced fixed t g1 (S j) with None => (g1, RErrForced) | Some s2 => (s2, ROk) end)) = true /\
                   xinv t (S j :: imported) fin (fst (match apply_forced fixed t g1 (S j) with None => (g1, RErrForced) | Some s2 => (s2, ROk) end)) q'
      end).
    { intros g1 q1 K1. pose proof (xapply t _ fin g1 q1 (S j) W K1 Hfb) as A.
      destruct (s_apply_forced t q1 (S j)) as [q'|].
      - destruct A as [g' [A1 A2]]. rewrite A1. cbn [fst snd is_rok]. split; [reflexivity | exact A2].
      - rewrite A. reflexivity. }
    destruct K as [Kc Kf Kr Ks Ke Kw Kb Kro Kd Ksi Ka Kt Kgfin Kbf]. destruct Kt as [ls [T C]].
    assert (Closed' : forall a d, In d (S j :: imported) -> is_anc t a d = true -> In a (S j :: imported)).
    { intros a d [<-|Hd] Ha.
      - rewrite is_anc_unfold in Ha by exact W. apply orb_true_iff in Ha. destruct Ha as [Ha|Ha].
        + apply Nat.eqb_eq in Ha. left. symmetry. exact Ha.
        + right. apply (Kc a (parent t (S j))); assumption.
      - right. apply (Kc a d); assumption. }
    assert (Each' : forall x, In x (s_forced q) -> In (pc_blk x) (S j :: imported) /\ is_anc t (pc_blk x) fin = false /\ 1 <= eff t x).
    { intros x Hx. destruct (Ke x Hx) as [A [B D]]. split; [right; exact A | auto]. }
    assert (Blocks' : forall b, In b (fblocks (g_roots g)) -> In b (S j :: imported)) by (intros b Hb; right; apply Kb; exact Hb).
    cbn [go_step spec_step].
    destruct (cfind forced (S j)) as [c|] eqn:Ec.
    + (* forced announcement (a scheduled one in the same block is ignored) *)
      pose proof (Hfok _ _ Ec) as Hcb.
      assert (Hcl : is_anc t fin (pc_blk c) = true) by (rewrite Hcb; exact Hfb).
      unfold add_forced, s_add_forced. rewrite Kgfin, Kr.
      rewrite forced_check_live; [| exact W | exact Hcl | intros x Hx; apply (Ke x Hx)].
      destruct (s_forced_check t (s_forced q) c); [|reflexivity].
      cbn [v_pred_lex fixed].
      apply Fin. constructor;
        cbn [g_forced g_roots g_setid g_auths g_changes g_fin s_forced s_roots s_setid s_hist s_changes s_bestfin];
        try assumption; try reflexivity.
      * right. exact Kf.
      * rewrite forced_insert_fixed by (apply sorted_filter; exact Ks).
        symmetry. apply filter_insert; [exact Ks | exact Hcl].
      * apply s_forced_insert_sorted. exact Ks.
      * intros x Hx. apply in_s_insert in Hx. destruct Hx as [->|Hx]; [|apply Each'; exact Hx].
        split; [left; symmetry; exact Hcb|]. split.
        -- destruct (is_anc t (pc_blk c) fin) eqn:A; [|reflexivity].
           exfalso. apply Hnb. rewrite <- Hcb. apply (Kc _ fin Kf A).
        -- unfold eff. rewrite Hcb. pose proof (number_pos t j W). lia.
      * intros x b Hx Hb. apply in_s_insert in Hx. destruct Hx as [->|Hx]; [|apply Kd; assumption].
        rewrite Hcb. intros E. apply Hnb. rewrite E. apply Kb. exact Hb.
      * exists ls. split; [|exact C]. apply (tables_inv_same g); [exact T | reflexivity | reflexivity | reflexivity].
    + destruct (cfind sched (S j)) as [c|] eqn:Es.
      * pose proof (Hok _ _ Es) as Hcb.
        assert (Hcl : is_anc t fin (pc_blk c) = true) by (rewrite Hcb; exact Hfb).
        assert (Hnew : forall b, In b (fblocks (g_roots g)) -> b <> pc_blk c).
        { intros b Hb E. apply Hnb. rewrite <- Hcb, <- E. apply Kb. exact Hb. }
        pose proof (import_roots_rel t fin c W Hcl (g_roots g) Kw Hnew) as Rel.
        unfold add_scheduled, s_add_standard. rewrite Kgfin.
        assert (Rv : (match s_bestfin q with Some bf => number t (pc_blk c) <=? bf | None => false end) = false).
        { destruct (s_bestfin q) as [bf|]; [|reflexivity]. apply N.leb_gt.
          assert (fin <> pc_blk c) by (intros X; apply Hnb; rewrite <- Hcb, <- X; exact Kf).
          pose proof (number_anc_lt t fin (pc_blk c) W Hcl H). lia. }
        rewrite Rv. rewrite Kro. unfold spec_import in Rel.
        assert (Dup : existsb (fun x => Nat.eqb (pc_blk (n_change x)) (pc_blk c)) (filter (lroot t fin) (g_roots g)) = false).
        { apply not_true_is_false. intros D. apply existsb_exists in D. destruct D as [x [Hx Ex]].
          apply Nat.eqb_eq in Ex. apply filter_In in Hx. destruct Hx as [Hx _].
          apply (Hnew (nblk x)); [apply in_fblocks_root; exact Hx | exact Ex]. }
        destruct (import_roots fixed t fin c (g_roots g)) as [G'|] eqn:IR; cbn [option_map] in Rel.
        -- destruct (import_roots_fwf t fin c W Hcl (g_roots g) Kw Hnew G' IR) as [Fw' Fb'].
           assert (Spec1 : match s_import_roots_aux t c (filter (lroot t fin) (g_roots g)) with
                           | Some (Some r) => Some (s_with_roots q r)
                           | Some None => if existsb (fun x => Nat.eqb (pc_blk (n_change x)) (pc_blk c)) (filter (lroot t fin) (g_roots g))
                                          then None else Some (s_with_roots q (filter (lroot t fin) (g_roots g) ++ [Node c []]))
                           | None => None
                           end = Some (s_with_roots q (filter (lroot t fin) G'))).
           { rewrite Dup. destruct (s_import_roots_aux t c (filter (lroot t fin) (g_roots g))) as [[r|]|];
               try discriminate; injection Rel as Rel; rewrite Rel; reflexivity. }
           rewrite Spec1.
           apply Fin. constructor;
             cbn [g_forced g_roots g_setid g_auths g_changes g_fin s_with_roots s_forced s_roots s_setid s_hist s_changes s_bestfin];
             try assumption; try reflexivity.
           ++ right. exact Kf.
           ++ intros b Hb. destruct (Fb' b Hb) as [Q|Q]; [right; apply Kb; exact Q | left; rewrite Q, Hcb; reflexivity].
           ++ intros x b Hx Hb. destruct (Fb' b Hb) as [Q|Q]; [apply Kd; assumption|].
              rewrite Q, Hcb. intros E. apply Hnb. rewrite <- E. apply (Ke x Hx).
           ++ exists ls. split; [|exact C]. apply (tables_inv_same g); [exact T | reflexivity | reflexivity | reflexivity].
        -- destruct (s_import_roots_aux t c (filter (lroot t fin) (g_roots g))) as [[r|]|]; try discriminate.
           reflexivity.
      * apply Fin. constructor; try assumption.
        -- right. exact Kf.
        -- exists ls. auto.
  - (* Finalise h, outside the guard *)
    destruct Hin as [Hin|Hin]; apply in_map_iff in Hin; destruct Hin as [x [E Hx]]; [discriminate|].
    injection E as ->. apply filter_In in Hx. destruct Hx as [Hseq Hc].
    apply andb_true_iff in Hc. destruct Hc as [Hc Hfh]. apply andb_true_iff in Hc. destruct Hc as [H1 H2].
    apply has_in in H1. apply negb_true_iff in H2. apply Nat.eqb_neq in H2.
    assert (Hlt : number t fin < number t h) by (apply number_anc_lt; [exact W | exact Hfh | congruence]).
    destruct K as [Kc Kf Kr Ks Ke Kw Kb Kro Kd Ksi Ka Kt Kgfin Kbf]. destruct Kt as [ls [T C]].
    cbn [guard_forced_on_finalised] in Hguard.
    assert (Hg : forall x, In x (s_forced q) -> is_anc t (pc_blk x) h = false).
    { intros x Hx. destruct (is_anc t (pc_blk x) h) eqn:A; [|reflexivity].
      assert (existsb (fun c => is_anc t (pc_blk c) h) (s_forced q) = true) by (apply existsb_exists; exists x; auto).
      congruence. }
    (* the pending forced changes after the finalisation: gossamer's list is the live part of either
       list Substrate may keep *)
    assert (GoF : filter (fun c => rel t h h (pc_blk c)) (g_forced g) = filter (livec t h) (s_forced q)).
    { rewrite Kr. rewrite (filter_ext_in (fun c => rel t h h (pc_blk c)) (livec t h)) by (intros x; apply rel_from_fin; exact W).
      apply filter_filter_imp. intros x L. unfold livec in *. apply (is_anc_trans t W _ _ _ Hfh L). }
    assert (KeepL : filter (livec t h) (filter (keepP t h) (s_forced q)) = filter (livec t h) (s_forced q)).
    { apply filter_filter_imp_in. intros x Hx L. unfold livec in L. unfold keepP.
      pose proof (Hg x Hx) as Hn.
      assert (Hne : h <> pc_blk x) by (intros E; rewrite <- E in Hn; rewrite is_anc_refl in Hn by exact W; discriminate).
      unfold sdesc. rewrite L. assert (E : Nat.eqb h (pc_blk x) = false) by (apply Nat.eqb_neq; exact Hne). rewrite E.
      cbn [negb andb]. rewrite andb_true_r. apply N.ltb_lt.
      pose proof (number_anc_lt t h (pc_blk x) W L Hne). unfold eff. lia. }
    assert (Fgood : forall F', F' = s_forced q \/ F' = filter (keepP t h) (s_forced q) ->
              filter (livec t h) F' = filter (livec t h) (s_forced q) /\ sorted_by_key t F' = true /\
              (forall x, In x F' -> In x (s_forced q))).
    { intros F' [ -> | -> ].
      - split; [reflexivity|]. split; [exact Ks | auto].
      - split; [exact KeepL|]. split; [apply sorted_filter; exact Ks|]. intros x Hx. apply filter_In in Hx. tauto. }
    cbn [go_step spec_step].
    unfold apply_scheduled, s_finalise. rewrite prune_keep_fixed.
    cbn [g_forced g_roots g_setid g_auths g_changes g_fin]. rewrite GoF.
    assert (Rv : (match s_bestfin q with Some bf => number t h <=? bf | None => false end) = false).
    { destruct (s_bestfin q) as [bf|]; [|reflexivity]. apply N.leb_gt. lia. }
    rewrite Rv. rewrite spec_find_root by exact W. rewrite Kro. rewrite find_root_filter by assumption.
    fold (keepP t h).
    (* every resulting state, whatever forced list F' Substrate keeps *)
    assert (Res : forall F' Gr Sr sid au ch hi aus chs,
              (F' = s_forced q \/ F' = filter (keepP t h) (s_forced q)) ->
              allP (fwf t) Gr -> (forall b, In b (fblocks Gr) -> In b (fblocks (g_roots g))) ->
              Sr = filter (lroot t h) Gr -> sid = s_setid (mksst au sid Sr (Some (number t h)) F' ch hi) ->
              forall g', g_forced g' = filter (livec t h) (s_forced q) -> g_roots g' = Gr -> g_fin g' = h ->
              g_setid g' = sid -> g_auths g' = aus -> g_changes g' = chs ->
              (forall id, aget aus id = aget hi id) ->
              (exists ls', tables_inv g' ls' /\ ch = spec_table_from 0 ls') ->
              xinv t imported h g' (mksst au sid Sr (Some (number t h)) F' ch hi)).
    { intros F' Gr Sr sid au ch hi aus chs HF' HGw HGb HSr _ g' E1 E2 E3 E4 E5 E6 HA HT.
      destruct (Fgood F' HF') as [P1 [P2 P3]].
      constructor; cbn [s_forced s_roots s_setid s_hist s_changes s_bestfin].
      - exact Kc.
      - exact H1.
      - rewrite E1. symmetry. exact P1.
      - exact P2.
      - intros x Hx. destruct (Ke x (P3 x Hx)) as [A [_ D]]. split; [exact A|]. split; [apply Hg; apply P3; exact Hx | exact D].
      - rewrite E2. exact HGw.
      - rewrite E2. intros b Hb. apply Kb. apply HGb. exact Hb.
      - rewrite E2. exact HSr.
      - rewrite E2. intros x b Hx Hb. apply Kd; [apply P3; exact Hx | apply HGb; exact Hb].
      - exact E4.
      - rewrite E5. exact HA.
      - exact HT.
      - exact E3.
      - lia. }
    destruct (g_roots g) as [|r0 rs] eqn:GR.
    + cbn [find_root filter length Nat.eqb negb fst snd is_rok]. split; [reflexivity|].
      apply (Res (s_forced q) [] [] (s_setid q) (s_auth q) (s_changes q) (s_hist q) (g_auths g) (g_changes g));
        try reflexivity; auto; try exact I.
      * exists ls. split; [|exact C]. apply (tables_inv_same g); [exact T | reflexivity | reflexivity | reflexivity].
    + rewrite go_find_root by exact W. rewrite <- GR in *.
      destruct (find_root t h (g_roots g)) as [[n|]|] eqn:FR.
      * destruct (find_root_in t h _ n FR) as [Hn _].
        cbn [fst snd is_rok]. split; [reflexivity|].
        destruct T as [J1 R1]. pose proof (conj J1 R1) as T.
        apply (Res (filter (keepP t h) (s_forced q)) (n_children n) _ (s_setid q + 1) _ _ _
                   (aput (g_auths g) (g_setid g + 1) (pc_auth (n_change n))) (aput (g_changes g) (g_setid g + 1) (number t h)));
          try reflexivity; auto.
        -- apply fwf_children. apply (proj1 (allP_forall _ _) Kw n Hn).
        -- intros b Hb. apply (in_fblocks_child _ n); assumption.
        -- apply filter_ext_in. intros x. apply retain_known. exact W.
        -- cbn [g_setid]. rewrite Ksi. reflexivity.
        -- intros id. rewrite aget_aput, aget_snoc. rewrite <- Ka. rewrite <- Ksi.
           destruct (g_setid g + 1 =? id) eqn:E; [|destruct (aget (g_auths g) id); reflexivity].
           apply N.eqb_eq in E. subst id.
           destruct T as [_ [_ [_ [_ [_ I6]]]]]. rewrite I6 by lia. reflexivity.
        -- exists (ls ++ [number t h]). split.
           ++ apply (tables_inv_push g _ ls (number t h) (pc_auth (n_change n)) T); reflexivity.
           ++ rewrite C, spec_table_snoc. cbn [Nat.add]. rewrite <- Ksi, J1. reflexivity.
      * cbn [fixed v_keep_ancestors]. rewrite prune_keep_anc_fixed. rewrite prune_anc_lroot by exact W.
        assert (RR : filter (s_retain t h) (filter (lroot t fin) (g_roots g)) = filter (lroot t h) (g_roots g)).
        { rewrite (filter_ext_in (s_retain t h) (lroot t h)) by (intros x; apply retain_known; exact W).
          apply filter_filter_imp. intros x. apply lroot_mono; assumption. }
        rewrite RR.
        destruct (negb (Nat.eqb (length (filter (lroot t h) (g_roots g))) (length (filter (lroot t fin) (g_roots g)))));
          cbn [fst snd is_rok]; (split; [reflexivity|]);
          [apply (Res (filter (keepP t h) (s_forced q)) (filter (lroot t h) (g_roots g)) _ (s_setid q) _ _ _ (g_auths g) (g_changes g))
          |apply (Res (s_forced q) (filter (lroot t h) (g_roots g)) _ (s_setid q) _ _ _ (g_auths g) (g_changes g))];
          try reflexivity; auto;
          try (apply allP_filter; exact Kw); try (intros b Hb; apply (filter_fblocks _ _ _ Hb));
          try (symmetry; apply filter_filter_imp; auto);
          try (exists ls; split; [apply (tables_inv_same g); [exact T | reflexivity | reflexivity | reflexivity] | exact C]).
      * reflexivity.
Qed.

(* ---- the refinement over whole histories (three observers, guard as in agree_run) ---- *)
Fixpoint agree_run3g (t : tree) (sched forced : changes) (imported : list nat) (fin : nat)
  (g : gst) (q : sst) (evs : list event) : Prop :=
  match evs with
  | [] => True
  | e :: r =>
    In e (next_events t imported fin) -> guard_forced_on_finalised t q e = false ->
    match spec_step t sched forced q e with
    | None => is_rok (snd (go_step fixed t sched forced g e)) = false
    | Some q' =>
      let g' := fst (go_step fixed t sched forced g e) in
      let imported' := match e with Import b => b :: imported | Finalise _ => imported end in
      let fin' := match e with Import _ => fin | Finalise b => b end in
      is_rok (snd (go_step fixed t sched forced g e)) = true /\ obs_eq3 t g' q' = true /\
      agree_run3g t sched forced imported' fin' g' q' r
    end
  end.

Lemma xagree : forall t sched forced, wf t = true -> sched_ok sched -> forced_ok forced ->
  forall evs imported fin g q, xinv t imported fin g q -> agree_run3g t sched forced imported fin g q evs.
Proof.
  intros t sched forced W Hok Hfok. induction evs as [|e r IH]; intros imported fin g q K; [exact I|].
  cbn [agree_run3g]. intros Hin Hguard.
  pose proof (xstep t sched forced W Hok Hfok imported fin g q e K Hin Hguard) as S.
  destruct (spec_step t sched forced q e) as [q'|]; [|exact S].
  cbn zeta. destruct S as [S1 K']. split; [exact S1|]. split.
  - apply (xinv_obs _ _ _ _ _ K').
  - apply IH. exact K'.
Qed.

Lemma mixed_forks_refines : forall t sched forced evs, wf t = true -> sched_ok sched -> forced_ok forced ->
  agree_run3g t sched forced [O] O ginit sinit evs.
Proof. intros t sched forced evs W Hok Hfok. apply xagree; try assumption. apply xinv_init. exact W. Qed.
