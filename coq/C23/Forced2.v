(* C23/Forced2.v -- third round: the forced-change refinement of Forced.v extended to histories WITH
   finalisation events: forced changes (no scheduled ones) on arbitrary well-formed block trees,
   every history of imports AND finalisations of any length, outside the guard of the known finding
   (a finalisation while a forced change announced on the finalised chain is pending).  The two
   pending lists are not equal any more: Substrate keeps the forced changes of abandoned forks
   (its tree of standard changes did not change), gossamer prunes them.  Simulation relation:
   g_forced = filter (announced by a descendant of the last finalised block) s_forced. *)
From Coq Require Import NArith List Bool Arith Lia.
From C23 Require Import Model Spec Enum Proofs Local Reach Bounded Chain Forced OnePerFork Forks.
Import ListNotations.
Local Open Scope N_scope.

Definition livec (t : tree) (fin : nat) (c : pchange) : bool := is_anc t fin (pc_blk c).

Lemma sorted_head_key : forall t x r, sorted_by_key t (x :: r) = true -> forall y, In y r -> key_le t x y = true.
Proof.
  intros t x r Hs y Hy. destruct (In_nth r y dummy_pc Hy) as [j [Hj E]].
  pose proof (sorted_nth t (x :: r) Hs O (S j)) as K. cbn [nth length] in K. rewrite E in K. apply K. lia.
Qed.

Lemma insert_head : forall t l c, (forall y, In y l -> key_le t c y = true) -> s_forced_insert t l c = c :: l.
Proof.
  intros t l c H. destruct l as [|y l]; [reflexivity|]. cbn [s_forced_insert].
  pose proof (H y (or_introl eq_refl)) as K. unfold key_le in K. apply negb_true_iff in K. rewrite K. reflexivity.
Qed.

Lemma filter_insert : forall t (p : pchange -> bool) l c, sorted_by_key t l = true -> p c = true ->
  filter p (s_forced_insert t l c) = s_forced_insert t (filter p l) c.
Proof.
  intros t p l c. induction l as [|x r IH]; intros Hs Hp.
  - cbn [s_forced_insert filter]. rewrite Hp. reflexivity.
  - cbn [s_forced_insert]. destruct (key_lt t x c) eqn:K.
    + cbn [filter]. destruct (p x).
      * cbn [s_forced_insert]. rewrite K. rewrite IH; [reflexivity | apply (sorted_tail t x r Hs) | exact Hp].
      * apply IH; [apply (sorted_tail t x r Hs) | exact Hp].
    + change (filter p (c :: x :: r)) with (if p c then c :: filter p (x :: r) else filter p (x :: r)).
      rewrite Hp. symmetry. apply insert_head. intros y Hy. apply filter_In in Hy. destruct Hy as [Hy _].
      assert (Kx : key_le t c x = true) by (unfold key_le; rewrite K; reflexivity).
      destruct Hy as [<-|Hy]; [exact Kx|].
      apply (key_le_trans t c x y Kx). apply (sorted_head_key t x r Hs y Hy).
Qed.

Lemma sorted_filter : forall t (p : pchange -> bool) l, sorted_by_key t l = true -> sorted_by_key t (filter p l) = true.
Proof.
  intros t p. induction l as [|x r IH]; intros Hs; [reflexivity|]. cbn [filter].
  pose proof (IH (sorted_tail t x r Hs)) as Hr. destruct (p x); [|exact Hr].
  destruct (filter p r) as [|y r'] eqn:E; [reflexivity|].
  cbn [sorted_by_key] in Hr |- *. rewrite Hr. rewrite andb_true_r.
  assert (Hy : In y r) by (assert (In y (filter p r)) by (rewrite E; left; reflexivity); apply filter_In in H; tauto).
  rewrite (sorted_head_key t x r Hs y Hy). destruct r'; reflexivity.
Qed.

Lemma find_filter : forall {A} (p q : A -> bool) l, (forall x, In x l -> p x = true -> q x = true) ->
  find p (filter q l) = find p l.
Proof.
  intros A p q. induction l as [|x r IH]; intros H; [reflexivity|]. cbn [filter find].
  assert (Hr : forall y, In y r -> p y = true -> q y = true) by (intros y Hy; apply H; right; exact Hy).
  destruct (q x) eqn:Q; cbn [find].
  - destruct (p x); [reflexivity | apply IH; exact Hr].
  - destruct (p x) eqn:P; [rewrite (H x (or_introl eq_refl) P) in Q; discriminate | apply IH; exact Hr].
Qed.

Definition applicable (t : tree) (b : nat) (x : pchange) : bool := (eff t x =? number t b) && is_anc t (pc_blk x) b.

Lemma find_forced_sorted2 : forall t b l, wf t = true -> sorted_by_key t l = true ->
  s_find_forced t b l = find (applicable t b) l.
Proof.
  intros t b l W. induction l as [|x r IH]; intros Hs; [reflexivity|].
  cbn [s_find_forced find]. unfold applicable at 1. rewrite strict_or_eq by exact W.
  destruct (number t b <? eff t x) eqn:E.
  - apply N.ltb_lt in E.
    assert (X : (eff t x =? number t b) = false) by (apply N.eqb_neq; lia). rewrite X. cbn [andb].
    symmetry. apply find_none_all. intros y Hy. unfold applicable.
    pose proof (sorted_head_le t x r Hs y Hy).
    assert (Y : (eff t y =? number t b) = false) by (apply N.eqb_neq; lia). rewrite Y. reflexivity.
  - destruct ((eff t x =? number t b) && is_anc t (pc_blk x) b); [reflexivity|].
    apply IH. apply (sorted_tail t x r Hs).
Qed.

(* an ancestor of a live block that is not an ancestor of the finalised block descends from it *)
Lemma live_of_anc : forall t fin x b, wf t = true -> is_anc t fin b = true -> is_anc t x b = true ->
  is_anc t x fin = false -> is_anc t fin x = true.
Proof.
  intros t fin x b W Hb Hx Hn. destruct (is_anc_comparable t W b x fin Hx Hb) as [H|H]; [congruence | exact H].
Qed.

(* ---- the simulation invariant ---- *)
Record ginv (t : tree) (imported : list nat) (fin : nat) (g : gst) (q : sst) : Prop := {
  g_closed : forall a d, In d imported -> is_anc t a d = true -> In a imported;
  g_fin_in : In fin imported;
  g_rel : g_forced g = filter (livec t fin) (s_forced q);
  g_sorted : sorted_by_key t (s_forced q) = true;
  g_each : forall x, In x (s_forced q) ->
           In (pc_blk x) imported /\ is_anc t (pc_blk x) fin = false /\ 1 <= eff t x;
  g_groots : g_roots g = [];
  g_sroots : s_roots q = [];
  g_setid_eq : g_setid g = s_setid q;
  g_auths_eq : forall id, aget (g_auths g) id = aget (s_hist q) id;
  g_tables : exists ls, tables_inv g ls /\ s_changes q = spec_table_from 0 ls;
  g_gfin : g_fin g = fin;
  g_bestfin : match s_bestfin q with Some bf => bf <= number t fin | None => True end
}.

Lemma ginv_init : forall t, wf t = true -> ginv t [O] O ginit sinit.
Proof.
  intros t W. constructor.
  - intros a d [<-|[]] H. rewrite is_anc_unfold in H by exact W. rewrite orb_false_r in H.
    apply Nat.eqb_eq in H. left. symmetry. exact H.
  - left. reflexivity.
  - reflexivity.
  - reflexivity.
  - intros x [].
  - reflexivity.
  - reflexivity.
  - reflexivity.
  - intros id. reflexivity.
  - exists []. split; [apply tables_inv_init | reflexivity].
  - reflexivity.
  - exact I.
Qed.

Lemma next_change_forced2 : forall t imported fin g q best, wf t = true -> ginv t imported fin g q ->
  is_anc t fin best = true ->
  go_next_change fixed t g best = Some (spec_next_change t q best).
Proof.
  intros t imported fin g q best W K Hb. destruct K.
  unfold go_next_change, spec_next_change. rewrite g_groots0, g_sroots0, g_gfin0, g_rel0. cbn [lookup_where fold_left].
  rewrite (lookup_where_total _ (on_best t best)).
  2:{ intros x _. rewrite desc_live by assumption. reflexivity. }
  change (fun (acc : option N) (c : pchange) =>
            if is_anc t (pc_blk c) best && (eff t c <=? number t best) then nmin acc (eff t c) else acc)
    with (fun (acc : option N) (c : pchange) => if on_best t best c then nmin acc (eff t c) else acc).
  rewrite fold_min_sorted by exact g_sorted0.
  rewrite find_filter.
  2:{ intros x Hx P. unfold on_best in P. apply andb_true_iff in P. destruct P as [P _].
      destruct (g_each0 x Hx) as [_ [Hn _]]. unfold livec. apply (live_of_anc t fin _ best); assumption. }
  destruct (find (on_best t best) (s_forced q)) as [c|] eqn:E; [|reflexivity].
  cbn [option_map]. rewrite N.eqb_refl, orb_true_r.
  apply find_some in E. destruct E as [Hin _]. destruct (g_each0 c Hin) as [_ [_ Hpos]].
  assert (Z : (eff t c =? 0) = false) by (apply N.eqb_neq; lia). rewrite Z. reflexivity.
Qed.

Lemma ginv_obs : forall t imported fin g q, wf t = true -> ginv t imported fin g q -> obs_eq t imported g q = true.
Proof.
  intros t imported fin g q W K. pose proof K as K0. destruct K. destruct g_tables0 as [ls [T C]].
  unfold obs_eq. apply andb_true_iff; split; [apply andb_true_iff; split; [apply andb_true_iff; split|]|].
  - apply N.eqb_eq. exact g_setid_eq0.
  - apply forallb_forall. intros id _. rewrite g_auths_eq0. apply opt_n_eqb_refl.
  - destruct (nondecr (s_changes q)) eqn:ND; [|reflexivity]. cbn [negb orb].
    rewrite C, nondecr_table in ND. apply forallb_forall. intros k _.
    rewrite (setid_obs g q ls _ T ND C g_setid_eq0). apply opt_n_eqb_refl.
  - apply forallb_forall. intros b Hb. apply filter_In in Hb. destruct Hb as [_ Hb]. rewrite g_gfin0 in Hb.
    rewrite (next_change_forced2 t imported fin g q b W K0 Hb). apply opt_n_eqb_refl.
Qed.

Lemma forced_check_live : forall t fin S c, wf t = true -> is_anc t fin (pc_blk c) = true ->
  (forall x, In x S -> is_anc t (pc_blk x) fin = false) ->
  forced_check fixed t fin (filter (livec t fin) S) c = Some (s_forced_check t S c).
Proof.
  intros t fin S c W Hc. rewrite forced_check_fixed. induction S as [|x r IH]; intros Hn; [reflexivity|].
  assert (Hr : forall y, In y r -> is_anc t (pc_blk y) fin = false) by (intros y Hy; apply Hn; right; exact Hy).
  specialize (IH Hr). injection IH as IH. f_equal. cbn [filter s_forced_check].
  destruct (livec t fin x) eqn:L.
  - cbn [forallb]. rewrite rel_live by assumption. unfold sdesc.
    destruct (Nat.eqb (pc_blk x) (pc_blk c)); [reflexivity|]. cbn [negb andb].
    destruct (is_anc t (pc_blk x) (pc_blk c)); [reflexivity | exact IH].
  - assert (E : Nat.eqb (pc_blk x) (pc_blk c) = false).
    { apply Nat.eqb_neq. intros E. unfold livec in L. rewrite E, Hc in L. discriminate. }
    rewrite E. unfold sdesc. rewrite E. cbn [negb andb].
    assert (A : is_anc t (pc_blk x) (pc_blk c) = false).
    { destruct (is_anc t (pc_blk x) (pc_blk c)) eqn:A; [|reflexivity].
      unfold livec in L. rewrite (live_of_anc t fin _ _ W Hc A (Hn x (or_introl eq_refl))) in L. discriminate. }
    rewrite A. exact IH.
Qed.

Lemma in_s_insert : forall t l c y, In y (s_forced_insert t l c) -> y = c \/ In y l.
Proof.
  intros t l c y. induction l as [|x r IH]; cbn [s_forced_insert].
  - intros [<-|[]]. left. reflexivity.
  - destruct (key_lt t x c).
    + intros [<-|H]; [right; left; reflexivity|]. destruct (IH H) as [Q|Q]; [left; exact Q | right; right; exact Q].
    + intros [<-|H]; [left; reflexivity | right; exact H].
Qed.

(* one event (a finalisation only outside the guard of the known finding) *)
Lemma forced2_step : forall t forced, wf t = true -> forced_ok forced ->
  forall imported fin g q e, ginv t imported fin g q -> In e (next_events t imported fin) ->
  guard_forced_on_finalised t q e = false ->
  match spec_step t [] forced q e with
  | None => is_rok (snd (go_step fixed t [] forced g e)) = false
  | Some q' =>
    is_rok (snd (go_step fixed t [] forced g e)) = true /\
    ginv t (match e with Import b => b :: imported | Finalise _ => imported end)
           (match e with Import _ => fin | Finalise b => b end)
           (fst (go_step fixed t [] forced g e)) q'
  end.
Proof.
  intros t forced W Hok imported fin g q e K Hin Hguard.
  unfold next_events in Hin. apply in_app_or in Hin. destruct e as [b|h].
  - (* Import b *)
    destruct Hin as [Hin|Hin]; apply in_map_iff in Hin; destruct Hin as [x [E Hx]]; [|discriminate].
    injection E as ->. apply filter_In in Hx. destruct Hx as [Hseq Hc].
    apply in_seq in Hseq.
    apply andb_true_iff in Hc. destruct Hc as [Hc H3]. apply andb_true_iff in Hc. destruct Hc as [H1 H2].
    apply negb_true_iff in H1.
    assert (Hnb : ~ In b imported) by (intros X; apply has_in in X; congruence).
    apply has_in in H2. destruct b as [|j]; [lia|].
    assert (Hfb : is_anc t fin (S j) = true) by (rewrite is_anc_unfold by exact W; rewrite H3; apply orb_true_r).
    assert (Step2 : forall g1 q1, ginv t (S j :: imported) fin g1 q1 ->
      match s_apply_forced t q1 (S j) with
      | None => is_rok (snd (match apply_forced fixed t g1 (S j) with None => (g1, RErrForced) | Some s2 => (s2, ROk) end)) = false
      | Some q' => is_rok (snd (match apply_forced fixed t g1 (S j) with None => (g1, RErrForced) | Some s2 => (s2, ROk) end)) = true /\
                   ginv t (S j :: imported) fin (fst (match apply_forced fixed t g1 (S j) with None => (g1, RErrForced) | Some s2 => (s2, ROk) end)) q'
      end).
    { intros g1 q1 K1. pose proof K1 as K1'. destruct K1 as [Lc Lf Lr Ls Le Lgr Lsr Lsi La Lt Lgf Lbf].
      destruct Lt as [ls1 [T1 C1]].
      rewrite apply_forced_fixed. unfold s_apply_forced. rewrite Lgf, Lgr, Lsr, Lr.
      rewrite find_forced_sorted2 by assumption.
      assert (FA' : forall l, find (forced_applicable t fin (S j)) l = find (applicable t (S j)) l).
      { intros l. induction l as [|x r IH]; [reflexivity|]. cbn [find]. unfold forced_applicable at 1, applicable at 1.
        rewrite rel_live by assumption. rewrite IH. reflexivity. }
      rewrite FA'. rewrite find_filter.
      2:{ intros x Hx P. unfold applicable in P. apply andb_true_iff in P. destruct P as [_ P].
          destruct (Le x Hx) as [_ [Hn _]]. unfold livec. apply (live_of_anc t fin _ (S j)); assumption. }
      destruct (find (applicable t (S j)) (s_forced q1)) as [fc|].
      - cbn [find existsb fst snd is_rok]. split; [reflexivity|].
        destruct T1 as [J1 R1]. pose proof (conj J1 R1) as T1.
        constructor; cbn [g_forced g_roots g_setid g_auths g_changes g_fin s_forced s_roots s_setid s_hist s_changes s_bestfin];
          try assumption; try reflexivity.
        + intros x [].
        + rewrite Lsi. reflexivity.
        + intros id. rewrite aget_aput, aget_snoc. rewrite <- La. rewrite <- Lsi.
          destruct (g_setid g1 + 1 =? id) eqn:E; [|destruct (aget (g_auths g1) id); reflexivity].
          apply N.eqb_eq in E. subst id.
          destruct T1 as [_ [_ [_ [_ [_ I6]]]]]. rewrite I6 by lia. reflexivity.
        + exists (ls1 ++ [pc_bestfin fc]). split.
          * apply (tables_inv_push g1 _ ls1 (pc_bestfin fc) (pc_auth fc) T1); reflexivity.
          * rewrite C1, spec_table_snoc. cbn [Nat.add]. rewrite <- Lsi, J1. reflexivity.
      - cbn [fst snd is_rok]. split; [reflexivity | exact K1']. }
    destruct K as [Kc Kf Kr Ks Ke Kgr Ksr Ksi Ka Kt Kgfin Kbf]. destruct Kt as [ls [T C]].
    assert (Closed' : forall a d, In d (S j :: imported) -> is_anc t a d = true -> In a (S j :: imported)).
    { intros a d [<-|Hd] Ha.
      - rewrite is_anc_unfold in Ha by exact W. apply orb_true_iff in Ha. destruct Ha as [Ha|Ha].
        + apply Nat.eqb_eq in Ha. left. symmetry. exact Ha.
        + right. apply (Kc a (parent t (S j))); assumption.
      - right. apply (Kc a d); assumption. }
    assert (Each' : forall x, In x (s_forced q) -> In (pc_blk x) (S j :: imported) /\ is_anc t (pc_blk x) fin = false /\ 1 <= eff t x).
    { intros x Hx. destruct (Ke x Hx) as [A [B D]]. split; [right; exact A | auto]. }
    cbn [go_step spec_step cfind].
    destruct (cfind forced (S j)) as [c|] eqn:Ec.
    + pose proof (Hok _ _ Ec) as Hcb.
      assert (Hcl : is_anc t fin (pc_blk c) = true) by (rewrite Hcb; exact Hfb).
      unfold add_forced, s_add_forced. rewrite Kgfin, Kr.
      rewrite forced_check_live; [| exact W | exact Hcl | intros x Hx; apply (Ke x Hx)].
      destruct (s_forced_check t (s_forced q) c).
      * cbn [v_pred_lex fixed].
        apply Step2. constructor;
          cbn [g_forced g_roots g_setid g_auths g_changes g_fin s_forced s_roots s_setid s_hist s_changes s_bestfin];
          try assumption; try reflexivity.
        -- right. exact Kf.
        -- rewrite forced_insert_fixed by (apply sorted_filter; exact Ks).
           symmetry. apply filter_insert; [exact Ks | exact Hcl].
        -- apply s_forced_insert_sorted. exact Ks.
        -- intros x Hx. apply in_s_insert in Hx. destruct Hx as [->|Hx]; [|apply Each'; exact Hx].
           split; [left; symmetry; exact Hcb|]. split.
           ++ destruct (is_anc t (pc_blk c) fin) eqn:A; [|reflexivity].
              exfalso. apply Hnb. rewrite <- Hcb. apply (Kc _ fin Kf A).
           ++ unfold eff. rewrite Hcb. pose proof (number_pos t j W). lia.
        -- exists ls. split; [|exact C]. apply (tables_inv_same g); [exact T | reflexivity | reflexivity | reflexivity].
      * reflexivity.
    + apply Step2. constructor; try assumption.
      * right. exact Kf.
      * exists ls. auto.
  - (* Finalise h, outside the guard *)
    destruct Hin as [Hin|Hin]; apply in_map_iff in Hin; destruct Hin as [x [E Hx]]; [discriminate|].
    injection E as ->. apply filter_In in Hx. destruct Hx as [Hseq Hc].
    apply andb_true_iff in Hc. destruct Hc as [Hc Hfh]. apply andb_true_iff in Hc. destruct Hc as [H1 H2].
    apply has_in in H1. apply negb_true_iff in H2. apply Nat.eqb_neq in H2.
    assert (Hlt : number t fin < number t h) by (apply number_anc_lt; [exact W | exact Hfh | congruence]).
    destruct K as [Kc Kf Kr Ks Ke Kgr Ksr Ksi Ka Kt Kgfin Kbf]. destruct Kt as [ls [T C]].
    cbn [guard_forced_on_finalised] in Hguard.
    assert (Hg : forall x, In x (s_forced q) -> is_anc t (pc_blk x) h = false).
    { intros x Hx. destruct (is_anc t (pc_blk x) h) eqn:A; [|reflexivity].
      assert (existsb (fun c => is_anc t (pc_blk c) h) (s_forced q) = true) by (apply existsb_exists; exists x; auto).
      congruence. }
    cbn [go_step spec_step].
    unfold apply_scheduled, s_finalise. rewrite prune_keep_fixed.
    cbn [g_forced g_roots g_setid g_auths g_changes g_fin]. rewrite Kgr, Ksr.
    assert (Rv : (match s_bestfin q with Some bf => number t h <=? bf | None => false end) = false).
    { destruct (s_bestfin q) as [bf|]; [|reflexivity]. apply N.leb_gt. lia. }
    rewrite Rv. cbn [s_find_root filter length Nat.eqb negb fst snd is_rok]. split; [reflexivity|].
    constructor; cbn [g_forced g_roots g_setid g_auths g_changes g_fin s_forced s_roots s_setid s_hist s_changes s_bestfin];
      try assumption; try reflexivity; try lia.
    + rewrite Kr. rewrite (filter_ext_in (fun c => rel t h h (pc_blk c)) (livec t h)) by (intros x; apply rel_from_fin; exact W).
      apply filter_filter_imp. intros x L. unfold livec in *. apply (is_anc_trans t W _ _ _ Hfh L).
    + intros x Hx. destruct (Ke x Hx) as [A [_ D]]. split; [exact A|]. split; [apply Hg; exact Hx | exact D].
    + exists ls. split; [|exact C]. apply (tables_inv_same g); [exact T | reflexivity | reflexivity | reflexivity].
Qed.

(* ---- refinement over every history of imports and finalisations, outside the guard ---- *)
Lemma forced2_agree : forall t forced, wf t = true -> forced_ok forced ->
  forall evs imported fin g q, ginv t imported fin g q -> agree_run t [] forced imported fin g q evs.
Proof.
  intros t forced W Hok. induction evs as [|e r IH]; intros imported fin g q K; [exact I|].
  cbn [agree_run]. intros Hin Hguard.
  pose proof (forced2_step t forced W Hok imported fin g q e K Hin Hguard) as S.
  destruct (spec_step t [] forced q e) as [q'|]; [|exact S].
  cbn zeta. destruct S as [S1 K']. split; [exact S1|]. split.
  - apply (ginv_obs _ _ _ _ _ W K').
  - apply IH. exact K'.
Qed.

Lemma forced2_refines : forall t forced evs, wf t = true -> forced_ok forced ->
  agree_run t [] forced [O] O ginit sinit evs.
Proof. intros t forced evs W Hok. apply forced2_agree; try assumption. apply ginv_init. exact W. Qed.
