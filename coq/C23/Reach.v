(* C23/Reach.v -- invariants of every reachable state of the repaired Go model: the shape of the
   set-id tables, so that GetSetIDByBlockNumber is characterised in every reachable state. *)
From Coq Require Import NArith List Bool Arith Lia.
From C23 Require Import Model Spec Enum Proofs.
Import ListNotations.
Local Open Scope N_scope.

Lemma aget_aput : forall l k v k', aget (aput l k v) k' = if k =? k' then Some v else aget l k'.
Proof.
  induction l as [|[k0 v0] l IH]; intros; cbn [aput aget].
  - reflexivity.
  - destruct (k0 =? k) eqn:E; cbn [aget].
    + apply N.eqb_eq in E. subst k0. destruct (k =? k'); reflexivity.
    + rewrite IH. destruct (k0 =? k') eqn:E1; [|reflexivity].
      apply N.eqb_eq in E1. subst k0. rewrite N.eqb_sym, E. reflexivity.
Qed.

(* one step changes the change table by at most one entry, written under the new set id *)
Lemma apply_forced_changes_shape : forall v t s b s', apply_forced v t s b = Some s' ->
  (g_setid s' = g_setid s /\ g_changes s' = g_changes s /\ g_auths s' = g_auths s) \/
  (v_forced_at_bestfin v = true -> g_setid s' = g_setid s + 1 /\
     (exists x, g_changes s' = aput (g_changes s) (g_setid s + 1) x) /\
     (exists a, g_auths s' = aput (g_auths s) (g_setid s + 1) a)).
Proof.
  intros v t s b s'. unfold apply_forced.
  destruct (lookup_where (forced_applicable_cond v t (g_fin s) b) (g_forced s)) as [[fc|]|]; [| |discriminate].
  - destruct (lookup_where _ (g_roots s)) as [[n|]|]; try discriminate.
    intros H. injection H as <-. right. intros Hv. rewrite Hv. cbn. split; [reflexivity|]. split; eauto.
  - intros H. injection H as <-. left. auto.
Qed.

Lemma go_step_tables : forall t sched forced s e,
  let s' := fst (go_step fixed t sched forced s e) in
  (g_setid s' = g_setid s /\ g_changes s' = g_changes s /\ g_auths s' = g_auths s) \/
  (g_setid s' = g_setid s + 1 /\
   (exists x, g_changes s' = aput (g_changes s) (g_setid s + 1) x) /\
   (exists a, g_auths s' = aput (g_auths s) (g_setid s + 1) a)).
Proof.
  intros t sched forced s e. destruct e as [b|b]; cbn [go_step].
  - assert (P : forall s1, (match cfind forced b with
                            | Some c => add_forced fixed t s c
                            | None => match cfind sched b with Some c => add_scheduled fixed t s c | None => Some s end
                            end) = Some s1 ->
                g_setid s1 = g_setid s /\ g_changes s1 = g_changes s /\ g_auths s1 = g_auths s).
    { intros s1. destruct (cfind forced b) as [c|].
      - unfold add_forced. destruct (forced_check fixed t (g_fin s) (g_forced s) c) as [[|]|]; try discriminate.
        intros H. injection H as <-. auto.
      - destruct (cfind sched b) as [c|].
        + unfold add_scheduled. destruct (import_roots fixed t (g_fin s) c (g_roots s)); try discriminate.
          intros H. injection H as <-. auto.
        + intros H. injection H as <-. auto. }
    destruct (match cfind forced b with Some c => _ | None => _ end) as [s1|] eqn:E; [|left; cbn; auto].
    destruct (P s1 eq_refl) as [P1 [P2 P3]].
    destruct (apply_forced fixed t s1 b) as [s2|] eqn:F; cbn [fst].
    + destruct (apply_forced_changes_shape fixed t s1 b s2 F) as [[H1 [H2 H3]]|H].
      * left. rewrite H1, H2, H3. auto.
      * right. destruct (H eq_refl) as [H1 [[x H2] [a H3]]]. rewrite H1, H2, H3, P1, P2, P3. split; [reflexivity|]. split; eauto.
    + left. auto.
  - cbn zeta. unfold apply_scheduled. cbn [g_forced g_roots g_setid g_auths g_changes g_fin].
    destruct (prune_keep fixed pc_blk t b b (g_forced s)) as [fo|]; [|left; cbn; auto].
    destruct (g_roots s) as [|r0 rs]; [left; cbn; auto|].
    destruct (lookup_where (sched_applicable_cond fixed t b b) (r0 :: rs)) as [[n|]|].
    + right. cbn. split; [reflexivity|]. split; eauto.
    + destruct (if v_keep_ancestors fixed then _ else _); left; cbn; auto.
    + left. cbn. auto.
Qed.

(* shape of the tables *)
Definition tables_inv (s : gst) (ls : list N) : Prop :=
  g_setid s = N.of_nat (length ls) /\
  aget (g_changes s) 0 = Some 0 /\
  (forall i, (i < length ls)%nat -> aget (g_changes s) (N.of_nat (S i)) = Some (nth i ls 0)) /\
  (forall k, N.of_nat (length ls) < k -> aget (g_changes s) k = None) /\
  (forall k, k <= N.of_nat (length ls) -> aget (g_auths s) k <> None) /\
  (forall k, N.of_nat (length ls) < k -> aget (g_auths s) k = None).

Lemma tables_inv_init : tables_inv ginit [].
Proof.
  unfold tables_inv, ginit. cbn [g_setid g_changes g_auths length N.of_nat].
  split; [reflexivity|]. split; [reflexivity|]. split; [intros i H; inversion H|].
  split; [|split].
  - intros k H. cbn [aget]. destruct (0 =? k) eqn:E; [apply N.eqb_eq in E; lia | reflexivity].
  - intros k H. assert (k = 0) by lia. subst. cbn. discriminate.
  - intros k H. cbn [aget]. destruct (0 =? k) eqn:E; [apply N.eqb_eq in E; lia | reflexivity].
Qed.

Lemma tables_inv_step : forall t sched forced s e ls, tables_inv s ls ->
  exists ls', tables_inv (fst (go_step fixed t sched forced s e)) ls' /\
              (ls' = ls \/ exists x, ls' = ls ++ [x]).
Proof.
  intros t sched forced s e ls [I1 [I2 [I3 [I4 [I5 I6]]]]].
  destruct (go_step_tables t sched forced s e) as [[H1 [H2 H3]]|[H1 [[x H2] [a H3]]]].
  - exists ls. split; [|left; reflexivity]. unfold tables_inv. rewrite H1, H2, H3. auto 10.
  - exists (ls ++ [x]). split; [|right; eauto]. unfold tables_inv. rewrite H1, H2, H3.
    rewrite app_length. cbn [length]. rewrite I1.
    assert (Hn : N.of_nat (length ls) + 1 = N.of_nat (length ls + 1)) by lia.
    split; [exact Hn|]. split; [|split; [|split; [|split]]].
    + rewrite aget_aput. destruct (N.of_nat (length ls) + 1 =? 0) eqn:E; [apply N.eqb_eq in E; lia | exact I2].
    + intros i Hi. rewrite aget_aput.
      destruct (N.of_nat (length ls) + 1 =? N.of_nat (S i)) eqn:E.
      * apply N.eqb_eq in E. assert (i = length ls) by lia. subst i.
        rewrite app_nth2 by lia. rewrite Nat.sub_diag. reflexivity.
      * apply N.eqb_neq in E. assert (i < length ls)%nat by lia.
        rewrite app_nth1 by lia. apply I3. lia.
    + intros k Hk. rewrite aget_aput.
      destruct (N.of_nat (length ls) + 1 =? k) eqn:E; [apply N.eqb_eq in E; lia|]. apply I4. lia.
    + intros k Hk. rewrite aget_aput.
      destruct (N.of_nat (length ls) + 1 =? k) eqn:E; [discriminate|].
      apply N.eqb_neq in E. apply I5. lia.
    + intros k Hk. rewrite aget_aput.
      destruct (N.of_nat (length ls) + 1 =? k) eqn:E; [apply N.eqb_eq in E; lia|]. apply I6. lia.
Qed.

Lemma tables_inv_run : forall t sched forced evs s ls, tables_inv s ls ->
  exists ls', tables_inv (fst (run_go fixed t sched forced s evs)) ls'.
Proof.
  intros t sched forced. induction evs as [|e r IH]; intros s ls I; cbn [run_go].
  - exists ls. exact I.
  - destruct (go_step fixed t sched forced s e) as [s1 res] eqn:E.
    destruct (tables_inv_step t sched forced s e ls I) as [ls1 [I1 _]]. rewrite E in I1. cbn [fst] in I1.
    destruct (IH s1 ls1 I1) as [ls2 I2].
    destruct (run_go fixed t sched forced s1 r) as [s2 rs]. cbn [fst] in *. exists ls2. exact I2.
Qed.

(* in every reachable state: GetSetIDByBlockNumber(n) = the set whose recorded last block is the
   first one >= n, else the current set, provided the recorded numbers are non-decreasing *)
Lemma reachable_setid_by_number : forall t sched forced evs,
  let s := fst (run_go fixed t sched forced ginit evs) in
  exists ls, tables_inv s ls /\
    (sorted_n ls = true -> forall n,
       go_setid_by_number s n =
       Some (match s_setid_in (spec_table_from 0 ls) n with Some id => id | None => g_setid s end)).
Proof.
  intros t sched forced evs s.
  destruct (tables_inv_run t sched forced evs ginit [] tables_inv_init) as [ls I].
  exists ls. split; [exact I|]. intros Hs n.
  destruct I as [I1 [I2 [I3 [I4 _]]]]. fold s in I1, I2, I3, I4.
  unfold go_setid_by_number. rewrite I1. rewrite Nnat.Nat2N.id.
  apply setid_lookup_agrees; [exact Hs|].
  split; [exact I2|]. split; [exact I3|]. apply I4. lia.
Qed.
