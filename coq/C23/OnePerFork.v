(* C23/OnePerFork.v -- second-round addition: "at most one forced change is pending per fork" as an
   invariant of EVERY reachable state (any tree, any scheduled and forced announcements, any
   history of imports and finalisations), not just as a one-step statement. *)
From Coq Require Import NArith List Bool Arith Lia.
From C23 Require Import Model Spec Enum Proofs Local Reach Bounded Chain Forced.
Import ListNotations.
Local Open Scope N_scope.

(* states reachable from genesis by possible events (Enum.next_events) *)
Inductive reach (t : tree) (sched forced : changes) : list nat -> nat -> gst -> Prop :=
| reach_init : reach t sched forced [O] O ginit
| reach_step : forall imported fin g e, reach t sched forced imported fin g ->
    In e (next_events t imported fin) ->
    reach t sched forced
          (match e with Import b => b :: imported | Finalise _ => imported end)
          (match e with Import _ => fin | Finalise b => b end)
          (fst (go_step fixed t sched forced g e)).

Record pinv (t : tree) (imported : list nat) (fin : nat) (g : gst) : Prop := {
  p_closed : forall a d, In d imported -> is_anc t a d = true -> In a imported;
  p_imported : forall x, In x (g_forced g) -> In (pc_blk x) imported;
  p_pairwise : forall x y, In x (g_forced g) -> In y (g_forced g) ->
               is_anc t (pc_blk x) (pc_blk y) = true -> x = y;
  p_live : forall x, In x (g_forced g) -> is_anc t fin (pc_blk x) = true;
  p_fin : g_fin g = fin
}.

Lemma rel_is_anc : forall t fin a d, wf t = true -> rel t fin a d = true -> is_anc t a d = true.
Proof.
  intros t fin a d W H. unfold rel in H. apply orb_true_iff in H. destruct H as [H|H].
  - apply Nat.eqb_eq in H. subst. apply is_anc_refl. exact W.
  - apply andb_true_iff in H. tauto.
Qed.

Lemma rel_of_live : forall t fin a d, is_anc t fin a = true -> is_anc t fin d = true ->
  is_anc t a d = true -> rel t fin a d = true.
Proof.
  intros t fin a d Ha Hd H. unfold rel, known. rewrite Ha, Hd, H. rewrite !orb_true_r. reflexivity.
Qed.

Lemma has_in : forall l x, existsb (Nat.eqb x) l = true <-> In x l.
Proof.
  intros l x. rewrite existsb_exists. split.
  - intros [y [Hy E]]. apply Nat.eqb_eq in E. subst. exact Hy.
  - intros H. exists x. split; [exact H | apply Nat.eqb_refl].
Qed.

Lemma pinv_init : forall t, wf t = true -> pinv t [O] O ginit.
Proof.
  intros t W. constructor.
  - intros a d [<-|[]] H. rewrite is_anc_unfold in H by exact W. rewrite orb_false_r in H.
    apply Nat.eqb_eq in H. left. symmetry. exact H.
  - intros x [].
  - intros x y [].
  - intros x [].
  - reflexivity.
Qed.

(* the pending forced changes after one event: a sub-list, possibly with the new announcement *)
Lemma forced_after_import : forall t sched forced g b x, 
  In x (g_forced (fst (go_step fixed t sched forced g (Import b)))) ->
  In x (g_forced g) \/
  (exists c, cfind forced b = Some c /\ x = c /\
             forall y, In y (g_forced g) -> pc_blk y <> pc_blk c /\ rel t (g_fin g) (pc_blk y) (pc_blk c) = false).
Proof.
  intros t sched forced g b x. cbn [go_step].
  assert (AF : forall s1, In x (g_forced (fst (match apply_forced fixed t s1 b with
                                               | None => (s1, RErrForced) | Some s2 => (s2, ROk) end))) ->
                          In x (g_forced s1)).
  { intros s1. rewrite apply_forced_fixed.
    destruct (find (forced_applicable t (g_fin s1) b) (g_forced s1)) as [fc|]; [|auto].
    destruct (find (depends_on t (g_fin s1) fc) (g_roots s1)); cbn [fst g_forced]; [auto | intros []]. }
  destruct (cfind forced b) as [c|].
  - destruct (add_forced fixed t g c) as [s1|] eqn:A.
    + intros H. apply AF in H. destruct (add_forced_one_per_fork t g c s1 A) as [P1 P2].
      apply P2 in H. destruct H as [->|H]; [|left; exact H].
      right. exists c. split; [reflexivity|]. split; [reflexivity|]. exact P1.
    + cbn [fst]. auto.
  - destruct (cfind sched b) as [c|].
    + destruct (add_scheduled fixed t g c) as [s1|] eqn:A.
      * intros H. apply AF in H. unfold add_scheduled in A.
        destruct (import_roots fixed t (g_fin g) c (g_roots g)); [|discriminate]. injection A as <-. left. exact H.
      * cbn [fst]. auto.
    + intros H. apply AF in H. left. exact H.
Qed.

Lemma fin_after_import : forall t sched forced g b,
  g_fin (fst (go_step fixed t sched forced g (Import b))) = g_fin g.
Proof.
  intros t sched forced g b. cbn [go_step].
  assert (AF : forall s1, g_fin (fst (match apply_forced fixed t s1 b with
                                       | None => (s1, RErrForced) | Some s2 => (s2, ROk) end)) = g_fin s1).
  { intros s1. rewrite apply_forced_fixed.
    destruct (find (forced_applicable t (g_fin s1) b) (g_forced s1)) as [fc|]; [|reflexivity].
    destruct (find (depends_on t (g_fin s1) fc) (g_roots s1)); reflexivity. }
  destruct (cfind forced b) as [c|].
  - destruct (add_forced fixed t g c) as [s1|] eqn:A; [|reflexivity].
    rewrite AF. unfold add_forced in A. destruct (forced_check fixed t (g_fin g) (g_forced g) c) as [[|]|]; try discriminate.
    injection A as <-. reflexivity.
  - destruct (cfind sched b) as [c|].
    + destruct (add_scheduled fixed t g c) as [s1|] eqn:A; [|reflexivity].
      rewrite AF. unfold add_scheduled in A. destruct (import_roots fixed t (g_fin g) c (g_roots g)); [|discriminate].
      injection A as <-. reflexivity.
    + apply AF.
Qed.

Lemma forced_after_finalise : forall t sched forced g h,
  g_fin (fst (go_step fixed t sched forced g (Finalise h))) = h /\
  forall x, In x (g_forced (fst (go_step fixed t sched forced g (Finalise h)))) ->
            In x (g_forced g) /\ rel t h h (pc_blk x) = true.
Proof.
  intros t sched forced g h. cbn [go_step].
  set (s0 := mkgst (g_forced g) (g_roots g) (g_setid g) (g_auths g) (g_changes g) h).
  unfold apply_scheduled. rewrite prune_keep_fixed. cbn [s0 g_forced g_roots g_setid g_auths g_changes g_fin].
  assert (F : forall x, In x (filter (fun c => rel t h h (pc_blk c)) (g_forced g)) ->
                        In x (g_forced g) /\ rel t h h (pc_blk x) = true).
  { intros x Hx. apply filter_In in Hx. exact Hx. }
  destruct (g_roots g) as [|r0 rs]; [split; [reflexivity | exact F]|].
  destruct (lookup_where (sched_applicable_cond fixed t h h) (r0 :: rs)) as [[n|]|].
  - split; [reflexivity | exact F].
  - destruct (if v_keep_ancestors fixed then prune_keep_anc fixed t h h (r0 :: rs)
              else prune_keep fixed (fun n => pc_blk (n_change n)) t h h (r0 :: rs));
      (split; [reflexivity | exact F]).
  - split; [reflexivity | exact F].
Qed.

Lemma pinv_step : forall t sched forced, wf t = true -> forced_ok forced ->
  forall imported fin g e, pinv t imported fin g -> In e (next_events t imported fin) ->
  pinv t (match e with Import b => b :: imported | Finalise _ => imported end)
         (match e with Import _ => fin | Finalise b => b end)
         (fst (go_step fixed t sched forced g e)).
Proof.
  intros t sched forced W Hok imported fin g e [Pc Pi Pp Pl Pf] Hin.
  unfold next_events in Hin. apply in_app_or in Hin. destruct e as [b|h].
  - (* Import b *)
    destruct Hin as [Hin|Hin]; apply in_map_iff in Hin; destruct Hin as [x [E Hx]]; [|discriminate].
    injection E as ->. apply filter_In in Hx. destruct Hx as [Hs Hc].
    apply in_seq in Hs.
    apply andb_true_iff in Hc. destruct Hc as [Hc H3]. apply andb_true_iff in Hc. destruct Hc as [H1 H2].
    apply negb_true_iff in H1.
    assert (Hnb : ~ In b imported) by (intros X; apply has_in in X; congruence).
    apply has_in in H2.
    destruct b as [|j]; [lia|].
    assert (Hfb : is_anc t fin (S j) = true).
    { rewrite is_anc_unfold by exact W. rewrite H3. apply orb_true_r. }
    assert (Closed' : forall a d, In d (S j :: imported) -> is_anc t a d = true -> In a (S j :: imported)).
    { intros a d [<-|Hd] Ha.
      - rewrite is_anc_unfold in Ha by exact W. apply orb_true_iff in Ha. destruct Ha as [Ha|Ha].
        + apply Nat.eqb_eq in Ha. left. symmetry. exact Ha.
        + right. apply (Pc a (parent t (S j))); assumption.
      - right. apply (Pc a d); assumption. }
    constructor.
    + exact Closed'.
    + intros x Hx. apply forced_after_import in Hx. destruct Hx as [Hx|[c [Ec [-> _]]]].
      * right. apply Pi. exact Hx.
      * left. symmetry. apply (Hok _ _ Ec).
    + intros x y Hx Hy A.
      apply forced_after_import in Hx. apply forced_after_import in Hy.
      destruct Hx as [Hx|[c [Ec [-> Px]]]]; destruct Hy as [Hy|[c' [Ec' [-> Py]]]].
      * apply Pp; assumption.
      * (* x old, y = new announcement: refused unless unrelated *)
        exfalso. destruct (Py x Hx) as [_ R]. rewrite Pf in R.
        rewrite (Hok _ _ Ec') in *. 
        rewrite (rel_of_live t fin (pc_blk x) (S j)) in R; [discriminate | apply Pl; exact Hx | exact Hfb | exact A].
      * (* x = new block, y old: the new block is no ancestor of an imported one *)
        exfalso. apply Hnb. rewrite (Hok _ _ Ec) in A. apply (Pc (S j) (pc_blk y)); [apply Pi; exact Hy | exact A].
      * congruence.
    + intros x Hx. apply forced_after_import in Hx. destruct Hx as [Hx|[c [Ec [-> _]]]].
      * apply Pl. exact Hx.
      * rewrite (Hok _ _ Ec). exact Hfb.
    + rewrite fin_after_import. exact Pf.
  - (* Finalise h *)
    destruct (forced_after_finalise t sched forced g h) as [Ffin Fsub].
    constructor.
    + exact Pc.
    + intros x Hx. apply Pi. apply Fsub. exact Hx.
    + intros x y Hx Hy. apply Pp; apply Fsub; assumption.
    + intros x Hx. apply (rel_is_anc t h). exact W. apply Fsub. exact Hx.
    + exact Ffin.
Qed.

Lemma reach_pinv : forall t sched forced imported fin g, wf t = true -> forced_ok forced ->
  reach t sched forced imported fin g -> pinv t imported fin g.
Proof.
  intros t sched forced imported fin g W Hok R. induction R.
  - apply pinv_init. exact W.
  - apply pinv_step; assumption.
Qed.

Lemma one_forced_per_fork_reachable : forall t sched forced imported fin g, wf t = true -> forced_ok forced ->
  reach t sched forced imported fin g ->
  forall x y, In x (g_forced g) -> In y (g_forced g) -> is_anc t (pc_blk x) (pc_blk y) = true -> x = y.
Proof. intros t sched forced imported fin g W Hok R. apply (p_pairwise _ _ _ _ (reach_pinv _ _ _ _ _ _ W Hok R)). Qed.
