(* C23/Spec.v -- Substrate's authority-set rules (sc-consensus-grandpa authorities.rs and
   fork-tree), transcribed as the executable specification.  Definitions only.

   AuthoritySet { current_authorities, set_id, pending_standard_changes : ForkTree,
                  pending_forced_changes : Vec (ordered by (effective number, canon height)),
                  authority_set_changes : Vec<(set_id, last block number of the set)> }
   is_descendent_of is STRICT ancestry in the full block tree (no failure mode). *)
From Coq Require Import NArith List Bool Arith.
From C23 Require Import Model.
Import ListNotations.
Local Open Scope N_scope.

Definition sdesc (t : tree) (a d : nat) : bool := negb (Nat.eqb a d) && is_anc t a d.

Record sst := mksst {
  s_auth : N;                      (* current_authorities *)
  s_setid : N;
  s_roots : list node;             (* pending_standard_changes.roots *)
  s_bestfin : option N;            (* pending_standard_changes.best_finalized_number *)
  s_forced : list pchange;
  s_changes : list (N * N);        (* authority_set_changes, oldest first *)
  s_hist : list (N * N)            (* every set id that existed -> its authorities *)
}.
Definition sinit : sst := mksst genesis_auth 0 [] None [] [] [(0, genesis_auth)].

(* ---- ForkTree::import ---- *)
(* deepest node that is a strict ancestor of the new block (find_node_where with |_| true);
   returns the tree with the new node pushed under it; None = Error::Duplicate *)
Fixpoint s_import_node (t : tree) (c : pchange) (n : node) : option (option node) :=
  match n with
  | Node nc ch =>
    if number t (pc_blk c) <=? number t (pc_blk nc) then Some None
    else
      let fix into (l : list node) : option (option (list node)) :=
        match l with
        | [] => Some None
        | x :: r => match s_import_node t c x with
                    | None => None
                    | Some (Some x') => Some (Some (x' :: r))
                    | Some None => match into r with
                                   | None => None
                                   | Some (Some r') => Some (Some (x :: r'))
                                   | Some None => Some None
                                   end
                    end
        end in
      match into ch with
      | None => None
      | Some (Some ch') => Some (Some (Node nc ch'))
      | Some None =>
        if sdesc t (pc_blk nc) (pc_blk c) then
          if existsb (fun x => Nat.eqb (pc_blk (n_change x)) (pc_blk c)) ch then None
          else Some (Some (Node nc (ch ++ [Node c []])))
        else Some None
      end
  end.
Fixpoint s_import_roots_aux (t : tree) (c : pchange) (l : list node) : option (option (list node)) :=
  match l with
  | [] => Some None
  | x :: r => match s_import_node t c x with
              | None => None
              | Some (Some x') => Some (Some (x' :: r))
              | Some None => match s_import_roots_aux t c r with
                             | None => None
                             | Some (Some r') => Some (Some (x :: r'))
                             | Some None => Some None
                             end
              end
  end.
Definition s_with_roots (s : sst) (r : list node) : sst :=
  mksst (s_auth s) (s_setid s) r (s_bestfin s) (s_forced s) (s_changes s) (s_hist s).
Definition s_add_standard (t : tree) (s : sst) (c : pchange) : option sst :=
  let revert := match s_bestfin s with
                | Some bf => number t (pc_blk c) <=? bf          (* Error::Revert *)
                | None => false
                end in
  if revert then None else
  match s_import_roots_aux t c (s_roots s) with
  | None => None
  | Some (Some r) => Some (s_with_roots s r)
  | Some None =>
    if existsb (fun x => Nat.eqb (pc_blk (n_change x)) (pc_blk c)) (s_roots s) then None
    else Some (s_with_roots s (s_roots s ++ [Node c []]))
  end.

(* ---- add_forced_change ---- *)
Fixpoint s_forced_check (t : tree) (l : list pchange) (c : pchange) : bool :=
  match l with
  | [] => true
  | x :: r => if Nat.eqb (pc_blk x) (pc_blk c) then false          (* DuplicateAuthoritySetChange *)
              else if sdesc t (pc_blk x) (pc_blk c) then false      (* MultiplePendingForcedAuthoritySetChanges *)
              else s_forced_check t r c
  end.
(* key (effective number, canon height), lexicographic *)
Definition key_lt (t : tree) (a b : pchange) : bool :=
  (eff t a <? eff t b) || ((eff t a =? eff t b) && (number t (pc_blk a) <? number t (pc_blk b))).
(* binary_search_by_key(..).unwrap_or_else(|i| i): a position that keeps the vector sorted *)
Fixpoint s_forced_insert (t : tree) (l : list pchange) (c : pchange) : list pchange :=
  match l with
  | [] => [c]
  | x :: r => if key_lt t x c then x :: s_forced_insert t r c else c :: x :: r
  end.
Definition s_add_forced (t : tree) (s : sst) (c : pchange) : option sst :=
  if s_forced_check t (s_forced s) c then
    Some (mksst (s_auth s) (s_setid s) (s_roots s) (s_bestfin s) (s_forced_insert t (s_forced s) c)
                (s_changes s) (s_hist s))
  else None.

(* ---- apply_forced_changes(best_hash = b, best_number = number b) ---- *)
Fixpoint s_find_forced (t : tree) (b : nat) (l : list pchange) : option pchange :=
  match l with
  | [] => None
  | x :: r =>
    if number t b <? eff t x then None                                      (* take_while *)
    else if (eff t x =? number t b) && (Nat.eqb (pc_blk x) b || sdesc t (pc_blk x) b) then Some x
    else s_find_forced t b r
  end.
Definition s_apply_forced (t : tree) (s : sst) (b : nat) : option sst :=
  match s_find_forced t b (s_forced s) with
  | None => Some s
  | Some fc =>
    if existsb (fun n => (eff t (n_change n) <=? pc_bestfin fc) && sdesc t (pc_blk (n_change n)) (pc_blk fc))
               (s_roots s)
    then None                                   (* ForcedAuthoritySetChangeDependencyUnsatisfied *)
    else Some (mksst (pc_auth fc) (s_setid s + 1) [] None []
                     (s_changes s ++ [(s_setid s, pc_bestfin fc)])
                     (s_hist s ++ [(s_setid s + 1, pc_auth fc)]))
  end.

(* ---- ForkTree::finalize_with_descendent_if + apply_standard_changes ---- *)
Inductive fin_result := FinErr | FinUnchanged | FinChanged (applied : option pchange).

(* the first root that passes the predicate and is the finalized block or an ancestor of it;
   UnfinalizedAncestor when one of its children is at or below the finalized block on its chain *)
Fixpoint s_find_root (t : tree) (h : nat) (l : list node) : option (option node) :=
  match l with
  | [] => Some None
  | x :: r =>
    let c := n_change x in
    if (eff t c <=? number t h) && (Nat.eqb (pc_blk c) h || sdesc t (pc_blk c) h) then
      if existsb (fun ch => (number t (pc_blk (n_change ch)) <=? number t h)
                            && (Nat.eqb (pc_blk (n_change ch)) h || sdesc t (pc_blk (n_change ch)) h))
                 (n_children x)
      then None else Some (Some x)
    else s_find_root t h r
  end.
Definition s_retain (t : tree) (h : nat) (n : node) : bool :=
  let b := pc_blk (n_change n) in
  ((number t h <? number t b) && sdesc t h b) || Nat.eqb b h || sdesc t b h.

Definition s_finalise (t : tree) (s : sst) (h : nat) : option sst :=
  let revert := match s_bestfin s with Some bf => number t h <=? bf | None => false end in
  if revert then None else
  match s_find_root t h (s_roots s) with
  | None => None                                                    (* UnfinalizedAncestor *)
  | Some found =>
    let roots1 := match found with Some n => n_children n | None => s_roots s end in
    let roots2 := filter (s_retain t h) roots1 in
    let changed := match found with
                   | Some _ => true
                   | None => negb (Nat.eqb (length roots2) (length roots1))
                   end in
    let bf := Some (number t h) in
    if changed then
      let forced := filter (fun c => (number t h <? eff t c) && sdesc t h (pc_blk c)) (s_forced s) in
      match found with
      | Some n =>
        let c := n_change n in
        Some (mksst (pc_auth c) (s_setid s + 1) roots2 bf forced
                    (s_changes s ++ [(s_setid s, number t h)])
                    (s_hist s ++ [(s_setid s + 1, pc_auth c)]))
      | None => Some (mksst (s_auth s) (s_setid s) roots2 bf forced (s_changes s) (s_hist s))
      end
    else Some (mksst (s_auth s) (s_setid s) roots2 bf (s_forced s) (s_changes s) (s_hist s))
  end.

(* ---- events ---- *)
Definition spec_step (t : tree) (sched forced : changes) (s : sst) (e : event) : option sst :=
  match e with
  | Import b =>
    let s1 := match cfind forced b with
              | Some c => s_add_forced t s c
              | None => match cfind sched b with
                        | Some c => s_add_standard t s c
                        | None => Some s
                        end
              end in
    match s1 with
    | None => None
    | Some s1 => s_apply_forced t s1 b
    end
  | Finalise b => s_finalise t s b
  end.

(* ---- observers ---- *)
(* AuthoritySetChanges::get_set_id: the set whose last block is the first one >= n, else Latest *)
Fixpoint s_setid_in (l : list (N * N)) (n : N) : option N :=
  match l with
  | [] => None
  | (id, last) :: r => if n <=? last then Some id else s_setid_in r n
  end.
Definition spec_setid_by_number (s : sst) (n : N) : N :=
  match s_setid_in (s_changes s) n with Some id => id | None => s_setid s end.

(* the earliest effective number of a pending (root) standard change or forced change whose
   announcing block is on the chain of `best` and whose effective number is <= number best *)
Definition nmin (a : option N) (b : N) : option N :=
  match a with None => Some b | Some x => Some (if b <? x then b else x) end.
Definition spec_next_change (t : tree) (s : sst) (best : nat) : option N :=
  let on c := is_anc t (pc_blk c) best && (eff t c <=? number t best) in
  let a := fold_left (fun acc n => if on (n_change n) then nmin acc (eff t (n_change n)) else acc) (s_roots s) None in
  fold_left (fun acc c => if on c then nmin acc (eff t c) else acc) (s_forced s) a.
