(* C23/Exhaustive5.v -- complete sweep: 5 blocks, <= 1 announcement, delays 0..1 (4 608 configurations, every event order) *)
From C23 Require Import Model Spec Enum.
Lemma sweep_5 : explore_all 5 1 1 = true. Proof. vm_compute. reflexivity. Qed.
