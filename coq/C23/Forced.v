(* C23/Forced.v -- second-round addition: a second INDUCTIVE refinement fragment: forced changes
   (no scheduled ones) on ARBITRARY well-formed block trees, along every history of imports (no
   finalisation), of any length.  Covers forks: one pending forced change per fork, the order of
   the pending list, enactment at the effective block of the announcing fork, set-id bookkeeping. *)
From Coq Require Import NArith List Bool Arith Lia.
From C23 Require Import Model Spec Enum Proofs Local Reach Bounded Chain.
Import ListNotations.
Local Open Scope N_scope.

(* ---- ancestry in a well-formed tree ---- *)
Lemma wf_from_nth : forall t k j, wf_from k t = true -> (nth j t O <= k + j)%nat.
Proof.
  induction t as [|p t IH]; intros k j H; cbn [wf_from] in H.
  - destruct j; cbn; lia.
  - apply andb_true_iff in H. destruct H as [H1 H2]. apply Nat.leb_le in H1.
    destruct j as [|j]; cbn [nth]; [lia|]. specialize (IH (S k) j H2). lia.
Qed.

Lemma wf_parent : forall t j, wf t = true -> (parent t (S j) <= j)%nat.
Proof. intros t j H. unfold parent. pose proof (wf_from_nth t 0 j H). lia. Qed.

Lemma path_f_stable : forall t, wf t = true -> forall f1 f2 i, (i < f1)%nat -> (i < f2)%nat ->
  path_f f1 t i = path_f f2 t i.
Proof.
  intros t W. induction f1 as [|f1 IH]; intros f2 i H1 H2; [lia|].
  destruct f2 as [|f2]; [lia|]. cbn [path_f]. f_equal. destruct i as [|j]; [reflexivity|].
  pose proof (wf_parent t j W). apply IH; lia.
Qed.

Lemma path_unfold : forall t i, wf t = true ->
  path t i = i :: match i with O => [] | S _ => path t (parent t i) end.
Proof.
  intros t i W. unfold path at 1. cbn [path_f]. f_equal. destruct i as [|j]; [reflexivity|].
  unfold path. pose proof (wf_parent t j W). apply path_f_stable; [exact W | lia | lia].
Qed.

Lemma is_anc_unfold : forall t a i, wf t = true ->
  is_anc t a i = Nat.eqb a i || match i with O => false | S _ => is_anc t a (parent t i) end.
Proof.
  intros t a i W. unfold is_anc at 1. rewrite path_unfold by exact W. cbn [existsb].
  destruct i; reflexivity.
Qed.

Lemma is_anc_refl : forall t i, wf t = true -> is_anc t i i = true.
Proof. intros. rewrite is_anc_unfold by assumption. rewrite Nat.eqb_refl. reflexivity. Qed.

Lemma genesis_anc : forall t, wf t = true -> forall i, is_anc t O i = true.
Proof.
  intros t W i. induction i as [i IH] using (well_founded_induction lt_wf).
  rewrite is_anc_unfold by exact W. destruct i as [|j]; [reflexivity|].
  cbn [Nat.eqb orb]. apply IH. pose proof (wf_parent t j W). lia.
Qed.

Lemma number_pos : forall t j, wf t = true -> 1 <= number t (S j).
Proof.
  intros t j W. unfold number. rewrite path_unfold by exact W.
  rewrite (path_unfold t (parent t (S j))) by exact W. cbn [length pred]. lia.
Qed.

(* with nothing finalised every block is known, and ancestry questions never fail *)
Lemma rel_genesis : forall t a d, wf t = true -> rel t O a d = is_anc t a d.
Proof.
  intros t a d W. unfold rel, known. rewrite !genesis_anc by exact W. rewrite !orb_true_r. cbn [andb].
  destruct (Nat.eqb a d) eqn:E; [|reflexivity].
  apply Nat.eqb_eq in E. subst. symmetry. apply is_anc_refl. exact W.
Qed.

Lemma strict_or_eq : forall t a d, wf t = true -> Nat.eqb a d || sdesc t a d = is_anc t a d.
Proof.
  intros t a d W. unfold sdesc. destruct (Nat.eqb a d) eqn:E; [|reflexivity].
  apply Nat.eqb_eq in E. subst. symmetry. apply is_anc_refl. exact W.
Qed.

(* ---- add_forced_change ---- *)
Lemma forced_check_genesis : forall t l c, wf t = true ->
  forced_check fixed t O l c = Some (s_forced_check t l c).
Proof.
  intros t l c W. rewrite forced_check_fixed. f_equal.
  induction l as [|x l IH]; [reflexivity|]. cbn [forallb s_forced_check].
  rewrite rel_genesis by exact W. unfold sdesc.
  destruct (Nat.eqb (pc_blk x) (pc_blk c)); [reflexivity|]. cbn [negb andb].
  destruct (is_anc t (pc_blk x) (pc_blk c)); [reflexivity | exact IH].
Qed.

(* ---- apply_forced_changes: take_while/filter = first applicable, on an ordered list ---- *)
Lemma key_le_eff : forall t a b, key_le t a b = true -> eff t a <= eff t b.
Proof.
  intros t a b H. unfold key_le, key_lt in H. apply negb_true_iff in H. apply orb_false_iff in H.
  destruct H as [H _]. apply N.ltb_ge in H. exact H.
Qed.

Lemma sorted_head_le : forall t x r, sorted_by_key t (x :: r) = true ->
  forall y, In y r -> eff t x <= eff t y.
Proof.
  intros t x r Hs y Hy. destruct (In_nth r y dummy_pc Hy) as [j [Hj E]].
  pose proof (sorted_nth t (x :: r) Hs O (S j)) as K. cbn [nth length] in K. rewrite E in K.
  apply key_le_eff. apply K. lia.
Qed.

Lemma sorted_tail : forall t x r, sorted_by_key t (x :: r) = true -> sorted_by_key t r = true.
Proof. intros t x r S. cbn [sorted_by_key] in S. apply andb_true_iff in S. tauto. Qed.

Lemma find_none_all : forall {A} (p : A -> bool) l, (forall y, In y l -> p y = false) -> find p l = None.
Proof.
  intros A p. induction l as [|x l IH]; intros H; [reflexivity|]. cbn [find].
  rewrite (H x (or_introl eq_refl)). apply IH. intros y Hy. apply H. right. exact Hy.
Qed.

Lemma find_forced_sorted : forall t b l, wf t = true -> sorted_by_key t l = true ->
  s_find_forced t b l = find (forced_applicable t O b) l.
Proof.
  intros t b l W. induction l as [|x r IH]; intros S; [reflexivity|].
  cbn [s_find_forced find]. unfold forced_applicable at 1. rewrite rel_genesis by exact W.
  rewrite strict_or_eq by exact W.
  destruct (number t b <? eff t x) eqn:E.
  - apply N.ltb_lt in E.
    assert (X : (eff t x =? number t b) = false) by (apply N.eqb_neq; lia). rewrite X. cbn [andb].
    symmetry. apply find_none_all. intros y Hy. unfold forced_applicable.
    pose proof (sorted_head_le t x r S y Hy).
    assert (Y : (eff t y =? number t b) = false) by (apply N.eqb_neq; lia). rewrite Y. reflexivity.
  - destruct ((eff t x =? number t b) && is_anc t (pc_blk x) b); [reflexivity|].
    apply IH. apply (sorted_tail t x r S).
Qed.

(* ---- NextGrandpaAuthorityChange: first applicable = minimum, on an ordered list ---- *)
Definition on_best (t : tree) (best : nat) (c : pchange) : bool :=
  is_anc t (pc_blk c) best && (eff t c <=? number t best).

Lemma fold_min_some : forall t best l m, (forall x, In x l -> m <= eff t x) ->
  fold_left (fun acc c => if on_best t best c then nmin acc (eff t c) else acc) l (Some m) = Some m.
Proof.
  intros t best. induction l as [|x l IH]; intros m H; [reflexivity|]. cbn [fold_left].
  destruct (on_best t best x).
  - cbn [nmin]. pose proof (H x (or_introl eq_refl)) as Hx.
    assert (E : (eff t x <? m) = false) by (apply N.ltb_ge; exact Hx). rewrite E.
    apply IH. intros y Hy. apply H. right. exact Hy.
  - apply IH. intros y Hy. apply H. right. exact Hy.
Qed.

Lemma fold_min_sorted : forall t best l, sorted_by_key t l = true ->
  fold_left (fun acc c => if on_best t best c then nmin acc (eff t c) else acc) l None =
  option_map (eff t) (find (on_best t best) l).
Proof.
  intros t best. induction l as [|x l IH]; intros Hs; [reflexivity|]. cbn [fold_left find].
  destruct (on_best t best x).
  - cbn [nmin option_map]. apply fold_min_some. apply (sorted_head_le t x l Hs).
  - apply IH. apply (sorted_tail t x l Hs).
Qed.

Lemma next_change_forced : forall t g q F best, wf t = true -> g_fin g = O ->
  g_forced g = F -> s_forced q = F -> g_roots g = [] -> s_roots q = [] ->
  sorted_by_key t F = true -> (forall x, In x F -> 1 <= eff t x) ->
  go_next_change fixed t g best = Some (spec_next_change t q best).
Proof.
  intros t g q F best W Hf G1 S1 G2 S2 Hs Hpos. unfold go_next_change, spec_next_change.
  rewrite G1, S1, G2, S2, Hf. cbn [lookup_where fold_left].
  rewrite (lookup_where_total _ (on_best t best)).
  2:{ intros x _. rewrite desc_fixed. fold (rel t O (pc_blk x) best). rewrite rel_genesis by exact W. reflexivity. }
  change (fun (acc : option N) (c : pchange) =>
            if is_anc t (pc_blk c) best && (eff t c <=? number t best) then nmin acc (eff t c) else acc)
    with (fun (acc : option N) (c : pchange) => if on_best t best c then nmin acc (eff t c) else acc).
  rewrite fold_min_sorted by exact Hs.
  destruct (find (on_best t best) F) as [c|] eqn:E; [|reflexivity].
  cbn [option_map]. rewrite N.eqb_refl, orb_true_r.
  apply find_some in E. destruct E as [Hin _]. specialize (Hpos c Hin).
  assert (Z : (eff t c =? 0) = false) by (apply N.eqb_neq; lia). rewrite Z. reflexivity.
Qed.

Lemma nondecr_table : forall ls k, nondecr (spec_table_from k ls) = sorted_n ls.
Proof.
  induction ls as [|x ls IH]; intros k; [reflexivity|].
  unfold spec_table_from in *. cbn [length seq map combine nondecr sorted_n].
  rewrite IH. destruct ls; reflexivity.
Qed.

(* ---- the simulation invariant ---- *)
Definition forced_ok (forced : changes) : Prop := forall b c, cfind forced b = Some c -> pc_blk c = b.

Record finv (t : tree) (g : gst) (q : sst) : Prop := {
  f_forced : g_forced g = s_forced q;
  f_sorted : sorted_by_key t (g_forced g) = true;
  f_pos : forall x, In x (g_forced g) -> 1 <= eff t x;
  f_groots : g_roots g = [];
  f_sroots : s_roots q = [];
  f_setid : g_setid g = s_setid q;
  f_auths : forall id, aget (g_auths g) id = aget (s_hist q) id;
  f_tables : exists ls, tables_inv g ls /\ s_changes q = spec_table_from 0 ls;
  f_gfin : g_fin g = O;
  f_bestfin : s_bestfin q = None
}.

Lemma finv_init : forall t, finv t ginit sinit.
Proof.
  intros t. constructor; try reflexivity.
  - intros x [].
  - exists []. split; [apply tables_inv_init | reflexivity].
Qed.

Lemma finv_obs : forall t imported g q, wf t = true -> finv t g q -> obs_eq t imported g q = true.
Proof.
  intros t imported g q W I. destruct I. destruct f_tables0 as [ls [T C]].
  unfold obs_eq. apply andb_true_iff; split; [apply andb_true_iff; split; [apply andb_true_iff; split|]|].
  - apply N.eqb_eq. exact f_setid0.
  - apply forallb_forall. intros id _. rewrite f_auths0. apply opt_n_eqb_refl.
  - destruct (nondecr (s_changes q)) eqn:ND; [|reflexivity]. cbn [negb orb].
    rewrite C, nondecr_table in ND. apply forallb_forall. intros k _.
    rewrite (setid_obs g q ls _ T ND C f_setid0). apply opt_n_eqb_refl.
  - apply forallb_forall. intros b _.
    rewrite (next_change_forced t g q (g_forced g) b); auto.
    apply opt_n_eqb_refl.
Qed.

Lemma in_insert_at : forall {A} (l : list A) i x y, In y (insert_at l i x) -> y = x \/ In y l.
Proof.
  intros A l i x y H. unfold insert_at in H. apply in_app_or in H.
  rewrite <- (firstn_skipn i l). destruct H as [H|[H|H]].
  - right. apply in_or_app. left. exact H.
  - left. symmetry. exact H.
  - right. apply in_or_app. right. exact H.
Qed.

(* one import *)
Lemma forced_step : forall t forced, wf t = true -> forced_ok forced ->
  forall g q b, finv t g q -> (1 <= b)%nat ->
  match spec_step t [] forced q (Import b) with
  | None => is_rok (snd (go_step fixed t [] forced g (Import b))) = false
  | Some q' => is_rok (snd (go_step fixed t [] forced g (Import b))) = true /\
               finv t (fst (go_step fixed t [] forced g (Import b))) q'
  end.
Proof.
  intros t forced W Hok g q b I Hb. destruct I as [HF HS HP HGR HSR HSI HA HT HGF HBF]. destruct HT as [ls [T C]].
  cbn [go_step spec_step cfind].
  assert (Step2 : forall g1 q1, finv t g1 q1 ->
    match s_apply_forced t q1 b with
    | None => is_rok (snd (match apply_forced fixed t g1 b with None => (g1, RErrForced) | Some s2 => (s2, ROk) end)) = false
    | Some q' => is_rok (snd (match apply_forced fixed t g1 b with None => (g1, RErrForced) | Some s2 => (s2, ROk) end)) = true /\
                 finv t (fst (match apply_forced fixed t g1 b with None => (g1, RErrForced) | Some s2 => (s2, ROk) end)) q'
    end).
  { intros g1 q1 I1. destruct I1 as [KF KS KP KGR KSR KSI KA KT KGF KBF]. destruct KT as [ls1 [T1 C1]].
    rewrite apply_forced_fixed. unfold s_apply_forced.
    rewrite KGF, KGR, KSR, <- KF.
    rewrite find_forced_sorted by assumption.
    destruct (find (forced_applicable t O b) (g_forced g1)) as [fc|].
    - cbn [find existsb fst snd is_rok]. split; [reflexivity|].
      destruct T1 as [J1 R1]. pose proof (conj J1 R1) as T1.
      constructor; cbn [g_forced g_roots g_setid g_auths g_changes g_fin s_forced s_roots s_setid s_hist s_changes s_bestfin];
        try reflexivity.
      + intros x [].
      + rewrite KSI. reflexivity.
      + intros id. rewrite aget_aput, aget_snoc. rewrite <- KA. rewrite <- KSI.
        destruct (g_setid g1 + 1 =? id) eqn:E; [|destruct (aget (g_auths g1) id); reflexivity].
        apply N.eqb_eq in E. subst id.
        destruct T1 as [_ [_ [_ [_ [_ I6]]]]]. rewrite I6 by lia. reflexivity.
      + exists (ls1 ++ [pc_bestfin fc]). split.
        * apply (tables_inv_push g1 _ ls1 (pc_bestfin fc) (pc_auth fc) T1); reflexivity.
        * rewrite C1, spec_table_snoc. cbn [Nat.add]. rewrite <- KSI, J1. reflexivity.
    - cbn [fst snd is_rok]. split; [reflexivity|].
      constructor; try assumption. exists ls1. auto. }
  destruct (cfind forced b) as [c|] eqn:Ec.
  - pose proof (Hok _ _ Ec) as Hc.
    unfold add_forced, s_add_forced. rewrite HGF, forced_check_genesis by exact W.
    rewrite <- HF.
    destruct (s_forced_check t (g_forced g) c).
    + cbn [v_pred_lex fixed].
      pose proof (forced_insert_fixed t (g_forced g) c HS) as Hins.
      apply Step2. constructor;
        cbn [g_forced g_roots g_setid g_auths g_changes g_fin s_forced s_roots s_setid s_hist s_changes s_bestfin];
        try assumption; try reflexivity.
      * rewrite Hins. apply s_forced_insert_sorted. exact HS.
      * intros x Hx. apply in_insert_at in Hx. destruct Hx as [->|Hx]; [|apply HP; exact Hx].
        unfold eff. rewrite Hc. destruct b as [|j]; [lia|]. pose proof (number_pos t j W). lia.
      * exists ls. split; [|exact C]. apply (tables_inv_same g); [exact T | reflexivity | reflexivity | reflexivity].
    + reflexivity.
  - apply Step2. constructor; try assumption. exists ls. auto.
Qed.

(* ---- refinement over every import history ---- *)
Definition is_import (e : event) : Prop := match e with Import _ => True | Finalise _ => False end.

Lemma in_next_import_pos : forall t imported fin b, In (Import b) (next_events t imported fin) -> (1 <= b)%nat.
Proof.
  intros t imported fin b Hin. unfold next_events in Hin. apply in_app_or in Hin.
  destruct Hin as [Hin|Hin]; apply in_map_iff in Hin; destruct Hin as [x [E Hx]]; [|discriminate].
  injection E as ->. apply filter_In in Hx. destruct Hx as [Hs _]. apply in_seq in Hs. lia.
Qed.

Lemma forced_agree : forall t forced, wf t = true -> forced_ok forced ->
  forall evs imported g q, Forall is_import evs -> finv t g q ->
  agree_run t [] forced imported O g q evs.
Proof.
  intros t forced W Hok. induction evs as [|e r IH]; intros imported g q Hall I; [exact Logic.I|].
  inversion Hall as [|e' r' He Hr]; subst. destruct e as [b|b]; [|destruct He].
  cbn [agree_run]. intros Hin _.
  pose proof (forced_step t forced W Hok g q b I (in_next_import_pos _ _ _ _ Hin)) as S.
  destruct (spec_step t [] forced q (Import b)) as [q'|]; [|exact S].
  cbn zeta. destruct S as [S1 I']. split; [exact S1|]. split.
  - apply finv_obs; assumption.
  - apply IH; assumption.
Qed.

Lemma forced_refines : forall t forced evs, wf t = true -> forced_ok forced -> Forall is_import evs ->
  agree_run t [] forced [O] O ginit sinit evs.
Proof. intros t forced evs W Hok Hall. apply forced_agree; try assumption. apply finv_init. Qed.
