(* C23/Local.v -- one-step theorems about the repaired Go model, valid in every state: when a
   scheduled / forced change takes effect, what stays pending, what is discarded. *)
From Coq Require Import NArith List Bool Arith Lia.
From C23 Require Import Model.
Import ListNotations.
Local Open Scope N_scope.

(* after the repair GrandpaState.isDescendantOf never fails: unknown blocks are unrelated *)
Lemma desc_fixed : forall t fin a d,
  desc fixed t fin a d = Some (Nat.eqb a d || (known t fin a && known t fin d && is_anc t a d)).
Proof.
  intros. unfold desc. destruct (Nat.eqb a d); [reflexivity|].
  destruct (known t fin a && known t fin d); reflexivity.
Qed.
Definition rel (t : tree) (fin a d : nat) : bool :=       (* a is d or a known ancestor of d *)
  Nat.eqb a d || (known t fin a && known t fin d && is_anc t a d).

(* ---- pruning: exactly the entries related to the finalised block are kept ---- *)
Lemma prune_keep_fixed : forall {A} (blk : A -> nat) t fin h l,
  prune_keep fixed blk t fin h l = Some (filter (fun x => rel t fin h (blk x)) l).
Proof.
  intros A blk t fin h. induction l as [|x l IH]; [reflexivity|].
  cbn [prune_keep filter]. rewrite desc_fixed, IH. fold (rel t fin h (blk x)).
  destruct (rel t fin h (blk x)); reflexivity.
Qed.

Lemma prune_keep_anc_fixed : forall t fin h l,
  prune_keep_anc fixed t fin h l =
  Some (filter (fun x => rel t fin h (pc_blk (n_change x)) || rel t fin (pc_blk (n_change x)) h) l).
Proof.
  intros t fin h. induction l as [|x l IH]; [reflexivity|].
  cbn [prune_keep_anc filter]. rewrite !desc_fixed, IH.
  fold (rel t fin h (pc_blk (n_change x))). fold (rel t fin (pc_blk (n_change x)) h).
  destruct (rel t fin h (pc_blk (n_change x)) || rel t fin (pc_blk (n_change x)) h); reflexivity.
Qed.

(* ---- lookup_where with a total condition is `find` ---- *)
Lemma lookup_where_total : forall {A} (cond : A -> option bool) (p : A -> bool) l,
  (forall x, In x l -> cond x = Some (p x)) -> lookup_where cond l = Some (find p l).
Proof.
  intros A cond p. induction l as [|x l IH]; intros H; [reflexivity|].
  cbn [lookup_where find]. rewrite (H x (or_introl eq_refl)).
  destruct (p x); [reflexivity|]. apply IH. intros y Hy. apply H. right. exact Hy.
Qed.

(* ---- a forced change takes effect when a block with its effective number is imported on its
   fork; then both pending containers are reset, the set id grows by one, the new authorities
   are stored under the new id and the previous set ends at the change's best finalized block ---- *)
Definition forced_applicable (t : tree) (fin b : nat) (c : pchange) : bool :=
  (eff t c =? number t b) && rel t fin (pc_blk c) b.

Lemma forced_cond_fixed : forall t fin b c,
  forced_applicable_cond fixed t fin b c = Some (forced_applicable t fin b c).
Proof.
  intros. unfold forced_applicable_cond, forced_applicable, rel. rewrite desc_fixed.
  destruct (Nat.eqb b (pc_blk c)) eqn:E.
  - apply Nat.eqb_eq in E. subst b. rewrite Nat.eqb_refl. cbn [andb orb].
    destruct (eff t c =? number t (pc_blk c)); reflexivity.
  - cbn [andb]. rewrite Nat.eqb_sym, E. cbn [orb].
    rewrite andb_comm. reflexivity.
Qed.

Definition depends_on (t : tree) (fin : nat) (fc : pchange) (n : node) : bool :=
  (eff t (n_change n) <=? pc_bestfin fc) && rel t fin (pc_blk (n_change n)) (pc_blk fc).

Lemma apply_forced_fixed : forall t s b,
  apply_forced fixed t s b =
  match find (forced_applicable t (g_fin s) b) (g_forced s) with
  | None => Some s
  | Some fc =>
    match find (depends_on t (g_fin s) fc) (g_roots s) with
    | Some _ => None
    | None => Some (mkgst [] [] (g_setid s + 1) (aput (g_auths s) (g_setid s + 1) (pc_auth fc))
                          (aput (g_changes s) (g_setid s + 1) (pc_bestfin fc)) (g_fin s))
    end
  end.
Proof.
  intros t s b. unfold apply_forced.
  rewrite (lookup_where_total _ (forced_applicable t (g_fin s) b)) by (intros; apply forced_cond_fixed).
  destruct (find (forced_applicable t (g_fin s) b) (g_forced s)) as [fc|]; [|reflexivity].
  rewrite (lookup_where_total _ (depends_on t (g_fin s) fc)).
  - destruct (find (depends_on t (g_fin s) fc) (g_roots s)); reflexivity.
  - intros n _. unfold depends_on. rewrite desc_fixed. fold (rel t (g_fin s) (pc_blk (n_change n)) (pc_blk fc)).
    destruct (pc_bestfin fc <? eff t (n_change n)) eqn:E.
    + apply N.ltb_lt in E. assert (H : (eff t (n_change n) <=? pc_bestfin fc) = false) by (apply N.leb_gt; exact E).
      rewrite H. reflexivity.
    + apply N.ltb_ge in E. assert (H : (eff t (n_change n) <=? pc_bestfin fc) = true) by (apply N.leb_le; exact E).
      rewrite H. reflexivity.
Qed.

(* ---- at most one forced change per fork: a second announcement on a fork that already has a
   pending forced change is refused, an accepted one is unrelated to all pending ones ---- *)
Lemma forced_check_fixed : forall t fin l c,
  forced_check fixed t fin l c =
  Some (forallb (fun x => negb (Nat.eqb (pc_blk x) (pc_blk c)) && negb (rel t fin (pc_blk x) (pc_blk c))) l).
Proof.
  intros t fin l c. induction l as [|x l IH]; [reflexivity|].
  cbn [forced_check forallb]. destruct (Nat.eqb (pc_blk x) (pc_blk c)) eqn:E; [reflexivity|].
  rewrite desc_fixed. fold (rel t fin (pc_blk x) (pc_blk c)).
  destruct (rel t fin (pc_blk x) (pc_blk c)); [reflexivity|]. cbn [negb andb]. exact IH.
Qed.

Lemma add_forced_one_per_fork : forall t s c s', add_forced fixed t s c = Some s' ->
  (forall x, In x (g_forced s) -> pc_blk x <> pc_blk c /\ rel t (g_fin s) (pc_blk x) (pc_blk c) = false) /\
  (forall x, In x (g_forced s') <-> x = c \/ In x (g_forced s)).
Proof.
  intros t s c s'. unfold add_forced. rewrite forced_check_fixed.
  destruct (forallb _ (g_forced s)) eqn:F; [|discriminate]. intros H. injection H as <-. split.
  - intros x Hx. rewrite forallb_forall in F. specialize (F x Hx).
    apply andb_true_iff in F. destruct F as [F1 F2].
    apply negb_true_iff in F1. apply negb_true_iff in F2. apply Nat.eqb_neq in F1. auto.
  - intros x. cbn [g_forced]. unfold forced_insert, insert_at.
    set (i := go_search _ _ _ _). rewrite in_app_iff. cbn [In].
    assert (S : In x (g_forced s) <-> In x (firstn i (g_forced s)) \/ In x (skipn i (g_forced s))).
    { rewrite <- in_app_iff. rewrite firstn_skipn. reflexivity. }
    rewrite S. intuition.
Qed.

Lemma add_forced_refused : forall t s c x, In x (g_forced s) ->
  rel t (g_fin s) (pc_blk x) (pc_blk c) = true -> add_forced fixed t s c = None.
Proof.
  intros t s c x Hx R. unfold add_forced. rewrite forced_check_fixed.
  destruct (forallb _ (g_forced s)) eqn:F; [|reflexivity].
  rewrite forallb_forall in F. specialize (F x Hx). rewrite R in F.
  rewrite andb_false_r in F. discriminate.
Qed.

(* ---- a scheduled change takes effect when a block at or beyond its effective number is
   finalised on its fork (and no later change of that fork is overtaken) ---- *)
Definition overtaken (t : tree) (fin h : nat) (x : node) : bool :=
  (number t (pc_blk (n_change x)) <=? number t h) && rel t fin (pc_blk (n_change x)) h.

Lemma child_check_fixed : forall t fin h ch,
  child_check fixed t fin h ch = if existsb (overtaken t fin h) ch then None else Some true.
Proof.
  intros t fin h. induction ch as [|x ch IH]; [reflexivity|].
  cbn [child_check existsb]. rewrite desc_fixed. fold (rel t fin (pc_blk (n_change x)) h).
  unfold overtaken at 1. destruct ((number t (pc_blk (n_change x)) <=? number t h) && rel t fin (pc_blk (n_change x)) h);
    [reflexivity | exact IH].
Qed.

(* the first root that is due on the finalised chain; None: errUnfinalizedAncestor *)
Definition due (t : tree) (fin h : nat) (n : node) : bool :=
  (eff t (n_change n) <=? number t h) && rel t fin (pc_blk (n_change n)) h.

Lemma sched_cond_fixed : forall t fin h n,
  sched_applicable_cond fixed t fin h n =
  if due t fin h n then (if existsb (overtaken t fin h) (n_children n) then None else Some true) else Some false.
Proof.
  intros t fin h n. unfold sched_applicable_cond, due.
  destruct (number t h <? eff t (n_change n)) eqn:E.
  - apply N.ltb_lt in E. assert (H : (eff t (n_change n) <=? number t h) = false) by (apply N.leb_gt; exact E).
    rewrite H. reflexivity.
  - apply N.ltb_ge in E. assert (H : (eff t (n_change n) <=? number t h) = true) by (apply N.leb_le; exact E).
    rewrite H. cbn [andb].
    assert (R : (if Nat.eqb h (pc_blk (n_change n)) then Some true else desc fixed t fin (pc_blk (n_change n)) h)
                = Some (rel t fin (pc_blk (n_change n)) h)).
    { unfold rel. rewrite desc_fixed. rewrite (Nat.eqb_sym h). destruct (Nat.eqb (pc_blk (n_change n)) h); reflexivity. }
    rewrite R. destruct (rel t fin (pc_blk (n_change n)) h); [apply child_check_fixed | reflexivity].
Qed.

(* ApplyScheduledChanges when the first due root can be enacted *)
Lemma apply_scheduled_enacts : forall t s h pre n post,
  g_roots s = pre ++ n :: post ->
  (forall x, In x pre -> due t (g_fin s) h x = false) ->
  due t (g_fin s) h n = true -> existsb (overtaken t (g_fin s) h) (n_children n) = false ->
  apply_scheduled fixed t s h =
  (mkgst (filter (fun c => rel t (g_fin s) h (pc_blk c)) (g_forced s)) (n_children n) (g_setid s + 1)
         (aput (g_auths s) (g_setid s + 1) (pc_auth (n_change n)))
         (aput (g_changes s) (g_setid s + 1) (number t h)) (g_fin s), true).
Proof.
  intros t s h pre n post Hr Hpre Hd Ho. unfold apply_scheduled.
  rewrite prune_keep_fixed. rewrite Hr.
  assert (L : lookup_where (sched_applicable_cond fixed t (g_fin s) h) (pre ++ n :: post) = Some (Some n)).
  { clear Hr. induction pre as [|x pre IH]; cbn [app lookup_where].
    - rewrite sched_cond_fixed, Hd, Ho. reflexivity.
    - rewrite sched_cond_fixed, (Hpre x (or_introl eq_refl)). apply IH. intros y Hy. apply Hpre. right. exact Hy. }
  destruct (pre ++ n :: post) as [|r0 rs] eqn:E; [destruct pre; discriminate|].
  rewrite L. reflexivity.
Qed.

(* ApplyScheduledChanges when no root is due: the set stays, and exactly the pending changes on
   abandoned forks are discarded (roots that are ancestors of the finalised block stay pending) *)
Lemma apply_scheduled_keeps : forall t s h,
  (forall x, In x (g_roots s) -> due t (g_fin s) h x = false) ->
  apply_scheduled fixed t s h =
  (mkgst (filter (fun c => rel t (g_fin s) h (pc_blk c)) (g_forced s))
         (filter (fun x => rel t (g_fin s) h (pc_blk (n_change x)) || rel t (g_fin s) (pc_blk (n_change x)) h) (g_roots s))
         (g_setid s) (g_auths s) (g_changes s) (g_fin s), true).
Proof.
  intros t s h Hn. unfold apply_scheduled. rewrite prune_keep_fixed.
  destruct (g_roots s) as [|r0 rs] eqn:E; [reflexivity|].
  assert (L : lookup_where (sched_applicable_cond fixed t (g_fin s) h) (r0 :: rs) = Some None).
  { clear E. induction (r0 :: rs) as [|x l IH]; [reflexivity|]. cbn [lookup_where].
    rewrite sched_cond_fixed, (Hn x (or_introl eq_refl)). apply IH. intros y Hy. apply Hn. right. exact Hy. }
  rewrite L. cbn [fixed v_keep_ancestors]. rewrite prune_keep_anc_fixed. reflexivity.
Qed.
