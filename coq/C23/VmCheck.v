(* C23/VmCheck.v -- vm_compute cross-check of the extraction (bin/check vm_sample): a whole
   history is re-run on the Go model inside Coq and compared with the implementation's
   observables after every event (result, set id, authorities, set id per block number, next
   change per listed block, forcedChanges order, scheduledChangeRoots shape).  Definitions only. *)
From Coq Require Import NArith List Bool Arith.
From C23 Require Import Model.
Import ListNotations.
Local Open Scope N_scope.

Inductive shape := Sh (b : nat) (ch : list shape).

Fixpoint shape_eqb (n : node) (s : shape) : bool :=
  match n, s with
  | Node c ch, Sh b sh =>
    Nat.eqb (pc_blk c) b &&
    (fix go (l1 : list node) (l2 : list shape) : bool :=
       match l1, l2 with
       | [], [] => true
       | x :: r1, y :: r2 => shape_eqb x y && go r1 r2
       | _, _ => false
       end) ch sh
  end.
Fixpoint shapes_eqb (l1 : list node) (l2 : list shape) : bool :=
  match l1, l2 with
  | [], [] => true
  | x :: r1, y :: r2 => shape_eqb x y && shapes_eqb r1 r2
  | _, _ => false
  end.

Fixpoint list_eqb {A} (e : A -> A -> bool) (l1 l2 : list A) : bool :=
  match l1, l2 with
  | [], [] => true
  | x :: r1, y :: r2 => e x y && list_eqb e r1 r2
  | _, _ => false
  end.
Definition on_eqb (a b : option N) : bool :=
  match a, b with Some x, Some y => x =? y | None, None => true | _, _ => false end.
Definition oon_eqb (a b : option (option N)) : bool :=
  match a, b with Some x, Some y => on_eqb x y | None, None => true | _, _ => false end.
Definition result_eqb (a b : result) : bool :=
  match a, b with
  | ROk, ROk | RErrDigest, RErrDigest | RErrForced, RErrForced | RErrSched, RErrSched => true
  | _, _ => false
  end.

Record vobs := mkvobs {
  vo_res : result; vo_setid : N;
  vo_auths : list (option N);                 (* GetAuthorities(0..current+1), None = not found *)
  vo_byn : list (option N);                   (* GetSetIDByBlockNumber(0..), None = error *)
  vo_next : list (nat * option (option N));   (* block, NextGrandpaAuthorityChange: None error, Some None = no change *)
  vo_forced : list nat; vo_roots : list shape
}.

Definition obs_match (t : tree) (g : gst) (r : result) (o : vobs) : bool :=
  result_eqb r (vo_res o) && (g_setid g =? vo_setid o)
  && Nat.eqb (length (vo_auths o)) (N.to_nat (g_setid g) + 2)
  && list_eqb on_eqb (map (fun id => aget (g_auths g) (N.of_nat id)) (seq 0 (length (vo_auths o)))) (vo_auths o)
  && list_eqb on_eqb (map (fun n => go_setid_by_number g (N.of_nat n)) (seq 0 (length (vo_byn o)))) (vo_byn o)
  && forallb (fun bx : nat * option (option N) => oon_eqb (go_next_change fixed t g (fst bx)) (snd bx)) (vo_next o)
  && list_eqb Nat.eqb (map pc_blk (g_forced g)) (vo_forced o)
  && shapes_eqb (g_roots g) (vo_roots o).

Fixpoint vm_hist (t : tree) (sched forced : changes) (g : gst) (evs : list (event * vobs)) : bool :=
  match evs with
  | [] => true
  | (e, o) :: r =>
    let '(g', res) := go_step fixed t sched forced g e in
    obs_match t g' res o && vm_hist t sched forced g' r
  end.
Definition vm_case (t : tree) (sched forced : changes) (evs : list (event * vobs)) : bool :=
  wf t && vm_hist t sched forced ginit evs.
