(* C23/NextChangeForks.v -- closer round: NextGrandpaAuthorityChange on ARBITRARY well-formed block
   trees (forks included), scheduled changes, along every import/finalise history of any length.
   Forks.v proves the refinement for three observers (obs_eq3); the fourth one, the next authority
   change seen from every live block, was proved on chains only (Chain.v).  gossamer returns the
   effective number of the FIRST root of its pending-change forest that is announced by an ancestor
   of the best block and is due; Substrate's side is the MINIMUM effective number over such roots of
   the forest it keeps (= the roots gossamer keeps that are known to the block state).  They agree
   because of a nested invariant of the forest:

     sibling nodes (the roots, and the children of every node) are pairwise unrelated in the
     block tree (neither announcing block is an ancestor of the other),

   so at most one root lies on the ancestry of any block: first applicable = minimum = the unique
   one.  The invariant holds because importNode descends into a child whenever the new block
   descends from it (so a node appended next to siblings descends from none of them) and a block is
   imported after all its ancestors (so it is an ancestor of none of them); enacting a change
   promotes the children of one node, pruning filters the roots.  A second invariant (no pending
   change is announced by genesis, hence every effective number is >= 1) rules out gossamer's
   "0 = no change" encoding hiding a change. *)
From Coq Require Import NArith List Bool Arith Lia.
From C23 Require Import Model Spec Enum Proofs Local Reach Bounded Chain Forced OnePerFork Forks Forced2.
Import ListNotations.
Local Open Scope N_scope.

(* ---- pairwise unrelated siblings, nested ---- *)
Fixpoint unrelb (t : tree) (l : list nat) : Prop :=
  match l with
  | [] => True
  | a :: r => (forall b, In b r -> is_anc t a b = false /\ is_anc t b a = false) /\ unrelb t r
  end.
Definition unrel (t : tree) (l : list node) : Prop := unrelb t (map nblk l).
Fixpoint sib (t : tree) (n : node) : Prop :=
  match n with Node c ch => unrel t ch /\ allP (fun x => sib t x) ch end.

(* the extra invariant on gossamer's scheduledChangeRoots *)
Definition einv (t : tree) (G : list node) : Prop :=
  unrel t G /\ allP (fun x => sib t x) G /\ (forall b, In b (fblocks G) -> b <> O).

Lemma unrelb_snoc : forall t l c, unrelb t l ->
  (forall a, In a l -> is_anc t a c = false /\ is_anc t c a = false) -> unrelb t (l ++ [c]).
Proof.
  intros t l c. induction l as [|a r IH]; intros U H; cbn [app unrelb].
  - split; [intros b [] | exact I].
  - cbn [unrelb] in U. destruct U as [U1 U2]. split.
    + intros b Hb. apply in_app_or in Hb. destruct Hb as [Hb|[<-|[]]]; [apply U1; exact Hb | apply H; left; reflexivity].
    + apply IH; [exact U2 | intros x Hx; apply H; right; exact Hx].
Qed.

Lemma unrel_filter : forall t p l, unrel t l -> unrel t (filter p l).
Proof.
  intros t p. induction l as [|x r IH]; intros U; [exact I|].
  unfold unrel in *. cbn [map unrelb] in U. destruct U as [U1 U2]. cbn [filter].
  destruct (p x); [|apply IH; exact U2].
  cbn [map unrelb]. split; [|apply IH; exact U2].
  intros b Hb. apply U1. apply in_map_iff in Hb. destruct Hb as [y [E Hy]]. apply filter_In in Hy.
  apply in_map_iff. exists y. tauto.
Qed.

(* at most one sibling lies on the ancestry of a block *)
Lemma unrel_unique : forall t, wf t = true -> forall best x r, unrel t (x :: r) ->
  is_anc t (nblk x) best = true -> forall y, In y r -> is_anc t (nblk y) best = false.
Proof.
  intros t W best x r U A y Hy. unfold unrel in U. cbn [map unrelb] in U. destruct U as [U1 _].
  destruct (is_anc t (nblk y) best) eqn:B; [|reflexivity].
  destruct (U1 (nblk y) (in_map nblk _ _ Hy)) as [P Q].
  destruct (is_anc_comparable t W best _ _ A B) as [H|H]; congruence.
Qed.

Lemma einv_nil : forall t, einv t [].
Proof. intros t. split; [exact I|]. split; [exact I|]. intros b []. Qed.

Lemma einv_filter : forall t p G, einv t G -> einv t (filter p G).
Proof.
  intros t p G [E1 [E2 E3]]. split; [apply unrel_filter; exact E1|]. split; [apply allP_filter; exact E2|].
  intros b Hb. apply E3. apply (filter_fblocks _ _ _ Hb).
Qed.

Lemma einv_children : forall t G n, einv t G -> In n G -> einv t (n_children n).
Proof.
  intros t G n [E1 [E2 E3]] Hn. pose proof (proj1 (allP_forall _ G) E2 n Hn) as S.
  destruct n as [c ch]. cbn [sib n_children] in *. destruct S as [S1 S2].
  split; [exact S1|]. split; [exact S2|].
  intros b Hb. apply E3. apply (in_fblocks_child G (Node c ch) b Hn). exact Hb.
Qed.

(* ---- the two observers on a forest with unrelated siblings ---- *)
Definition on_best (t : tree) (best : nat) (n : node) : bool :=
  is_anc t (nblk n) best && (eff t (n_change n) <=? number t best).

Lemma fold_off : forall t best l acc, (forall y, In y l -> on_best t best y = false) ->
  fold_left (fun acc n => if on_best t best n then nmin acc (eff t (n_change n)) else acc) l acc = acc.
Proof.
  intros t best. induction l as [|x r IH]; intros acc H; [reflexivity|]. cbn [fold_left].
  rewrite (H x (or_introl eq_refl)). apply IH. intros y Hy. apply H. right. exact Hy.
Qed.

(* "first applicable = minimum effective number on the block's own ancestry" *)
Lemma fold_first : forall t, wf t = true -> forall best l, unrel t l ->
  fold_left (fun acc n => if on_best t best n then nmin acc (eff t (n_change n)) else acc) l None =
  match find (on_best t best) l with Some n => Some (eff t (n_change n)) | None => None end.
Proof.
  intros t W best. induction l as [|x r IH]; intros U; [reflexivity|].
  cbn [fold_left find]. destruct (on_best t best x) eqn:O.
  - cbn [nmin]. apply fold_off. intros y Hy. unfold on_best in *. apply andb_true_iff in O. destruct O as [O _].
    rewrite (unrel_unique t W best x r U O y Hy). reflexivity.
  - apply IH. unfold unrel in *. cbn [map unrelb] in U. tauto.
Qed.

Lemma go_next_forks : forall t g best, wf t = true -> is_anc t (g_fin g) best = true -> g_forced g = [] ->
  go_next_change fixed t g best =
  Some (match find (on_best t best) (g_roots g) with
        | Some n => if eff t (n_change n) =? 0 then None else Some (eff t (n_change n))
        | None => None
        end).
Proof.
  intros t g best W L F. unfold go_next_change. rewrite F. cbn [lookup_where].
  rewrite (lookup_where_total _ (on_best t best)).
  2:{ intros x _. rewrite desc_live by assumption. reflexivity. }
  destruct (find (on_best t best) (g_roots g)) as [n|]; reflexivity.
Qed.

Lemma eff_pos : forall t c, wf t = true -> pc_blk c <> O -> (eff t c =? 0) = false.
Proof.
  intros t c W H. apply N.eqb_neq. unfold eff. destruct (pc_blk c) as [|j]; [contradiction|].
  pose proof (number_pos t j W). lia.
Qed.

(* the observer agrees in every state of the simulation relation of Forks.v + einv, for every
   best block that descends from the last finalised block *)
Lemma next_change_state : forall t imported fin g q best, wf t = true -> kinv t imported fin g q ->
  einv t (g_roots g) -> is_anc t fin best = true ->
  go_next_change fixed t g best = Some (spec_next_change t q best).
Proof.
  intros t imported fin g q best W K [E1 [_ E3]] L.
  destruct K as [Kc Kf Kgf Ksf Kw Kb Kr Ksi Ka Kt Kgfin Kbf].
  rewrite go_next_forks; [| exact W | rewrite Kgfin; exact L | exact Kgf].
  change (spec_next_change t q best) with
    (fold_left (fun acc c => if is_anc t (pc_blk c) best && (eff t c <=? number t best) then nmin acc (eff t c) else acc)
               (s_forced q)
               (fold_left (fun acc n => if on_best t best n then nmin acc (eff t (n_change n)) else acc) (s_roots q) None)).
  rewrite Ksf, Kr. cbn [fold_left].
  rewrite fold_first by (try exact W; apply unrel_filter; exact E1).
  rewrite find_filter.
  2:{ intros x _ O. unfold on_best in O. apply andb_true_iff in O. destruct O as [O _].
      unfold lroot. apply (known_of_anc t fin _ best W L O). }
  destruct (find (on_best t best) (g_roots g)) as [n|] eqn:Fd; [|reflexivity].
  apply find_some in Fd. destruct Fd as [Hn _].
  rewrite eff_pos; [reflexivity | exact W |]. apply E3. apply in_fblocks_root. exact Hn.
Qed.

(* ---- changeTree.importChange keeps the invariant ---- *)
Lemma import_into_none : forall v t fin c l, import_into v t fin c l = Some None ->
  forall y, In y l -> import_node v t fin c y = Some None.
Proof.
  intros v t fin c. induction l as [|x r IH]; intros H y Hy; [destruct Hy|].
  cbn [import_into] in H. destruct (import_node v t fin c x) as [[x'|]|] eqn:R; try discriminate.
  destruct (import_into v t fin c r) as [[r'|]|] eqn:Rr; try discriminate.
  destruct Hy as [<-|Hy]; [exact R | apply IH; [reflexivity | exact Hy]].
Qed.

Lemma import_into_some : forall v t fin c l l', import_into v t fin c l = Some (Some l') ->
  exists l1 x x' l2, l = l1 ++ x :: l2 /\ l' = l1 ++ x' :: l2 /\ import_node v t fin c x = Some (Some x').
Proof.
  intros v t fin c. induction l as [|a r IH]; intros l' H; [discriminate|].
  cbn [import_into] in H. destruct (import_node v t fin c a) as [[a'|]|] eqn:R; try discriminate.
  - injection H as <-. exists [], a, a', r. auto.
  - destruct (import_into v t fin c r) as [[r'|]|] eqn:Rr; try discriminate. injection H as <-.
    destruct (IH r' eq_refl) as (l1 & x & x' & l2 & E1 & E2 & E3).
    exists (a :: l1), x, x', l2. subst. auto.
Qed.

Lemma import_roots_cases : forall v t fin c l l', import_roots v t fin c l = Some l' ->
  (exists l1 x x' l2, l = l1 ++ x :: l2 /\ l' = l1 ++ x' :: l2 /\ import_node v t fin c x = Some (Some x')) \/
  (l' = l ++ [Node c []] /\ forall y, In y l -> import_node v t fin c y = Some None).
Proof.
  intros v t fin c. induction l as [|a r IH]; intros l' H.
  - cbn [import_roots] in H. injection H as <-. right. split; [reflexivity | intros y []].
  - cbn [import_roots] in H. destruct (import_node v t fin c a) as [[a'|]|] eqn:R; try discriminate.
    + injection H as <-. left. exists [], a, a', r. auto.
    + destruct (import_roots v t fin c r) as [r'|] eqn:Rr; try discriminate. injection H as <-.
      destruct (IH r' eq_refl) as [(l1 & x & x' & l2 & E1 & E2 & E3) | [E1 E2]].
      * left. exists (a :: l1), x, x', l2. subst. auto.
      * right. subst. split; [reflexivity|]. intros y [<-|Hy]; [exact R | apply E2; exact Hy].
Qed.

(* importNode declines a node only if the new block does not descend from it *)
Lemma import_node_none_anc : forall t fin c, wf t = true -> is_anc t fin (pc_blk c) = true ->
  forall n, nblk n <> pc_blk c -> import_node fixed t fin c n = Some None ->
  is_anc t (nblk n) (pc_blk c) = false.
Proof.
  intros t fin c W Hc [nc ch] Hne H. rewrite import_node_unfold in H. unfold nblk in *. cbn [n_change] in *.
  assert (E : Nat.eqb (pc_blk c) (pc_blk nc) = false) by (apply Nat.eqb_neq; congruence). rewrite E in H.
  rewrite desc_live in H by assumption. destruct (is_anc t (pc_blk nc) (pc_blk c)) eqn:A; [|reflexivity].
  pose proof (number_anc_lt t _ _ W A Hne) as Hlt.
  assert (M : (number t (pc_blk c) <=? number t (pc_blk nc)) = false) by (apply N.leb_gt; exact Hlt).
  rewrite M in H. destruct (import_into fixed t fin c ch) as [[?|]|]; discriminate.
Qed.

Lemma replace_sib : forall t l1 x x' l2, nblk x' = nblk x -> sib t x' ->
  unrel t (l1 ++ x :: l2) -> allP (fun y => sib t y) (l1 ++ x :: l2) ->
  unrel t (l1 ++ x' :: l2) /\ allP (fun y => sib t y) (l1 ++ x' :: l2).
Proof.
  intros t l1 x x' l2 E S U A. split.
  - unfold unrel in *. rewrite map_app in *. cbn [map] in *. rewrite E. exact U.
  - apply allP_forall. intros y Hy. apply in_app_or in Hy.
    pose proof (proj1 (allP_forall _ _) A) as A'.
    destruct Hy as [Hy|[<-|Hy]]; [apply A'; apply in_or_app; left; exact Hy | exact S |
                                  apply A'; apply in_or_app; right; right; exact Hy].
Qed.

Lemma snoc_sib : forall t l c, unrel t l -> allP (fun y => sib t y) l ->
  (forall y, In y l -> is_anc t (nblk y) (pc_blk c) = false /\ is_anc t (pc_blk c) (nblk y) = false) ->
  unrel t (l ++ [Node c []]) /\ allP (fun y => sib t y) (l ++ [Node c []]).
Proof.
  intros t l c U A H. split.
  - unfold unrel in *. rewrite map_app. cbn [map]. apply unrelb_snoc; [exact U|].
    intros a Ha. apply in_map_iff in Ha. destruct Ha as [y [<- Hy]]. apply H. exact Hy.
  - apply allP_forall. intros y Hy. apply in_app_or in Hy. destruct Hy as [Hy|[<-|[]]].
    + apply (proj1 (allP_forall _ _) A). exact Hy.
    + cbn [sib]. split; exact I.
Qed.

Lemma in_nblocks_child : forall nc ch y b, In y ch -> In b (nblocks y) -> In b (nblocks (Node nc ch)).
Proof.
  intros nc ch y b Hy Hb. cbn [nblocks]. right. apply in_flat_map. exists y. split; assumption.
Qed.

Lemma in_nblocks_root : forall y, In (nblk y) (nblocks y).
Proof. intros [c ch]. left. reflexivity. Qed.

Lemma import_node_sib : forall t fin c, wf t = true -> is_anc t fin (pc_blk c) = true ->
  forall n, fwf t n -> (forall b, In b (nblocks n) -> b <> pc_blk c /\ is_anc t (pc_blk c) b = false) ->
  sib t n -> forall n', import_node fixed t fin c n = Some (Some n') -> sib t n'.
Proof.
  intros t fin c W Hc.
  apply (node_ind2 (fun n => fwf t n -> (forall b, In b (nblocks n) -> b <> pc_blk c /\ is_anc t (pc_blk c) b = false) ->
    sib t n -> forall n', import_node fixed t fin c n = Some (Some n') -> sib t n')).
  intros nc ch IH F Hb S n'. rewrite import_node_unfold.
  assert (Hne : pc_blk nc <> pc_blk c) by (apply Hb; left; reflexivity).
  assert (E : Nat.eqb (pc_blk c) (pc_blk nc) = false) by (apply Nat.eqb_neq; congruence). rewrite E.
  rewrite desc_live by assumption. destruct (is_anc t (pc_blk nc) (pc_blk c)) eqn:A; [|discriminate].
  destruct (number t (pc_blk c) <=? number t (pc_blk nc)); [discriminate|].
  cbn [sib] in S. destruct S as [S1 S2]. cbn [fwf] in F.
  pose proof (proj1 (allP_forall _ _) F) as F'. pose proof (proj1 (allP_forall _ _) IH) as IH'.
  destruct (import_into fixed t fin c ch) as [[ch'|]|] eqn:I; [| |discriminate].
  - intros H. injection H as <-.
    destruct (import_into_some _ _ _ _ _ _ I) as (l1 & x & x' & l2 & E1 & E2 & E3). subst ch ch'.
    assert (Hx : In x (l1 ++ x :: l2)) by (apply in_or_app; right; left; reflexivity).
    destruct (F' x Hx) as [_ Fx].
    assert (Hbx : forall b, In b (nblocks x) -> b <> pc_blk c /\ is_anc t (pc_blk c) b = false).
    { intros b Hbb. apply Hb. apply (in_nblocks_child nc _ x b Hx Hbb). }
    destruct (import_node_fwf t fin c W Hc x Fx (fun b Hbb => proj1 (Hbx b Hbb)) x' E3) as [_ [P2 _]].
    cbn [sib]. apply (replace_sib t l1 x x' l2); try assumption.
    apply (IH' x Hx Fx Hbx); [|exact E3]. apply (proj1 (allP_forall _ _) S2 x Hx).
  - intros H. injection H as <-. cbn [sib]. apply snoc_sib; try assumption.
    intros y Hy. assert (Hyb : In (nblk y) (nblocks (Node nc ch))) by (apply (in_nblocks_child nc ch y _ Hy); apply in_nblocks_root).
    destruct (Hb _ Hyb) as [Q1 Q2]. split; [|exact Q2].
    apply (import_node_none_anc t fin c W Hc y Q1). apply (import_into_none _ _ _ _ _ I y Hy).
Qed.

Lemma import_roots_einv : forall t fin c, wf t = true -> is_anc t fin (pc_blk c) = true -> pc_blk c <> O ->
  forall G, allP (fwf t) G -> (forall b, In b (fblocks G) -> b <> pc_blk c /\ is_anc t (pc_blk c) b = false) ->
  einv t G -> forall G', import_roots fixed t fin c G = Some G' -> einv t G'.
Proof.
  intros t fin c W Hc Hnz G F Hb [E1 [E2 E3]] G' IR.
  destruct (import_roots_fwf t fin c W Hc G F (fun b Hbb => proj1 (Hb b Hbb)) G' IR) as [_ Fb'].
  assert (NZ : forall b, In b (fblocks G') -> b <> O).
  { intros b Hbb. destruct (Fb' b Hbb) as [Q|Q]; [apply E3; exact Q | rewrite Q; exact Hnz]. }
  pose proof (proj1 (allP_forall _ _) F) as F'.
  destruct (import_roots_cases _ _ _ _ _ _ IR) as [(l1 & x & x' & l2 & Q1 & Q2 & Q3) | [Q1 Q2]].
  - subst G G'.
    assert (Hx : In x (l1 ++ x :: l2)) by (apply in_or_app; right; left; reflexivity).
    assert (Hbx : forall b, In b (nblocks x) -> b <> pc_blk c /\ is_anc t (pc_blk c) b = false).
    { intros b Hbb. apply Hb. unfold fblocks. apply in_flat_map. exists x. split; assumption. }
    destruct (import_node_fwf t fin c W Hc x (F' x Hx) (fun b Hbb => proj1 (Hbx b Hbb)) x' Q3) as [_ [P2 _]].
    destruct (replace_sib t l1 x x' l2 P2) as [R1 R2]; try assumption.
    + apply (import_node_sib t fin c W Hc x (F' x Hx) Hbx); [|exact Q3]. apply (proj1 (allP_forall _ _) E2 x Hx).
    + split; [exact R1|]. split; [exact R2 | exact NZ].
  - subst G'. destruct (snoc_sib t G c E1 E2) as [R1 R2].
    + intros y Hy. destruct (Hb _ (in_fblocks_root G y Hy)) as [P1 P2]. split; [|exact P2].
      apply (import_node_none_anc t fin c W Hc y P1). apply Q2. exact Hy.
    + split; [exact R1|]. split; [exact R2 | exact NZ].
Qed.

(* ---- ApplyScheduledChanges: the new roots are the old ones, the children of one of them, or a
   filter of them ---- *)
Lemma lookup_where_in : forall {A} (cond : A -> option bool) l n, lookup_where cond l = Some (Some n) -> In n l.
Proof.
  intros A cond. induction l as [|x r IH]; intros n H; [discriminate|]. cbn [lookup_where] in H.
  destruct (cond x) as [[|]|]; [| |discriminate].
  - injection H as <-. left. reflexivity.
  - right. apply IH. exact H.
Qed.

Lemma apply_scheduled_roots : forall t s h,
  g_roots (fst (apply_scheduled fixed t s h)) = g_roots s \/
  (exists n, In n (g_roots s) /\ g_roots (fst (apply_scheduled fixed t s h)) = n_children n) \/
  (exists p, g_roots (fst (apply_scheduled fixed t s h)) = filter p (g_roots s)).
Proof.
  intros t s h. unfold apply_scheduled. rewrite prune_keep_fixed.
  destruct (g_roots s) as [|r0 rs] eqn:E.
  - left. cbn [fst g_roots]. reflexivity.
  - rewrite <- E.
    destruct (lookup_where (sched_applicable_cond fixed t (g_fin s) h) (g_roots s)) as [[n|]|] eqn:L.
    + right. left. exists n. split; [apply (lookup_where_in _ _ _ L) | reflexivity].
    + cbn [fixed v_keep_ancestors]. rewrite prune_keep_anc_fixed. right. right. eexists. reflexivity.
    + left. reflexivity.
Qed.

(* ---- one event keeps the extra invariant (whatever the outcome) ---- *)
Lemma einv_step : forall t sched, wf t = true -> sched_ok sched ->
  forall imported fin g q e, kinv t imported fin g q -> einv t (g_roots g) ->
  In e (next_events t imported fin) ->
  einv t (g_roots (fst (go_step fixed t sched [] g e))).
Proof.
  intros t sched W Hok imported fin g q e K EI Hin.
  destruct K as [Kc Kf Kgf Ksf Kw Kb Kr Ksi Ka Kt Kgfin Kbf].
  unfold next_events in Hin. apply in_app_or in Hin. destruct e as [b|h].
  - destruct Hin as [Hin|Hin]; apply in_map_iff in Hin; destruct Hin as [x [E Hx]]; [|discriminate].
    injection E as ->. apply filter_In in Hx. destruct Hx as [Hseq Hc].
    apply in_seq in Hseq.
    apply andb_true_iff in Hc. destruct Hc as [Hc H3]. apply andb_true_iff in Hc. destruct Hc as [H1 H2].
    apply negb_true_iff in H1.
    assert (Hnb : ~ In b imported) by (intros X; apply has_in in X; congruence).
    destruct b as [|j]; [lia|].
    assert (Hfb : is_anc t fin (S j) = true) by (rewrite is_anc_unfold by exact W; rewrite H3; apply orb_true_r).
    cbn [go_step cfind]. destruct (cfind sched (S j)) as [c|] eqn:Ec.
    + pose proof (Hok _ _ Ec) as Hcb.
      unfold add_scheduled. rewrite Kgfin.
      destruct (import_roots fixed t fin c (g_roots g)) as [G'|] eqn:IR; [|exact EI].
      rewrite apply_forced_fixed. cbn [g_forced]. rewrite Kgf. cbn [find fst g_roots].
      assert (Hcl : is_anc t fin (pc_blk c) = true) by (rewrite Hcb; exact Hfb).
      assert (Hnz : pc_blk c <> O) by (rewrite Hcb; discriminate).
      apply (import_roots_einv t fin c W Hcl Hnz (g_roots g) Kw); [| exact EI | exact IR].
      intros b0 Hb0. rewrite Hcb. split.
      * intros X. apply Hnb. rewrite <- X. apply Kb. exact Hb0.
      * destruct (is_anc t (S j) b0) eqn:A; [|reflexivity]. exfalso. apply Hnb.
        apply (Kc (S j) b0); [apply Kb; exact Hb0 | exact A].
    + rewrite apply_forced_fixed. rewrite Kgf. cbn [find fst]. exact EI.
  - cbn [go_step].
    set (s0 := mkgst (g_forced g) (g_roots g) (g_setid g) (g_auths g) (g_changes g) h).
    pose proof (apply_scheduled_roots t s0 h) as R.
    destruct (apply_scheduled fixed t s0 h) as [s1 ok]. cbn [fst] in *. cbn [s0 g_roots] in R.
    destruct R as [R | [[n [Hn R]] | [p R]]]; rewrite R.
    + exact EI.
    + apply (einv_children t (g_roots g)); assumption.
    + apply einv_filter. exact EI.
Qed.

(* ---- all four observers, every state ---- *)
Lemma kinv_obs4 : forall t imported fin g q, wf t = true -> kinv t imported fin g q ->
  einv t (g_roots g) -> obs_eq t imported g q = true.
Proof.
  intros t imported fin g q W K EI. unfold obs_eq. apply andb_true_iff. split.
  - exact (kinv_obs t imported fin g q K).
  - apply forallb_forall. intros b Hb. apply filter_In in Hb. destruct Hb as [_ Hb].
    rewrite (k_gfin _ _ _ _ _ K) in Hb.
    rewrite (next_change_state t imported fin g q b W K EI Hb). apply opt_n_eqb_refl.
Qed.

Lemma forks_agree4 : forall t sched, wf t = true -> sched_ok sched ->
  forall evs imported fin g q, kinv t imported fin g q -> einv t (g_roots g) ->
  agree_run t sched [] imported fin g q evs.
Proof.
  intros t sched W Hok. induction evs as [|e r IH]; intros imported fin g q K EI; [exact I|].
  cbn [agree_run]. intros Hin _.
  pose proof (forks_step t sched W Hok imported fin g q e K Hin) as S.
  pose proof (einv_step t sched W Hok imported fin g q e K EI Hin) as EI'.
  destruct (spec_step t sched [] q e) as [q'|]; [|exact S].
  cbn zeta. destruct S as [S1 K']. split; [exact S1|]. split.
  - apply (kinv_obs4 t _ _ _ _ W K' EI').
  - apply IH; [exact K' | exact EI'].
Qed.

(* scheduled changes on arbitrary well-formed trees: ok/error and ALL FOUR observers (the next
   authority change for every imported block that descends from the last finalised block included)
   agree after every event of every possible history *)
Lemma next_change_forks_refines : forall t sched evs, wf t = true -> sched_ok sched ->
  agree_run t sched [] [O] O ginit sinit evs.
Proof.
  intros t sched evs W Hok. apply forks_agree4; try assumption; [apply kinv_init; exact W | apply einv_nil].
Qed.

(* the state-level statement, for any reachable state and any live best block (not only imported
   ones): useful on its own *)
Lemma next_change_forks_state : forall t imported fin g q best, wf t = true -> kinv t imported fin g q ->
  einv t (g_roots g) -> is_anc t fin best = true ->
  go_next_change fixed t g best = Some (spec_next_change t q best).
Proof. exact next_change_state. Qed.
