(* C23/Enum.v -- exhaustive small-scope comparison of the Go model (variant `fixed`) with the
   Substrate specification: enumerators for block trees, change announcements and ALL event
   orders, and the observable comparison.  Definitions only. *)
From Coq Require Import NArith List Bool Arith.
From C23 Require Import Model Spec.
Import ListNotations.
Local Open Scope N_scope.

(* all block trees with exactly n non-genesis blocks (parent of block k is any earlier block) *)
Fixpoint trees (n : nat) : list tree :=
  match n with
  | O => [[]]
  | S m => flat_map (fun t => map (fun p => t ++ [p]) (seq 0 (S (length t)))) (trees m)
  end.

(* announcement options for one block: delays 0..dmax, best-finalized numbers 0..number *)
Definition block_options (t : tree) (dmax : nat) (b : nat) : list (bool * pchange) :=
  map (fun d => (false, mkpc b (N.of_nat d) (N.of_nat (10 + b)) 0)) (seq 0 (S dmax))
  ++ flat_map (fun d => map (fun bf => (true, mkpc b (N.of_nat d) (N.of_nat (20 + b)) (N.of_nat bf)))
                            (seq 0 (S (N.to_nat (number t b))))) (seq 0 (S dmax)).
(* all assignments with at most k announcing blocks among blocks from..nb (one announcement per block) *)
Fixpoint change_sets (fuel : nat) (t : tree) (dmax : nat) (k : nat) (from : nat)
  : list (changes * changes) :=
  match fuel with
  | O => [([], [])]
  | S f =>
    if (length t <? from)%nat then [([], [])] else
    let rest0 := change_sets f t dmax k (S from) in
    match k with
    | O => [([], [])]
    | S k' =>
      rest0 ++ flat_map (fun o : bool * pchange =>
                 map (fun sf : changes * changes =>
                        if fst o then (fst sf, (from, snd o) :: snd sf)
                        else ((from, snd o) :: fst sf, snd sf))
                     (change_sets f t dmax k' (S from)))
               (block_options t dmax from)
    end
  end.

(* events possible in a state *)
Definition next_events (t : tree) (imported : list nat) (fin : nat) : list event :=
  let blocks := seq 1 (length t) in
  let has b := existsb (Nat.eqb b) imported in
  map Import (filter (fun b => negb (has b) && has (parent t b) && is_anc t fin (parent t b)) blocks)
  ++ map Finalise (filter (fun b => has b && negb (Nat.eqb b fin) && is_anc t fin b) blocks).

Definition is_rok (r : result) : bool := match r with ROk => true | _ => false end.
Definition opt_n_eqb (a b : option N) : bool :=
  match a, b with Some x, Some y => x =? y | None, None => true | _, _ => false end.
Fixpoint nondecr (l : list (N * N)) : bool :=
  match l with
  | [] => true
  | (_, a) :: r => match r with [] => true | (_, b) :: _ => a <=? b end && nondecr r
  end.
Definition max_number (t : tree) : nat :=
  fold_left Nat.max (map (fun b => N.to_nat (number t b)) (seq 0 (S (length t)))) O.

(* the four observers agree *)
Definition obs_eq (t : tree) (imported : list nat) (g : gst) (q : sst) : bool :=
  (g_setid g =? s_setid q)
  && forallb (fun id => opt_n_eqb (aget (g_auths g) (N.of_nat id)) (aget (s_hist q) (N.of_nat id)))
             (seq 0 (S (S (N.to_nat (g_setid g)))))
  && (negb (nondecr (s_changes q))
      || forallb (fun n => opt_n_eqb (go_setid_by_number g (N.of_nat n)) (Some (spec_setid_by_number q (N.of_nat n))))
                 (seq 0 (max_number t + 3)))
  && forallb (fun b => match go_next_change fixed t g b with
                       | None => false
                       | Some x => opt_n_eqb x (spec_next_change t q b)
                       end)
             (filter (fun b => is_anc t (g_fin g) b) imported).

(* the known-finding guard: a pending forced change announced on the finalised chain *)
Definition guard_forced_on_finalised (t : tree) (q : sst) (e : event) : bool :=
  match e with
  | Finalise h => existsb (fun c => is_anc t (pc_blk c) h) (s_forced q)
  | Import _ => false
  end.

(* depth-first over every event order; false as soon as the implementation model and the
   specification disagree on a result or an observable outside the guard *)
Fixpoint explore (fuel : nat) (t : tree) (sched forced : changes)
  (imported : list nat) (fin : nat) (g : gst) (q : sst) : bool :=
  match fuel with
  | O => true
  | S f =>
    forallb (fun e =>
      if guard_forced_on_finalised t q e then true else
      let '(g', r) := go_step fixed t sched forced g e in
      match spec_step t sched forced q e with
      | None => negb (is_rok r)
      | Some q' =>
        let imported' := match e with Import b => b :: imported | Finalise _ => imported end in
        let fin' := match e with Import _ => fin | Finalise b => b end in
        is_rok r && obs_eq t imported' g' q' && explore f t sched forced imported' fin' g' q'
      end) (next_events t imported fin)
  end.

Definition explore_tree (t : tree) (dmax kmax : nat) : bool :=
  forallb (fun sf => explore (2 * length t + 1) t (fst sf) (snd sf) [O] O ginit sinit)
          (change_sets (S (length t)) t dmax kmax 1).
Definition explore_all (nb dmax kmax : nat) : bool :=
  forallb (fun t => explore_tree t dmax kmax) (trees nb).

(* number of histories' worth of configurations, for the evidence *)
Definition count_configs (nb dmax kmax : nat) : nat :=
  fold_left (fun acc t => (acc + length (change_sets (S (length t)) t dmax kmax 1))%nat) (trees nb) O.

(* running a fixed history on both sides (used by the refutation witnesses) *)
Fixpoint run_go (v : variant) (t : tree) (sched forced : changes) (g : gst) (evs : list event)
  : gst * list result :=
  match evs with
  | [] => (g, [])
  | e :: r => let '(g1, res) := go_step v t sched forced g e in
              let '(g2, rs) := run_go v t sched forced g1 r in (g2, res :: rs)
  end.
Fixpoint run_spec (t : tree) (sched forced : changes) (q : sst) (evs : list event) : option sst :=
  match evs with
  | [] => Some q
  | e :: r => match spec_step t sched forced q e with
              | None => None
              | Some q1 => run_spec t sched forced q1 r
              end
  end.
