(* C23/Proofs.v -- lemmas about the Go model and the Substrate specification. *)
From Coq Require Import NArith List Bool Arith Lia.
From C23 Require Import Model Spec.
Import ListNotations.
Local Open Scope N_scope.

(* ================= sort.Search ================= *)
Lemma div2_bounds : forall i j, (i < j)%nat -> (i <= Nat.div2 (i + j) < j)%nat.
Proof.
  intros i j H. pose proof (Nat.div2_odd (i + j)) as E.
  destruct (Nat.odd (i + j)); cbn [Nat.b2n] in E; lia.
Qed.

(* for a predicate that is monotone on [i, j) the Go loop returns the least index that
   satisfies it (j when none does) *)
Lemma go_search_spec : forall fuel f i j, (i <= j)%nat -> (j - i < fuel)%nat ->
  (forall k k', (i <= k <= k')%nat -> (k' < j)%nat -> f k = true -> f k' = true) ->
  let r := go_search fuel f i j in
  (i <= r <= j)%nat /\ (forall k, (i <= k < r)%nat -> f k = false) /\ (forall k, (r <= k < j)%nat -> f k = true).
Proof.
  induction fuel as [|fuel IH]; intros f i j Hij Hf Hm; [lia|].
  cbn [go_search]. destruct (i <? j)%nat eqn:E.
  - apply Nat.ltb_lt in E. pose proof (div2_bounds i j E) as Hh.
    set (h := Nat.div2 (i + j)) in *. destruct (f h) eqn:Fh.
    + destruct (IH f i h) as [R1 [R2 R3]]; [lia | lia | intros; apply (Hm k k'); auto; lia |].
      cbn zeta in *. split; [lia|]. split; [exact R2|].
      intros k Hk. destruct (Nat.lt_ge_cases k h) as [Hlt|Hge]; [apply R3; lia|].
      apply (Hm h k); auto; lia.
    + destruct (IH f (S h) j) as [R1 [R2 R3]]; [lia | lia | intros; apply (Hm k k'); auto; lia |].
      cbn zeta in *. split; [lia|]. split; [|exact R3].
      intros k Hk. destruct (Nat.lt_ge_cases k (S h)) as [Hlt|Hge]; [|apply R2; lia].
      destruct (f k) eqn:Fk; [|reflexivity].
      rewrite (Hm k h) in Fh; [discriminate | lia | lia | exact Fk].
  - apply Nat.ltb_ge in E. cbn zeta. assert (i = j) by lia. subst. split; [lia|]. split; intros; lia.
Qed.

(* index of the first element satisfying p *)
Fixpoint first_idx {A} (p : A -> bool) (l : list A) : nat :=
  match l with [] => O | x :: r => if p x then O else S (first_idx p r) end.

Lemma first_idx_le : forall {A} (p : A -> bool) l, (first_idx p l <= length l)%nat.
Proof. induction l as [|x l IH]; cbn; [lia|]. destruct (p x); lia. Qed.

Lemma first_idx_false : forall {A} (p : A -> bool) d l k, (k < first_idx p l)%nat -> p (nth k l d) = false.
Proof.
  induction l as [|x l IH]; cbn; intros k H; [lia|].
  destruct (p x) eqn:E; [lia|]. destruct k; [exact E | apply IH; lia].
Qed.

Lemma first_idx_true : forall {A} (p : A -> bool) d l, (first_idx p l < length l)%nat ->
  p (nth (first_idx p l) l d) = true.
Proof.
  induction l as [|x l IH]; cbn; intros H; [lia|].
  destruct (p x) eqn:E; [exact E | apply IH; lia].
Qed.

(* the least index characterisation determines the index *)
Lemma least_unique : forall (f : nat -> bool) n r1 r2,
  (r1 <= n)%nat -> (r2 <= n)%nat ->
  (forall k, (k < r1)%nat -> f k = false) -> (forall k, (r1 <= k < n)%nat -> f k = true) ->
  (forall k, (k < r2)%nat -> f k = false) -> (forall k, (r2 <= k < n)%nat -> f k = true) -> r1 = r2.
Proof.
  intros f n r1 r2 H1 H2 A1 B1 A2 B2.
  destruct (Nat.lt_trichotomy r1 r2) as [H|[H|H]]; [|exact H|].
  - assert (E : f r1 = true) by (apply B1; lia). rewrite (A2 r1 H) in E. discriminate.
  - assert (E : f r2 = true) by (apply B2; lia). rewrite (A1 r2 H) in E. discriminate.
Qed.

(* ---- the forced-change order ---- *)
Definition key_le (t : tree) (a b : pchange) : bool := negb (key_lt t b a).
Fixpoint sorted_by_key (t : tree) (l : list pchange) : bool :=
  match l with
  | [] => true
  | x :: r => match r with [] => true | y :: _ => key_le t x y end && sorted_by_key t r
  end.

Lemma fixed_pred_key : forall t l c i, fixed_pred t l c i = key_le t c (nth i l dummy_pc).
Proof.
  intros. unfold fixed_pred, key_le, key_lt.
  set (x := nth i l dummy_pc).
  destruct (eff t c <? eff t x) eqn:E1; destruct (eff t x <? eff t c) eqn:E2;
  destruct (eff t c =? eff t x) eqn:E3; destruct (eff t x =? eff t c) eqn:E4;
  destruct (number t (pc_blk c) <=? number t (pc_blk x)) eqn:E5;
  destruct (number t (pc_blk x) <? number t (pc_blk c)) eqn:E6; cbn; try reflexivity;
  try apply N.ltb_lt in E1; try apply N.ltb_ge in E1; try apply N.ltb_lt in E2; try apply N.ltb_ge in E2;
  try apply N.eqb_eq in E3; try apply N.eqb_neq in E3; try apply N.eqb_eq in E4; try apply N.eqb_neq in E4;
  try apply N.leb_le in E5; try apply N.leb_gt in E5; try apply N.ltb_lt in E6; try apply N.ltb_ge in E6; lia.
Qed.

Lemma key_le_trans : forall t a b c, key_le t a b = true -> key_le t b c = true -> key_le t a c = true.
Proof.
  intros t a b c. unfold key_le, key_lt. intros H1 H2.
  apply negb_true_iff in H1. apply negb_true_iff in H2. apply negb_true_iff.
  apply orb_false_iff in H1. apply orb_false_iff in H2. apply orb_false_iff.
  destruct H1 as [A1 B1]. destruct H2 as [A2 B2].
  apply N.ltb_ge in A1. apply N.ltb_ge in A2.
  split; [apply N.ltb_ge; lia|].
  apply andb_false_iff. apply andb_false_iff in B1. apply andb_false_iff in B2.
  destruct (eff t c =? eff t a) eqn:E; [right | left; reflexivity].
  apply N.eqb_eq in E. apply N.ltb_ge.
  destruct B1 as [B1|B1]; destruct B2 as [B2|B2];
    try apply N.eqb_neq in B1; try apply N.eqb_neq in B2;
    try apply N.ltb_ge in B1; try apply N.ltb_ge in B2; lia.
Qed.

Lemma sorted_nth : forall t l, sorted_by_key t l = true -> forall i j, (i <= j < length l)%nat ->
  key_le t (nth i l dummy_pc) (nth j l dummy_pc) = true.
Proof.
  intros t. induction l as [|x l IH]; intros S i j H; [cbn in H; lia|].
  cbn [sorted_by_key] in S. apply andb_true_iff in S. destruct S as [S1 S2].
  assert (Hx : forall j, (j < length l)%nat -> key_le t x (nth j l dummy_pc) = true).
  { clear i j H. destruct l as [|y l']; [cbn; intros; lia|].
    intros j Hj. apply (key_le_trans t x y); [exact S1|].
    apply (IH S2 O j). cbn in *. lia. }
  destruct i as [|i]; destruct j as [|j]; cbn [nth length] in *.
  - unfold key_le, key_lt. rewrite !N.ltb_irrefl, N.eqb_refl. reflexivity.
  - apply Hx. lia.
  - lia.
  - apply IH; [exact S2 | lia].
Qed.

(* the repaired predicate is monotone over a list ordered by key *)
Lemma fixed_pred_monotone : forall t l c, sorted_by_key t l = true ->
  forall k k', (0 <= k <= k')%nat -> (k' < length l)%nat ->
  fixed_pred t l c k = true -> fixed_pred t l c k' = true.
Proof.
  intros t l c S k k' H1 H2. rewrite !fixed_pred_key. intros H.
  apply (key_le_trans t c (nth k l dummy_pc)); [exact H|]. apply sorted_nth; [exact S | lia].
Qed.

Lemma s_forced_insert_idx : forall t l c,
  s_forced_insert t l c = insert_at l (first_idx (fun x => key_le t c x) l) c.
Proof.
  intros t l c. induction l as [|x l IH]; [reflexivity|].
  cbn [s_forced_insert first_idx]. unfold key_le at 1.
  destruct (key_lt t x c); cbn [negb].
  - rewrite IH. reflexivity.
  - reflexivity.
Qed.

(* sort.Search with the repaired predicate finds Substrate's insertion point *)
Lemma forced_insert_fixed : forall t l c, sorted_by_key t l = true ->
  forced_insert fixed_pred t l c = s_forced_insert t l c.
Proof.
  intros t l c Hs. unfold forced_insert. rewrite s_forced_insert_idx. f_equal.
  destruct (go_search_spec (S (length l)) (fixed_pred t l c) 0 (length l)) as [R1 [R2 R3]];
    [lia | lia | apply fixed_pred_monotone; exact Hs |]. cbn zeta in *.
  apply (least_unique (fixed_pred t l c) (length l)).
  - lia.
  - apply first_idx_le.
  - intros k Hk. apply R2. lia.
  - exact R3.
  - intros k Hk. rewrite fixed_pred_key. apply (first_idx_false (fun x => key_le t c x)). exact Hk.
  - intros k Hk. rewrite fixed_pred_key.
    pose proof (first_idx_true (fun x => key_le t c x) dummy_pc l) as T.
    apply (key_le_trans t c (nth (first_idx (fun x => key_le t c x) l) l dummy_pc)); [apply T; lia|].
    apply sorted_nth; [exact Hs | lia].
Qed.

Lemma s_forced_insert_sorted : forall t l c, sorted_by_key t l = true ->
  sorted_by_key t (s_forced_insert t l c) = true.
Proof.
  intros t l c. induction l as [|x l IH]; intros S; [reflexivity|].
  cbn [s_forced_insert]. destruct (key_lt t x c) eqn:E.
  - cbn [sorted_by_key] in S. apply andb_true_iff in S. destruct S as [S1 S2].
    specialize (IH S2). cbn [sorted_by_key]. rewrite IH, andb_true_r.
    destruct l as [|y l']; cbn [s_forced_insert] in *.
    + unfold key_le. unfold key_lt in *.
      apply orb_true_iff in E. apply negb_true_iff. apply orb_false_iff.
      destruct E as [E|E].
      * apply N.ltb_lt in E. split; [apply N.ltb_ge; lia|]. apply andb_false_iff. left. apply N.eqb_neq. lia.
      * apply andb_true_iff in E. destruct E as [E1 E2]. apply N.eqb_eq in E1. apply N.ltb_lt in E2.
        split; [apply N.ltb_ge; lia|]. apply andb_false_iff. right. apply N.ltb_ge. lia.
    + destruct (key_lt t y c); [exact S1|].
      unfold key_le. unfold key_lt in *.
      apply orb_true_iff in E. apply negb_true_iff. apply orb_false_iff.
      destruct E as [E|E].
      * apply N.ltb_lt in E. split; [apply N.ltb_ge; lia|]. apply andb_false_iff. left. apply N.eqb_neq. lia.
      * apply andb_true_iff in E. destruct E as [E1 E2]. apply N.eqb_eq in E1. apply N.ltb_lt in E2.
        split; [apply N.ltb_ge; lia|]. apply andb_false_iff. right. apply N.ltb_ge. lia.
  - cbn [sorted_by_key]. cbn [sorted_by_key] in S. rewrite S, andb_true_r.
    unfold key_le. rewrite E. reflexivity.
Qed.

(* ================= set id by block number ================= *)
(* ls = last block numbers of sets 0, 1, ..., k-1 (k = current set id).  Substrate stores
   [(0, L0); (1, L1); ...]; gossamer stores setIDChangeKey(0) -> 0, setIDChangeKey(i+1) -> Li. *)
Definition geq (n L : N) : bool := n <=? L.
Lemma geq_le : forall n L, geq n L = true -> n <= L.
Proof. intros. apply N.leb_le. assumption. Qed.
Lemma geq_gt : forall n L, geq n L = false -> L < n.
Proof. intros. apply N.leb_gt. assumption. Qed.
Fixpoint sorted_n (l : list N) : bool :=
  match l with
  | [] => true
  | x :: r => match r with [] => true | y :: _ => x <=? y end && sorted_n r
  end.
Definition spec_table_from (k : nat) (ls : list N) : list (N * N) :=
  combine (map N.of_nat (seq k (length ls))) ls.
Definition go_table_ok (chs : list (N * N)) (ls : list N) : Prop :=
  aget chs 0 = Some 0 /\
  (forall i, (i < length ls)%nat -> aget chs (N.of_nat (S i)) = Some (nth i ls 0)) /\
  aget chs (N.of_nat (S (length ls))) = None.

Lemma s_setid_in_first : forall ls k n,
  s_setid_in (spec_table_from k ls) n =
  if (first_idx (geq n) ls <? length ls)%nat
  then Some (N.of_nat (k + first_idx (geq n) ls)) else None.
Proof.
  induction ls as [|L ls IH]; intros k n; [reflexivity|].
  unfold spec_table_from. cbn [length seq map combine s_setid_in first_idx].
  change (geq n L) with (n <=? L). destruct (n <=? L) eqn:E.
  - cbn [Nat.ltb Nat.leb]. f_equal. f_equal. lia.
  - fold (spec_table_from (S k) ls). rewrite IH.
    change (S (first_idx (geq n) ls) <? S (length ls))%nat
      with (first_idx (geq n) ls <? length ls)%nat.
    destruct (first_idx (geq n) ls <? length ls)%nat; [|reflexivity].
    f_equal. f_equal. lia.
Qed.

Lemma sorted_n_nth : forall l, sorted_n l = true -> forall i j, (i <= j < length l)%nat -> nth i l 0 <= nth j l 0.
Proof.
  induction l as [|x l IH]; intros Hs i j H; [cbn in H; lia|].
  cbn [sorted_n] in Hs. apply andb_true_iff in Hs. destruct Hs as [S1 S2].
  assert (Hx : forall j, (j < length l)%nat -> x <= nth j l 0).
  { clear i j H. destruct l as [|y l']; [cbn; intros; lia|]. intros j Hj. apply N.leb_le in S1.
    pose proof (IH S2 O j). cbn [nth] in H. cbn in Hj. assert (y <= nth j (y :: l') 0) by (apply H; cbn; lia). lia. }
  destruct i as [|i]; destruct j as [|j]; cbn [nth length] in *; try lia.
  - apply Hx. lia.
  - apply IH; [exact S2 | lia].
Qed.

Lemma first_idx_char : forall (ls : list N) n c, sorted_n ls = true -> (c < length ls)%nat ->
  n <= nth c ls 0 -> (forall i, (i < c)%nat -> nth i ls 0 < n) -> first_idx (geq n) ls = c.
Proof.
  intros ls n c Hs Hc Hu Hl.
  pose proof (first_idx_le (geq n) ls) as B.
  destruct (Nat.lt_trichotomy (first_idx (geq n) ls) c) as [H|[H|H]]; [|exact H|].
  - pose proof (first_idx_true (geq n) 0 ls ltac:(lia)) as T. apply geq_le in T. specialize (Hl _ H). lia.
  - pose proof (first_idx_false (geq n) 0 ls c H) as F. apply geq_gt in F. lia.
Qed.

Lemma setid_loop_down : forall chs ls n, sorted_n ls = true -> go_table_ok chs ls ->
  forall c fuel, (c < length ls)%nat -> (c < fuel)%nat -> n <= nth c ls 0 ->
  setid_loop fuel chs n (N.of_nat c) = Some (N.of_nat (first_idx (geq n) ls)).
Proof.
  intros chs ls n Hs [T0 [Ti Tn]]. induction c as [|c IH]; intros fuel Hc Hf Hu.
  - destruct fuel as [|fuel]; [lia|]. cbn [setid_loop].
    change (N.of_nat 0 + 1) with (N.of_nat 1). rewrite (Ti O Hc). cbn [N.of_nat]. rewrite T0.
    destruct ((n <=? nth 0 ls 0) && (0 <? n)) eqn:E.
    + apply andb_true_iff in E. destruct E as [_ E]. apply N.ltb_lt in E.
      rewrite (first_idx_char ls n O); auto. intros i Hi. lia.
    + assert (Hn : (nth 0 ls 0 <? n) = false) by (apply N.ltb_ge; exact Hu). rewrite Hn.
      cbn [N.eqb]. rewrite (first_idx_char ls n O); auto. intros i Hi. lia.
  - destruct fuel as [|fuel]; [lia|]. cbn [setid_loop].
    replace (N.of_nat (S c) + 1) with (N.of_nat (S (S c))) by lia.
    rewrite (Ti (S c) Hc). rewrite (Ti c ltac:(lia)).
    destruct ((n <=? nth (S c) ls 0) && (nth c ls 0 <? n)) eqn:E.
    + apply andb_true_iff in E. destruct E as [_ E]. apply N.ltb_lt in E.
      rewrite (first_idx_char ls n (S c)); auto.
      intros i Hi. pose proof (sorted_n_nth ls Hs i c ltac:(lia)). lia.
    + assert (Hn : (nth (S c) ls 0 <? n) = false) by (apply N.ltb_ge; exact Hu). rewrite Hn.
      assert (Hz : (N.of_nat (S c) =? 0) = false) by (apply N.eqb_neq; lia). rewrite Hz.
      replace (N.of_nat (S c) - 1) with (N.of_nat c) by lia.
      apply IH; [lia | lia |].
      apply andb_false_iff in E. destruct E as [E|E]; [apply N.leb_gt in E; lia|]. apply N.ltb_ge in E. exact E.
Qed.

(* GetSetIDByBlockNumber agrees with AuthoritySetChanges::get_set_id (Latest = current set id)
   whenever the recorded last-block numbers are non-decreasing *)
Lemma setid_loop_S : forall f chs n curr,
  setid_loop (S f) chs n curr =
  match aget chs (curr + 1) with
  | None => if curr =? 0 then Some 0 else setid_loop f chs n (curr - 1)
  | Some upper =>
    match aget chs curr with
    | None => None
    | Some lower =>
      if (n <=? upper) && (lower <? n) then Some curr
      else if upper <? n then Some (curr + 1)
      else if curr =? 0 then Some 0 else setid_loop f chs n (curr - 1)
    end
  end.
Proof. reflexivity. Qed.

Lemma setid_lookup_agrees : forall chs ls n, sorted_n ls = true -> go_table_ok chs ls ->
  setid_loop (S (S (length ls))) chs n (N.of_nat (length ls)) =
  Some (match s_setid_in (spec_table_from 0 ls) n with Some id => id | None => N.of_nat (length ls) end).
Proof.
  intros chs ls n Hs T. pose proof T as [T0 [Ti Tn]].
  rewrite s_setid_in_first. cbn [Nat.add].
  rewrite setid_loop_S. replace (N.of_nat (length ls) + 1) with (N.of_nat (S (length ls))) by lia. rewrite Tn.
  destruct (length ls) as [|k] eqn:L.
  - cbn [N.of_nat N.eqb]. destruct ls; [reflexivity | discriminate].
  - assert (Hz : (N.of_nat (S k) =? 0) = false) by (apply N.eqb_neq; lia). rewrite Hz.
    replace (N.of_nat (S k) - 1) with (N.of_nat k) by lia.
    destruct (n <=? nth k ls 0) eqn:E.
    + apply N.leb_le in E. rewrite (setid_loop_down chs ls n Hs T k (S (S k))); [|lia|lia|exact E].
      assert (B : (first_idx (geq n) ls <? S k)%nat = true).
      { apply Nat.ltb_lt. destruct (Nat.lt_ge_cases (first_idx (geq n) ls) (S k)) as [H|H]; [exact H|].
        pose proof (first_idx_false (geq n) 0 ls k ltac:(lia)) as F. apply geq_gt in F. lia. }
      rewrite B. reflexivity.
    + apply N.leb_gt in E. rewrite setid_loop_S.
      replace (N.of_nat k + 1) with (N.of_nat (S k)) by lia. rewrite (Ti k ltac:(lia)).
      assert (A : aget chs (N.of_nat k) <> None).
      { destruct k; [cbn; rewrite T0; discriminate | rewrite (Ti k ltac:(lia)); discriminate]. }
      destruct (aget chs (N.of_nat k)) as [lower|]; [|congruence].
      assert (E1 : (n <=? nth k ls 0) = false) by (apply N.leb_gt; exact E). rewrite E1. cbn [andb].
      assert (E2 : (nth k ls 0 <? n) = true) by (apply N.ltb_lt; exact E). rewrite E2.
      assert (B : (first_idx (geq n) ls <? S k)%nat = false).
      { apply Nat.ltb_ge. destruct (Nat.lt_ge_cases (first_idx (geq n) ls) (S k)) as [H|H]; [|exact H].
        pose proof (first_idx_true (geq n) 0 ls ltac:(lia)) as T1. apply geq_le in T1.
        pose proof (sorted_n_nth ls Hs (first_idx (geq n) ls) k ltac:(lia)). lia. }
      rewrite B. f_equal.
Qed.

(* ================= set ids grow by one per change ================= *)
Lemma apply_forced_setid : forall v t s b s', apply_forced v t s b = Some s' ->
  g_setid s' = g_setid s \/ g_setid s' = g_setid s + 1.
Proof.
  intros v t s b s'. unfold apply_forced.
  destruct (lookup_where (forced_applicable_cond v t (g_fin s) b) (g_forced s)) as [[fc|]|]; [| |discriminate].
  - destruct (lookup_where _ (g_roots s)) as [[n|]|]; try discriminate.
    intros H. injection H as <-. right. reflexivity.
  - intros H. injection H as <-. left. reflexivity.
Qed.

Lemma apply_scheduled_setid : forall v t s h,
  g_setid (fst (apply_scheduled v t s h)) = g_setid s \/
  g_setid (fst (apply_scheduled v t s h)) = g_setid s + 1.
Proof.
  intros v t s h. unfold apply_scheduled.
  destruct (prune_keep v pc_blk t (g_fin s) h (g_forced s)) as [fo|]; [|left; reflexivity].
  destruct (g_roots s) as [|r0 rs]; [left; reflexivity|].
  destruct (lookup_where (sched_applicable_cond v t (g_fin s) h) (r0 :: rs)) as [[n|]|].
  - right. reflexivity.
  - destruct (if v_keep_ancestors v then _ else _); left; reflexivity.
  - left. reflexivity.
Qed.

Lemma go_step_setid : forall v t sched forced s e,
  g_setid (fst (go_step v t sched forced s e)) = g_setid s \/
  g_setid (fst (go_step v t sched forced s e)) = g_setid s + 1.
Proof.
  intros v t sched forced s e. destruct e as [b|b]; cbn [go_step].
  - assert (P : forall s1, (match cfind forced b with
                            | Some c => add_forced v t s c
                            | None => match cfind sched b with Some c => add_scheduled v t s c | None => Some s end
                            end) = Some s1 -> g_setid s1 = g_setid s).
    { intros s1. destruct (cfind forced b) as [c|].
      - unfold add_forced. destruct (forced_check v t (g_fin s) (g_forced s) c) as [[|]|]; try discriminate.
        intros H. injection H as <-. reflexivity.
      - destruct (cfind sched b) as [c|].
        + unfold add_scheduled. destruct (import_roots v t (g_fin s) c (g_roots s)); try discriminate.
          intros H. injection H as <-. reflexivity.
        + intros H. injection H as <-. reflexivity. }
    destruct (match cfind forced b with Some c => _ | None => _ end) as [s1|] eqn:E; [|left; reflexivity].
    specialize (P s1 eq_refl).
    destruct (apply_forced v t s1 b) as [s2|] eqn:F; cbn [fst].
    + destruct (apply_forced_setid v t s1 b s2 F) as [H|H]; rewrite H, P; auto.
    + left. exact P.
  - pose proof (apply_scheduled_setid v t
      (mkgst (g_forced s) (g_roots s) (g_setid s) (g_auths s) (g_changes s) b) b) as H.
    destruct (apply_scheduled v t _ b) as [s1 ok]. cbn [fst g_setid] in *. exact H.
Qed.

Lemma spec_step_setid : forall t sched forced q e q', spec_step t sched forced q e = Some q' ->
  s_setid q' = s_setid q \/ s_setid q' = s_setid q + 1.
Proof.
  intros t sched forced q e q'. destruct e as [b|b]; cbn [spec_step].
  - assert (P : forall q1, (match cfind forced b with
                            | Some c => s_add_forced t q c
                            | None => match cfind sched b with Some c => s_add_standard t q c | None => Some q end
                            end) = Some q1 -> s_setid q1 = s_setid q).
    { intros q1. destruct (cfind forced b) as [c|].
      - unfold s_add_forced. destruct (s_forced_check t (s_forced q) c); try discriminate.
        intros H. injection H as <-. reflexivity.
      - destruct (cfind sched b) as [c|].
        + unfold s_add_standard.
          destruct (match s_bestfin q with Some bf => _ | None => false end); try discriminate.
          destruct (s_import_roots_aux t c (s_roots q)) as [[r|]|]; try discriminate.
          * intros H. injection H as <-. reflexivity.
          * destruct (existsb _ (s_roots q)); try discriminate. intros H. injection H as <-. reflexivity.
        + intros H. injection H as <-. reflexivity. }
    destruct (match cfind forced b with Some c => _ | None => _ end) as [q1|] eqn:E; [|discriminate].
    specialize (P q1 eq_refl). unfold s_apply_forced.
    destruct (s_find_forced t b (s_forced q1)) as [fc|].
    + destruct (existsb _ (s_roots q1)); [discriminate|]. intros H. injection H as <-.
      right. cbn. rewrite P. reflexivity.
    + intros H. injection H as <-. left. exact P.
  - unfold s_finalise.
    destruct (match s_bestfin q with Some bf => _ | None => false end); [discriminate|].
    destruct (s_find_root t b (s_roots q)) as [[n|]|]; [| |discriminate].
    + intros H. injection H as <-. right. reflexivity.
    + destruct (negb _); intros H; injection H as <-; left; reflexivity.
Qed.

(* ================= the tree enumerator is complete ================= *)
From C23 Require Import Enum.

Lemma wf_from_snoc : forall t k p, wf_from k (t ++ [p]) = wf_from k t && (p <=? k + length t)%nat.
Proof.
  induction t as [|x t IH]; intros k p; cbn [app wf_from length].
  - rewrite Nat.add_0_r, andb_true_r. reflexivity.
  - rewrite IH. rewrite <- andb_assoc. f_equal. f_equal. f_equal. lia.
Qed.

Lemma trees_complete : forall t, wf t = true -> In t (trees (length t)).
Proof.
  induction t as [|p t IH] using rev_ind; intros W.
  - left. reflexivity.
  - unfold wf in W. rewrite wf_from_snoc in W. apply andb_true_iff in W. destruct W as [W1 W2].
    rewrite app_length. cbn [length]. rewrite Nat.add_1_r. cbn [trees].
    apply in_flat_map. exists t. split; [apply IH; exact W1|].
    apply in_map_iff. exists p. split; [reflexivity|].
    apply in_seq. apply Nat.leb_le in W2. lia.
Qed.

(* what `explore = true` says about one more event *)
Lemma explore_step : forall f t sched forced imported fin g q e,
  explore (S f) t sched forced imported fin g q = true ->
  In e (next_events t imported fin) -> guard_forced_on_finalised t q e = false ->
  match spec_step t sched forced q e with
  | None => is_rok (snd (go_step fixed t sched forced g e)) = false
  | Some q' =>
    let g' := fst (go_step fixed t sched forced g e) in
    let imported' := match e with Import b => b :: imported | Finalise _ => imported end in
    let fin' := match e with Import _ => fin | Finalise b => b end in
    is_rok (snd (go_step fixed t sched forced g e)) = true /\ obs_eq t imported' g' q' = true /\
    explore f t sched forced imported' fin' g' q' = true
  end.
Proof.
  intros f t sched forced imported fin g q e H Hin Hg. cbn [explore] in H.
  rewrite forallb_forall in H. specialize (H e Hin). rewrite Hg in H.
  destruct (go_step fixed t sched forced g e) as [g' r]. cbn [fst snd].
  destruct (spec_step t sched forced q e) as [q'|].
  - cbn zeta. apply andb_true_iff in H. destruct H as [H H3]. apply andb_true_iff in H. destruct H as [H1 H2]. auto.
  - apply negb_true_iff in H. exact H.
Qed.
