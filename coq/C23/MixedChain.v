(* C23/MixedChain.v -- fourth round: INDUCTIVE refinement for histories that MIX scheduled and forced
   changes, on the single chain of any length: any scheduled and forced announcements, every history
   of imports and finalisations of any length, outside the guard of the known finding.  Covers what
   the other inductive theorems leave out: a forced change enacted at import cancels the pending
   scheduled changes (both containers reset) unless one it depends on is still pending (error on
   both sides), a block that announces both kinds keeps only the forced one, a second forced change
   on the chain is refused, and finalisation keeps the pending forced change above the finalised
   block while enacting scheduled ones. *)
From Coq Require Import NArith List Bool Arith Lia.
From C23 Require Import Model Spec Enum Proofs Local Reach Bounded Chain Forced.
Import ListNotations.
Local Open Scope N_scope.

Definition gset_forced (g : gst) (F : list pchange) : gst :=
  mkgst F (g_roots g) (g_setid g) (g_auths g) (g_changes g) (g_fin g).
Definition sset_forced (q : sst) (F : list pchange) : sst :=
  mksst (s_auth q) (s_setid q) (s_roots q) (s_bestfin q) F (s_changes q) (s_hist q).

Lemma filter_all_true : forall {A} (p : A -> bool) l, (forall x, In x l -> p x = true) -> filter p l = l.
Proof.
  intros A p. induction l as [|x r IH]; intros H; [reflexivity|]. cbn [filter].
  rewrite (H x (or_introl eq_refl)). rewrite IH; [reflexivity|]. intros y Hy. apply H. right. exact Hy.
Qed.

(* ApplyScheduledChanges only filters the pending forced changes; when all of them descend from
   the finalised block it leaves them alone *)
Lemma apply_scheduled_forced : forall t g h,
  (forall x, In x (g_forced g) -> rel t (g_fin g) h (pc_blk x) = true) ->
  apply_scheduled fixed t g h =
  (gset_forced (fst (apply_scheduled fixed t (gset_forced g []) h)) (g_forced g),
   snd (apply_scheduled fixed t (gset_forced g []) h)).
Proof.
  intros t g h H. unfold apply_scheduled. rewrite !prune_keep_fixed.
  cbn [gset_forced g_forced g_roots g_setid g_auths g_changes g_fin filter].
  rewrite (filter_all_true _ (g_forced g) H).
  destruct (g_roots g) as [|r0 rs]; [destruct g; reflexivity|].
  destruct (lookup_where (sched_applicable_cond fixed t (g_fin g) h) (r0 :: rs)) as [[n|]|].
  - reflexivity.
  - cbn [fixed v_keep_ancestors]. rewrite prune_keep_anc_fixed. reflexivity.
  - reflexivity.
Qed.

Lemma s_finalise_forced : forall t q h,
  (forall x, In x (s_forced q) -> (number t h <? eff t x) && sdesc t h (pc_blk x) = true) ->
  s_finalise t q h = option_map (fun q' => sset_forced q' (s_forced q)) (s_finalise t (sset_forced q []) h).
Proof.
  intros t q h H. unfold s_finalise. cbn [sset_forced s_bestfin s_roots s_forced s_auth s_setid s_changes s_hist filter].
  destruct (match s_bestfin q with Some bf => number t h <=? bf | None => false end); [reflexivity|].
  destruct (s_find_root t h (s_roots q)) as [[n|]|]; [| |reflexivity].
  - cbn [option_map sset_forced s_auth s_setid s_roots s_bestfin s_changes s_hist].
    rewrite (filter_all_true _ (s_forced q) H). reflexivity.
  - destruct (negb (Nat.eqb (length (filter (s_retain t h) (s_roots q))) (length (s_roots q))));
      cbn [option_map sset_forced s_auth s_setid s_roots s_bestfin s_changes s_hist];
      [rewrite (filter_all_true _ (s_forced q) H)|]; reflexivity.
Qed.

(* ---- the simulation invariant: F = the (at most one) pending forced change, L = the path of
   pending scheduled changes; both sides hold exactly the same ---- *)
Record minv (n imp fin : nat) (imported : list nat) (F L : list pchange) (g : gst) (q : sst) : Prop := {
  m_b1 : (fin <= imp)%nat;
  m_b2 : (imp <= n)%nat;
  m_imported : forall x, existsb (Nat.eqb x) imported = (x <=? imp)%nat;
  m_gf : g_forced g = F;
  m_sf : s_forced q = F;
  m_len : (length F <= 1)%nat;
  m_fr : forall x, In x F -> (fin < pc_blk x <= imp)%nat;
  m_gr : g_roots g = of_list L;
  m_sr : s_roots q = of_list L;
  m_lr : forall c, In c L -> (1 <= pc_blk c <= imp)%nat;
  m_dis : forall x c, In x F -> In c L -> pc_blk x <> pc_blk c;
  m_setid : g_setid g = s_setid q;
  m_auths : forall id, aget (g_auths g) id = aget (s_hist q) id;
  m_tables : exists ls, tables_inv g ls /\ s_changes q = spec_table_from 0 ls;
  m_gfin : g_fin g = fin;
  m_bestfin : match s_bestfin q with Some bf => bf <= N.of_nat fin | None => True end
}.

Lemma minv_init : forall n, minv n 0 0 [O] [] [] ginit sinit.
Proof.
  intros n. constructor.
  - lia.
  - lia.
  - intros x. cbn [existsb]. rewrite orb_false_r. destruct x; reflexivity.
  - reflexivity.
  - reflexivity.
  - cbn. lia.
  - intros x [].
  - reflexivity.
  - reflexivity.
  - intros c [].
  - intros x c [].
  - reflexivity.
  - intros id. reflexivity.
  - exists []. split; [apply tables_inv_init | reflexivity].
  - reflexivity.
  - exact I.
Qed.

Lemma eff_pos_chain : forall n c, (1 <= pc_blk c <= n)%nat -> (eff (chain n) c =? 0) = false.
Proof. intros n c H. apply N.eqb_neq. rewrite chain_eff by lia. lia. Qed.

(* NextGrandpaAuthorityChange with one pending root and at most one pending forced change *)
Lemma next_change_mixed : forall n imp fin imported F L g q best, minv n imp fin imported F L g q ->
  (best <= imp)%nat -> go_next_change fixed (chain n) g best = Some (spec_next_change (chain n) q best).
Proof.
  intros n imp fin imported F L g q best M Hb. destruct M.
  unfold go_next_change, spec_next_change. rewrite m_gf0, m_sf0, m_gr0, m_sr0, m_gfin0.
  assert (HF : forall x, In x F -> (eff (chain n) x =? 0) = false)
    by (intros x Hx; apply eff_pos_chain; specialize (m_fr0 x Hx); lia).
  assert (HL : forall c, In c L -> (eff (chain n) c =? 0) = false)
    by (intros c Hc; apply eff_pos_chain; specialize (m_lr0 c Hc); lia).
  destruct F as [|x [|y F']]; [| |cbn in m_len0; lia]; destruct L as [|c1 r];
    cbn [lookup_where fold_left of_list n_change].
  - reflexivity.
  - specialize (m_lr0 c1 (or_introl eq_refl)).
    rewrite chain_desc, chain_is_anc, chain_number by lia.
    destruct ((pc_blk c1 <=? best)%nat && (eff (chain n) c1 <=? N.of_nat best)); [|reflexivity].
    cbn [nmin n_change]. rewrite (HL c1 (or_introl eq_refl)). reflexivity.
  - specialize (m_fr0 x (or_introl eq_refl)).
    rewrite chain_desc, chain_is_anc, chain_number by lia.
    destruct ((pc_blk x <=? best)%nat && (eff (chain n) x <=? N.of_nat best)); [|reflexivity].
    cbn [nmin n_change]. rewrite N.eqb_refl, orb_true_r. rewrite (HF x (or_introl eq_refl)). reflexivity.
  - specialize (m_fr0 x (or_introl eq_refl)). specialize (m_lr0 c1 (or_introl eq_refl)).
    rewrite !chain_desc, !chain_is_anc, !chain_number by lia.
    pose proof (HF x (or_introl eq_refl)) as Zx. pose proof (HL c1 (or_introl eq_refl)) as Zc.
    destruct ((pc_blk c1 <=? best)%nat && (eff (chain n) c1 <=? N.of_nat best));
      destruct ((pc_blk x <=? best)%nat && (eff (chain n) x <=? N.of_nat best)); cbn [nmin n_change].
    + rewrite Zc, orb_false_r. destruct (eff (chain n) x <? eff (chain n) c1); [rewrite Zx | rewrite Zc]; reflexivity.
    + rewrite Zc. reflexivity.
    + rewrite N.eqb_refl, orb_true_r, Zx. reflexivity.
    + reflexivity.
Qed.

Lemma minv_obs : forall n imp fin imported F L g q, minv n imp fin imported F L g q ->
  obs_eq (chain n) imported g q = true.
Proof.
  intros n imp fin imported F L g q M. pose proof M as M0. destruct M. destruct m_tables0 as [ls [T C]].
  unfold obs_eq. apply andb_true_iff; split; [apply andb_true_iff; split; [apply andb_true_iff; split|]|].
  - apply N.eqb_eq. exact m_setid0.
  - apply forallb_forall. intros id _. rewrite m_auths0. apply opt_n_eqb_refl.
  - destruct (nondecr (s_changes q)) eqn:ND; [|reflexivity]. cbn [negb orb].
    rewrite C, nondecr_table in ND. apply forallb_forall. intros k _.
    rewrite (setid_obs g q ls _ T ND C m_setid0). apply opt_n_eqb_refl.
  - apply forallb_forall. intros b Hb. apply filter_In in Hb. destruct Hb as [Hb _].
    assert (Hb' : (b <= imp)%nat).
    { apply Nat.leb_le. rewrite <- m_imported0. apply existsb_exists. exists b. split; [exact Hb | apply Nat.eqb_refl]. }
    rewrite (next_change_mixed n imp fin imported F L g q b M0 Hb'). apply opt_n_eqb_refl.
Qed.

(* ---- ApplyForcedChanges / apply_forced_changes after the import of block b = imp ---- *)
Lemma mixed_apply : forall n imp fin imported F L g q, minv n imp fin imported F L g q -> (1 <= imp)%nat ->
  match s_apply_forced (chain n) q imp with
  | None => apply_forced fixed (chain n) g imp = None
  | Some q' => exists g' F' L', apply_forced fixed (chain n) g imp = Some g' /\
                               minv n imp fin imported F' L' g' q'
  end.
Proof.
  intros n imp fin imported F L g q M Hi. pose proof M as M0. destruct M. destruct m_tables0 as [ls [T C]].
  rewrite apply_forced_fixed. unfold s_apply_forced. rewrite m_gf0, m_sf0, m_gr0, m_sr0, m_gfin0.
  destruct F as [|x [|y F']]; [| |cbn in m_len0; lia].
  - cbn [find s_find_forced]. exists g, [], L. split; [reflexivity | exact M0].
  - pose proof (m_fr0 x (or_introl eq_refl)) as Hx.
    cbn [find s_find_forced]. unfold forced_applicable.
    rewrite chain_eff, chain_number, chain_rel, chain_sdesc by lia.
    assert (Le : (pc_blk x <=? imp)%nat = true) by (apply Nat.leb_le; lia). rewrite Le, andb_true_r.
    assert (Or : (Nat.eqb (pc_blk x) imp || (pc_blk x <? imp)%nat) = true).
    { destruct (Nat.eqb (pc_blk x) imp) eqn:E; [reflexivity|]. apply Nat.eqb_neq in E. apply Nat.ltb_lt. lia. }
    rewrite Or, andb_true_r.
    destruct (N.of_nat (pc_blk x) + pc_delay x =? N.of_nat imp) eqn:A.
    + apply N.eqb_eq in A.
      assert (Lt : (N.of_nat imp <? N.of_nat (pc_blk x) + pc_delay x) = false) by (apply N.ltb_ge; lia). rewrite Lt.
      (* dependency on a pending scheduled change *)
      assert (Dep : find (depends_on (chain n) fin x) (of_list L) =
                    if existsb (fun nd => (eff (chain n) (n_change nd) <=? pc_bestfin x)
                                          && sdesc (chain n) (pc_blk (n_change nd)) (pc_blk x)) (of_list L)
                    then match L with c1 :: r => Some (Node c1 (of_list r)) | [] => None end else None).
      { destruct L as [|c1 r]; [reflexivity|]. cbn [of_list find existsb n_change]. unfold depends_on. cbn [n_change].
        pose proof (m_lr0 c1 (or_introl eq_refl)) as Hc1.
        pose proof (m_dis0 x c1 (or_introl eq_refl) (or_introl eq_refl)) as Hd.
        rewrite chain_rel, chain_sdesc by lia. rewrite orb_false_r.
        assert (E : (pc_blk c1 <=? pc_blk x)%nat = (pc_blk c1 <? pc_blk x)%nat).
        { destruct (pc_blk c1 <=? pc_blk x)%nat eqn:X.
          - apply Nat.leb_le in X. symmetry. apply Nat.ltb_lt. lia.
          - apply Nat.leb_gt in X. symmetry. apply Nat.ltb_ge. lia. }
        rewrite E. destruct ((eff (chain n) c1 <=? pc_bestfin x) && (pc_blk c1 <? pc_blk x)%nat); reflexivity. }
      assert (Apply : minv n imp fin imported [] []
                (mkgst [] [] (g_setid g + 1) (aput (g_auths g) (g_setid g + 1) (pc_auth x))
                       (aput (g_changes g) (g_setid g + 1) (pc_bestfin x)) fin)
                (mksst (pc_auth x) (s_setid q + 1) [] None [] (s_changes q ++ [(s_setid q, pc_bestfin x)])
                       (s_hist q ++ [(s_setid q + 1, pc_auth x)]))).
      { destruct T as [J1 R1]. pose proof (conj J1 R1) as T.
        constructor; cbn [g_forced g_roots g_setid g_auths g_changes g_fin s_forced s_roots s_setid s_hist s_changes s_bestfin of_list length];
          try assumption; try reflexivity; try lia; try (intros ? ? []); try (intros ? []).
        - intros id. rewrite aget_aput, aget_snoc. rewrite <- m_auths0. rewrite <- m_setid0.
          destruct (g_setid g + 1 =? id) eqn:E; [|destruct (aget (g_auths g) id); reflexivity].
          apply N.eqb_eq in E. subst id.
          destruct T as [_ [_ [_ [_ [_ I6]]]]]. rewrite I6 by lia. reflexivity.
        - exists (ls ++ [pc_bestfin x]). split.
          + apply (tables_inv_push g _ ls (pc_bestfin x) (pc_auth x) T); reflexivity.
          + rewrite C, spec_table_snoc. cbn [Nat.add]. rewrite <- m_setid0, J1. reflexivity. }
      rewrite Dep. destruct L as [|c1 r].
      * cbn [of_list existsb]. eexists _, [], []. split; [reflexivity | exact Apply].
      * destruct (existsb _ (of_list (c1 :: r))); [reflexivity|].
        eexists _, [], []. split; [reflexivity | exact Apply].
    + assert (X : (if N.of_nat imp <? N.of_nat (pc_blk x) + pc_delay x then @None pchange else None) = None)
        by (destruct (N.of_nat imp <? N.of_nat (pc_blk x) + pc_delay x); reflexivity).
      rewrite X. exists g, [x], L. split; [reflexivity | exact M0].
Qed.

(* one event (a finalisation only outside the guard of the known finding) *)
Lemma mixed_step : forall n sched forced, sched_ok sched -> forced_ok forced ->
  forall imp fin imported F L g q e, minv n imp fin imported F L g q ->
  In e (next_events (chain n) imported fin) -> guard_forced_on_finalised (chain n) q e = false ->
  match spec_step (chain n) sched forced q e with
  | None => is_rok (snd (go_step fixed (chain n) sched forced g e)) = false
  | Some q' =>
    is_rok (snd (go_step fixed (chain n) sched forced g e)) = true /\
    exists imp' F' L', minv n imp' (match e with Import _ => fin | Finalise b => b end)
                            (match e with Import b => b :: imported | Finalise _ => imported end)
                            F' L' (fst (go_step fixed (chain n) sched forced g e)) q'
  end.
Proof.
  intros n sched forced Hok Hfok imp fin imported F L g q e M Hin Hguard.
  pose proof M as M0. destruct M. destruct m_tables0 as [ls [T C]].
  destruct e as [b|h].
  - (* Import *)
    destruct (in_next_import n imp fin imported b m_imported0 m_b4 Hin) as [-> Hn].
    (* after the digests, ApplyForcedChanges *)
    assert (Fin : forall g1 q1 F1 L1, minv n (S imp) fin (S imp :: imported) F1 L1 g1 q1 ->
      match s_apply_forced (chain n) q1 (S imp) with
      | None => is_rok (snd (match apply_forced fixed (chain n) g1 (S imp) with
                             | None => (g1, RErrForced) | Some s2 => (s2, ROk) end)) = false
      | Some q' => is_rok (snd (match apply_forced fixed (chain n) g1 (S imp) with
                                | None => (g1, RErrForced) | Some s2 => (s2, ROk) end)) = true /\
                   exists imp' F' L', minv n imp' fin (S imp :: imported) F' L'
                     (fst (match apply_forced fixed (chain n) g1 (S imp) with
                           | None => (g1, RErrForced) | Some s2 => (s2, ROk) end)) q'
      end).
    { intros g1 q1 F1 L1 M1. pose proof (mixed_apply n (S imp) fin _ F1 L1 g1 q1 M1 ltac:(lia)) as A.
      destruct (s_apply_forced (chain n) q1 (S imp)) as [q'|].
      - destruct A as [g' [F' [L' [A1 A2]]]]. rewrite A1. cbn [fst snd is_rok]. split; [reflexivity|].
        exists (S imp), F', L'. exact A2.
      - rewrite A. reflexivity. }
    assert (Imp' : forall x, existsb (Nat.eqb x) (S imp :: imported) = (x <=? S imp)%nat)
      by (apply imported_cons; exact m_imported0).
    cbn [go_step spec_step].
    destruct (cfind forced (S imp)) as [c|] eqn:Ef.
    + (* a forced change is announced (a scheduled one in the same block is ignored) *)
      pose proof (Hfok _ _ Ef) as Hc.
      unfold add_forced, s_add_forced. rewrite m_gf0, m_sf0, m_gfin0.
      destruct F as [|x [|y F']]; [| |cbn in m_len0; lia].
      * cbn [forced_check s_forced_check v_pred_lex fixed].
        apply (Fin _ _ [c] L). constructor;
          cbn [g_forced g_roots g_setid g_auths g_changes g_fin s_forced s_roots s_setid s_hist s_changes s_bestfin length];
          try assumption; try reflexivity; try lia.
        -- intros x [<-|[]]. lia.
        -- intros c0 Hc0. specialize (m_lr0 c0 Hc0). lia.
        -- intros x c0 [<-|[]] Hc0. specialize (m_lr0 c0 Hc0). lia.
        -- exists ls. split; [|exact C]. apply (tables_inv_same g); [exact T | reflexivity | reflexivity | reflexivity].
      * pose proof (m_fr0 x (or_introl eq_refl)) as Hx.
        cbn [forced_check s_forced_check].
        assert (E : Nat.eqb (pc_blk x) (pc_blk c) = false) by (apply Nat.eqb_neq; lia). rewrite E.
        rewrite chain_desc, chain_sdesc by lia.
        assert (L1 : (pc_blk x <=? pc_blk c)%nat = true) by (apply Nat.leb_le; lia).
        assert (L2 : (pc_blk x <? pc_blk c)%nat = true) by (apply Nat.ltb_lt; lia).
        rewrite L1, L2. reflexivity.
    + destruct (cfind sched (S imp)) as [c|] eqn:Es.
      * pose proof (Hok _ _ Es) as Hc.
        assert (HLc : forall x, In x L -> (pc_blk x < pc_blk c)%nat) by (intros x Hx; specialize (m_lr0 x Hx); lia).
        unfold add_scheduled. rewrite m_gr0, m_gfin0.
        rewrite go_import_roots_chain by (try lia; exact HLc).
        rewrite (spec_add_standard_chain n q c L); try assumption; try lia.
        2:{ destruct (s_bestfin q) as [bf|]; [lia | exact I]. }
        apply (Fin _ _ F (L ++ [c])). constructor;
          cbn [g_forced g_roots g_setid g_auths g_changes g_fin s_with_roots s_forced s_roots s_setid s_hist s_changes s_bestfin];
          try assumption; try reflexivity; try lia.
        -- intros x Hx. specialize (m_fr0 x Hx). lia.
        -- intros c0 Hc0. apply in_app_or in Hc0. destruct Hc0 as [Hc0|[<-|[]]]; [specialize (m_lr0 c0 Hc0); lia | lia].
        -- intros x c0 Hx Hc0. apply in_app_or in Hc0. destruct Hc0 as [Hc0|[<-|[]]]; [apply m_dis0; assumption|].
           specialize (m_fr0 x Hx). lia.
        -- exists ls. split; [|exact C]. apply (tables_inv_same g); [exact T | reflexivity | reflexivity | reflexivity].
      * apply (Fin _ _ F L). constructor; try assumption; try lia.
        -- intros x Hx. specialize (m_fr0 x Hx). lia.
        -- intros c0 Hc0. specialize (m_lr0 c0 Hc0). lia.
        -- exists ls. auto.
  - (* Finalise, outside the guard *)
    pose proof (in_next_finalise n imp fin imported h m_imported0 m_b4 m_b3 Hin) as Hh.
    cbn [guard_forced_on_finalised] in Hguard. rewrite m_sf0 in Hguard.
    assert (HF : forall x, In x F -> (h < pc_blk x <= imp)%nat).
    { intros x Hx. pose proof (m_fr0 x Hx).
      assert (A : is_anc (chain n) (pc_blk x) h = false).
      { destruct (is_anc (chain n) (pc_blk x) h) eqn:A; [|reflexivity].
        assert (existsb (fun c => is_anc (chain n) (pc_blk c) h) F = true) by (apply existsb_exists; exists x; auto).
        congruence. }
      rewrite chain_is_anc in A by lia. apply Nat.leb_gt in A. lia. }
    cbn [go_step spec_step].
    set (s0 := mkgst (g_forced g) (g_roots g) (g_setid g) (g_auths g) (g_changes g) h).
    assert (HLn : forall x, In x L -> (pc_blk x <= n)%nat) by (intros x Hx; specialize (m_lr0 x Hx); lia).
    rewrite (apply_scheduled_forced (chain n) s0 h).
    2:{ cbn [s0 g_forced g_fin]. rewrite m_gf0. intros x Hx. specialize (HF x Hx).
        rewrite chain_rel by lia. apply Nat.leb_le. lia. }
    rewrite (go_finalise_chain n (gset_forced s0 []) h L); try assumption; try reflexivity; try lia; try (exact HF).
    rewrite (s_finalise_forced (chain n) q h).
    2:{ rewrite m_sf0. intros x Hx. specialize (HF x Hx).
        rewrite chain_number, chain_eff, chain_sdesc by lia.
        apply andb_true_iff. split; [apply N.ltb_lt; lia | apply Nat.ltb_lt; lia]. }
    rewrite (spec_finalise_chain n (sset_forced q []) h L); try assumption; try reflexivity; try lia; try (exact HF).
    2:{ cbn [sset_forced s_bestfin]. destruct (s_bestfin q) as [bf|]; [lia | exact I]. }
    cbn [s0 gset_forced sset_forced g_forced g_roots g_setid g_auths g_changes g_fin
         s_forced s_roots s_setid s_hist s_changes s_bestfin s_auth]. rewrite m_gf0, m_sf0.
    destruct L as [|c1 r].
    + cbn [option_map fst snd is_rok]. split; [reflexivity|]. exists imp, F, []. unfold gset_forced, sset_forced, s0.
      constructor; cbn [g_forced g_roots g_setid g_auths g_changes g_fin s_forced s_roots s_setid s_hist s_changes s_bestfin s_auth of_list fst snd];
        try assumption; try reflexivity; try lia; try (exact HF).
      * exists ls. split; [|exact C]. apply (tables_inv_same g); [exact T | reflexivity | reflexivity | reflexivity].
    + destruct (N.of_nat (pc_blk c1) + pc_delay c1 <=? N.of_nat h) eqn:D.
      * destruct (overtaking h r) eqn:O.
        -- reflexivity.
        -- cbn [option_map fst snd is_rok]. split; [reflexivity|]. exists imp, F, r. unfold gset_forced, sset_forced, s0.
           destruct T as [J1 R1]. pose proof (conj J1 R1) as T.
           constructor; cbn [g_forced g_roots g_setid g_auths g_changes g_fin s_forced s_roots s_setid s_hist s_changes s_bestfin s_auth fst snd];
             try assumption; try reflexivity; try lia; try (exact HF).
           ++ intros c Hc. apply m_lr0. right. exact Hc.
           ++ intros x c Hx Hc. apply m_dis0; [exact Hx | right; exact Hc].
           ++ intros id. rewrite aget_aput, aget_snoc. rewrite <- m_auths0. rewrite <- m_setid0.
              destruct (g_setid g + 1 =? id) eqn:E; [|destruct (aget (g_auths g) id); reflexivity].
              apply N.eqb_eq in E. subst id.
              destruct T as [_ [_ [_ [_ [_ I6]]]]]. rewrite I6 by lia. reflexivity.
           ++ exists (ls ++ [N.of_nat h]). split.
              ** apply (tables_inv_push g _ ls (N.of_nat h) (pc_auth c1) T); reflexivity.
              ** rewrite C, spec_table_snoc. cbn [Nat.add]. rewrite <- m_setid0, J1. reflexivity.
      * cbn [option_map fst snd is_rok]. split; [reflexivity|]. exists imp, F, (c1 :: r). unfold gset_forced, sset_forced, s0.
        constructor; cbn [g_forced g_roots g_setid g_auths g_changes g_fin s_forced s_roots s_setid s_hist s_changes s_bestfin s_auth fst snd];
          try assumption; try reflexivity; try lia; try (exact HF).
        -- exists ls. split; [|exact C]. apply (tables_inv_same g); [exact T | reflexivity | reflexivity | reflexivity].
Qed.

(* ---- the refinement over whole histories ---- *)
Lemma mixed_agree : forall n sched forced, sched_ok sched -> forced_ok forced ->
  forall evs imp fin imported F L g q, minv n imp fin imported F L g q ->
  agree_run (chain n) sched forced imported fin g q evs.
Proof.
  intros n sched forced Hok Hfok. induction evs as [|e r IH]; intros imp fin imported F L g q M; [exact I|].
  cbn [agree_run]. intros Hin Hguard.
  pose proof (mixed_step n sched forced Hok Hfok imp fin imported F L g q e M Hin Hguard) as S.
  destruct (spec_step (chain n) sched forced q e) as [q'|]; [|exact S].
  cbn zeta. destruct S as [S1 [imp' [F' [L' M']]]]. split; [exact S1|]. split.
  - apply (minv_obs _ _ _ _ _ _ _ _ M').
  - apply (IH _ _ _ _ _ _ _ M').
Qed.

Lemma mixed_refines : forall n sched forced evs, sched_ok sched -> forced_ok forced ->
  agree_run (chain n) sched forced [O] O ginit sinit evs.
Proof. intros n sched forced evs Hok Hfok. apply (mixed_agree n sched forced Hok Hfok evs 0 0 [O] [] []). apply minv_init. Qed.
