From Coq Require Import Extraction ExtrOcamlBasic.
From Common Require Import Bytes Drv.
From C23 Require Import Model Spec Enum.
Extraction "model.ml" drv_b2n drv_n2b drv_z_of_n drv_n_of_z drv_nat_of_n drv_n_of_nat
  wf is_anc number mkpc eff ginit go_step prefix fixed cfind n_change n_children go_setid_by_number go_next_change aget
  sinit spec_step spec_setid_by_number spec_next_change sdesc
  explore_all count_configs.
