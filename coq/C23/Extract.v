From Coq Require Import Extraction ExtrOcamlBasic.
From Common Require Import Bytes Drv.
From C23 Require Import Model.
Extraction "model.ml" drv_b2n drv_n2b drv_z_of_n drv_n_of_z drv_nat_of_n drv_n_of_nat
  wf is_anc number mkpc eff ginit go_step prefix_pred fixed_pred go_setid_by_number go_next_change aget.
