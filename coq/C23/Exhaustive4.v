(* C23/Exhaustive4.v -- complete sweep: 4 blocks, 1 announcement, delays 0..1 (716 configurations, every event order).
   Larger scopes (4 blocks / 2 announcements / delays 0..2, 5 and 6 blocks) are swept by the extracted code on
   every run (props/C23/hooks.py); they are kept out of the Coq development so that coqchk stays cheap. *)
From C23 Require Import Model Spec Enum.
Lemma sweep_4 : explore_all 4 1 1 = true. Proof. vm_compute. reflexivity. Qed.
