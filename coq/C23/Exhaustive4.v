(* C23/Exhaustive4.v -- complete sweep: 4 blocks, <= 2 announcements, delays 0..2 (17 892 configurations, every event order) *)
From C23 Require Import Model Spec Enum.
Lemma sweep_4 : explore_all 4 2 2 = true. Proof. vm_compute. reflexivity. Qed.
