(* C23/Model.v -- executable model (Tier A) of dot/state/grandpa_changes.go and of the
   authority-set part of dot/state/grandpa.go, as driven by core.Service.handleBlock
   (AddBlock; HandleGRANDPADigest; ApplyForcedChanges) and digest.Handler.handleBlockFinalisation
   (SetFinalisedHash; ApplyScheduledChanges).  Definitions only.

   Blocks are indices into a parent-indexed tree (block 0 = genesis); block numbers are depths.
   BlockState.IsDescendantOf(a, d) is modelled with its failure mode: after a finalisation the
   blocks of abandoned forks are dropped from the block tree and their headers were never
   written to the database, so any ancestry question that involves such a block (and is not
   answered by a == d) returns an error.  Errors are `None`. *)
From Coq Require Import NArith List Bool Arith.
Import ListNotations.
Local Open Scope N_scope.

(* ---- block tree ---- *)
Definition tree := list nat.                        (* parent index of block k+1 *)
Definition parent (t : tree) (i : nat) : nat := match i with O => O | S j => nth j t O end.
Fixpoint wf_from (k : nat) (t : tree) : bool :=
  match t with [] => true | p :: r => (p <=? k)%nat && wf_from (S k) r end.
Definition wf (t : tree) : bool := wf_from 0 t.
Fixpoint path_f (fuel : nat) (t : tree) (i : nat) : list nat :=
  match fuel with
  | O => []
  | S f => i :: match i with O => [] | S _ => path_f f t (parent t i) end
  end.
Definition path (t : tree) (i : nat) : list nat := path_f (S i) t i.
Definition is_anc (t : tree) (a d : nat) : bool := existsb (Nat.eqb a) (path t d).   (* reflexive *)
Definition number (t : tree) (i : nat) : N := N.of_nat (pred (length (path t i))).

(* ---- pending changes ---- *)
Record pchange := mkpc { pc_blk : nat; pc_delay : N; pc_auth : N; pc_bestfin : N }.
Definition eff (t : tree) (c : pchange) : N := number t (pc_blk c) + pc_delay c.   (* effectiveNumber *)
Inductive node := Node (c : pchange) (ch : list node).
Definition n_change (n : node) : pchange := match n with Node c _ => c end.
Definition n_children (n : node) : list node := match n with Node _ ch => ch end.

Fixpoint aget (l : list (N * N)) (k : N) : option N :=
  match l with [] => None | (k', v) :: r => if k' =? k then Some v else aget r k end.
Fixpoint aput (l : list (N * N)) (k v : N) : list (N * N) :=
  match l with
  | [] => [(k, v)]
  | (k', v') :: r => if k' =? k then (k, v) :: r else (k', v') :: aput r k v
  end.

Record gst := mkgst {
  g_forced : list pchange;          (* forcedChanges *)
  g_roots : list node;              (* scheduledChangeRoots *)
  g_setid : N;                      (* currentSetIDKey *)
  g_auths : list (N * N);           (* authoritiesKey(setID) -> authority list id *)
  g_changes : list (N * N);         (* setIDChangeKey(setID) -> block number *)
  g_fin : nat                       (* BlockState: last finalised block *)
}.
Definition genesis_auth : N := 238.
Definition ginit : gst := mkgst [] [] 0 [(0, genesis_auth)] [(0, 0)] O.

(* The model is parameterised by which of the five repairs fixes/C23-*.patch are applied:
   `fixed` = the repaired code (all five), `prefix` = the pinned code. *)
Record variant := mkvariant {
  v_pred_lex : bool;            (* C23-forced-change-order: lexicographic sort.Search predicate *)
  v_forced_at_bestfin : bool;   (* C23-forced-change-setid-block *)
  v_keep_ancestors : bool;      (* C23-scheduled-prune-keeps-ancestors *)
  v_unknown_unrelated : bool;   (* C23-pruned-fork-ancestry: ErrNotFound => not a descendant *)
  v_sched_at_finalized : bool   (* C23-scheduled-change-setid-block *)
}.
Definition fixed : variant := mkvariant true true true true true.
Definition prefix : variant := mkvariant false false false false false.

(* BlockState.IsDescendantOf(a, d) (GrandpaState.isDescendantOf after the repair) *)
Definition known (t : tree) (fin x : nat) : bool := is_anc t x fin || is_anc t fin x.
Definition desc (v : variant) (t : tree) (fin a d : nat) : option bool :=
  if Nat.eqb a d then Some true
  else if known t fin a && known t fin d then Some (is_anc t a d)
  else if v_unknown_unrelated v then Some false else None.

(* ---- orderedPendingChanges ---- *)
(* the duplicate / one-per-fork check of importChange *)
Fixpoint forced_check (v : variant) (t : tree) (fin : nat) (l : list pchange) (c : pchange) : option bool :=
  match l with
  | [] => Some true
  | x :: r =>
    if Nat.eqb (pc_blk x) (pc_blk c) then Some false              (* errDuplicateHashes *)
    else match desc v t fin (pc_blk x) (pc_blk c) with
         | None => None
         | Some true => Some false                                (* errAlreadyHasForcedChange *)
         | Some false => forced_check v t fin r c
         end
  end.

(* sort.Search(n, f): i, j := 0, n; for i < j { h := (i+j)/2; if !f(h) { i = h+1 } else { j = h } } *)
Fixpoint go_search (fuel : nat) (f : nat -> bool) (i j : nat) : nat :=
  match fuel with
  | O => i
  | S fu => if (i <? j)%nat then
              let h := Nat.div2 (i + j) in
              if f h then go_search fu f i h else go_search fu f (S h) j
            else i
  end.
Definition insert_at {A} (l : list A) (i : nat) (x : A) : list A := firstn i l ++ x :: skipn i l.

(* the search predicate.  `fixed_pred` (after fixes/C23-forced-change-order.patch) orders
   lexicographically by (effective number, announcing number); `prefix_pred` is the pinned
   conjunction of two >=, which is not monotone over a list ordered that way. *)
Definition dummy_pc : pchange := mkpc O 0 0 0.
Definition prefix_pred (t : tree) (l : list pchange) (c : pchange) (i : nat) : bool :=
  let x := nth i l dummy_pc in
  (eff t c <=? eff t x) && (number t (pc_blk c) <=? number t (pc_blk x)).
Definition fixed_pred (t : tree) (l : list pchange) (c : pchange) (i : nat) : bool :=
  let x := nth i l dummy_pc in
  (eff t c <? eff t x) || ((eff t c =? eff t x) && (number t (pc_blk c) <=? number t (pc_blk x))).

Definition forced_insert (pred : tree -> list pchange -> pchange -> nat -> bool)
  (t : tree) (l : list pchange) (c : pchange) : list pchange :=
  insert_at l (go_search (S (length l)) (pred t l c) 0 (length l)) c.

(* lookupChangeWhere over a slice, condition may fail *)
Fixpoint lookup_where {A} (cond : A -> option bool) (l : list A) : option (option A) :=
  match l with
  | [] => Some None
  | x :: r => match cond x with
              | None => None
              | Some true => Some (Some x)
              | Some false => lookup_where cond r
              end
  end.

Definition forced_applicable_cond (v : variant) (t : tree) (fin b : nat) (c : pchange) : option bool :=
  if Nat.eqb b (pc_blk c) && (eff t c =? number t b) then Some true
  else match desc v t fin (pc_blk c) b with
       | None => None
       | Some d => Some (d && (eff t c =? number t b))
       end.

(* pruneChanges of both containers: keep the entries that descend from `h` *)
Fixpoint prune_keep {A} (v : variant) (blk : A -> nat) (t : tree) (fin h : nat) (l : list A) : option (list A) :=
  match l with
  | [] => Some []
  | x :: r => match desc v t fin h (blk x) with
              | None => None
              | Some d => match prune_keep v blk t fin h r with
                          | None => None
                          | Some r' => Some (if d then x :: r' else r')
                          end
              end
  end.

(* changeTree.pruneChanges after the repair: roots that descend from h or are ancestors of h *)
Fixpoint prune_keep_anc (v : variant) (t : tree) (fin h : nat) (l : list node) : option (list node) :=
  match l with
  | [] => Some []
  | x :: r => match desc v t fin h (pc_blk (n_change x)) with
              | None => None
              | Some d => match desc v t fin (pc_blk (n_change x)) h with
                          | None => None
                          | Some a => match prune_keep_anc v t fin h r with
                                      | None => None
                                      | Some r' => Some (if d || a then x :: r' else r')
                                      end
                          end
              end
  end.

(* ---- changeTree ---- *)
(* pendingChangeNode.importNode: None = error, Some None = not imported here *)
Fixpoint import_node (v : variant) (t : tree) (fin : nat) (c : pchange) (n : node) : option (option node) :=
  match n with
  | Node nc ch =>
    if Nat.eqb (pc_blk c) (pc_blk nc) then None                       (* errDuplicateHashes *)
    else match desc v t fin (pc_blk nc) (pc_blk c) with
         | None => None
         | Some false => Some None
         | Some true =>
           if number t (pc_blk c) <=? number t (pc_blk nc) then Some None
           else
             let fix into (l : list node) : option (option (list node)) :=
               match l with
               | [] => Some None
               | x :: r => match import_node v t fin c x with
                           | None => None
                           | Some (Some x') => Some (Some (x' :: r))
                           | Some None => match into r with
                                          | None => None
                                          | Some (Some r') => Some (Some (x :: r'))
                                          | Some None => Some None
                                          end
                           end
               end in
             match into ch with
             | None => None
             | Some (Some ch') => Some (Some (Node nc ch'))
             | Some None => Some (Some (Node nc (ch ++ [Node c []])))
             end
         end
  end.
Fixpoint import_roots (v : variant) (t : tree) (fin : nat) (c : pchange) (l : list node) : option (list node) :=
  match l with
  | [] => Some [Node c []]
  | x :: r => match import_node v t fin c x with
              | None => None
              | Some (Some x') => Some (x' :: r)
              | Some None => match import_roots v t fin c r with
                             | None => None
                             | Some r' => Some (x :: r')
                             end
              end
  end.

(* findApplicableChange condition; the errUnfinalizedAncestor case is an error too *)
Fixpoint child_check (v : variant) (t : tree) (fin h : nat) (ch : list node) : option bool :=
  match ch with
  | [] => Some true
  | x :: r => match desc v t fin (pc_blk (n_change x)) h with
              | None => None
              | Some d => if (number t (pc_blk (n_change x)) <=? number t h) && d then None
                          else child_check v t fin h r
              end
  end.
Definition sched_applicable_cond (v : variant) (t : tree) (fin h : nat) (n : node) : option bool :=
  let c := n_change n in
  if number t h <? eff t c then Some false
  else match (if Nat.eqb h (pc_blk c) then Some true else desc v t fin (pc_blk c) h) with
       | None => None
       | Some false => Some false
       | Some true => child_check v t fin h (n_children n)
       end.

(* ---- GrandpaState ---- *)
Inductive result := ROk | RErrDigest | RErrForced | RErrSched.

Definition add_forced (v : variant) (t : tree) (s : gst) (c : pchange) : option gst :=
  match forced_check v t (g_fin s) (g_forced s) c with
  | Some true => Some (mkgst (forced_insert (if v_pred_lex v then fixed_pred else prefix_pred) t (g_forced s) c) (g_roots s) (g_setid s)
                             (g_auths s) (g_changes s) (g_fin s))
  | _ => None
  end.
Definition add_scheduled (v : variant) (t : tree) (s : gst) (c : pchange) : option gst :=
  match import_roots v t (g_fin s) c (g_roots s) with
  | Some r => Some (mkgst (g_forced s) r (g_setid s) (g_auths s) (g_changes s) (g_fin s))
  | None => None
  end.

(* ApplyForcedChanges(header of block b) *)
Definition apply_forced (v : variant) (t : tree) (s : gst) (b : nat) : option gst :=
  match lookup_where (forced_applicable_cond v t (g_fin s) b) (g_forced s) with
  | None => None
  | Some None => Some s
  | Some (Some fc) =>
    match lookup_where (fun n : node =>
             if pc_bestfin fc <? eff t (n_change n) then Some false
             else desc v t (g_fin s) (pc_blk (n_change n)) (pc_blk fc)) (g_roots s) with
    | None => None
    | Some (Some _) => None                                   (* errPendingScheduledChanges *)
    | Some None =>
      let cur := g_setid s in
      let new := cur + 1 in
      let chs := if v_forced_at_bestfin v then aput (g_changes s) new (pc_bestfin fc)
                 else (* pinned: setChangeSetIDAtBlock(currentSetID, bestFinalized) then (newSetID, effective) *)
                   aput (aput (g_changes s) cur (pc_bestfin fc)) new (eff t fc) in
      Some (mkgst [] [] new (aput (g_auths s) new (pc_auth fc)) chs (g_fin s))
    end
  end.

(* ApplyScheduledChanges(header of block h); the block state has already finalised h.
   Returns the new state and whether an error was returned (the forced-change pruning that
   precedes the error is kept, as in the Go code). *)
Definition apply_scheduled (v : variant) (t : tree) (s : gst) (h : nat) : gst * bool :=
  match prune_keep v pc_blk t (g_fin s) h (g_forced s) with
  | None => (s, false)
  | Some fo =>
    let s1 := mkgst fo (g_roots s) (g_setid s) (g_auths s) (g_changes s) (g_fin s) in
    match g_roots s with
    | [] => (s1, true)
    | _ =>
      match lookup_where (sched_applicable_cond v t (g_fin s) h) (g_roots s) with
      | None => (s1, false)
      | Some None =>
        match (if v_keep_ancestors v then prune_keep_anc v t (g_fin s) h (g_roots s)
               else prune_keep v (fun n => pc_blk (n_change n)) t (g_fin s) h (g_roots s)) with
        | None => (s1, false)
        | Some r => (mkgst fo r (g_setid s) (g_auths s) (g_changes s) (g_fin s), true)
        end
      | Some (Some n) =>
        let new := g_setid s + 1 in
        (mkgst fo (n_children n) new (aput (g_auths s) new (pc_auth (n_change n)))
               (aput (g_changes s) new (if v_sched_at_finalized v then number t h else eff t (n_change n)))
               (g_fin s), true)
      end
    end
  end.

(* ---- events ---- *)
Inductive event := Import (b : nat) | Finalise (b : nat).
Definition changes := list (nat * pchange).      (* block -> change *)
Fixpoint cfind (l : changes) (b : nat) : option pchange :=
  match l with [] => None | (b', c) :: r => if Nat.eqb b' b then Some c else cfind r b end.

Definition go_step (v : variant) (t : tree) (sched forced : changes) (s : gst) (e : event) : gst * result :=
  match e with
  | Import b =>
    let s1 := match cfind forced b with
              | Some c => add_forced v t s c
              | None => match cfind sched b with
                        | Some c => add_scheduled v t s c
                        | None => Some s
                        end
              end in
    match s1 with
    | None => (s, RErrDigest)
    | Some s1 => match apply_forced v t s1 b with
                 | None => (s1, RErrForced)
                 | Some s2 => (s2, ROk)
                 end
    end
  | Finalise b =>
    let s0 := mkgst (g_forced s) (g_roots s) (g_setid s) (g_auths s) (g_changes s) b in
    let '(s1, ok) := apply_scheduled v t s0 b in
    (s1, if ok then ROk else RErrSched)
  end.

(* ---- observers ---- *)
(* GetSetIDByBlockNumber *)
Fixpoint setid_loop (fuel : nat) (chs : list (N * N)) (n curr : N) : option N :=
  match fuel with
  | O => None
  | S f =>
    match aget chs (curr + 1) with
    | None => if curr =? 0 then Some 0 else setid_loop f chs n (curr - 1)
    | Some upper =>
      match aget chs curr with
      | None => None
      | Some lower =>
        if (n <=? upper) && (lower <? n) then Some curr
        else if upper <? n then Some (curr + 1)
        else if curr =? 0 then Some 0 else setid_loop f chs n (curr - 1)
      end
    end
  end.
Definition go_setid_by_number (s : gst) (n : N) : option N :=
  setid_loop (S (S (N.to_nat (g_setid s)))) (g_changes s) n (g_setid s).

(* NextGrandpaAuthorityChange: None = error, Some None = ErrNoNextAuthorityChange *)
Definition go_next_change (v : variant) (t : tree) (s : gst) (best : nat) : option (option N) :=
  let cond (c : pchange) := match desc v t (g_fin s) (pc_blk c) best with
                            | None => None
                            | Some d => Some (d && (eff t c <=? number t best))
                            end in
  match lookup_where cond (g_forced s) with
  | None => None
  | Some fo =>
    match lookup_where (fun n => cond (n_change n)) (g_roots s) with
    | None => None
    | Some sc =>
      let next := match sc with Some n => eff t (n_change n) | None => 0 end in
      let next := match fo with
                  | Some c => if (eff t c <? next) || (next =? 0) then eff t c else next
                  | None => next
                  end in
      Some (if next =? 0 then None else Some next)
    end
  end.
