(* C23/MixedForksNext.v -- closer round: the FOURTH observer (NextGrandpaAuthorityChange) for histories
   that MIX scheduled and forced changes on ARBITRARY well-formed block trees (forks included).
   MixedForks.v proves the refinement of the mixed class for three observers (invariant xinv);
   NextChangeForks.v proves the fourth observer for scheduled changes only (invariant einv: sibling
   nodes of gossamer's pending-change forest are pairwise unrelated, no change announced by genesis).
   Here both invariants are carried together along every history outside the guard of the known
   finding, and the observer is compared in every state they relate:

     gossamer:  first applicable forced change (list ordered by effective number, restricted to live
                forks) and first applicable root, then "the smaller one, 0 = none";
     Substrate: minimum effective number over the applicable roots it keeps, folded further over
                ALL its pending forced changes (dead forks included).

   first = minimum on the roots by einv (fold_first), on the forced list because it is sorted
   (fold_min_sorted_acc, which starts from the roots' result instead of None); a forced change on the
   ancestry of a live best block is itself live (live_of_anc), so the dead-fork entries Substrate may
   still hold never apply; every effective number is >= 1 (x_each, einv), so gossamer's encoding of
   "none" as 0 hides nothing.  No extra hypothesis. *)
From Coq Require Import NArith List Bool Arith Lia.
From C23 Require Import Model Spec Enum Proofs Local Reach Bounded Chain Forced OnePerFork Forks Forced2 MixedForks NextChangeForks.
Import ListNotations.
Local Open Scope N_scope.

(* ---- first applicable = minimum on a sorted forced list, starting from any accumulator ---- *)
Lemma fold_min_sorted_acc : forall t best l acc, sorted_by_key t l = true ->
  fold_left (fun acc c => if Forced.on_best t best c then nmin acc (eff t c) else acc) l acc =
  match find (Forced.on_best t best) l with Some c => nmin acc (eff t c) | None => acc end.
Proof.
  intros t best. induction l as [|x l IH]; intros acc Hs; [reflexivity|]. cbn [fold_left find].
  destruct (Forced.on_best t best x).
  - destruct acc as [m|]; cbn [nmin]; apply fold_min_some; intros y Hy;
      pose proof (sorted_head_le t x l Hs y Hy) as Hle; [|exact Hle].
    destruct (eff t x <? m) eqn:E; [exact Hle|]. apply N.ltb_ge in E. lia.
  - apply IH. apply (sorted_tail t x l Hs).
Qed.

(* ---- the observer in every state related by xinv + einv, for every live best block ---- *)
Lemma next_change_mixed_state : forall t imported fin g q best, wf t = true -> xinv t imported fin g q ->
  einv t (g_roots g) -> is_anc t fin best = true ->
  go_next_change fixed t g best = Some (spec_next_change t q best).
Proof.
  intros t imported fin g q best W K [E1 [_ E3]] L.
  destruct K as [Kc Kf Kr Ks Ke Kw Kb Kro Kd Ksi Ka Kt Kgfin Kbf].
  unfold go_next_change. rewrite Kgfin.
  rewrite (lookup_where_total _ (Forced.on_best t best)).
  2:{ intros x _. rewrite desc_live by assumption. reflexivity. }
  rewrite (lookup_where_total _ (on_best t best)).
  2:{ intros x _. rewrite desc_live by assumption. reflexivity. }
  change (spec_next_change t q best) with
    (fold_left (fun acc c => if Forced.on_best t best c then nmin acc (eff t c) else acc)
               (s_forced q)
               (fold_left (fun acc n => if on_best t best n then nmin acc (eff t (n_change n)) else acc) (s_roots q) None)).
  rewrite Kro.
  rewrite fold_first by (try exact W; apply unrel_filter; exact E1).
  rewrite (find_filter (on_best t best)).
  2:{ intros x _ O. unfold on_best in O. apply andb_true_iff in O. destruct O as [O _].
      unfold lroot. apply (known_of_anc t fin _ best W L O). }
  rewrite fold_min_sorted_acc by exact Ks.
  rewrite Kr. rewrite (find_filter (Forced.on_best t best)).
  2:{ intros x Hx P. unfold Forced.on_best in P. apply andb_true_iff in P. destruct P as [P _].
      destruct (Ke x Hx) as [_ [Hn _]]. unfold livec. apply (live_of_anc t fin _ best); assumption. }
  destruct (find (on_best t best) (g_roots g)) as [n|] eqn:Fn;
    destruct (find (Forced.on_best t best) (s_forced q)) as [c|] eqn:Fc; cbn [nmin].
  - apply find_some in Fn. destruct Fn as [Hn _]. apply find_some in Fc. destruct Fc as [Hc _].
    destruct (Ke c Hc) as [_ [_ Hpos]].
    pose proof (eff_pos t (n_change n) W (E3 _ (in_fblocks_root _ n Hn))) as Zn.
    rewrite Zn, orb_false_r.
    destruct (eff t c <? eff t (n_change n)).
    + assert (Z : (eff t c =? 0) = false) by (apply N.eqb_neq; lia). rewrite Z. reflexivity.
    + rewrite Zn. reflexivity.
  - apply find_some in Fn. destruct Fn as [Hn _].
    rewrite (eff_pos t (n_change n) W (E3 _ (in_fblocks_root _ n Hn))). reflexivity.
  - apply find_some in Fc. destruct Fc as [Hc _]. destruct (Ke c Hc) as [_ [_ Hpos]].
    rewrite N.eqb_refl, orb_true_r.
    assert (Z : (eff t c =? 0) = false) by (apply N.eqb_neq; lia). rewrite Z. reflexivity.
  - reflexivity.
Qed.

(* ---- gossamer's pending-change forest keeps einv along mixed histories ---- *)
Lemma apply_forced_roots : forall t s b s2, apply_forced fixed t s b = Some s2 ->
  g_roots s2 = g_roots s \/ g_roots s2 = [].
Proof.
  intros t s b s2. rewrite apply_forced_fixed.
  destruct (find (forced_applicable t (g_fin s) b) (g_forced s)) as [fc|].
  - destruct (find (depends_on t (g_fin s) fc) (g_roots s)); [discriminate|].
    intros H. injection H as <-. right. reflexivity.
  - intros H. injection H as <-. left. reflexivity.
Qed.

Lemma einv_after_apply : forall t s b, einv t (g_roots s) ->
  einv t (g_roots (fst (match apply_forced fixed t s b with None => (s, RErrForced) | Some s2 => (s2, ROk) end))).
Proof.
  intros t s b EI. destruct (apply_forced fixed t s b) as [s2|] eqn:A; cbn [fst]; [|exact EI].
  destruct (apply_forced_roots t s b s2 A) as [R|R]; rewrite R; [exact EI | apply einv_nil].
Qed.

Lemma einv_xstep : forall t sched forced, wf t = true -> sched_ok sched ->
  forall imported fin g q e, xinv t imported fin g q -> einv t (g_roots g) ->
  In e (next_events t imported fin) ->
  einv t (g_roots (fst (go_step fixed t sched forced g e))).
Proof.
  intros t sched forced W Hok imported fin g q e K EI Hin.
  destruct K as [Kc Kf Kr Ks Ke Kw Kb Kro Kd Ksi Ka Kt Kgfin Kbf].
  unfold next_events in Hin. apply in_app_or in Hin. destruct e as [b|h].
  - destruct Hin as [Hin|Hin]; apply in_map_iff in Hin; destruct Hin as [x [E Hx]]; [|discriminate].
    injection E as ->. apply filter_In in Hx. destruct Hx as [Hseq Hc].
    apply in_seq in Hseq.
    apply andb_true_iff in Hc. destruct Hc as [Hc H3]. apply andb_true_iff in Hc. destruct Hc as [H1 H2].
    apply negb_true_iff in H1.
    assert (Hnb : ~ In b imported) by (intros X; apply has_in in X; congruence).
    destruct b as [|j]; [lia|].
    assert (Hfb : is_anc t fin (S j) = true) by (rewrite is_anc_unfold by exact W; rewrite H3; apply orb_true_r).
    cbn [go_step]. destruct (cfind forced (S j)) as [cf|] eqn:Ef.
    + unfold add_forced. destruct (forced_check fixed t (g_fin g) (g_forced g) cf) as [[|]|]; try exact EI.
      apply einv_after_apply. exact EI.
    + destruct (cfind sched (S j)) as [c|] eqn:Ec.
      * pose proof (Hok _ _ Ec) as Hcb.
        unfold add_scheduled. rewrite Kgfin.
        destruct (import_roots fixed t fin c (g_roots g)) as [G'|] eqn:IR; [|exact EI].
        apply einv_after_apply. cbn [g_roots].
        assert (Hcl : is_anc t fin (pc_blk c) = true) by (rewrite Hcb; exact Hfb).
        assert (Hnz : pc_blk c <> O) by (rewrite Hcb; discriminate).
        apply (import_roots_einv t fin c W Hcl Hnz (g_roots g) Kw); [| exact EI | exact IR].
        intros b0 Hb0. rewrite Hcb. split.
        -- intros X. apply Hnb. rewrite <- X. apply Kb. exact Hb0.
        -- destruct (is_anc t (S j) b0) eqn:A; [|reflexivity]. exfalso. apply Hnb.
           apply (Kc (S j) b0); [apply Kb; exact Hb0 | exact A].
      * apply einv_after_apply. exact EI.
  - cbn [go_step].
    set (s0 := mkgst (g_forced g) (g_roots g) (g_setid g) (g_auths g) (g_changes g) h).
    pose proof (apply_scheduled_roots t s0 h) as R.
    destruct (apply_scheduled fixed t s0 h) as [s1 ok]. cbn [fst] in *. cbn [s0 g_roots] in R.
    destruct R as [R | [[n [Hn R]] | [p R]]]; rewrite R.
    + exact EI.
    + apply (einv_children t (g_roots g)); assumption.
    + apply einv_filter. exact EI.
Qed.

(* ---- all four observers, every state ---- *)
Lemma xinv_obs4 : forall t imported fin g q, wf t = true -> xinv t imported fin g q ->
  einv t (g_roots g) -> obs_eq t imported g q = true.
Proof.
  intros t imported fin g q W K EI. unfold obs_eq. apply andb_true_iff. split.
  - exact (xinv_obs t imported fin g q K).
  - apply forallb_forall. intros b Hb. apply filter_In in Hb. destruct Hb as [_ Hb].
    rewrite (x_gfin _ _ _ _ _ K) in Hb.
    rewrite (next_change_mixed_state t imported fin g q b W K EI Hb). apply opt_n_eqb_refl.
Qed.

Lemma xagree4 : forall t sched forced, wf t = true -> sched_ok sched -> forced_ok forced ->
  forall evs imported fin g q, xinv t imported fin g q -> einv t (g_roots g) ->
  agree_run t sched forced imported fin g q evs.
Proof.
  intros t sched forced W Hok Hfok. induction evs as [|e r IH]; intros imported fin g q K EI; [exact I|].
  cbn [agree_run]. intros Hin Hguard.
  pose proof (xstep t sched forced W Hok Hfok imported fin g q e K Hin Hguard) as S.
  pose proof (einv_xstep t sched forced W Hok imported fin g q e K EI Hin) as EI'.
  destruct (spec_step t sched forced q e) as [q'|]; [|exact S].
  cbn zeta. destruct S as [S1 K']. split; [exact S1|]. split.
  - apply (xinv_obs4 t _ _ _ _ W K' EI').
  - apply IH; [exact K' | exact EI'].
Qed.

(* mixed scheduled + forced announcements on arbitrary well-formed trees: ok/error and ALL FOUR
   observers agree after every event of every possible history outside the guard of the known finding *)
Lemma mixed_forks_all_observers : forall t sched forced evs, wf t = true -> sched_ok sched -> forced_ok forced ->
  agree_run t sched forced [O] O ginit sinit evs.
Proof.
  intros t sched forced evs W Hok Hfok. apply xagree4; try assumption; [apply xinv_init; exact W | apply einv_nil].
Qed.

(* the state-level statement, for any related state and any live best block (imported or not) *)
Lemma mixed_forks_next_change_state : forall t imported fin g q best, wf t = true -> xinv t imported fin g q ->
  einv t (g_roots g) -> is_anc t fin best = true ->
  go_next_change fixed t g best = Some (spec_next_change t q best).
Proof. exact next_change_mixed_state. Qed.
