(* C23/Properties.v -- property C23: authority set changes are applied as Substrate applies them.
   Model.go_step (variant `fixed`) mirrors grandpa.go / grandpa_changes.go after the five repairs
   fixes/C23-*.patch; Spec.spec_step is Substrate's AuthoritySet (authorities.rs, fork-tree).
   `prefix` = the pinned code, only used by the ..._prefix_refuted witnesses. *)
From Coq Require Import NArith List Bool Arith.
From C23 Require Import Model Spec Enum Proofs Bounded Local Reach Chain Forced OnePerFork Forks Forced2 MixedChain MixedForks.
Import ListNotations.
Local Open Scope N_scope.

(* --- pending forced changes stay ordered: sort.Search with the repaired predicate inserts at
   Substrate's position (binary_search_by_key on (effective number, announcing number)), for
   every ordered list of any length --- *)
Theorem C23_forced_order : forall t l c, sorted_by_key t l = true ->
  forced_insert fixed_pred t l c = s_forced_insert t l c /\
  sorted_by_key t (forced_insert fixed_pred t l c) = true.
Proof.
  intros t l c H. split; [apply forced_insert_fixed; exact H|].
  rewrite forced_insert_fixed by exact H. apply s_forced_insert_sorted. exact H.
Qed.
Print Assumptions C23_forced_order.

(* the pinned predicate (conjunction of two >=) breaks the order *)
Theorem C23_forced_order_prefix_refuted : exists t l c,
  sorted_by_key t l = true /\ sorted_by_key t (forced_insert prefix_pred t l c) = false.
Proof.
  exists [O; 1%nat; 2%nat; 1%nat], [mkpc 4 3 5 0], (mkpc 3 1 6 0). vm_compute. split; reflexivity.
Qed.
Print Assumptions C23_forced_order_prefix_refuted.

(* --- set id reported for a block number: gossamer's table (set id -> block at which the set
   began) read by GetSetIDByBlockNumber equals Substrate's authority_set_changes lookup, for
   every non-decreasing sequence ls of last-block numbers, of any length --- *)
Theorem C23_setid_by_number : forall chs ls n, sorted_n ls = true -> go_table_ok chs ls ->
  setid_loop (S (S (length ls))) chs n (N.of_nat (length ls)) =
  Some (match s_setid_in (spec_table_from 0 ls) n with Some id => id | None => N.of_nat (length ls) end).
Proof. exact setid_lookup_agrees. Qed.
Print Assumptions C23_setid_by_number.

(* ... and in EVERY state the repaired Go model reaches from genesis (any tree, announcements and
   event list, no bound) the tables have that shape: for the recorded last-block numbers ls of the
   sets 0..current-1, GetSetIDByBlockNumber(n) is the set whose last block is the first one >= n,
   else the current set, whenever ls is non-decreasing *)
Theorem C23_setid_by_number_reachable : forall t sched forced evs,
  let s := fst (run_go fixed t sched forced ginit evs) in
  exists ls, tables_inv s ls /\
    (sorted_n ls = true -> forall n,
       go_setid_by_number s n =
       Some (match s_setid_in (spec_table_from 0 ls) n with Some id => id | None => g_setid s end)).
Proof. exact reachable_setid_by_number. Qed.
Print Assumptions C23_setid_by_number_reachable.

(* --- set ids grow by one per change (every step, every state, both sides) --- *)
Theorem C23_set_id_increments_by_one : forall v t sched forced s e,
  g_setid (fst (go_step v t sched forced s e)) = g_setid s \/
  g_setid (fst (go_step v t sched forced s e)) = g_setid s + 1.
Proof. exact go_step_setid. Qed.
Print Assumptions C23_set_id_increments_by_one.

Theorem C23_spec_set_id_increments_by_one : forall t sched forced q e q',
  spec_step t sched forced q e = Some q' -> s_setid q' = s_setid q \/ s_setid q' = s_setid q + 1.
Proof. exact spec_step_setid. Qed.
Print Assumptions C23_spec_set_id_increments_by_one.

(* --- one-step semantics of the repaired Go model, every state and block tree.
   rel t fin a d: a is d, or a is an ancestor of d and both are still known to the block state
   (not on a fork abandoned by the last finalisation fin). --- *)

(* A forced change takes effect when a block whose number is its effective number is imported on
   its fork (first such change in the ordered list), unless a pending scheduled change it depends
   on is still unapplied (error): both pending containers are reset, the set id grows by one, the
   new authorities are stored under the new id and the old set ends at the best finalized block. *)
Theorem C23_forced_takes_effect : forall t s b,
  apply_forced fixed t s b =
  match find (forced_applicable t (g_fin s) b) (g_forced s) with
  | None => Some s
  | Some fc =>
    match find (depends_on t (g_fin s) fc) (g_roots s) with
    | Some _ => None
    | None => Some (mkgst [] [] (g_setid s + 1) (aput (g_auths s) (g_setid s + 1) (pc_auth fc))
                          (aput (g_changes s) (g_setid s + 1) (pc_bestfin fc)) (g_fin s))
    end
  end.
Proof. exact apply_forced_fixed. Qed.
Print Assumptions C23_forced_takes_effect.

(* At most one forced change is pending per fork: an accepted announcement is on a different
   block than, and not a descendant of, every pending one; one on a fork that already has a
   pending forced change is refused. *)
Theorem C23_one_forced_per_fork : forall t s c,
  (forall s', add_forced fixed t s c = Some s' ->
     (forall x, In x (g_forced s) -> pc_blk x <> pc_blk c /\ rel t (g_fin s) (pc_blk x) (pc_blk c) = false) /\
     (forall x, In x (g_forced s') <-> x = c \/ In x (g_forced s))) /\
  (forall x, In x (g_forced s) -> rel t (g_fin s) (pc_blk x) (pc_blk c) = true -> add_forced fixed t s c = None).
Proof.
  intros t s c. split.
  - intros s'. apply add_forced_one_per_fork.
  - intros x. apply add_forced_refused.
Qed.
Print Assumptions C23_one_forced_per_fork.

(* A scheduled change takes effect when a block at or beyond its effective number is finalised on
   its announcing fork (first due root, no later change of the fork overtaken): set id + 1, its
   authorities under the new id, the old set ends at the finalised block, its children become the
   roots, forced changes that do not descend from the finalised block are dropped. *)
Theorem C23_scheduled_takes_effect : forall t s h pre n post,
  g_roots s = pre ++ n :: post ->
  (forall x, In x pre -> due t (g_fin s) h x = false) ->
  due t (g_fin s) h n = true -> existsb (overtaken t (g_fin s) h) (n_children n) = false ->
  apply_scheduled fixed t s h =
  (mkgst (filter (fun c => rel t (g_fin s) h (pc_blk c)) (g_forced s)) (n_children n) (g_setid s + 1)
         (aput (g_auths s) (g_setid s + 1) (pc_auth (n_change n)))
         (aput (g_changes s) (g_setid s + 1) (number t h)) (g_fin s), true).
Proof. exact apply_scheduled_enacts. Qed.
Print Assumptions C23_scheduled_takes_effect.

(* When no pending scheduled change is due, the set is unchanged and exactly the changes on
   abandoned forks are discarded: a root stays iff it descends from the finalised block or is an
   ancestor of it (its delay has not elapsed yet). *)
Theorem C23_abandoned_fork_changes_discarded : forall t s h,
  (forall x, In x (g_roots s) -> due t (g_fin s) h x = false) ->
  apply_scheduled fixed t s h =
  (mkgst (filter (fun c => rel t (g_fin s) h (pc_blk c)) (g_forced s))
         (filter (fun x => rel t (g_fin s) h (pc_blk (n_change x)) || rel t (g_fin s) (pc_blk (n_change x)) h) (g_roots s))
         (g_setid s) (g_auths s) (g_changes s) (g_fin s), true).
Proof. exact apply_scheduled_keeps. Qed.
Print Assumptions C23_abandoned_fork_changes_discarded.

(* --- refinement BY INDUCTION for a fragment (second round): scheduled changes on a single chain.
   For the chain 0 <- 1 <- ... <- n of ANY length n, ANY set of scheduled-change announcements
   (any announcing blocks, any delays, any number of them; sched_ok: an announcement is filed
   under its own block) and EVERY history of ANY length (each event possible in the state
   reached: the next block is imported, or an imported block above the last finalised one is
   finalised - including finalisations that jump over several pending changes), the repaired Go
   model and the Substrate specification agree after every event on success/failure
   (errUnfinalizedAncestor = UnfinalizedAncestor), the current set id, the authorities of every
   set id, the set id reported for every block number and the next authority change of every
   live block.  No forced change is involved, so the guard of the known finding never applies.
   `agree_run` is the statement form of Bounded.v, here without any bound. --- *)
Theorem C23_refines_chain_scheduled : forall n sched evs, sched_ok sched ->
  agree_run (chain n) sched [] [O] O ginit sinit evs.
Proof. exact chain_refines. Qed.
Print Assumptions C23_refines_chain_scheduled.

(* the simulation invariant behind it, in every reachable state of such a history: both sides hold
   the SAME path-shaped tree of pending changes, no forced change, equal set ids and authorities,
   corresponding set-change tables with a non-decreasing sequence of last blocks *)
Theorem C23_chain_invariant_step : forall n sched, sched_ok sched ->
  forall imp fin imported g q e, inv n imp fin imported g q ->
  In e (next_events (chain n) imported fin) ->
  match spec_step (chain n) sched [] q e with
  | None => is_rok (snd (go_step fixed (chain n) sched [] g e)) = false
  | Some q' =>
    let g' := fst (go_step fixed (chain n) sched [] g e) in
    let imported' := match e with Import b => b :: imported | Finalise _ => imported end in
    let fin' := match e with Import _ => fin | Finalise b => b end in
    is_rok (snd (go_step fixed (chain n) sched [] g e)) = true /\
    exists imp', inv n imp' fin' imported' g' q'
  end.
Proof. exact chain_step. Qed.
Print Assumptions C23_chain_invariant_step.

(* non-vacuity of the fragment: on the chain of 6 blocks with changes announced in blocks 1
   (delay 1), 3 (delay 0) and 5 (delay 1), this history is made of possible events only and
   enacts three changes; a finalisation that jumps over two pending changes (block 3 finalised
   while the change of block 1 is due and block 3 announces the next one) fails on both sides *)
Example C23_chain_nonvacuous :
  let t := chain 6 in
  let sched := [(1%nat, mkpc 1 1 5 0); (3%nat, mkpc 3 0 6 0); (5%nat, mkpc 5 1 7 0)] in
  let evs := [Import 1; Import 2; Import 3; Finalise 2; Import 4; Finalise 4; Import 5; Import 6; Finalise 6] in
  sched_ok sched /\
  snd (run_go fixed t sched [] ginit evs) = [ROk; ROk; ROk; ROk; ROk; ROk; ROk; ROk; ROk] /\
  g_setid (fst (run_go fixed t sched [] ginit evs)) = 3 /\
  g_changes (fst (run_go fixed t sched [] ginit evs)) = [(0, 0); (1, 2); (2, 4); (3, 6)] /\
  option_map s_changes (run_spec t sched [] sinit evs) = Some [(0, 2); (1, 4); (2, 6)] /\
  snd (run_go fixed t sched [] ginit [Import 1; Import 2; Import 3; Finalise 3]) = [ROk; ROk; ROk; RErrSched] /\
  run_spec t sched [] sinit [Import 1; Import 2; Import 3; Finalise 3] = None.
Proof.
  cbv zeta. split.
  - intros b c H. cbn [cfind] in H.
    destruct (Nat.eqb 1 b) eqn:E1; [injection H as <-; apply Nat.eqb_eq in E1; exact E1|].
    destruct (Nat.eqb 3 b) eqn:E3; [injection H as <-; apply Nat.eqb_eq in E3; exact E3|].
    destruct (Nat.eqb 5 b) eqn:E5; [injection H as <-; apply Nat.eqb_eq in E5; exact E5|].
    discriminate.
  - vm_compute. repeat split; reflexivity.
Qed.

(* --- second inductive fragment (second round): forced changes on ARBITRARY block trees, imports
   only.  For EVERY well-formed block tree (any size, any forks), ANY set of forced-change
   announcements (any blocks, delays, best-finalized numbers; forced_ok: filed under their own
   block) and EVERY history of imports of ANY length (no finalisation, no scheduled change), the
   repaired Go model and the Substrate specification agree after every event on success/failure
   (a second forced change on a fork that already has one is refused by both), the current set id,
   the authorities of every set id, the set id per block number (whenever Substrate's change
   vector is non-decreasing) and the next authority change of every imported block.  The proof
   keeps both pending lists EQUAL and ordered by (effective number, announcing number): Go's
   sort.Search insertion = binary_search_by_key, first applicable entry = take_while/filter,
   first entry on the chain of the best block = minimum. --- *)
Theorem C23_refines_forced_imports : forall t forced evs, wf t = true -> forced_ok forced ->
  Forall is_import evs -> agree_run t [] forced [O] O ginit sinit evs.
Proof. exact forced_refines. Qed.
Print Assumptions C23_refines_forced_imports.

(* non-vacuity: two forks of block 1, a forced change on each (blocks 2 and 3, delay 1); importing
   block 4 (child of 2, number 3) enacts the change of ITS fork and clears the other; a second
   forced change on a fork that already has one is refused on both sides *)
Example C23_forced_nonvacuous :
  let t := [O; 1%nat; 1%nat; 2%nat; 3%nat] in
  let forced := [(2%nat, mkpc 2 1 5 0); (3%nat, mkpc 3 1 6 1)] in
  let evs := [Import 1; Import 2; Import 3; Import 4; Import 5] in
  wf t = true /\ Forall is_import evs /\
  snd (run_go fixed t [] forced ginit evs) = [ROk; ROk; ROk; ROk; ROk] /\
  map pc_blk (g_forced (fst (run_go fixed t [] forced ginit [Import 1; Import 2; Import 3]))) = [3%nat; 2%nat] /\
  g_setid (fst (run_go fixed t [] forced ginit evs)) = 1 /\
  g_auths (fst (run_go fixed t [] forced ginit evs)) = [(0, genesis_auth); (1, 5)] /\
  option_map s_setid (run_spec t [] forced sinit evs) = Some 1 /\
  snd (run_go fixed t [] [(2%nat, mkpc 2 3 5 0); (4%nat, mkpc 4 0 6 0)] ginit [Import 1; Import 2; Import 4])
    = [ROk; ROk; RErrDigest] /\
  run_spec t [] [(2%nat, mkpc 2 3 5 0); (4%nat, mkpc 4 0 6 0)] sinit [Import 1; Import 2; Import 4] = None.
Proof. cbv zeta. split; [reflexivity|]. split; [repeat constructor|]. vm_compute. repeat split; reflexivity. Qed.

(* --- "at most one forced change is pending per fork" and "changes on abandoned forks are
   discarded" (for forced changes) as INVARIANTS OF EVERY REACHABLE STATE (second round): for every
   well-formed tree, every set of scheduled and forced announcements and every history of possible
   events of any length (`reach`: genesis, then events from Enum.next_events), two pending forced
   changes are never on the same fork (neither announcing block is an ancestor of, or equal to, the
   other's), and every pending forced change was announced by an imported block that descends from
   (or is) the last finalised block. --- *)
Theorem C23_one_forced_per_fork_history : forall t sched forced imported fin g,
  wf t = true -> forced_ok forced -> reach t sched forced imported fin g ->
  forall x y, In x (g_forced g) -> In y (g_forced g) -> is_anc t (pc_blk x) (pc_blk y) = true -> x = y.
Proof. exact one_forced_per_fork_reachable. Qed.
Print Assumptions C23_one_forced_per_fork_history.

Theorem C23_pending_forced_on_live_forks : forall t sched forced imported fin g,
  wf t = true -> forced_ok forced -> reach t sched forced imported fin g ->
  g_fin g = fin /\
  forall x, In x (g_forced g) -> In (pc_blk x) imported /\ is_anc t fin (pc_blk x) = true.
Proof.
  intros t sched forced imported fin g W Hok R. destruct (reach_pinv _ _ _ _ _ _ W Hok R) as [_ Pi _ Pl Pf].
  split; [exact Pf|]. intros x Hx. split; [apply Pi | apply Pl]; exact Hx.
Qed.
Print Assumptions C23_pending_forced_on_live_forks.

(* non-vacuity: a reachable state with two pending forced changes on two forks *)
Example C23_one_per_fork_nonvacuous :
  let t := [O; 1%nat; 1%nat] in
  let forced := [(2%nat, mkpc 2 3 5 0); (3%nat, mkpc 3 3 6 0)] in
  exists g, reach t [] forced [3%nat; 2%nat; 1%nat; O] O g /\ map pc_blk (g_forced g) = [3%nat; 2%nat].
Proof.
  cbv zeta.
  set (t := [O; 1%nat; 1%nat]). set (forced := [(2%nat, mkpc 2 3 5 0); (3%nat, mkpc 3 3 6 0)]).
  pose proof (reach_init t [] forced) as R0.
  assert (H1 : In (Import 1) (next_events t [O] O)) by (vm_compute; auto).
  pose proof (reach_step t [] forced _ _ _ (Import 1) R0 H1) as R1.
  assert (H2 : In (Import 2) (next_events t [1%nat; O] O)) by (vm_compute; auto).
  pose proof (reach_step t [] forced _ _ _ (Import 2) R1 H2) as R2.
  assert (H3 : In (Import 3) (next_events t [2%nat; 1%nat; O] O)) by (vm_compute; auto).
  pose proof (reach_step t [] forced _ _ _ (Import 3) R2 H3) as R3.
  eexists. split; [exact R3|]. vm_compute. reflexivity.
Qed.

(* --- third round: refinement BY INDUCTION for scheduled changes on ARBITRARY block trees (forks
   included).  For EVERY well-formed block tree, ANY set of scheduled-change announcements and EVERY
   history of possible imports and finalisations of ANY length, the repaired Go model and the
   Substrate specification agree after every event on success/failure and on the three observables
   the statement names: current set id, authorities of every set id, set id per block number
   (agree_run3 = agree_run without NextGrandpaAuthorityChange, which has no Substrate counterpart).
   This generalises C23_refines_chain_scheduled and covers "changes on abandoned forks are
   discarded": the two sides do NOT keep the same pending tree (gossamer keeps the children of an
   enacted change that lie on abandoned forks as roots until the next finalisation, Substrate drops
   them at once); the proof carries the simulation relation
   s_roots = filter (known to the block state w.r.t. the last finalised block) g_roots. --- *)
Theorem C23_refines_scheduled_forks : forall t sched evs, wf t = true -> sched_ok sched ->
  agree_run3 t sched [O] O ginit sinit evs.
Proof. exact forks_refines. Qed.
Print Assumptions C23_refines_scheduled_forks.

(* non-vacuity: block 1 announces a change; its two children 2 and 3 fork; blocks 4 (on 2) and 5
   (on 3) announce changes.  Finalising block 2 enacts the first change and abandons the fork of 3:
   gossamer keeps BOTH children as roots, Substrate only the one on the finalised fork; the
   observables agree, and finalising block 4 enacts the second change on both sides. *)
Example C23_forks_nonvacuous :
  let t := [O; 1%nat; 1%nat; 2%nat; 3%nat] in
  let sched := [(1%nat, mkpc 1 0 5 0); (4%nat, mkpc 4 0 6 0); (5%nat, mkpc 5 0 7 0)] in
  let evs := [Import 1; Import 2; Import 3; Import 4; Import 5; Finalise 2] in
  wf t = true /\
  map nblk (g_roots (fst (run_go fixed t sched [] ginit evs))) = [4%nat; 5%nat] /\
  option_map (fun q => map nblk (s_roots q)) (run_spec t sched [] sinit evs) = Some [4%nat] /\
  g_setid (fst (run_go fixed t sched [] ginit (evs ++ [Finalise 4]))) = 2 /\
  g_changes (fst (run_go fixed t sched [] ginit (evs ++ [Finalise 4]))) = [(0, 0); (1, 2); (2, 3)] /\
  option_map s_changes (run_spec t sched [] sinit (evs ++ [Finalise 4])) = Some [(0, 2); (1, 3)].
Proof. vm_compute. repeat split; reflexivity. Qed.

(* --- third round: forced changes TOGETHER WITH finalisation, by induction.  For EVERY well-formed
   block tree, ANY forced-change announcements and EVERY history of possible imports AND
   finalisations of ANY length, outside the guard of the known finding (agree_run asks for the
   agreement at an event only when no forced change announced on the finalised chain is pending at
   a finalisation): ok/error, set id, authorities, set id per block number and next change per
   live block agree after every event.  Generalises C23_refines_forced_imports.  Simulation
   relation: g_forced = filter (announced by a descendant of the last finalised block) s_forced -
   Substrate keeps the forced changes of abandoned forks (its standard-change tree did not
   change), gossamer prunes them; they can never be enacted or observed. --- *)
Theorem C23_refines_forced_histories : forall t forced evs, wf t = true -> forced_ok forced ->
  agree_run t [] forced [O] O ginit sinit evs.
Proof. exact forced2_refines. Qed.
Print Assumptions C23_refines_forced_histories.

(* non-vacuity: forced changes on two forks (blocks 4 and 5); finalising block 2 abandons the fork
   of block 5 (no forced change is pending on the finalised chain: outside the guard); gossamer
   prunes the change of block 5, Substrate keeps it; importing block 6 enacts the other one *)
Example C23_forced_histories_nonvacuous :
  let t := [O; 1%nat; 1%nat; 2%nat; 3%nat; 4%nat] in
  let forced := [(4%nat, mkpc 4 1 5 0); (5%nat, mkpc 5 1 6 0)] in
  let evs := [Import 1; Import 2; Import 3; Import 4; Import 5; Finalise 2] in
  wf t = true /\
  option_map (fun q => guard_forced_on_finalised t q (Finalise 2))
             (run_spec t [] forced sinit [Import 1; Import 2; Import 3; Import 4; Import 5]) = Some false /\
  map pc_blk (g_forced (fst (run_go fixed t [] forced ginit evs))) = [4%nat] /\
  option_map (fun q => length (s_forced q)) (run_spec t [] forced sinit evs) = Some 2%nat /\
  g_setid (fst (run_go fixed t [] forced ginit (evs ++ [Import 6]))) = 1 /\
  option_map s_setid (run_spec t [] forced sinit (evs ++ [Import 6])) = Some 1.
Proof. vm_compute. repeat split; reflexivity. Qed.

(* --- fourth round: histories that MIX scheduled and forced changes, by induction, on the single
   chain of ANY length: any scheduled and forced announcements (a block may carry both: the forced
   one wins), EVERY history of imports and finalisations of ANY length outside the guard of the
   known finding; all four observers agree after every event.  Covered here and by no other
   inductive theorem: a forced change enacted at import cancels every pending scheduled change
   (both containers reset, Substrate: new ForkTree) unless a pending scheduled change it depends on
   (effective number <= its best-finalized number, announced by an ancestor) is still there - then
   both sides fail; a second forced change on the chain is refused; a finalisation enacts scheduled
   changes and leaves the pending forced change (announced above the finalised block) alone. --- *)
Theorem C23_refines_chain_mixed : forall n sched forced evs, sched_ok sched -> forced_ok forced ->
  agree_run (chain n) sched forced [O] O ginit sinit evs.
Proof. exact mixed_refines. Qed.
Print Assumptions C23_refines_chain_mixed.

(* non-vacuity: block 1 schedules a change (delay 3), block 2 announces a forced change (delay 1):
   importing block 3 enacts the forced change and cancels the scheduled one; block 4 carries both
   kinds, the forced one (delay 0) is enacted at once.  With a scheduled change the forced change
   depends on still pending, the import fails on both sides. *)
Example C23_chain_mixed_nonvacuous :
  let t := chain 5 in
  let sched := [(1%nat, mkpc 1 3 5 0); (4%nat, mkpc 4 0 8 0)] in
  let forced := [(2%nat, mkpc 2 1 6 0); (4%nat, mkpc 4 0 7 3)] in
  let evs := [Import 1; Import 2; Import 3; Import 4] in
  snd (run_go fixed t sched forced ginit evs) = [ROk; ROk; ROk; ROk] /\
  g_setid (fst (run_go fixed t sched forced ginit [Import 1; Import 2; Import 3])) = 1 /\
  g_roots (fst (run_go fixed t sched forced ginit [Import 1; Import 2; Import 3])) = [] /\
  g_auths (fst (run_go fixed t sched forced ginit evs)) = [(0, genesis_auth); (1, 6); (2, 7)] /\
  option_map s_setid (run_spec t sched forced sinit evs) = Some 2 /\
  snd (run_go fixed t [(1%nat, mkpc 1 0 5 0)] [(2%nat, mkpc 2 0 6 1)] ginit [Import 1; Import 2]) = [ROk; RErrForced] /\
  run_spec t [(1%nat, mkpc 1 0 5 0)] [(2%nat, mkpc 2 0 6 1)] sinit [Import 1; Import 2] = None.
Proof. vm_compute. repeat split; reflexivity. Qed.

(* --- fifth round: the MIXED class on ARBITRARY block trees, by induction.  For EVERY well-formed
   block tree (forks included), ANY scheduled and forced announcements (a block may carry both) and
   EVERY history of possible imports and finalisations of ANY length outside the guard of the known
   finding, the repaired Go model and the Substrate specification agree after every event on
   success/failure, current set id, authorities of every set id and set id per block number
   (agree_run3g: the observables the statement names; NextGrandpaAuthorityChange is proved on
   chains and, per kind of change, in C23_refines_forced_histories).  Subsumes
   C23_refines_scheduled_forks, and C23_refines_forced_histories / C23_refines_chain_mixed for these
   three observers.  Relations carried: s_roots = filter known g_roots and
   g_forced = filter live s_forced; new here: ApplyForcedChanges' dependency check across forks
   (gossamer's non-strict `ancestor of` on all roots = Substrate's strict descent on the roots it
   keeps, because a block never holds both a pending scheduled and a pending forced change) and the
   reset of both containers, and Substrate's forced-change filter that runs only when its
   standard-change tree changed (either list it keeps has the same live part). --- *)
Theorem C23_refines_mixed_forks : forall t sched forced evs, wf t = true -> sched_ok sched -> forced_ok forced ->
  agree_run3g t sched forced [O] O ginit sinit evs.
Proof. exact mixed_forks_refines. Qed.
Print Assumptions C23_refines_mixed_forks.

(* non-vacuity: two forks of block 1; fork A (blocks 2, 4) schedules a change in block 2 and
   announces a forced change in block 4 that depends on it (best finalized 2 >= its effective
   number): importing block 6 (child of 4, effective block of the forced change) fails on both sides
   while the scheduled change is pending; fork B (blocks 3, 5) announces a forced change in block 3
   that is enacted at block 5 and cancels everything pending *)
Example C23_mixed_forks_nonvacuous :
  let t := [O; 1%nat; 1%nat; 2%nat; 3%nat; 4%nat] in
  let sched := [(2%nat, mkpc 2 0 5 0)] in
  let forced := [(4%nat, mkpc 4 1 6 2); (3%nat, mkpc 3 1 7 0)] in
  wf t = true /\
  snd (run_go fixed t sched forced ginit [Import 1; Import 2; Import 3; Import 4; Import 6]) = [ROk; ROk; ROk; ROk; RErrForced] /\
  run_spec t sched forced sinit [Import 1; Import 2; Import 3; Import 4; Import 6] = None /\
  g_setid (fst (run_go fixed t sched forced ginit [Import 1; Import 2; Import 3; Import 4; Import 5])) = 1 /\
  g_roots (fst (run_go fixed t sched forced ginit [Import 1; Import 2; Import 3; Import 4; Import 5])) = [] /\
  g_forced (fst (run_go fixed t sched forced ginit [Import 1; Import 2; Import 3; Import 4; Import 5])) = [] /\
  option_map s_setid (run_spec t sched forced sinit [Import 1; Import 2; Import 3; Import 4; Import 5]) = Some 1.
Proof. vm_compute. repeat split; reflexivity. Qed.

(* --- closer round: NextGrandpaAuthorityChange on ARBITRARY block trees, by induction.  For EVERY
   well-formed block tree (forks included), ANY set of scheduled-change announcements and EVERY
   history of possible imports and finalisations of ANY length, the repaired Go model and the
   Substrate specification agree after every event on success/failure and on ALL FOUR observers
   (agree_run, with obs_eq): current set id, authorities of every set id, set id per block number
   AND the next authority change seen from every imported block that descends from the last
   finalised block (pending scheduled changes on several forks included).  No extra hypothesis:
   this is C23_refines_scheduled_forks with the fourth observer added, and generalises
   C23_refines_chain_scheduled.  gossamer answers with the FIRST root of its pending-change forest
   that is announced on the ancestry of the best block and due, the specification with the MINIMUM
   effective number over such roots; the proof carries, next to the simulation relation of Forks.v,
   the nested invariant "sibling nodes of the pending-change forest (roots, and children of every
   node) are pairwise unrelated in the block tree" (NextChangeForks.einv), under which at most one
   root lies on the ancestry of any block (fold_first: first applicable = minimum), and "no pending
   change is announced by genesis" (every effective number is >= 1, so gossamer's 0 = none
   encoding hides nothing). --- *)
From C23 Require Import NextChangeForks.
Theorem C23_next_change_forks : forall t sched evs, wf t = true -> sched_ok sched ->
  agree_run t sched [] [O] O ginit sinit evs.
Proof. exact next_change_forks_refines. Qed.
Print Assumptions C23_next_change_forks.

(* the per-state form, for ANY best block that descends from the last finalised block: in every
   state related by the invariants (kinv of Forks.v, einv) the two observers return the same *)
Theorem C23_next_change_forks_state : forall t imported fin g q best, wf t = true ->
  kinv t imported fin g q -> einv t (g_roots g) -> is_anc t fin best = true ->
  go_next_change fixed t g best = Some (spec_next_change t q best).
Proof. exact next_change_forks_state. Qed.
Print Assumptions C23_next_change_forks_state.

(* non-vacuity: blocks 2 and 3 fork from block 1 and both announce a change (effective numbers 3 and
   2), block 4 (on 2) announces one nested under the root of block 2; both roots are pending at the
   same time.  Seen from block 5 (fork of 3) the FIRST root (block 2) does not apply and the second
   one does; seen from block 6 (fork of 2) the first one does; from block 2 nothing is due yet.
   Finalising block 2 abandons the fork of block 3: its root is pruned on both sides. *)
Example C23_next_change_forks_nonvacuous :
  let t := [O; 1%nat; 1%nat; 2%nat; 3%nat; 4%nat] in
  let sched := [(2%nat, mkpc 2 1 5 0); (3%nat, mkpc 3 0 6 0); (4%nat, mkpc 4 1 7 0)] in
  let evs := [Import 1; Import 2; Import 3; Import 4; Import 5; Import 6] in
  let g := fst (run_go fixed t sched [] ginit evs) in
  let g2 := fst (run_go fixed t sched [] ginit (evs ++ [Finalise 2])) in
  wf t = true /\
  map nblk (g_roots g) = [2%nat; 3%nat] /\
  map (fun n => map nblk (n_children n)) (g_roots g) = [[4%nat]; []] /\
  map (go_next_change fixed t g) [2%nat; 3%nat; 5%nat; 6%nat]
    = [Some None; Some (Some 2); Some (Some 2); Some (Some 3)] /\
  option_map (fun q => map (spec_next_change t q) [2%nat; 3%nat; 5%nat; 6%nat]) (run_spec t sched [] sinit evs)
    = Some [None; Some 2; Some 2; Some 3] /\
  map nblk (g_roots g2) = [2%nat] /\
  go_next_change fixed t g2 6 = Some (Some 3) /\
  option_map (fun q => (map nblk (s_roots q), spec_next_change t q 6)) (run_spec t sched [] sinit (evs ++ [Finalise 2]))
    = Some ([2%nat], Some 3).
Proof. vm_compute. repeat split; reflexivity. Qed.

(* --- closer round 2: ALL FOUR observers for the MIXED class on ARBITRARY block trees, by induction.
   For EVERY well-formed block tree (forks included), ANY scheduled and forced announcements (a block
   may carry both) and EVERY history of possible imports and finalisations of ANY length outside the
   guard of the known finding forced-change-on-finalised-chain, the repaired Go model and the
   Substrate specification agree after every event on success/failure and on ALL FOUR observers
   (agree_run, with obs_eq): current set id, authorities of every set id, set id per block number AND
   the next authority change seen from every imported block that descends from the last finalised
   block, with scheduled changes pending on several forks and forced changes pending next to them
   (on live and on abandoned forks).  No extra hypothesis beyond those of C23_refines_mixed_forks:
   this is that theorem with the fourth observer added; it subsumes C23_next_change_forks
   (forced = []), C23_refines_forced_histories and C23_refines_chain_mixed.  The proof carries
   MixedForks.xinv and NextChangeForks.einv together (einv_xstep: a forced change that takes effect
   empties the forest, everything else is as in the scheduled-only case); in a related state gossamer's
   "first applicable forced change of its live list, first applicable root, then the smaller one with
   0 = none" equals Substrate's minimum over the roots it keeps folded on over all its forced changes:
   roots by fold_first (siblings unrelated), forced list because it is sorted (fold_min_sorted_acc),
   dead-fork forced entries never lie on the ancestry of a live block, all effective numbers >= 1. --- *)
From C23 Require Import MixedForksNext.
Theorem C23_refines_mixed_forks_all_observers : forall t sched forced evs, wf t = true -> sched_ok sched ->
  forced_ok forced -> agree_run t sched forced [O] O ginit sinit evs.
Proof. exact mixed_forks_all_observers. Qed.
Print Assumptions C23_refines_mixed_forks_all_observers.

(* the per-state form, for ANY best block that descends from the last finalised block (imported or
   not): in every state related by the two invariants the two observers return the same *)
Theorem C23_mixed_forks_next_change_state : forall t imported fin g q best, wf t = true ->
  xinv t imported fin g q -> einv t (g_roots g) -> is_anc t fin best = true ->
  go_next_change fixed t g best = Some (spec_next_change t q best).
Proof. exact mixed_forks_next_change_state. Qed.
Print Assumptions C23_mixed_forks_next_change_state.

(* non-vacuity: blocks 2 and 3 fork from block 1; block 2 schedules a change (effective number 5, or
   3 in the second configuration), block 4 (on 2) announces a forced change (effective 4), block 3
   announces a forced change on the other fork (effective 4).  After importing 1..5 one root and two
   forced changes are pending.  Seen from blocks 4 and 5 nothing is due; from block 6 (number 4, on
   fork 2-4) the forced change of block 4 is due; from block 7 (number 5) both the forced change and
   the scheduled one are due and the smaller effective number wins on both sides (4, resp. 3 when
   the scheduled change has delay 1).  Finalising block 2 (outside the guard) abandons the fork of
   block 3: gossamer drops its forced change, Substrate keeps it (its tree did not change), the
   observers still agree. *)
Example C23_mixed_forks_all_observers_nonvacuous :
  let t := [O; 1%nat; 1%nat; 2%nat; 3%nat; 4%nat; 6%nat] in
  let sched := [(2%nat, mkpc 2 3 5 0)] in let sched1 := [(2%nat, mkpc 2 1 5 0)] in
  let forced := [(4%nat, mkpc 4 1 6 0); (3%nat, mkpc 3 2 7 0)] in
  let evs := [Import 1; Import 2; Import 3; Import 4; Import 5] in
  let g := fst (run_go fixed t sched forced ginit evs) in
  let g1 := fst (run_go fixed t sched1 forced ginit evs) in
  let g2 := fst (run_go fixed t sched forced ginit (evs ++ [Finalise 2])) in
  wf t = true /\
  snd (run_go fixed t sched forced ginit (evs ++ [Finalise 2])) = [ROk; ROk; ROk; ROk; ROk; ROk] /\
  (map nblk (g_roots g), map pc_blk (g_forced g)) = ([2%nat], [3%nat; 4%nat]) /\
  map (go_next_change fixed t g) [4%nat; 5%nat; 6%nat; 7%nat] = [Some None; Some None; Some (Some 4); Some (Some 4)] /\
  option_map (fun q => map (spec_next_change t q) [4%nat; 5%nat; 6%nat; 7%nat]) (run_spec t sched forced sinit evs)
    = Some [None; None; Some 4; Some 4] /\
  go_next_change fixed t g1 7 = Some (Some 3) /\
  option_map (fun q => spec_next_change t q 7) (run_spec t sched1 forced sinit evs) = Some (Some 3) /\
  option_map (fun q => guard_forced_on_finalised t q (Finalise 2)) (run_spec t sched forced sinit evs) = Some false /\
  (map nblk (g_roots g2), map pc_blk (g_forced g2)) = ([2%nat], [4%nat]) /\
  map (go_next_change fixed t g2) [4%nat; 6%nat; 7%nat] = [Some None; Some (Some 4); Some (Some 4)] /\
  option_map (fun q => (map nblk (s_roots q), map pc_blk (s_forced q), map (spec_next_change t q) [4%nat; 6%nat; 7%nat]))
             (run_spec t sched forced sinit (evs ++ [Finalise 2]))
    = Some ([2%nat], [3%nat; 4%nat], [None; Some 4; Some 4]).
Proof. vm_compute. repeat split; reflexivity. Qed.

(* --- refinement, exhaustive small scope.  For EVERY well-formed block tree with at most 3
   blocks besides genesis, every assignment of at most 2 change announcements (scheduled or
   forced, delays 0..2, every best-finalized number up to the block's own) and EVERY order of
   importing (parent first, on live forks) and finalising its blocks: after every event the
   repaired Go model and the Substrate specification agree on success/failure, the current set
   id, the authorities of every set id, the set id reported for every block number, and the
   next authority change for every live block -- except from a finalisation on that finds a
   pending forced change announced on the finalised chain (known finding
   forced-change-on-finalised-chain).  Same for 4 blocks with 1 announcement and delays 0..1 (C23_refines_bounded_4); the scopes
   4 blocks / 2 announcements / delays 0..2, 5 blocks and 6 blocks are swept by the extracted code
   on every run (props/C23/hooks.py, evidence `exhaustive_scopes`). --- *)
Theorem C23_refines_bounded : forall t, wf t = true -> (length t <= 3)%nat ->
  forall sf, In sf (change_sets (S (length t)) t 2 2 1) ->
  explore (2 * length t + 1) t (fst sf) (snd sf) [O] O ginit sinit = true.
Proof. exact bounded_3. Qed.
Print Assumptions C23_refines_bounded.

(* the same in terms of event lists: along EVERY history (list of events, each one possible in
   the state reached, i.e. parent-first imports on live forks and finalisations of descendants of
   the last finalised block) over such a tree and announcement set, outside the guard *)
Theorem C23_refines_bounded_histories : forall t, wf t = true -> (length t <= 3)%nat ->
  forall sf, In sf (change_sets (S (length t)) t 2 2 1) ->
  forall evs, (length evs <= 2 * length t + 1)%nat ->
  agree_run t (fst sf) (snd sf) [O] O ginit sinit evs.
Proof. exact bounded_3_histories. Qed.
Print Assumptions C23_refines_bounded_histories.

Theorem C23_refines_bounded_4 : forall t, wf t = true -> length t = 4%nat ->
  forall sf, In sf (change_sets (S (length t)) t 1 1 1) ->
  explore (2 * length t + 1) t (fst sf) (snd sf) [O] O ginit sinit = true.
Proof. exact bounded_4. Qed.
Print Assumptions C23_refines_bounded_4.

(* what `explore ... = true` means for one more event of a history *)
Theorem C23_explore_meaning : forall f t sched forced imported fin g q e,
  explore (S f) t sched forced imported fin g q = true ->
  In e (next_events t imported fin) -> guard_forced_on_finalised t q e = false ->
  match spec_step t sched forced q e with
  | None => is_rok (snd (go_step fixed t sched forced g e)) = false
  | Some q' =>
    let g' := fst (go_step fixed t sched forced g e) in
    let imported' := match e with Import b => b :: imported | Finalise _ => imported end in
    let fin' := match e with Import _ => fin | Finalise b => b end in
    is_rok (snd (go_step fixed t sched forced g e)) = true /\ obs_eq t imported' g' q' = true /\
    explore f t sched forced imported' fin' g' q' = true
  end.
Proof. exact explore_step. Qed.
Print Assumptions C23_explore_meaning.

(* non-vacuity: a history in which a scheduled change (delay 1) is enacted by a finalisation
   and a forced change by an import, both models in agreement *)
Example C23_nonvacuous :
  let t := [O; 1%nat; 2%nat; 3%nat] in
  let sched := [(1%nat, mkpc 1 1 5 0)] in let forced := [(3%nat, mkpc 3 1 6 2)] in
  let evs := [Import 1; Import 2; Finalise 2; Import 3; Import 4] in
  let g := fst (run_go fixed t sched forced ginit evs) in
  g_setid g = 2 /\ g_auths g = [(0, genesis_auth); (1, 5); (2, 6)] /\ g_changes g = [(0, 0); (1, 2); (2, 2)] /\
  option_map s_setid (run_spec t sched forced sinit evs) = Some 2 /\
  option_map s_changes (run_spec t sched forced sinit evs) = Some [(0, 2); (1, 2)].
Proof. vm_compute. repeat split; reflexivity. Qed.

(* ---------------- the pinned code, one witness per repaired defect ---------------- *)
Definition only (k : nat) : variant :=     (* all repairs applied except number k *)
  mkvariant (negb (Nat.eqb k 1)) (negb (Nat.eqb k 2)) (negb (Nat.eqb k 3)) (negb (Nat.eqb k 4)) (negb (Nat.eqb k 5)).

(* forced change (block 2, best finalized 1, delay 0): Substrate says block 2 belongs to set 1 *)
Theorem C23_forced_setid_prefix_refuted :
  let t := [O; 1%nat] in let forced := [(2%nat, mkpc 2 0 1 1)] in
  let evs := [Import 1; Finalise 1; Import 2] in
  go_setid_by_number (fst (run_go (only 2) t [] forced ginit evs)) 2 = Some 0 /\
  option_map (fun q => spec_setid_by_number q 2) (run_spec t [] forced sinit evs) = Some 1 /\
  go_setid_by_number (fst (run_go fixed t [] forced ginit evs)) 2 = Some 1.
Proof. vm_compute. repeat split; reflexivity. Qed.
Print Assumptions C23_forced_setid_prefix_refuted.

(* scheduled change in block 1 with delay 2: finalising block 2 dropped it *)
Theorem C23_scheduled_prune_prefix_refuted :
  let t := [O; 1%nat; 2%nat; 3%nat] in let sched := [(1%nat, mkpc 1 2 5 0)] in
  let evs := [Import 1; Import 2; Import 3; Import 4; Finalise 2; Finalise 3] in
  g_setid (fst (run_go (only 3) t sched [] ginit evs)) = 0 /\
  option_map s_setid (run_spec t sched [] sinit evs) = Some 1 /\
  g_setid (fst (run_go fixed t sched [] ginit evs)) = 1.
Proof. vm_compute. repeat split; reflexivity. Qed.
Print Assumptions C23_scheduled_prune_prefix_refuted.

(* scheduled change on a fork that the finalisation abandons: ApplyScheduledChanges fails, the
   stale change stays, the next announcement on the live fork cannot even be imported, and
   every later finalisation fails again: the change of the finalised fork is never enacted *)
Theorem C23_pruned_fork_prefix_refuted :
  let t := [O; O; 1%nat] in let sched := [(2%nat, mkpc 2 0 5 0); (3%nat, mkpc 3 0 6 0)] in
  let evs := [Import 1; Import 2; Finalise 1; Import 3; Finalise 3] in
  snd (run_go (only 4) t sched [] ginit evs) = [ROk; ROk; RErrSched; RErrDigest; RErrSched] /\
  g_setid (fst (run_go (only 4) t sched [] ginit evs)) = 0 /\
  option_map s_setid (run_spec t sched [] sinit evs) = Some 1 /\
  g_setid (fst (run_go fixed t sched [] ginit evs)) = 1.
Proof. vm_compute. repeat split; reflexivity. Qed.
Print Assumptions C23_pruned_fork_prefix_refuted.

(* scheduled change (effective 2) enacted by finalising block 4: block 3 was finalised by set 0 *)
Theorem C23_scheduled_setid_prefix_refuted :
  let t := [O; 1%nat; 2%nat; 3%nat] in let sched := [(1%nat, mkpc 1 1 5 0)] in
  let evs := [Import 1; Import 2; Import 3; Import 4; Finalise 4] in
  go_setid_by_number (fst (run_go (only 5) t sched [] ginit evs)) 3 = Some 1 /\
  option_map (fun q => spec_setid_by_number q 3) (run_spec t sched [] sinit evs) = Some 0 /\
  go_setid_by_number (fst (run_go fixed t sched [] ginit evs)) 3 = Some 0.
Proof. vm_compute. repeat split; reflexivity. Qed.
Print Assumptions C23_scheduled_setid_prefix_refuted.

(* known finding forced-change-on-finalised-chain (kept: the repaired model still differs) *)
Theorem C23_forced_on_finalised_chain_refuted :
  let t := [O; 1%nat; 2%nat] in let forced := [(1%nat, mkpc 1 2 1 0)] in
  let evs := [Import 1; Import 2; Finalise 2; Import 3] in
  g_setid (fst (run_go fixed t [] forced ginit evs)) = 0 /\
  option_map s_setid (run_spec t [] forced sinit evs) = Some 1 /\
  option_map (fun q => guard_forced_on_finalised t q (Finalise 2))
             (run_spec t [] forced sinit [Import 1; Import 2]) = Some true.
Proof. vm_compute. repeat split; reflexivity. Qed.
Print Assumptions C23_forced_on_finalised_chain_refuted.
