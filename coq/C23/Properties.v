From C23 Require Import Model Proofs.
