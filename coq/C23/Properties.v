(* C23/Properties.v -- property C23: authority set changes are applied as Substrate applies them.
   Model.go_step (variant `fixed`) mirrors grandpa.go / grandpa_changes.go after the five repairs
   fixes/C23-*.patch; Spec.spec_step is Substrate's AuthoritySet (authorities.rs, fork-tree).
   `prefix` = the pinned code, only used by the ..._prefix_refuted witnesses. *)
From Coq Require Import NArith List Bool Arith.
From C23 Require Import Model Spec Enum Proofs Bounded.
Import ListNotations.
Local Open Scope N_scope.

(* --- pending forced changes stay ordered: sort.Search with the repaired predicate inserts at
   Substrate's position (binary_search_by_key on (effective number, announcing number)), for
   every ordered list of any length --- *)
Theorem C23_forced_order : forall t l c, sorted_by_key t l = true ->
  forced_insert fixed_pred t l c = s_forced_insert t l c /\
  sorted_by_key t (forced_insert fixed_pred t l c) = true.
Proof.
  intros t l c H. split; [apply forced_insert_fixed; exact H|].
  rewrite forced_insert_fixed by exact H. apply s_forced_insert_sorted. exact H.
Qed.
Print Assumptions C23_forced_order.

(* the pinned predicate (conjunction of two >=) breaks the order *)
Theorem C23_forced_order_prefix_refuted : exists t l c,
  sorted_by_key t l = true /\ sorted_by_key t (forced_insert prefix_pred t l c) = false.
Proof.
  exists [O; 1%nat; 2%nat; 1%nat], [mkpc 4 3 5 0], (mkpc 3 1 6 0). vm_compute. split; reflexivity.
Qed.
Print Assumptions C23_forced_order_prefix_refuted.

(* --- set id reported for a block number: gossamer's table (set id -> block at which the set
   began) read by GetSetIDByBlockNumber equals Substrate's authority_set_changes lookup, for
   every non-decreasing sequence ls of last-block numbers, of any length --- *)
Theorem C23_setid_by_number : forall chs ls n, sorted_n ls = true -> go_table_ok chs ls ->
  setid_loop (S (S (length ls))) chs n (N.of_nat (length ls)) =
  Some (match s_setid_in (spec_table_from 0 ls) n with Some id => id | None => N.of_nat (length ls) end).
Proof. exact setid_lookup_agrees. Qed.
Print Assumptions C23_setid_by_number.

(* --- set ids grow by one per change (every step, every state, both sides) --- *)
Theorem C23_set_id_increments_by_one : forall v t sched forced s e,
  g_setid (fst (go_step v t sched forced s e)) = g_setid s \/
  g_setid (fst (go_step v t sched forced s e)) = g_setid s + 1.
Proof. exact go_step_setid. Qed.
Print Assumptions C23_set_id_increments_by_one.

Theorem C23_spec_set_id_increments_by_one : forall t sched forced q e q',
  spec_step t sched forced q e = Some q' -> s_setid q' = s_setid q \/ s_setid q' = s_setid q + 1.
Proof. exact spec_step_setid. Qed.
Print Assumptions C23_spec_set_id_increments_by_one.

(* --- refinement, exhaustive small scope.  For EVERY well-formed block tree with at most 3
   blocks besides genesis, every assignment of at most 2 change announcements (scheduled or
   forced, delays 0..2, every best-finalized number up to the block's own) and EVERY order of
   importing (parent first, on live forks) and finalising its blocks: after every event the
   repaired Go model and the Substrate specification agree on success/failure, the current set
   id, the authorities of every set id, the set id reported for every block number, and the
   next authority change for every live block -- except from a finalisation on that finds a
   pending forced change announced on the finalised chain (known finding
   forced-change-on-finalised-chain).  Same for 4 blocks (C23_refines_bounded_4), and for 5 blocks with 1 announcement and delays 0..1
   (C23_refines_bounded_5). --- *)
Theorem C23_refines_bounded : forall t, wf t = true -> (length t <= 3)%nat ->
  forall sf, In sf (change_sets (S (length t)) t 2 2 1) ->
  explore (2 * length t + 1) t (fst sf) (snd sf) [O] O ginit sinit = true.
Proof. exact bounded_3. Qed.
Print Assumptions C23_refines_bounded.

Theorem C23_refines_bounded_4 : forall t, wf t = true -> length t = 4%nat ->
  forall sf, In sf (change_sets (S (length t)) t 2 2 1) ->
  explore (2 * length t + 1) t (fst sf) (snd sf) [O] O ginit sinit = true.
Proof. exact bounded_4. Qed.
Print Assumptions C23_refines_bounded_4.

Theorem C23_refines_bounded_5 : forall t, wf t = true -> length t = 5%nat ->
  forall sf, In sf (change_sets (S (length t)) t 1 1 1) ->
  explore (2 * length t + 1) t (fst sf) (snd sf) [O] O ginit sinit = true.
Proof. exact bounded_5. Qed.
Print Assumptions C23_refines_bounded_5.

(* what `explore ... = true` means for one more event of a history *)
Theorem C23_explore_meaning : forall f t sched forced imported fin g q e,
  explore (S f) t sched forced imported fin g q = true ->
  In e (next_events t imported fin) -> guard_forced_on_finalised t q e = false ->
  match spec_step t sched forced q e with
  | None => is_rok (snd (go_step fixed t sched forced g e)) = false
  | Some q' =>
    let g' := fst (go_step fixed t sched forced g e) in
    let imported' := match e with Import b => b :: imported | Finalise _ => imported end in
    let fin' := match e with Import _ => fin | Finalise b => b end in
    is_rok (snd (go_step fixed t sched forced g e)) = true /\ obs_eq t imported' g' q' = true /\
    explore f t sched forced imported' fin' g' q' = true
  end.
Proof. exact explore_step. Qed.
Print Assumptions C23_explore_meaning.

(* non-vacuity: a history in which a scheduled change (delay 1) is enacted by a finalisation
   and a forced change by an import, both models in agreement *)
Example C23_nonvacuous :
  let t := [O; 1%nat; 2%nat; 3%nat] in
  let sched := [(1%nat, mkpc 1 1 5 0)] in let forced := [(3%nat, mkpc 3 1 6 2)] in
  let evs := [Import 1; Import 2; Finalise 2; Import 3; Import 4] in
  let g := fst (run_go fixed t sched forced ginit evs) in
  g_setid g = 2 /\ g_auths g = [(0, genesis_auth); (1, 5); (2, 6)] /\ g_changes g = [(0, 0); (1, 2); (2, 2)] /\
  option_map s_setid (run_spec t sched forced sinit evs) = Some 2 /\
  option_map s_changes (run_spec t sched forced sinit evs) = Some [(0, 2); (1, 2)].
Proof. vm_compute. repeat split; reflexivity. Qed.

(* ---------------- the pinned code, one witness per repaired defect ---------------- *)
Definition only (k : nat) : variant :=     (* all repairs applied except number k *)
  mkvariant (negb (Nat.eqb k 1)) (negb (Nat.eqb k 2)) (negb (Nat.eqb k 3)) (negb (Nat.eqb k 4)) (negb (Nat.eqb k 5)).

(* forced change (block 2, best finalized 1, delay 0): Substrate says block 2 belongs to set 1 *)
Theorem C23_forced_setid_prefix_refuted :
  let t := [O; 1%nat] in let forced := [(2%nat, mkpc 2 0 1 1)] in
  let evs := [Import 1; Finalise 1; Import 2] in
  go_setid_by_number (fst (run_go (only 2) t [] forced ginit evs)) 2 = Some 0 /\
  option_map (fun q => spec_setid_by_number q 2) (run_spec t [] forced sinit evs) = Some 1 /\
  go_setid_by_number (fst (run_go fixed t [] forced ginit evs)) 2 = Some 1.
Proof. vm_compute. repeat split; reflexivity. Qed.
Print Assumptions C23_forced_setid_prefix_refuted.

(* scheduled change in block 1 with delay 2: finalising block 2 dropped it *)
Theorem C23_scheduled_prune_prefix_refuted :
  let t := [O; 1%nat; 2%nat; 3%nat] in let sched := [(1%nat, mkpc 1 2 5 0)] in
  let evs := [Import 1; Import 2; Import 3; Import 4; Finalise 2; Finalise 3] in
  g_setid (fst (run_go (only 3) t sched [] ginit evs)) = 0 /\
  option_map s_setid (run_spec t sched [] sinit evs) = Some 1 /\
  g_setid (fst (run_go fixed t sched [] ginit evs)) = 1.
Proof. vm_compute. repeat split; reflexivity. Qed.
Print Assumptions C23_scheduled_prune_prefix_refuted.

(* scheduled change on a fork that the finalisation abandons: ApplyScheduledChanges fails, the
   stale change stays, the next announcement on the live fork cannot even be imported, and
   every later finalisation fails again: the change of the finalised fork is never enacted *)
Theorem C23_pruned_fork_prefix_refuted :
  let t := [O; O; 1%nat] in let sched := [(2%nat, mkpc 2 0 5 0); (3%nat, mkpc 3 0 6 0)] in
  let evs := [Import 1; Import 2; Finalise 1; Import 3; Finalise 3] in
  snd (run_go (only 4) t sched [] ginit evs) = [ROk; ROk; RErrSched; RErrDigest; RErrSched] /\
  g_setid (fst (run_go (only 4) t sched [] ginit evs)) = 0 /\
  option_map s_setid (run_spec t sched [] sinit evs) = Some 1 /\
  g_setid (fst (run_go fixed t sched [] ginit evs)) = 1.
Proof. vm_compute. repeat split; reflexivity. Qed.
Print Assumptions C23_pruned_fork_prefix_refuted.

(* scheduled change (effective 2) enacted by finalising block 4: block 3 was finalised by set 0 *)
Theorem C23_scheduled_setid_prefix_refuted :
  let t := [O; 1%nat; 2%nat; 3%nat] in let sched := [(1%nat, mkpc 1 1 5 0)] in
  let evs := [Import 1; Import 2; Import 3; Import 4; Finalise 4] in
  go_setid_by_number (fst (run_go (only 5) t sched [] ginit evs)) 3 = Some 1 /\
  option_map (fun q => spec_setid_by_number q 3) (run_spec t sched [] sinit evs) = Some 0 /\
  go_setid_by_number (fst (run_go fixed t sched [] ginit evs)) 3 = Some 0.
Proof. vm_compute. repeat split; reflexivity. Qed.
Print Assumptions C23_scheduled_setid_prefix_refuted.

(* known finding forced-change-on-finalised-chain (kept: the repaired model still differs) *)
Theorem C23_forced_on_finalised_chain_refuted :
  let t := [O; 1%nat; 2%nat] in let forced := [(1%nat, mkpc 1 2 1 0)] in
  let evs := [Import 1; Import 2; Finalise 2; Import 3] in
  g_setid (fst (run_go fixed t [] forced ginit evs)) = 0 /\
  option_map s_setid (run_spec t [] forced sinit evs) = Some 1 /\
  option_map (fun q => guard_forced_on_finalised t q (Finalise 2))
             (run_spec t [] forced sinit [Import 1; Import 2]) = Some true.
Proof. vm_compute. repeat split; reflexivity. Qed.
Print Assumptions C23_forced_on_finalised_chain_refuted.
