(* C23/Chain.v -- second-round addition: an INDUCTIVE refinement proof for a fragment of the
   histories: scheduled changes (no forced ones) on a single chain of any length, with any
   announcements (any blocks, any delays) and any interleaving of imports and finalisations of
   any length.  The repaired Go model and the Substrate specification agree after every event
   on success/failure and on all four observers (agree_run of Bounded.v, without its bounds). *)
From Coq Require Import NArith List Bool Arith Lia.
From C23 Require Import Model Spec Enum Proofs Local Reach Bounded.
Import ListNotations.
Local Open Scope N_scope.

(* ---- the chain 0 <- 1 <- ... <- n ---- *)
Definition chain (n : nat) : tree := seq 0 n.

Lemma chain_length : forall n, length (chain n) = n.
Proof. intros. apply seq_length. Qed.

Lemma chain_parent : forall n j, (j < n)%nat -> parent (chain n) (S j) = j.
Proof. intros. unfold parent, chain. rewrite seq_nth by assumption. reflexivity. Qed.

Lemma chain_path_f : forall n f i, (i < f)%nat -> (i <= n)%nat ->
  path_f f (chain n) i = rev (seq 0 (S i)).
Proof.
  intros n. induction f as [|f IH]; intros i Hf Hn; [lia|].
  cbn [path_f]. destruct i as [|j].
  - reflexivity.
  - rewrite chain_parent by lia. rewrite IH by lia.
    rewrite (seq_S (S j) 0). rewrite rev_app_distr. reflexivity.
Qed.

Lemma chain_path : forall n i, (i <= n)%nat -> path (chain n) i = rev (seq 0 (S i)).
Proof. intros. unfold path. apply chain_path_f; lia. Qed.

Lemma chain_is_anc : forall n a d, (d <= n)%nat -> is_anc (chain n) a d = (a <=? d)%nat.
Proof.
  intros n a d H. unfold is_anc. rewrite chain_path by exact H.
  apply Bool.eq_iff_eq_true. rewrite existsb_exists. split.
  - intros [x [Hin E]]. apply Nat.eqb_eq in E. subst x. apply in_rev in Hin.
    apply in_seq in Hin. apply Nat.leb_le. lia.
  - intros E. apply Nat.leb_le in E. exists a. split; [|apply Nat.eqb_refl].
    apply in_rev. rewrite rev_involutive. apply in_seq. lia.
Qed.

Lemma chain_number : forall n d, (d <= n)%nat -> number (chain n) d = N.of_nat d.
Proof.
  intros n d H. unfold number. rewrite chain_path by exact H.
  rewrite rev_length, seq_length. reflexivity.
Qed.

Lemma chain_rel : forall n fin a d, (fin <= n)%nat -> (a <= n)%nat -> (d <= n)%nat ->
  rel (chain n) fin a d = (a <=? d)%nat.
Proof.
  intros n fin a d Hf Ha Hd. unfold rel, known. rewrite !chain_is_anc by assumption.
  destruct (Nat.eqb a d) eqn:E.
  - apply Nat.eqb_eq in E. subst. symmetry. apply Nat.leb_le. lia.
  - cbn [orb].
    assert (K1 : ((a <=? fin)%nat || (fin <=? a)%nat) = true).
    { destruct (a <=? fin)%nat eqn:X; [reflexivity|]. apply Nat.leb_gt in X. apply Nat.leb_le. lia. }
    assert (K2 : ((d <=? fin)%nat || (fin <=? d)%nat) = true).
    { destruct (d <=? fin)%nat eqn:X; [reflexivity|]. apply Nat.leb_gt in X. apply Nat.leb_le. lia. }
    rewrite K1, K2. reflexivity.
Qed.

Lemma chain_desc : forall n fin a d, (fin <= n)%nat -> (a <= n)%nat -> (d <= n)%nat ->
  desc fixed (chain n) fin a d = Some (a <=? d)%nat.
Proof. intros. rewrite desc_fixed. fold (rel (chain n) fin a d). rewrite chain_rel by assumption. reflexivity. Qed.

Lemma chain_sdesc : forall n a d, (d <= n)%nat -> sdesc (chain n) a d = (a <? d)%nat.
Proof.
  intros n a d H. unfold sdesc. rewrite chain_is_anc by exact H.
  destruct (Nat.eqb a d) eqn:E; cbn [negb andb].
  - apply Nat.eqb_eq in E. subst. symmetry. apply Nat.ltb_ge. lia.
  - apply Nat.eqb_neq in E. destruct (a <=? d)%nat eqn:L.
    + apply Nat.leb_le in L. symmetry. apply Nat.ltb_lt. lia.
    + apply Nat.leb_gt in L. symmetry. apply Nat.ltb_ge. lia.
Qed.

Lemma chain_eff : forall n c, (pc_blk c <= n)%nat -> eff (chain n) c = N.of_nat (pc_blk c) + pc_delay c.
Proof. intros. unfold eff. rewrite chain_number by assumption. reflexivity. Qed.

(* ---- pending scheduled changes on a chain form a path: one root, one child each ---- *)
Fixpoint of_list (l : list pchange) : list node :=
  match l with [] => [] | c :: r => [Node c (of_list r)] end.

Lemma of_list_snoc_nil : forall c, of_list [c] = [Node c []].
Proof. reflexivity. Qed.

(* the nested recursion of importNode over the children, as a function of its own *)
Fixpoint import_into (v : variant) (t : tree) (fin : nat) (c : pchange) (l : list node)
  : option (option (list node)) :=
  match l with
  | [] => Some None
  | x :: r => match import_node v t fin c x with
              | None => None
              | Some (Some x') => Some (Some (x' :: r))
              | Some None => match import_into v t fin c r with
                             | None => None
                             | Some (Some r') => Some (Some (x :: r'))
                             | Some None => Some None
                             end
              end
  end.

Lemma import_node_unfold : forall v t fin c nc ch,
  import_node v t fin c (Node nc ch) =
  if Nat.eqb (pc_blk c) (pc_blk nc) then None
  else match desc v t fin (pc_blk nc) (pc_blk c) with
       | None => None
       | Some false => Some None
       | Some true =>
         if number t (pc_blk c) <=? number t (pc_blk nc) then Some None
         else match import_into v t fin c ch with
              | None => None
              | Some (Some ch') => Some (Some (Node nc ch'))
              | Some None => Some (Some (Node nc (ch ++ [Node c []])))
              end
       end.
Proof.
  intros v t fin c nc ch. cbn [import_node].
  destruct (Nat.eqb (pc_blk c) (pc_blk nc)); [reflexivity|].
  destruct (desc v t fin (pc_blk nc) (pc_blk c)) as [[|]|]; try reflexivity.
  destruct (number t (pc_blk c) <=? number t (pc_blk nc)); [reflexivity|].
  match goal with |- match ?f ch with _ => _ end = _ =>
    assert (E : forall l, f l = import_into v t fin c l) end.
  { induction l as [|x l IHl]; [reflexivity|]. cbn [import_into]. rewrite <- IHl. reflexivity. }
  rewrite E. reflexivity.
Qed.

(* pendingChangeNode.importNode / changeTree.importChange: the new change goes to the bottom *)
Lemma go_import_node_chain : forall n fin c, (fin <= n)%nat -> (pc_blk c <= n)%nat ->
  forall r nc, (pc_blk nc < pc_blk c)%nat -> (forall x, In x r -> (pc_blk x < pc_blk c)%nat) ->
  import_node fixed (chain n) fin c (Node nc (of_list r)) = Some (Some (Node nc (of_list (r ++ [c])))).
Proof.
  intros n fin c Hf Hc. induction r as [|c2 r IH]; intros nc Hnc Hr; rewrite import_node_unfold.
  - assert (E : Nat.eqb (pc_blk c) (pc_blk nc) = false) by (apply Nat.eqb_neq; lia). rewrite E.
    rewrite chain_desc by lia.
    assert (L : (pc_blk nc <=? pc_blk c)%nat = true) by (apply Nat.leb_le; lia). rewrite L.
    rewrite !chain_number by lia.
    assert (M : (N.of_nat (pc_blk c) <=? N.of_nat (pc_blk nc)) = false) by (apply N.leb_gt; lia). rewrite M.
    reflexivity.
  - assert (E : Nat.eqb (pc_blk c) (pc_blk nc) = false) by (apply Nat.eqb_neq; lia). rewrite E.
    rewrite chain_desc by lia.
    assert (L : (pc_blk nc <=? pc_blk c)%nat = true) by (apply Nat.leb_le; lia). rewrite L.
    rewrite !chain_number by lia.
    assert (M : (N.of_nat (pc_blk c) <=? N.of_nat (pc_blk nc)) = false) by (apply N.leb_gt; lia). rewrite M.
    cbn [of_list import_into app].
    rewrite (IH c2 (Hr c2 (or_introl eq_refl)) (fun x Hx => Hr x (or_intror Hx))).
    reflexivity.
Qed.

Lemma go_import_roots_chain : forall n fin c L, (fin <= n)%nat -> (pc_blk c <= n)%nat ->
  (forall x, In x L -> (pc_blk x < pc_blk c)%nat) ->
  import_roots fixed (chain n) fin c (of_list L) = Some (of_list (L ++ [c])).
Proof.
  intros n fin c L Hf Hc HL. destruct L as [|c1 r]; [reflexivity|].
  cbn [of_list import_roots app].
  rewrite (go_import_node_chain n fin c Hf Hc r c1 (HL c1 (or_introl eq_refl)) (fun x Hx => HL x (or_intror Hx))).
  reflexivity.
Qed.

(* ---- the same for ForkTree::import ---- *)
Fixpoint s_import_into (t : tree) (c : pchange) (l : list node) : option (option (list node)) :=
  match l with
  | [] => Some None
  | x :: r => match s_import_node t c x with
              | None => None
              | Some (Some x') => Some (Some (x' :: r))
              | Some None => match s_import_into t c r with
                             | None => None
                             | Some (Some r') => Some (Some (x :: r'))
                             | Some None => Some None
                             end
              end
  end.

Lemma s_import_node_unfold : forall t c nc ch,
  s_import_node t c (Node nc ch) =
  if number t (pc_blk c) <=? number t (pc_blk nc) then Some None
  else match s_import_into t c ch with
       | None => None
       | Some (Some ch') => Some (Some (Node nc ch'))
       | Some None =>
         if sdesc t (pc_blk nc) (pc_blk c) then
           if existsb (fun x => Nat.eqb (pc_blk (n_change x)) (pc_blk c)) ch then None
           else Some (Some (Node nc (ch ++ [Node c []])))
         else Some None
       end.
Proof.
  intros t c nc ch. cbn [s_import_node].
  destruct (number t (pc_blk c) <=? number t (pc_blk nc)); [reflexivity|].
  match goal with |- match ?f ch with _ => _ end = _ =>
    assert (E : forall l, f l = s_import_into t c l) end.
  { induction l as [|x l IHl]; [reflexivity|]. cbn [s_import_into]. rewrite <- IHl. reflexivity. }
  rewrite E. reflexivity.
Qed.

Lemma spec_import_node_chain : forall n c, (pc_blk c <= n)%nat ->
  forall r nc, (pc_blk nc < pc_blk c)%nat -> (forall x, In x r -> (pc_blk x < pc_blk c)%nat) ->
  s_import_node (chain n) c (Node nc (of_list r)) = Some (Some (Node nc (of_list (r ++ [c])))).
Proof.
  intros n c Hc. induction r as [|c2 r IH]; intros nc Hnc Hr; rewrite s_import_node_unfold.
  - rewrite !chain_number by lia.
    assert (M : (N.of_nat (pc_blk c) <=? N.of_nat (pc_blk nc)) = false) by (apply N.leb_gt; lia). rewrite M.
    cbn [of_list s_import_into existsb app]. rewrite chain_sdesc by lia.
    assert (L : (pc_blk nc <? pc_blk c)%nat = true) by (apply Nat.ltb_lt; lia). rewrite L. reflexivity.
  - rewrite !chain_number by lia.
    assert (M : (N.of_nat (pc_blk c) <=? N.of_nat (pc_blk nc)) = false) by (apply N.leb_gt; lia). rewrite M.
    cbn [of_list s_import_into app].
    rewrite (IH c2 (Hr c2 (or_introl eq_refl)) (fun x Hx => Hr x (or_intror Hx))).
    reflexivity.
Qed.

Lemma spec_add_standard_chain : forall n q c L, (pc_blk c <= n)%nat ->
  s_roots q = of_list L -> (forall x, In x L -> (pc_blk x < pc_blk c)%nat) ->
  (match s_bestfin q with Some bf => bf < N.of_nat (pc_blk c) | None => True end) ->
  s_add_standard (chain n) q c = Some (s_with_roots q (of_list (L ++ [c]))).
Proof.
  intros n q c L Hc HR HL Hbf. unfold s_add_standard.
  assert (R : (match s_bestfin q with Some bf => number (chain n) (pc_blk c) <=? bf | None => false end) = false).
  { destruct (s_bestfin q) as [bf|]; [|reflexivity]. rewrite chain_number by lia. apply N.leb_gt. exact Hbf. }
  rewrite R, HR. destruct L as [|c1 r].
  - reflexivity.
  - cbn [of_list s_import_roots_aux app].
    rewrite (spec_import_node_chain n c Hc r c1 (HL c1 (or_introl eq_refl)) (fun x Hx => HL x (or_intror Hx))).
    reflexivity.
Qed.

(* ---- table lemmas ---- *)
Lemma spec_table_snoc : forall ls k x,
  spec_table_from k (ls ++ [x]) = spec_table_from k ls ++ [(N.of_nat (k + length ls), x)].
Proof.
  induction ls as [|y ls IH]; intros k x.
  - unfold spec_table_from. cbn. rewrite Nat.add_0_r. reflexivity.
  - unfold spec_table_from in *. cbn [app length seq map combine].
    specialize (IH (S k) x). rewrite IH. cbn [app].
    replace (k + S (length ls))%nat with (S k + length ls)%nat by lia. reflexivity.
Qed.

Lemma sorted_n_snoc : forall ls x, sorted_n ls = true -> (forall y, In y ls -> y <= x) -> sorted_n (ls ++ [x]) = true.
Proof.
  induction ls as [|y ls IH]; intros x Hs Hle; [reflexivity|].
  cbn [app sorted_n] in *. apply andb_true_iff in Hs. destruct Hs as [S1 S2].
  apply andb_true_iff. split.
  - destruct ls as [|z ls']; cbn [app].
    + apply N.leb_le. apply Hle. left. reflexivity.
    + exact S1.
  - apply IH; [exact S2|]. intros z Hz. apply Hle. right. exact Hz.
Qed.

Lemma aget_snoc : forall l k v k',
  aget (l ++ [(k, v)]) k' = match aget l k' with Some x => Some x | None => if k =? k' then Some v else None end.
Proof.
  induction l as [|[k0 v0] l IH]; intros; cbn [app aget]; [reflexivity|].
  destruct (k0 =? k'); [reflexivity | apply IH].
Qed.

(* pushing one set change: the shape of gossamer's tables is kept, with the new last block *)
Lemma tables_inv_push : forall g g' ls x a, tables_inv g ls ->
  g_setid g' = g_setid g + 1 -> g_changes g' = aput (g_changes g) (g_setid g + 1) x ->
  g_auths g' = aput (g_auths g) (g_setid g + 1) a -> tables_inv g' (ls ++ [x]).
Proof.
  intros g g' ls x a [I1 [I2 [I3 [I4 [I5 I6]]]]] H1 H2 H3.
  unfold tables_inv. rewrite H1, H2, H3. rewrite app_length. cbn [length]. rewrite I1.
  assert (Hn : N.of_nat (length ls) + 1 = N.of_nat (length ls + 1)) by lia.
  split; [exact Hn|]. split; [|split; [|split; [|split]]].
  - rewrite aget_aput. destruct (N.of_nat (length ls) + 1 =? 0) eqn:E; [apply N.eqb_eq in E; lia | exact I2].
  - intros i Hi. rewrite aget_aput.
    destruct (N.of_nat (length ls) + 1 =? N.of_nat (S i)) eqn:E.
    + apply N.eqb_eq in E. assert (i = length ls) by lia. subst i.
      rewrite app_nth2 by lia. rewrite Nat.sub_diag. reflexivity.
    + apply N.eqb_neq in E. assert (i < length ls)%nat by lia.
      rewrite app_nth1 by lia. apply I3. lia.
  - intros k Hk. rewrite aget_aput.
    destruct (N.of_nat (length ls) + 1 =? k) eqn:E; [apply N.eqb_eq in E; lia|]. apply I4. lia.
  - intros k Hk. rewrite aget_aput.
    destruct (N.of_nat (length ls) + 1 =? k) eqn:E; [discriminate|].
    apply N.eqb_neq in E. apply I5. lia.
  - intros k Hk. rewrite aget_aput.
    destruct (N.of_nat (length ls) + 1 =? k) eqn:E; [apply N.eqb_eq in E; lia|]. apply I6. lia.
Qed.

Lemma tables_inv_same : forall g g' ls, tables_inv g ls ->
  g_setid g' = g_setid g -> g_changes g' = g_changes g -> g_auths g' = g_auths g -> tables_inv g' ls.
Proof. intros g g' ls I H1 H2 H3. unfold tables_inv in *. rewrite H1, H2, H3. exact I. Qed.

(* GetSetIDByBlockNumber = AuthoritySetChanges::get_set_id once the tables correspond *)
Lemma setid_obs : forall g q ls n, tables_inv g ls -> sorted_n ls = true ->
  s_changes q = spec_table_from 0 ls -> g_setid g = s_setid q ->
  go_setid_by_number g n = Some (spec_setid_by_number q n).
Proof.
  intros g q ls n [I1 [I2 [I3 [I4 _]]]] Hs Hc He.
  unfold go_setid_by_number, spec_setid_by_number. rewrite Hc, <- He, I1. rewrite Nnat.Nat2N.id.
  apply setid_lookup_agrees; [exact Hs|].
  split; [exact I2|]. split; [exact I3|]. apply I4. lia.
Qed.

Lemma opt_n_eqb_refl : forall x, opt_n_eqb x x = true.
Proof. destruct x; cbn; [apply N.eqb_refl | reflexivity]. Qed.

(* ---- NextGrandpaAuthorityChange on a chain ---- *)
Lemma next_change_chain : forall n g q L b, (g_fin g <= n)%nat -> (b <= n)%nat ->
  g_forced g = [] -> s_forced q = [] -> g_roots g = of_list L -> s_roots q = of_list L ->
  (forall x, In x L -> (1 <= pc_blk x <= n)%nat) ->
  go_next_change fixed (chain n) g b = Some (spec_next_change (chain n) q b).
Proof.
  intros n g q L b Hf Hb G1 S1 G2 S2 HL. unfold go_next_change, spec_next_change.
  rewrite G1, S1, G2, S2. cbn [lookup_where fold_left]. destruct L as [|c1 r].
  - reflexivity.
  - cbn [of_list lookup_where fold_left n_change].
    destruct (HL c1 (or_introl eq_refl)) as [H1 H2].
    rewrite chain_desc by lia. rewrite chain_is_anc by lia. rewrite chain_number by lia.
    destruct ((pc_blk c1 <=? b)%nat && (eff (chain n) c1 <=? N.of_nat b)) eqn:E.
    + cbn [nmin].
      assert (Z : (eff (chain n) c1 =? 0) = false).
      { apply N.eqb_neq. rewrite chain_eff by lia. lia. }
      cbn [n_change]. rewrite Z. reflexivity.
    + reflexivity.
Qed.

(* ---- ApplyScheduledChanges / apply_standard_changes on a chain ---- *)
Definition overtaking (h : nat) (r : list pchange) : bool :=
  match r with [] => false | c2 :: _ => (pc_blk c2 <=? h)%nat end.

Lemma chain_due : forall n fin h c r, (fin <= n)%nat -> (h <= n)%nat -> (pc_blk c <= n)%nat ->
  due (chain n) fin h (Node c r) = (N.of_nat (pc_blk c) + pc_delay c <=? N.of_nat h).
Proof.
  intros n fin h c r Hf Hh Hc. unfold due. cbn [n_change].
  rewrite chain_eff, chain_number, chain_rel by lia.
  destruct (N.of_nat (pc_blk c) + pc_delay c <=? N.of_nat h) eqn:E; [|reflexivity].
  apply N.leb_le in E. cbn [andb]. apply Nat.leb_le. lia.
Qed.

Lemma chain_overtaken : forall n fin h r, (fin <= n)%nat -> (h <= n)%nat ->
  (forall x, In x r -> (pc_blk x <= n)%nat) ->
  existsb (overtaken (chain n) fin h) (of_list r) = overtaking h r.
Proof.
  intros n fin h r Hf Hh Hr. destruct r as [|c2 r']; [reflexivity|].
  cbn [of_list existsb overtaking]. unfold overtaken. cbn [n_change].
  pose proof (Hr c2 (or_introl eq_refl)).
  rewrite !chain_number, chain_rel by lia. rewrite orb_false_r.
  destruct (pc_blk c2 <=? h)%nat eqn:E.
  - apply Nat.leb_le in E. rewrite andb_true_r. apply N.leb_le. lia.
  - apply andb_false_r.
Qed.

(* Go side.  g is the state after BlockState.SetFinalisedHash(h): g_fin g = h *)
Lemma go_finalise_chain : forall n g h L, (h <= n)%nat -> g_fin g = h ->
  g_forced g = [] -> g_roots g = of_list L -> (forall x, In x L -> (pc_blk x <= n)%nat) ->
  apply_scheduled fixed (chain n) g h =
  match L with
  | [] => (g, true)
  | c1 :: r =>
    if N.of_nat (pc_blk c1) + pc_delay c1 <=? N.of_nat h then
      if overtaking h r then (g, false)
      else (mkgst [] (of_list r) (g_setid g + 1) (aput (g_auths g) (g_setid g + 1) (pc_auth c1))
                  (aput (g_changes g) (g_setid g + 1) (N.of_nat h)) h, true)
    else (g, true)
  end.
Proof.
  intros n g h L Hh Hf G1 G2 HL. destruct L as [|c1 r].
  - unfold apply_scheduled. rewrite prune_keep_fixed, G1, G2. cbn [filter of_list]. destruct g; cbn in *; subst; reflexivity.
  - pose proof (HL c1 (or_introl eq_refl)) as Hc1.
    assert (Hr : forall x, In x r -> (pc_blk x <= n)%nat) by (intros x Hx; apply HL; right; exact Hx).
    destruct (N.of_nat (pc_blk c1) + pc_delay c1 <=? N.of_nat h) eqn:D.
    + destruct (overtaking h r) eqn:O.
      * unfold apply_scheduled. rewrite prune_keep_fixed, G1, G2. cbn [filter of_list lookup_where].
        rewrite sched_cond_fixed, Hf, chain_due by lia. rewrite D. cbn [n_children].
        rewrite chain_overtaken by (try lia; exact Hr). rewrite O.
        destruct g; cbn in *; subst; reflexivity.
      * rewrite (apply_scheduled_enacts (chain n) g h [] (Node c1 (of_list r)) []).
        -- rewrite G1, Hf. cbn [filter n_children n_change]. rewrite chain_number by lia. reflexivity.
        -- rewrite G2. reflexivity.
        -- intros x [].
        -- rewrite Hf, chain_due by lia. exact D.
        -- cbn [n_children]. rewrite Hf, chain_overtaken by (try lia; exact Hr). exact O.
    + rewrite apply_scheduled_keeps.
      * rewrite G1, G2, Hf. cbn [filter of_list n_change].
        rewrite !chain_rel by lia.
        assert (K : ((h <=? pc_blk c1)%nat || (pc_blk c1 <=? h)%nat) = true).
        { destruct (h <=? pc_blk c1)%nat eqn:X; [reflexivity|]. apply Nat.leb_gt in X. apply Nat.leb_le. lia. }
        rewrite K. destruct g; cbn in *; subst; reflexivity.
      * rewrite G2. intros x [<-|[]]. rewrite Hf, chain_due by lia. exact D.
Qed.

(* Substrate side *)
Lemma spec_finalise_chain : forall n q h L, (h <= n)%nat ->
  (match s_bestfin q with Some bf => bf < N.of_nat h | None => True end) ->
  s_forced q = [] -> s_roots q = of_list L -> (forall x, In x L -> (pc_blk x <= n)%nat) ->
  s_finalise (chain n) q h =
  match L with
  | [] => Some (mksst (s_auth q) (s_setid q) [] (Some (N.of_nat h)) [] (s_changes q) (s_hist q))
  | c1 :: r =>
    if N.of_nat (pc_blk c1) + pc_delay c1 <=? N.of_nat h then
      if overtaking h r then None
      else Some (mksst (pc_auth c1) (s_setid q + 1) (of_list r) (Some (N.of_nat h)) []
                       (s_changes q ++ [(s_setid q, N.of_nat h)]) (s_hist q ++ [(s_setid q + 1, pc_auth c1)]))
    else Some (mksst (s_auth q) (s_setid q) (of_list L) (Some (N.of_nat h)) [] (s_changes q) (s_hist q))
  end.
Proof.
  intros n q h L Hh Hbf S1 S2 HL. unfold s_finalise.
  assert (R : (match s_bestfin q with Some bf => number (chain n) h <=? bf | None => false end) = false).
  { destruct (s_bestfin q) as [bf|]; [|reflexivity]. rewrite chain_number by lia. apply N.leb_gt. exact Hbf. }
  rewrite R, S1, S2. rewrite chain_number by lia. destruct L as [|c1 r].
  - reflexivity.
  - pose proof (HL c1 (or_introl eq_refl)) as Hc1.
    cbn [of_list s_find_root n_change n_children].
    rewrite chain_eff, chain_number, chain_sdesc by lia.
    destruct (N.of_nat (pc_blk c1) + pc_delay c1 <=? N.of_nat h) eqn:D.
    + apply N.leb_le in D.
      assert (A : (Nat.eqb (pc_blk c1) h || (pc_blk c1 <? h)%nat) = true).
      { destruct (Nat.eqb (pc_blk c1) h) eqn:X; [reflexivity|]. apply Nat.eqb_neq in X. apply Nat.ltb_lt. lia. }
      rewrite A. cbn [andb].
      destruct r as [|c2 r'].
      * cbn [of_list existsb overtaking filter length Nat.eqb negb]. reflexivity.
      * pose proof (HL c2 (or_intror (or_introl eq_refl))) as Hc2.
        cbn [of_list existsb overtaking n_change]. rewrite orb_false_r.
        rewrite !chain_number, chain_sdesc by lia.
        destruct (pc_blk c2 <=? h)%nat eqn:O.
        -- apply Nat.leb_le in O.
           assert (B : (N.of_nat (pc_blk c2) <=? N.of_nat h) = true) by (apply N.leb_le; lia). rewrite B.
           assert (C : (Nat.eqb (pc_blk c2) h || (pc_blk c2 <? h)%nat) = true).
           { destruct (Nat.eqb (pc_blk c2) h) eqn:X; [reflexivity|]. apply Nat.eqb_neq in X. apply Nat.ltb_lt. lia. }
           rewrite C. reflexivity.
        -- apply Nat.leb_gt in O.
           assert (B : (N.of_nat (pc_blk c2) <=? N.of_nat h) = false) by (apply N.leb_gt; lia). rewrite B.
           cbn [andb n_children filter]. unfold s_retain. cbn [n_change].
           rewrite !chain_number, !chain_sdesc by lia.
           assert (C : ((N.of_nat h <? N.of_nat (pc_blk c2)) && (h <? pc_blk c2)%nat) = true).
           { apply andb_true_iff. split; [apply N.ltb_lt; lia | apply Nat.ltb_lt; lia]. }
           rewrite C. cbn [orb]. reflexivity.
    + cbn [andb s_find_root filter]. unfold s_retain. cbn [n_change].
      rewrite !chain_number, !chain_sdesc by lia.
      assert (C : ((N.of_nat h <? N.of_nat (pc_blk c1)) && (h <? pc_blk c1)%nat || Nat.eqb (pc_blk c1) h || (pc_blk c1 <? h)%nat) = true).
      { destruct (Nat.lt_trichotomy (pc_blk c1) h) as [X|[X|X]].
        - assert (Y : (pc_blk c1 <? h)%nat = true) by (apply Nat.ltb_lt; exact X). rewrite Y. apply orb_true_r.
        - subst h. rewrite Nat.eqb_refl. rewrite orb_true_r. reflexivity.
        - assert (Y1 : (N.of_nat h <? N.of_nat (pc_blk c1)) = true) by (apply N.ltb_lt; lia).
          assert (Y2 : (h <? pc_blk c1)%nat = true) by (apply Nat.ltb_lt; lia). rewrite Y1, Y2. reflexivity. }
      rewrite C. cbn [length Nat.eqb negb]. reflexivity.
Qed.

(* ---- the simulation invariant ---- *)
Definition sched_ok (sched : changes) : Prop := forall b c, cfind sched b = Some c -> pc_blk c = b.

Record inv (n imp fin : nat) (imported : list nat) (g : gst) (q : sst) : Prop := {
  i_b1 : (fin <= imp)%nat;
  i_b2 : (imp <= n)%nat;
  i_imported : forall x, existsb (Nat.eqb x) imported = (x <=? imp)%nat;
  i_gforced : g_forced g = [];
  i_sforced : s_forced q = [];
  i_L : exists L, g_roots g = of_list L /\ s_roots q = of_list L /\
                  (forall x, In x L -> (1 <= pc_blk x <= imp)%nat);
  i_setid : g_setid g = s_setid q;
  i_auths : forall id, aget (g_auths g) id = aget (s_hist q) id;
  i_tables : exists ls, tables_inv g ls /\ s_changes q = spec_table_from 0 ls /\ sorted_n ls = true /\
                        (forall x, In x ls -> x <= N.of_nat fin);
  i_gfin : g_fin g = fin;
  i_bestfin : s_bestfin q = if Nat.eqb fin 0 then None else Some (N.of_nat fin)
}.

Lemma inv_init : forall n, inv n 0 0 [O] ginit sinit.
Proof.
  intros n. constructor; try reflexivity; try lia.
  - intros x. cbn [existsb]. rewrite orb_false_r. destruct x; reflexivity.
  - exists []. split; [reflexivity|]. split; [reflexivity|]. intros x [].
  - exists []. split; [apply tables_inv_init|]. split; [reflexivity|]. split; [reflexivity|]. intros x [].
Qed.

(* the four observers agree in every state of the invariant *)
Lemma inv_obs : forall n imp fin imported g q, inv n imp fin imported g q ->
  obs_eq (chain n) imported g q = true.
Proof.
  intros n imp fin imported g q I. destruct I.
  destruct i_L0 as [L [G2 [S2 HL]]]. destruct i_tables0 as [ls [T [C [Hs _]]]].
  unfold obs_eq. apply andb_true_iff; split; [apply andb_true_iff; split; [apply andb_true_iff; split|]|].
  - apply N.eqb_eq. exact i_setid0.
  - apply forallb_forall. intros id _. rewrite i_auths0. apply opt_n_eqb_refl.
  - apply orb_true_iff. right. apply forallb_forall. intros k _.
    rewrite (setid_obs g q ls _ T Hs C i_setid0). apply opt_n_eqb_refl.
  - apply forallb_forall. intros b Hb. apply filter_In in Hb. destruct Hb as [Hb _].
    assert (Hb' : (b <= imp)%nat).
    { apply Nat.leb_le. rewrite <- i_imported0. apply existsb_exists. exists b. split; [exact Hb | apply Nat.eqb_refl]. }
    rewrite (next_change_chain n g q L b); try assumption; try lia.
    + apply opt_n_eqb_refl.
    + intros x Hx. specialize (HL x Hx). lia.
Qed.

Lemma in_next_import : forall n imp fin imported b,
  (forall x, existsb (Nat.eqb x) imported = (x <=? imp)%nat) -> (imp <= n)%nat ->
  In (Import b) (next_events (chain n) imported fin) -> b = S imp /\ (S imp <= n)%nat.
Proof.
  intros n imp fin imported b Hi Hn Hin. unfold next_events in Hin. apply in_app_or in Hin.
  destruct Hin as [Hin|Hin]; apply in_map_iff in Hin; destruct Hin as [x [E Hx]]; [|discriminate].
  injection E as ->. apply filter_In in Hx. destruct Hx as [Hs Hc].
  apply in_seq in Hs. rewrite chain_length in Hs.
  apply andb_true_iff in Hc. destruct Hc as [Hc _]. apply andb_true_iff in Hc. destruct Hc as [H1 H2].
  apply negb_true_iff in H1. rewrite Hi in H1, H2. apply Nat.leb_gt in H1. apply Nat.leb_le in H2.
  destruct b as [|j]; [lia|]. rewrite chain_parent in H2 by lia. lia.
Qed.

Lemma in_next_finalise : forall n imp fin imported b,
  (forall x, existsb (Nat.eqb x) imported = (x <=? imp)%nat) -> (imp <= n)%nat -> (fin <= imp)%nat ->
  In (Finalise b) (next_events (chain n) imported fin) -> (fin < b <= imp)%nat.
Proof.
  intros n imp fin imported b Hi Hn Hf Hin. unfold next_events in Hin. apply in_app_or in Hin.
  destruct Hin as [Hin|Hin]; apply in_map_iff in Hin; destruct Hin as [x [E Hx]]; [discriminate|].
  injection E as ->. apply filter_In in Hx. destruct Hx as [Hs Hc].
  apply in_seq in Hs. rewrite chain_length in Hs.
  apply andb_true_iff in Hc. destruct Hc as [Hc H3]. apply andb_true_iff in Hc. destruct Hc as [H1 H2].
  rewrite Hi in H1. apply Nat.leb_le in H1. apply negb_true_iff in H2. apply Nat.eqb_neq in H2.
  rewrite chain_is_anc in H3 by lia. apply Nat.leb_le in H3. lia.
Qed.

Lemma imported_cons : forall imported imp, (forall x, existsb (Nat.eqb x) imported = (x <=? imp)%nat) ->
  forall x, existsb (Nat.eqb x) (S imp :: imported) = (x <=? S imp)%nat.
Proof.
  intros imported imp H x. cbn [existsb]. rewrite H.
  destruct (Nat.eqb x (S imp)) eqn:E.
  - apply Nat.eqb_eq in E. subst. cbn [orb]. symmetry. apply Nat.leb_le. lia.
  - apply Nat.eqb_neq in E. cbn [orb]. destruct (x <=? imp)%nat eqn:L.
    + apply Nat.leb_le in L. symmetry. apply Nat.leb_le. lia.
    + apply Nat.leb_gt in L. symmetry. apply Nat.leb_gt. lia.
Qed.

Lemma bestfin_lt : forall q fin h, s_bestfin q = (if Nat.eqb fin 0 then None else Some (N.of_nat fin)) ->
  (fin < h)%nat -> match s_bestfin q with Some bf => bf < N.of_nat h | None => True end.
Proof. intros q fin h E H. rewrite E. destruct (Nat.eqb fin 0); [exact I | lia]. Qed.

(* one event *)
Lemma chain_step : forall n sched, sched_ok sched ->
  forall imp fin imported g q e, inv n imp fin imported g q ->
  In e (next_events (chain n) imported fin) ->
  match spec_step (chain n) sched [] q e with
  | None => is_rok (snd (go_step fixed (chain n) sched [] g e)) = false
  | Some q' =>
    let g' := fst (go_step fixed (chain n) sched [] g e) in
    let imported' := match e with Import b => b :: imported | Finalise _ => imported end in
    let fin' := match e with Import _ => fin | Finalise b => b end in
    is_rok (snd (go_step fixed (chain n) sched [] g e)) = true /\
    exists imp', inv n imp' fin' imported' g' q'
  end.
Proof.
  intros n sched Hok imp fin imported g q e I Hin. destruct I.
  destruct i_L0 as [L [G2 [S2 HL]]]. destruct i_tables0 as [ls [T [C [Hs Hle]]]].
  destruct e as [b|h].
  - (* Import *)
    destruct (in_next_import n imp fin imported b i_imported0 i_b4 Hin) as [-> Hn].
    cbn [go_step spec_step cfind]. destruct (cfind sched (S imp)) as [c|] eqn:Ec.
    + pose proof (Hok _ _ Ec) as Hc.
      assert (HLc : forall x, In x L -> (pc_blk x < pc_blk c)%nat) by (intros x Hx; specialize (HL x Hx); lia).
      unfold add_scheduled. rewrite G2, i_gfin0.
      rewrite go_import_roots_chain by (try lia; exact HLc).
      rewrite apply_forced_fixed. cbn [g_forced]. rewrite i_gforced0. cbn [find].
      rewrite (spec_add_standard_chain n q c L); try assumption; try lia.
      2:{ apply (bestfin_lt q fin); [exact i_bestfin0 | lia]. }
      unfold s_apply_forced. cbn [s_with_roots s_forced]. rewrite i_sforced0. cbn [s_find_forced].
      cbn zeta. cbn [fst snd is_rok]. split; [reflexivity|]. exists (S imp).
      constructor; cbn [g_forced g_roots g_setid g_auths g_changes g_fin s_with_roots s_forced s_roots s_setid s_hist s_changes s_bestfin];
        try assumption; try lia; try reflexivity.
      * apply imported_cons. exact i_imported0.
      * exists (L ++ [c]). split; [reflexivity|]. split; [reflexivity|].
        intros x Hx. apply in_app_or in Hx. destruct Hx as [Hx|[<-|[]]]; [specialize (HL x Hx); lia | lia].
      * exists ls. split; [|auto]. apply (tables_inv_same g); [exact T | reflexivity | reflexivity | reflexivity].
    + rewrite apply_forced_fixed. rewrite i_gforced0. cbn [find].
      unfold s_apply_forced. rewrite i_sforced0. cbn [s_find_forced].
      cbn zeta. cbn [fst snd is_rok]. split; [reflexivity|]. exists (S imp).
      constructor; try assumption; try lia.
      * apply imported_cons. exact i_imported0.
      * exists L. split; [exact G2|]. split; [exact S2|]. intros x Hx. specialize (HL x Hx). lia.
      * exists ls. auto.
  - (* Finalise *)
    pose proof (in_next_finalise n imp fin imported h i_imported0 i_b4 i_b3 Hin) as Hh.
    cbn [go_step spec_step].
    set (s0 := mkgst (g_forced g) (g_roots g) (g_setid g) (g_auths g) (g_changes g) h).
    assert (HLn : forall x, In x L -> (pc_blk x <= n)%nat) by (intros x Hx; specialize (HL x Hx); lia).
    rewrite (go_finalise_chain n s0 h L); try assumption; try reflexivity; try lia.
    rewrite (spec_finalise_chain n q h L); try assumption; try lia.
    2:{ apply (bestfin_lt q fin); [exact i_bestfin0 | lia]. }
    assert (Hh0 : Nat.eqb h 0 = false) by (apply Nat.eqb_neq; lia).
    assert (Hle' : forall x, In x ls -> x <= N.of_nat h) by (intros x Hx; specialize (Hle x Hx); lia).
    destruct L as [|c1 r].
    + cbn zeta. cbn [fst snd is_rok]. split; [reflexivity|]. exists imp.
      constructor; cbn [s0 g_forced g_roots g_setid g_auths g_changes g_fin s_forced s_roots s_setid s_hist s_changes s_bestfin];
        try assumption; try lia; try reflexivity.
      * exists []. split; [exact G2|]. split; [reflexivity|]. intros x [].
      * exists ls. split; [|auto]. apply (tables_inv_same g); [exact T | reflexivity | reflexivity | reflexivity].
      * rewrite Hh0. reflexivity.
    + destruct (N.of_nat (pc_blk c1) + pc_delay c1 <=? N.of_nat h) eqn:D.
      * destruct (overtaking h r) eqn:O.
        -- reflexivity.
        -- cbn zeta. cbn [fst snd is_rok]. split; [reflexivity|]. exists imp.
           destruct T as [I1 R]. pose proof (conj I1 R) as T.
           constructor; cbn [s0 g_forced g_roots g_setid g_auths g_changes g_fin s_forced s_roots s_setid s_hist s_changes s_bestfin];
             try assumption; try lia; try reflexivity.
           ++ exists r. split; [reflexivity|]. split; [reflexivity|]. intros x Hx. apply HL. right. exact Hx.
           ++ intros id. rewrite aget_aput, aget_snoc. rewrite <- i_auths0. rewrite <- i_setid0.
              destruct (g_setid g + 1 =? id) eqn:E; [|destruct (aget (g_auths g) id); reflexivity].
              apply N.eqb_eq in E. subst id.
              destruct T as [_ [_ [_ [_ [_ I6]]]]]. rewrite I6 by lia. reflexivity.
           ++ exists (ls ++ [N.of_nat h]). split; [|split; [|split]].
              ** apply (tables_inv_push g _ ls (N.of_nat h) (pc_auth c1) T); reflexivity.
              ** rewrite C, spec_table_snoc. cbn [Nat.add]. rewrite <- i_setid0, I1. reflexivity.
              ** apply sorted_n_snoc; assumption.
              ** intros x Hx. apply in_app_or in Hx. destruct Hx as [Hx|[<-|[]]]; [apply Hle'; exact Hx | lia].
           ++ rewrite Hh0. reflexivity.
      * cbn zeta. cbn [fst snd is_rok]. split; [reflexivity|]. exists imp.
        constructor; cbn [s0 g_forced g_roots g_setid g_auths g_changes g_fin s_forced s_roots s_setid s_hist s_changes s_bestfin];
          try assumption; try lia; try reflexivity.
        -- exists (c1 :: r). split; [exact G2|]. split; [reflexivity|]. exact HL.
        -- exists ls. split; [|auto]. apply (tables_inv_same g); [exact T | reflexivity | reflexivity | reflexivity].
        -- rewrite Hh0. reflexivity.
Qed.

(* ---- the refinement over whole histories, no bound on anything ---- *)
Lemma chain_agree : forall n sched, sched_ok sched -> forall evs imp fin imported g q,
  inv n imp fin imported g q -> agree_run (chain n) sched [] imported fin g q evs.
Proof.
  intros n sched Hok. induction evs as [|e r IH]; intros imp fin imported g q I; [exact Logic.I|].
  cbn [agree_run]. intros Hin _.
  pose proof (chain_step n sched Hok imp fin imported g q e I Hin) as S.
  destruct (spec_step (chain n) sched [] q e) as [q'|]; [|exact S].
  cbn zeta in S. destruct S as [S1 [imp' I']]. split; [exact S1|]. split.
  - apply (inv_obs n imp' _ _ _ _ I').
  - apply (IH imp' _ _ _ _ I').
Qed.

Lemma chain_refines : forall n sched evs, sched_ok sched ->
  agree_run (chain n) sched [] [O] O ginit sinit evs.
Proof. intros n sched evs Hok. apply (chain_agree n sched Hok evs 0 0). apply inv_init. Qed.
