(* C23/Exhaustive.v -- complete sweeps of finite domains by vm_compute (the bounds are part of
   the statements in Properties.v).  Kept apart from Properties.v so that the sweep is compiled
   once by make and Properties.v stays cheap to re-check. *)
From C23 Require Import Model Spec Enum.

Lemma sweep_0 : explore_all 0 2 2 = true. Proof. vm_compute. reflexivity. Qed.
Lemma sweep_1 : explore_all 1 2 2 = true. Proof. vm_compute. reflexivity. Qed.
Lemma sweep_2 : explore_all 2 2 2 = true. Proof. vm_compute. reflexivity. Qed.
Lemma sweep_3 : explore_all 3 2 2 = true. Proof. vm_compute. reflexivity. Qed.
