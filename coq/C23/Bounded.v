(* C23/Bounded.v -- from the vm_compute sweeps to statements quantified over trees / announcements. *)
From Coq Require Import NArith List Bool Arith.
From C23 Require Import Model Spec Enum Proofs Exhaustive Exhaustive4.
Import ListNotations.
Local Open Scope N_scope.

Lemma pick : forall n, (n <= 3)%nat -> explore_all n 2 2 = true.
Proof.
  intros n L. destruct n as [|[|[|[|n]]]].
  - exact sweep_0.
  - exact sweep_1.
  - exact sweep_2.
  - exact sweep_3.
  - exfalso. apply (Nat.nle_succ_diag_l 3). apply (Nat.le_trans _ (S (S (S (S n))))); [|exact L].
    repeat apply le_n_S. apply Nat.le_0_l.
Qed.

Lemma from_sweep : forall nb d k, explore_all nb d k = true ->
  forall t, wf t = true -> length t = nb ->
  forall sf, In sf (change_sets (S (length t)) t d k 1) ->
  explore (2 * length t + 1) t (fst sf) (snd sf) [O] O ginit sinit = true.
Proof.
  intros nb d k E t W L sf Hin.
  unfold explore_all in E. rewrite forallb_forall in E.
  pose proof (trees_complete t W) as T. rewrite L in T.
  specialize (E t T). unfold explore_tree in E. rewrite forallb_forall in E.
  apply E. exact Hin.
Qed.

Lemma bounded_3 : forall t, wf t = true -> (length t <= 3)%nat ->
  forall sf, In sf (change_sets (S (length t)) t 2 2 1) ->
  explore (2 * length t + 1) t (fst sf) (snd sf) [O] O ginit sinit = true.
Proof. intros t W L. apply (from_sweep (length t) 2 2 (pick (length t) L) t W eq_refl). Qed.

Lemma bounded_4 : forall t, wf t = true -> length t = 4%nat ->
  forall sf, In sf (change_sets (S (length t)) t 1 1 1) ->
  explore (2 * length t + 1) t (fst sf) (snd sf) [O] O ginit sinit = true.
Proof. intros t W L. apply (from_sweep 4 1 1 sweep_4 t W L). Qed.

(* ---- the meaning of the sweeps in terms of event lists ---- *)
(* Along the history evs, as long as each event is possible (next_events) and outside the guard
   of the known finding: the Go model and the specification both fail, or both succeed with equal
   observables, and so on for the rest of the history. *)
Fixpoint agree_run (t : tree) (sched forced : changes) (imported : list nat) (fin : nat)
  (g : gst) (q : sst) (evs : list event) : Prop :=
  match evs with
  | [] => True
  | e :: r =>
    In e (next_events t imported fin) -> guard_forced_on_finalised t q e = false ->
    match spec_step t sched forced q e with
    | None => is_rok (snd (go_step fixed t sched forced g e)) = false
    | Some q' =>
      let g' := fst (go_step fixed t sched forced g e) in
      let imported' := match e with Import b => b :: imported | Finalise _ => imported end in
      let fin' := match e with Import _ => fin | Finalise b => b end in
      is_rok (snd (go_step fixed t sched forced g e)) = true /\ obs_eq t imported' g' q' = true /\
      agree_run t sched forced imported' fin' g' q' r
    end
  end.

Lemma explore_agree : forall evs fuel t sched forced imported fin g q,
  explore fuel t sched forced imported fin g q = true -> (length evs <= fuel)%nat ->
  agree_run t sched forced imported fin g q evs.
Proof.
  induction evs as [|e r IH]; intros fuel t sched forced imported fin g q H L; [exact I|].
  destruct fuel as [|f]; [cbn in L; inversion L|].
  cbn [agree_run]. intros Hin Hg.
  pose proof (explore_step f t sched forced imported fin g q e H Hin Hg) as S.
  destruct (spec_step t sched forced q e) as [q'|]; [|exact S].
  cbn zeta in S. destruct S as [S1 [S2 S3]]. split; [exact S1|]. split; [exact S2|].
  apply (IH f); [exact S3 | cbn in L; apply le_S_n; exact L].
Qed.

Lemma bounded_3_histories : forall t, wf t = true -> (length t <= 3)%nat ->
  forall sf, In sf (change_sets (S (length t)) t 2 2 1) ->
  forall evs, (length evs <= 2 * length t + 1)%nat ->
  agree_run t (fst sf) (snd sf) [O] O ginit sinit evs.
Proof.
  intros t W L sf Hin evs Le.
  apply (explore_agree evs (2 * length t + 1)); [apply bounded_3; assumption | exact Le].
Qed.
