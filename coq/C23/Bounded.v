(* C23/Bounded.v -- from the vm_compute sweeps to statements quantified over trees / announcements. *)
From Coq Require Import NArith List Bool Arith.
From C23 Require Import Model Spec Enum Proofs Exhaustive Exhaustive4 Exhaustive5.
Import ListNotations.
Local Open Scope N_scope.

Lemma pick : forall n, (n <= 3)%nat -> explore_all n 2 2 = true.
Proof.
  intros n L. destruct n as [|[|[|[|n]]]].
  - exact sweep_0.
  - exact sweep_1.
  - exact sweep_2.
  - exact sweep_3.
  - exfalso. apply (Nat.nle_succ_diag_l 3). apply (Nat.le_trans _ (S (S (S (S n))))); [|exact L].
    repeat apply le_n_S. apply Nat.le_0_l.
Qed.

Lemma from_sweep : forall nb d k, explore_all nb d k = true ->
  forall t, wf t = true -> length t = nb ->
  forall sf, In sf (change_sets (S (length t)) t d k 1) ->
  explore (2 * length t + 1) t (fst sf) (snd sf) [O] O ginit sinit = true.
Proof.
  intros nb d k E t W L sf Hin.
  unfold explore_all in E. rewrite forallb_forall in E.
  pose proof (trees_complete t W) as T. rewrite L in T.
  specialize (E t T). unfold explore_tree in E. rewrite forallb_forall in E.
  apply E. exact Hin.
Qed.

Lemma bounded_3 : forall t, wf t = true -> (length t <= 3)%nat ->
  forall sf, In sf (change_sets (S (length t)) t 2 2 1) ->
  explore (2 * length t + 1) t (fst sf) (snd sf) [O] O ginit sinit = true.
Proof. intros t W L. apply (from_sweep (length t) 2 2 (pick (length t) L) t W eq_refl). Qed.

Lemma bounded_4 : forall t, wf t = true -> length t = 4%nat ->
  forall sf, In sf (change_sets (S (length t)) t 2 2 1) ->
  explore (2 * length t + 1) t (fst sf) (snd sf) [O] O ginit sinit = true.
Proof. intros t W L. apply (from_sweep 4 2 2 sweep_4 t W L). Qed.

Lemma bounded_5 : forall t, wf t = true -> length t = 5%nat ->
  forall sf, In sf (change_sets (S (length t)) t 1 1 1) ->
  explore (2 * length t + 1) t (fst sf) (snd sf) [O] O ginit sinit = true.
Proof. intros t W L. apply (from_sweep 5 1 1 sweep_5 t W L). Qed.
