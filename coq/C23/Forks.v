(* C23/Forks.v -- third round: INDUCTIVE refinement for scheduled changes on ARBITRARY well-formed
   block trees (forks included), along every history of imports and finalisations of any length:
   the repaired Go model and the Substrate specification agree after every event on ok/error, the
   current set id, the authorities of every set id and the set id reported for every block number
   (the observables the property statement names).  The two sides do NOT hold the same pending
   tree: when a change is enacted gossamer keeps every child of the enacted node as a root, also
   those on forks the finalisation abandons, until the next finalisation; Substrate drops them at
   once.  The simulation relation is  s_roots = filter (known to the block state) g_roots. *)
From Coq Require Import NArith List Bool Arith Lia.
From C23 Require Import Model Spec Enum Proofs Local Reach Bounded Chain Forced OnePerFork.
Import ListNotations.
Local Open Scope N_scope.

(* ---- ancestry in a well-formed tree ---- *)
Lemma is_anc_le : forall t, wf t = true -> forall d a, is_anc t a d = true -> (a <= d)%nat.
Proof.
  intros t W d. induction d as [d IH] using (well_founded_induction lt_wf). intros a H.
  rewrite is_anc_unfold in H by exact W. apply orb_true_iff in H. destruct H as [H|H].
  - apply Nat.eqb_eq in H. lia.
  - destruct d as [|j]; [discriminate|]. pose proof (wf_parent t j W).
    specialize (IH (parent t (S j)) ltac:(lia) a H). lia.
Qed.

Lemma is_anc_trans : forall t, wf t = true -> forall c a b,
  is_anc t a b = true -> is_anc t b c = true -> is_anc t a c = true.
Proof.
  intros t W c. induction c as [c IH] using (well_founded_induction lt_wf). intros a b H1 H2.
  rewrite is_anc_unfold in H2 by exact W. apply orb_true_iff in H2. destruct H2 as [H2|H2].
  - apply Nat.eqb_eq in H2. subst. exact H1.
  - destruct c as [|j]; [discriminate|]. pose proof (wf_parent t j W).
    rewrite is_anc_unfold by exact W. rewrite (IH (parent t (S j)) ltac:(lia) a b H1 H2). apply orb_true_r.
Qed.

Lemma is_anc_comparable : forall t, wf t = true -> forall c a b,
  is_anc t a c = true -> is_anc t b c = true -> is_anc t a b = true \/ is_anc t b a = true.
Proof.
  intros t W c. induction c as [c IH] using (well_founded_induction lt_wf). intros a b H1 H2.
  pose proof H1 as H1'. pose proof H2 as H2'.
  rewrite is_anc_unfold in H1 by exact W. rewrite is_anc_unfold in H2 by exact W.
  apply orb_true_iff in H1. apply orb_true_iff in H2.
  destruct H1 as [H1|H1]; [apply Nat.eqb_eq in H1; subst; right; exact H2'|].
  destruct H2 as [H2|H2]; [apply Nat.eqb_eq in H2; subst; left; exact H1'|].
  destruct c as [|j]; [discriminate|]. pose proof (wf_parent t j W).
  apply (IH (parent t (S j))); [lia | exact H1 | exact H2].
Qed.

Lemma number_S : forall t j, wf t = true -> number t (S j) = number t (parent t (S j)) + 1.
Proof.
  intros t j W. unfold number. rewrite path_unfold by exact W.
  rewrite (path_unfold t (parent t (S j))) by exact W. cbn [length pred]. lia.
Qed.

Lemma number_anc_le : forall t, wf t = true -> forall d a, is_anc t a d = true -> number t a <= number t d.
Proof.
  intros t W d. induction d as [d IH] using (well_founded_induction lt_wf). intros a H.
  rewrite is_anc_unfold in H by exact W. apply orb_true_iff in H. destruct H as [H|H].
  - apply Nat.eqb_eq in H. subst. lia.
  - destruct d as [|j]; [discriminate|]. pose proof (wf_parent t j W).
    specialize (IH (parent t (S j)) ltac:(lia) a H). rewrite number_S by exact W. lia.
Qed.

Lemma number_anc_lt : forall t a d, wf t = true -> is_anc t a d = true -> a <> d -> number t a < number t d.
Proof.
  intros t a d W H Hne. rewrite is_anc_unfold in H by exact W. apply orb_true_iff in H. destruct H as [H|H].
  - apply Nat.eqb_eq in H. contradiction.
  - destruct d as [|j]; [discriminate|]. pose proof (number_anc_le t W _ _ H).
    rewrite number_S by exact W. lia.
Qed.

Lemma sdesc_number : forall t a d, wf t = true -> sdesc t a d = true -> number t a < number t d.
Proof.
  intros t a d W H. unfold sdesc in H. apply andb_true_iff in H. destruct H as [H1 H2].
  apply negb_true_iff in H1. apply Nat.eqb_neq in H1. apply number_anc_lt; assumption.
Qed.

(* ---- after the repair, ancestry questions about a block that descends from the last finalised
   block (or about that block itself) are answered by plain ancestry ---- *)
Lemma known_of_anc : forall t fin a c, wf t = true -> is_anc t fin c = true -> is_anc t a c = true ->
  known t fin a = true.
Proof.
  intros t fin a c W H1 H2. unfold known.
  destruct (is_anc_comparable t W c a fin H2 H1) as [H|H]; rewrite H; [reflexivity | apply orb_true_r].
Qed.

Lemma rel_live : forall t fin a c, wf t = true -> is_anc t fin c = true -> rel t fin a c = is_anc t a c.
Proof.
  intros t fin a c W Hc. unfold rel. destruct (is_anc t a c) eqn:A.
  - rewrite (known_of_anc t fin a c W Hc A). unfold known at 1. rewrite Hc, orb_true_r. apply orb_true_r.
  - rewrite andb_false_r, orb_false_r. destruct (Nat.eqb a c) eqn:E; [|reflexivity].
    apply Nat.eqb_eq in E. subst. rewrite is_anc_refl in A by exact W. discriminate.
Qed.

Lemma desc_live : forall t fin a c, wf t = true -> is_anc t fin c = true ->
  desc fixed t fin a c = Some (is_anc t a c).
Proof. intros. rewrite desc_fixed. fold (rel t fin a c). rewrite rel_live by assumption. reflexivity. Qed.

Lemma rel_from_fin : forall t h b, wf t = true -> rel t h h b = is_anc t h b.
Proof.
  intros t h b W. unfold rel, known. rewrite (is_anc_refl t h W). cbn [orb andb].
  destruct (is_anc t h b) eqn:A.
  - rewrite orb_true_r. apply orb_true_r.
  - rewrite andb_false_r, orb_false_r. destruct (Nat.eqb h b) eqn:E; [|reflexivity].
    apply Nat.eqb_eq in E. subst. rewrite is_anc_refl in A by exact W. discriminate.
Qed.

Lemma known_fin : forall t h b, known t h b = is_anc t b h || is_anc t h b.
Proof. reflexivity. Qed.

(* ---- well-formed pending forests: every child was announced by a strict descendant ---- *)
Definition nblk (n : node) : nat := pc_blk (n_change n).
Definition allP {A} (P : A -> Prop) : list A -> Prop :=
  fix go (l : list A) : Prop := match l with [] => True | x :: r => P x /\ go r end.
Fixpoint fwf (t : tree) (n : node) : Prop :=
  match n with Node c ch => allP (fun x => sdesc t (pc_blk c) (nblk x) = true /\ fwf t x) ch end.
Fixpoint nblocks (n : node) : list nat :=
  match n with Node c ch => pc_blk c :: flat_map nblocks ch end.

Lemma allP_forall : forall {A} (P : A -> Prop) l, allP P l <-> forall x, In x l -> P x.
Proof.
  intros A P. induction l as [|y l IH]; cbn [allP In].
  - split; [intros _ x [] | auto].
  - rewrite IH. split.
    + intros [H1 H2] x [<-|Hx]; auto.
    + intros H. split; [apply H; left; reflexivity | intros x Hx; apply H; right; exact Hx].
Qed.

Lemma node_ind2 : forall (P : node -> Prop),
  (forall c ch, allP P ch -> P (Node c ch)) -> forall n, P n.
Proof.
  intros P H. fix IH 1. intros [c ch]. apply H.
  induction ch as [|x r IHr]; cbn [allP]; [exact I | split; [apply IH | exact IHr]].
Qed.

(* ForkTree::import does not touch a subtree whose root is not an ancestor of the new block *)
Lemma s_import_non_ancestor : forall t c, wf t = true -> forall n, fwf t n ->
  is_anc t (nblk n) (pc_blk c) = false -> s_import_node t c n = Some None.
Proof.
  intros t c W. apply (node_ind2 (fun n => fwf t n -> is_anc t (nblk n) (pc_blk c) = false ->
                                           s_import_node t c n = Some None)).
  intros nc ch IH F A. rewrite s_import_node_unfold. change (is_anc t (pc_blk nc) (pc_blk c) = false) in A.
  destruct (number t (pc_blk c) <=? number t (pc_blk nc)); [reflexivity|].
  assert (I : s_import_into t c ch = Some None).
  { cbn [fwf] in F. induction ch as [|x r IHr]; [reflexivity|].
    cbn [allP] in IH, F. destruct IH as [IHx IHr']. destruct F as [[Fs Fx] Fr].
    cbn [s_import_into]. rewrite IHx; [rewrite (IHr IHr' Fr); reflexivity | exact Fx |].
    destruct (is_anc t (nblk x) (pc_blk c)) eqn:X; [|reflexivity].
    unfold sdesc in Fs. apply andb_true_iff in Fs. destruct Fs as [_ Fs].
    rewrite (is_anc_trans t W _ _ _ Fs X) in A. discriminate. }
  rewrite I. unfold sdesc. rewrite A, andb_false_r. reflexivity.
Qed.

(* pendingChangeNode.importNode = ForkTree node import, on a well-formed subtree, for a new block
   that descends from the last finalised block *)
Lemma import_node_equiv : forall t fin c, wf t = true -> is_anc t fin (pc_blk c) = true ->
  forall n, fwf t n -> (forall b, In b (nblocks n) -> b <> pc_blk c) ->
  import_node fixed t fin c n = s_import_node t c n.
Proof.
  intros t fin c W Hc. apply (node_ind2 (fun n => fwf t n -> (forall b, In b (nblocks n) -> b <> pc_blk c) ->
                                                  import_node fixed t fin c n = s_import_node t c n)).
  intros nc ch IH F Hb.
  destruct (is_anc t (pc_blk nc) (pc_blk c)) eqn:A.
  - rewrite import_node_unfold, s_import_node_unfold.
    assert (Hne : pc_blk nc <> pc_blk c) by (apply Hb; left; reflexivity).
    assert (E : Nat.eqb (pc_blk c) (pc_blk nc) = false) by (apply Nat.eqb_neq; congruence). rewrite E.
    rewrite desc_live, A by assumption.
    pose proof (number_anc_lt t _ _ W A Hne) as Hlt.
    assert (M : (number t (pc_blk c) <=? number t (pc_blk nc)) = false) by (apply N.leb_gt; exact Hlt). rewrite M.
    assert (I : import_into fixed t fin c ch = s_import_into t c ch).
    { cbn [fwf] in F. cbn [nblocks] in Hb.
      assert (Hb' : forall b, In b (flat_map nblocks ch) -> b <> pc_blk c) by (intros b H; apply Hb; right; exact H).
      clear Hb. induction ch as [|x r IHr]; [reflexivity|].
      cbn [allP] in IH, F. destruct IH as [IHx IHr']. destruct F as [[Fs Fx] Fr].
      cbn [flat_map] in Hb'. cbn [import_into s_import_into].
      rewrite IHx; [| exact Fx | intros b H; apply Hb'; apply in_or_app; left; exact H].
      rewrite (IHr IHr' Fr); [reflexivity|]. intros b H. apply Hb'. apply in_or_app. right. exact H. }
    rewrite I. destruct (s_import_into t c ch) as [[ch'|]|]; try reflexivity.
    unfold sdesc. rewrite A. rewrite Nat.eqb_sym, E. cbn [negb andb].
    assert (D : existsb (fun x => Nat.eqb (pc_blk (n_change x)) (pc_blk c)) ch = false).
    { apply not_true_is_false. intros D. apply existsb_exists in D. destruct D as [x [Hx Ex]].
      apply Nat.eqb_eq in Ex. apply (Hb (nblk x)); [|exact Ex].
      cbn [nblocks]. right. apply in_flat_map. exists x. split; [exact Hx|]. destruct x; left; reflexivity. }
    rewrite D. reflexivity.
  - rewrite (s_import_non_ancestor t c W (Node nc ch) F A).
    rewrite import_node_unfold.
    assert (Hne : pc_blk nc <> pc_blk c) by (apply Hb; left; reflexivity).
    assert (E : Nat.eqb (pc_blk c) (pc_blk nc) = false) by (apply Nat.eqb_neq; congruence). rewrite E.
    rewrite desc_live, A by assumption. reflexivity.
Qed.

(* ---- changeTree.importChange vs ForkTree::import on the roots ---- *)
Definition lroot (t : tree) (fin : nat) (n : node) : bool := known t fin (nblk n).
Definition fblocks (l : list node) : list nat := flat_map nblocks l.
Definition spec_import (t : tree) (c : pchange) (S : list node) : option (list node) :=
  match s_import_roots_aux t c S with
  | None => None
  | Some (Some r) => Some r
  | Some None => Some (S ++ [Node c []])
  end.

Lemma s_import_node_root : forall t c n n', s_import_node t c n = Some (Some n') -> nblk n' = nblk n.
Proof.
  intros t c [nc ch] n'. rewrite s_import_node_unfold.
  destruct (number t (pc_blk c) <=? number t (pc_blk nc)); [discriminate|].
  destruct (s_import_into t c ch) as [[ch'|]|]; try discriminate.
  - intros H. injection H as <-. reflexivity.
  - destruct (sdesc t (pc_blk nc) (pc_blk c)); [|discriminate].
    destruct (existsb _ ch); [discriminate|]. intros H. injection H as <-. reflexivity.
Qed.

Lemma import_roots_rel : forall t fin c, wf t = true -> is_anc t fin (pc_blk c) = true ->
  forall G, allP (fwf t) G -> (forall b, In b (fblocks G) -> b <> pc_blk c) ->
  option_map (filter (lroot t fin)) (import_roots fixed t fin c G) = spec_import t c (filter (lroot t fin) G).
Proof.
  intros t fin c W Hc. induction G as [|x r IH]; intros F Hb.
  - cbn [import_roots option_map filter]. unfold lroot, nblk, known. cbn [n_change].
    rewrite Hc, orb_true_r. reflexivity.
  - cbn [allP] in F. destruct F as [Fx Fr]. unfold fblocks in Hb. cbn [flat_map] in Hb.
    assert (Hbx : forall b, In b (nblocks x) -> b <> pc_blk c) by (intros b H; apply Hb; apply in_or_app; left; exact H).
    assert (Hbr : forall b, In b (fblocks r) -> b <> pc_blk c) by (intros b H; apply Hb; apply in_or_app; right; exact H).
    specialize (IH Fr Hbr).
    cbn [import_roots filter]. rewrite (import_node_equiv t fin c W Hc x Fx Hbx).
    destruct (lroot t fin x) eqn:L.
    + unfold spec_import. cbn [s_import_roots_aux].
      destruct (s_import_node t c x) as [[x'|]|] eqn:R.
      * cbn [option_map filter]. unfold lroot at 1. rewrite (s_import_node_root t c x x' R). fold (lroot t fin x). rewrite L. reflexivity.
      * unfold spec_import in IH.
        destruct (import_roots fixed t fin c r) as [r'|]; cbn [option_map] in IH |- *;
          destruct (s_import_roots_aux t c (filter (lroot t fin) r)) as [[r''|]|]; try discriminate; try reflexivity.
        -- injection IH as IH. cbn [filter]. rewrite L, IH. reflexivity.
        -- injection IH as IH. cbn [filter]. rewrite L, IH. reflexivity.
      * reflexivity.
    + assert (A : is_anc t (nblk x) (pc_blk c) = false).
      { destruct (is_anc t (nblk x) (pc_blk c)) eqn:A; [|reflexivity].
        unfold lroot in L. rewrite (known_of_anc t fin _ _ W Hc A) in L. discriminate. }
      rewrite (s_import_non_ancestor t c W x Fx A).
      destruct (import_roots fixed t fin c r) as [r'|]; cbn [option_map] in IH |- *; [|exact IH].
      cbn [filter]. rewrite L. exact IH.
Qed.

(* the Go import keeps the forest well-formed and adds only the new block *)
Lemma import_node_fwf : forall t fin c, wf t = true -> is_anc t fin (pc_blk c) = true ->
  forall n, fwf t n -> (forall b, In b (nblocks n) -> b <> pc_blk c) ->
  forall n', import_node fixed t fin c n = Some (Some n') ->
  fwf t n' /\ nblk n' = nblk n /\ (forall b, In b (nblocks n') -> In b (nblocks n) \/ b = pc_blk c).
Proof.
  intros t fin c W Hc.
  apply (node_ind2 (fun n => fwf t n -> (forall b, In b (nblocks n) -> b <> pc_blk c) ->
    forall n', import_node fixed t fin c n = Some (Some n') ->
    fwf t n' /\ nblk n' = nblk n /\ (forall b, In b (nblocks n') -> In b (nblocks n) \/ b = pc_blk c))).
  intros nc ch IH F Hb n'. rewrite import_node_unfold.
  assert (Hne : pc_blk nc <> pc_blk c) by (apply Hb; left; reflexivity).
  assert (E : Nat.eqb (pc_blk c) (pc_blk nc) = false) by (apply Nat.eqb_neq; congruence). rewrite E.
  rewrite desc_live by assumption. destruct (is_anc t (pc_blk nc) (pc_blk c)) eqn:A; [|discriminate].
  destruct (number t (pc_blk c) <=? number t (pc_blk nc)); [discriminate|].
  assert (HI : forall ch', import_into fixed t fin c ch = Some (Some ch') ->
              allP (fun x => sdesc t (pc_blk nc) (nblk x) = true /\ fwf t x) ch' /\
              (forall b, In b (flat_map nblocks ch') -> In b (flat_map nblocks ch) \/ b = pc_blk c)).
  { cbn [fwf] in F. cbn [nblocks] in Hb.
    assert (Hb' : forall b, In b (flat_map nblocks ch) -> b <> pc_blk c) by (intros b H; apply Hb; right; exact H).
    clear Hb. induction ch as [|x r IHr]; intros ch'; [discriminate|].
    cbn [allP] in IH, F. destruct IH as [IHx IHr']. destruct F as [[Fs Fx] Fr].
    cbn [flat_map] in Hb'. cbn [import_into].
    assert (Hbx : forall b, In b (nblocks x) -> b <> pc_blk c) by (intros b H; apply Hb'; apply in_or_app; left; exact H).
    assert (Hbr : forall b, In b (flat_map nblocks r) -> b <> pc_blk c) by (intros b H; apply Hb'; apply in_or_app; right; exact H).
    destruct (import_node fixed t fin c x) as [[x'|]|] eqn:R; [| |discriminate].
    - intros H. injection H as <-. destruct (IHx Fx Hbx x' eq_refl) as [P1 [P2 P3]].
      split.
      + cbn [allP]. split; [split; [rewrite P2; exact Fs | exact P1] | exact Fr].
      + cbn [flat_map]. intros b Hin. apply in_app_or in Hin. destruct Hin as [Hin|Hin].
        * destruct (P3 b Hin) as [Q|Q]; [left; apply in_or_app; left; exact Q | right; exact Q].
        * left. apply in_or_app. right. exact Hin.
    - destruct (import_into fixed t fin c r) as [[r'|]|] eqn:Rr; try discriminate.
      intros H. injection H as <-. destruct (IHr IHr' Fr Hbr r' eq_refl) as [P1 P2]. split.
      + cbn [allP]. split; [split; assumption | exact P1].
      + cbn [flat_map]. intros b Hin. apply in_app_or in Hin. destruct Hin as [Hin|Hin].
        * left. apply in_or_app. left. exact Hin.
        * destruct (P2 b Hin) as [Q|Q]; [left; apply in_or_app; right; exact Q | right; exact Q]. }
  destruct (import_into fixed t fin c ch) as [[ch'|]|]; [| |discriminate].
  - intros H. injection H as <-. destruct (HI ch' eq_refl) as [P1 P2].
    split; [exact P1|]. split; [reflexivity|]. cbn [nblocks]. intros b [<-|Hin]; [left; left; reflexivity|].
    destruct (P2 b Hin) as [Q|Q]; [left; right; exact Q | right; exact Q].
  - intros H. injection H as <-. split; [|split; [reflexivity|]].
    + cbn [fwf] in F |- *. apply allP_forall. intros x Hx. apply in_app_or in Hx. destruct Hx as [Hx|[<-|[]]].
      * apply (proj1 (allP_forall _ ch) F). exact Hx.
      * split; [|exact Logic.I]. unfold sdesc, nblk. cbn [n_change]. rewrite A.
        assert (E' : Nat.eqb (pc_blk nc) (pc_blk c) = false) by (apply Nat.eqb_neq; exact Hne). rewrite E'. reflexivity.
    + cbn [nblocks]. intros b [<-|Hin]; [left; left; reflexivity|].
      rewrite flat_map_app in Hin. apply in_app_or in Hin. destruct Hin as [Hin|Hin]; [left; right; exact Hin|].
      cbn in Hin. destruct Hin as [<-|[]]. right. reflexivity.
Qed.

Lemma import_roots_fwf : forall t fin c, wf t = true -> is_anc t fin (pc_blk c) = true ->
  forall G, allP (fwf t) G -> (forall b, In b (fblocks G) -> b <> pc_blk c) ->
  forall G', import_roots fixed t fin c G = Some G' ->
  allP (fwf t) G' /\ (forall b, In b (fblocks G') -> In b (fblocks G) \/ b = pc_blk c).
Proof.
  intros t fin c W Hc. induction G as [|x r IH]; intros F Hb G'.
  - cbn [import_roots]. intros H. injection H as <-. split; [cbn; auto|].
    unfold fblocks. cbn. intros b [<-|[]]. right. reflexivity.
  - cbn [allP] in F. destruct F as [Fx Fr]. unfold fblocks in Hb |- *. cbn [flat_map] in Hb |- *.
    assert (Hbx : forall b, In b (nblocks x) -> b <> pc_blk c) by (intros b H; apply Hb; apply in_or_app; left; exact H).
    assert (Hbr : forall b, In b (flat_map nblocks r) -> b <> pc_blk c) by (intros b H; apply Hb; apply in_or_app; right; exact H).
    cbn [import_roots]. destruct (import_node fixed t fin c x) as [[x'|]|] eqn:R; [| |discriminate].
    + intros H. injection H as <-. destruct (import_node_fwf t fin c W Hc x Fx Hbx x' R) as [P1 [_ P3]]. split.
      * cbn [allP]. auto.
      * cbn [flat_map]. intros b Hin. apply in_app_or in Hin. destruct Hin as [Hin|Hin].
        -- destruct (P3 b Hin) as [Q|Q]; [left; apply in_or_app; left; exact Q | right; exact Q].
        -- left. apply in_or_app. right. exact Hin.
    + destruct (import_roots fixed t fin c r) as [r'|] eqn:Rr; [|discriminate].
      intros H. injection H as <-. destruct (IH Fr Hbr r' eq_refl) as [P1 P2]. split.
      * cbn [allP]. auto.
      * cbn [flat_map]. intros b Hin. apply in_app_or in Hin. destruct Hin as [Hin|Hin].
        -- left. apply in_or_app. left. exact Hin.
        -- destruct (P2 b Hin) as [Q|Q]; [left; apply in_or_app; right; exact Q | right; exact Q].
Qed.

(* ---- finalisation: findApplicable / pruneChanges vs finalize_with_descendent_if ---- *)
Definition due_h (t : tree) (h : nat) (n : node) : bool :=
  (eff t (n_change n) <=? number t h) && is_anc t (nblk n) h.
Definition over_h (t : tree) (h : nat) (x : node) : bool :=
  (number t (nblk x) <=? number t h) && is_anc t (nblk x) h.
Fixpoint find_root (t : tree) (h : nat) (l : list node) : option (option node) :=
  match l with
  | [] => Some None
  | x :: r => if due_h t h x then (if existsb (over_h t h) (n_children x) then None else Some (Some x))
              else find_root t h r
  end.

Lemma go_find_root : forall t h l, wf t = true ->
  lookup_where (sched_applicable_cond fixed t h h) l = find_root t h l.
Proof.
  intros t h l W. induction l as [|x r IH]; [reflexivity|]. cbn [lookup_where find_root].
  rewrite sched_cond_fixed. unfold due. rewrite rel_live by (try exact W; apply is_anc_refl; exact W).
  fold (nblk x). fold (due_h t h x). destruct (due_h t h x); [|exact IH].
  assert (E : existsb (overtaken t h h) (n_children x) = existsb (over_h t h) (n_children x)).
  { induction (n_children x) as [|y l' IHl]; [reflexivity|]. cbn [existsb]. rewrite IHl. f_equal.
    unfold overtaken, over_h. rewrite rel_live by (try exact W; apply is_anc_refl; exact W). reflexivity. }
  rewrite E. destruct (existsb (over_h t h) (n_children x)); reflexivity.
Qed.

Lemma spec_find_root : forall t h l, wf t = true -> s_find_root t h l = find_root t h l.
Proof.
  intros t h l W. induction l as [|x r IH]; [reflexivity|]. cbn [s_find_root find_root].
  rewrite strict_or_eq by exact W. fold (nblk x). fold (due_h t h x). destruct (due_h t h x); [|exact IH].
  assert (E : existsb (fun ch => (number t (pc_blk (n_change ch)) <=? number t h)
                                 && (Nat.eqb (pc_blk (n_change ch)) h || sdesc t (pc_blk (n_change ch)) h))
                      (n_children x) = existsb (over_h t h) (n_children x)).
  { induction (n_children x) as [|y l' IHl]; [reflexivity|]. cbn [existsb]. rewrite IHl. f_equal.
    rewrite strict_or_eq by exact W. reflexivity. }
  rewrite E. destruct (existsb (over_h t h) (n_children x)); reflexivity.
Qed.

Lemma find_root_filter : forall t f h l, wf t = true -> is_anc t f h = true ->
  find_root t h (filter (lroot t f) l) = find_root t h l.
Proof.
  intros t f h l W Hf. induction l as [|x r IH]; [reflexivity|]. cbn [filter find_root].
  destruct (lroot t f x) eqn:L; cbn [find_root]; [rewrite IH; reflexivity|].
  assert (D : due_h t h x = false).
  { unfold due_h. destruct (is_anc t (nblk x) h) eqn:A; [|apply andb_false_r].
    unfold lroot in L. rewrite (known_of_anc t f _ _ W Hf A) in L. discriminate. }
  rewrite D. exact IH.
Qed.

Lemma retain_known : forall t h x, wf t = true -> s_retain t h x = lroot t h x.
Proof.
  intros t h x W. unfold s_retain, lroot, known. fold (nblk x).
  rewrite <- orb_assoc. rewrite strict_or_eq by exact W.
  destruct (sdesc t h (nblk x)) eqn:S.
  - rewrite (proj2 (N.ltb_lt _ _) (sdesc_number t _ _ W S)). cbn [andb orb].
    unfold sdesc in S. apply andb_true_iff in S. destruct S as [_ S]. rewrite S. symmetry. apply orb_true_r.
  - rewrite andb_false_r. cbn [orb]. destruct (is_anc t (nblk x) h) eqn:A; [reflexivity|]. cbn [orb].
    unfold sdesc in S. destruct (is_anc t h (nblk x)) eqn:B; [|reflexivity].
    rewrite andb_true_r in S. apply negb_false_iff in S. apply Nat.eqb_eq in S.
    rewrite <- S in A. rewrite is_anc_refl in A by exact W. discriminate.
Qed.

Lemma lroot_mono : forall t f h x, wf t = true -> is_anc t f h = true -> lroot t h x = true -> lroot t f x = true.
Proof.
  intros t f h x W Hf L. unfold lroot, known in *. apply orb_true_iff in L. destruct L as [L|L].
  - apply (known_of_anc t f _ h W Hf L).
  - rewrite (is_anc_trans t W _ _ _ Hf L). apply orb_true_r.
Qed.

Lemma filter_filter_imp : forall {A} (p q : A -> bool) l, (forall x, p x = true -> q x = true) ->
  filter p (filter q l) = filter p l.
Proof.
  intros A p q l H. induction l as [|x r IH]; [reflexivity|]. cbn [filter].
  destruct (q x) eqn:Q; cbn [filter]; [rewrite IH; reflexivity|].
  destruct (p x) eqn:P; [rewrite (H x P) in Q; discriminate | exact IH].
Qed.

Lemma filter_ext_in : forall {A} (p q : A -> bool) l, (forall x, p x = q x) -> filter p l = filter q l.
Proof. intros A p q l H. induction l as [|x r IH]; [reflexivity|]. cbn [filter]. rewrite H, IH. reflexivity. Qed.

Lemma prune_anc_lroot : forall t h l, wf t = true ->
  filter (fun x => rel t h h (pc_blk (n_change x)) || rel t h (pc_blk (n_change x)) h) l = filter (lroot t h) l.
Proof.
  intros t h l W. apply filter_ext_in. intros x. rewrite rel_from_fin by exact W.
  rewrite rel_live by (try exact W; apply is_anc_refl; exact W). unfold lroot, known, nblk. apply orb_comm.
Qed.

(* ---- the simulation invariant ---- *)
Record kinv (t : tree) (imported : list nat) (fin : nat) (g : gst) (q : sst) : Prop := {
  k_closed : forall a d, In d imported -> is_anc t a d = true -> In a imported;
  k_fin_in : In fin imported;
  k_gforced : g_forced g = [];
  k_sforced : s_forced q = [];
  k_fwf : allP (fwf t) (g_roots g);
  k_blocks : forall b, In b (fblocks (g_roots g)) -> In b imported;
  k_roots : s_roots q = filter (lroot t fin) (g_roots g);
  k_setid : g_setid g = s_setid q;
  k_auths : forall id, aget (g_auths g) id = aget (s_hist q) id;
  k_tables : exists ls, tables_inv g ls /\ s_changes q = spec_table_from 0 ls /\ sorted_n ls = true /\
                        (forall x, In x ls -> x <= number t fin);
  k_gfin : g_fin g = fin;
  k_bestfin : match s_bestfin q with Some bf => bf <= number t fin | None => True end
}.

Lemma kinv_init : forall t, wf t = true -> kinv t [O] O ginit sinit.
Proof.
  intros t W. constructor.
  - intros a d [<-|[]] H. rewrite is_anc_unfold in H by exact W. rewrite orb_false_r in H.
    apply Nat.eqb_eq in H. left. symmetry. exact H.
  - left. reflexivity.
  - reflexivity.
  - reflexivity.
  - exact I.
  - intros b [].
  - reflexivity.
  - reflexivity.
  - intros id. reflexivity.
  - exists []. split; [apply tables_inv_init|]. split; [reflexivity|]. split; [reflexivity|]. intros x [].
  - reflexivity.
  - exact I.
Qed.

(* the observables the statement names *)
Definition obs_eq3 (t : tree) (g : gst) (q : sst) : bool :=
  (g_setid g =? s_setid q)
  && forallb (fun id => opt_n_eqb (aget (g_auths g) (N.of_nat id)) (aget (s_hist q) (N.of_nat id)))
             (seq 0 (S (S (N.to_nat (g_setid g)))))
  && (negb (nondecr (s_changes q))
      || forallb (fun n => opt_n_eqb (go_setid_by_number g (N.of_nat n)) (Some (spec_setid_by_number q (N.of_nat n))))
                 (seq 0 (max_number t + 3))).

Lemma kinv_obs : forall t imported fin g q, kinv t imported fin g q -> obs_eq3 t g q = true.
Proof.
  intros t imported fin g q K. destruct K. destruct k_tables0 as [ls [T [C [Hs _]]]].
  unfold obs_eq3. apply andb_true_iff; split; [apply andb_true_iff; split|].
  - apply N.eqb_eq. exact k_setid0.
  - apply forallb_forall. intros id _. rewrite k_auths0. apply opt_n_eqb_refl.
  - apply orb_true_iff. right. apply forallb_forall. intros k _.
    rewrite (setid_obs g q ls _ T Hs C k_setid0). apply opt_n_eqb_refl.
Qed.

Fixpoint agree_run3 (t : tree) (sched : changes) (imported : list nat) (fin : nat)
  (g : gst) (q : sst) (evs : list event) : Prop :=
  match evs with
  | [] => True
  | e :: r =>
    In e (next_events t imported fin) ->
    match spec_step t sched [] q e with
    | None => is_rok (snd (go_step fixed t sched [] g e)) = false
    | Some q' =>
      let g' := fst (go_step fixed t sched [] g e) in
      let imported' := match e with Import b => b :: imported | Finalise _ => imported end in
      let fin' := match e with Import _ => fin | Finalise b => b end in
      is_rok (snd (go_step fixed t sched [] g e)) = true /\ obs_eq3 t g' q' = true /\
      agree_run3 t sched imported' fin' g' q' r
    end
  end.

Lemma in_fblocks_root : forall l x, In x l -> In (nblk x) (fblocks l).
Proof.
  intros l x H. unfold fblocks. apply in_flat_map. exists x. split; [exact H|]. destruct x; left; reflexivity.
Qed.

Lemma in_fblocks_child : forall l x b, In x l -> In b (fblocks (n_children x)) -> In b (fblocks l).
Proof.
  intros l x b H Hb. unfold fblocks in *. apply in_flat_map. exists x. split; [exact H|].
  destruct x as [c ch]. cbn [nblocks n_children] in *. right. exact Hb.
Qed.

Lemma find_root_in : forall t h l n, find_root t h l = Some (Some n) -> In n l /\ due_h t h n = true.
Proof.
  intros t h. induction l as [|x r IH]; intros n H; [discriminate|]. cbn [find_root] in H.
  destruct (due_h t h x) eqn:D.
  - destruct (existsb (over_h t h) (n_children x)); [discriminate|]. injection H as <-. split; [left; reflexivity | exact D].
  - destruct (IH n H) as [H1 H2]. split; [right; exact H1 | exact H2].
Qed.

Lemma fwf_children : forall t n, fwf t n -> allP (fwf t) (n_children n).
Proof.
  intros t [c ch] F. cbn [fwf n_children] in *. apply allP_forall. intros x Hx.
  apply (proj1 (allP_forall _ ch) F x Hx).
Qed.

Lemma filter_fblocks : forall p l b, In b (fblocks (filter p l)) -> In b (fblocks l).
Proof.
  intros p l b H. unfold fblocks in *. apply in_flat_map in H. destruct H as [x [Hx Hb]].
  apply filter_In in Hx. apply in_flat_map. exists x. tauto.
Qed.

Lemma allP_filter : forall {A} (P : A -> Prop) p l, allP P l -> allP P (filter p l).
Proof.
  intros A P p l H. apply allP_forall. intros x Hx. apply filter_In in Hx.
  apply (proj1 (allP_forall P l) H). tauto.
Qed.

(* one event *)
Lemma forks_step : forall t sched, wf t = true -> sched_ok sched ->
  forall imported fin g q e, kinv t imported fin g q -> In e (next_events t imported fin) ->
  match spec_step t sched [] q e with
  | None => is_rok (snd (go_step fixed t sched [] g e)) = false
  | Some q' =>
    is_rok (snd (go_step fixed t sched [] g e)) = true /\
    kinv t (match e with Import b => b :: imported | Finalise _ => imported end)
           (match e with Import _ => fin | Finalise b => b end)
           (fst (go_step fixed t sched [] g e)) q'
  end.
Proof.
  intros t sched W Hok imported fin g q e K Hin.
  destruct K as [Kc Kf Kgf Ksf Kw Kb Kr Ksi Ka Kt Kgfin Kbf]. destruct Kt as [ls [T [C [Hs Hle]]]].
  unfold next_events in Hin. apply in_app_or in Hin. destruct e as [b|h].
  - (* Import b *)
    destruct Hin as [Hin|Hin]; apply in_map_iff in Hin; destruct Hin as [x [E Hx]]; [|discriminate].
    injection E as ->. apply filter_In in Hx. destruct Hx as [Hseq Hc].
    apply in_seq in Hseq.
    apply andb_true_iff in Hc. destruct Hc as [Hc H3]. apply andb_true_iff in Hc. destruct Hc as [H1 H2].
    apply negb_true_iff in H1.
    assert (Hnb : ~ In b imported) by (intros X; apply has_in in X; congruence).
    apply has_in in H2. destruct b as [|j]; [lia|].
    assert (Hfb : is_anc t fin (S j) = true) by (rewrite is_anc_unfold by exact W; rewrite H3; apply orb_true_r).
    assert (Closed' : forall a d, In d (S j :: imported) -> is_anc t a d = true -> In a (S j :: imported)).
    { intros a d [<-|Hd] Ha.
      - rewrite is_anc_unfold in Ha by exact W. apply orb_true_iff in Ha. destruct Ha as [Ha|Ha].
        + apply Nat.eqb_eq in Ha. left. symmetry. exact Ha.
        + right. apply (Kc a (parent t (S j))); assumption.
      - right. apply (Kc a d); assumption. }
    cbn [go_step spec_step cfind].
    destruct (cfind sched (S j)) as [c|] eqn:Ec.
    + pose proof (Hok _ _ Ec) as Hcb.
      assert (Hcl : is_anc t fin (pc_blk c) = true) by (rewrite Hcb; exact Hfb).
      assert (Hnew : forall b, In b (fblocks (g_roots g)) -> b <> pc_blk c).
      { intros b Hb E. apply Hnb. rewrite <- Hcb, <- E. apply Kb. exact Hb. }
      pose proof (import_roots_rel t fin c W Hcl (g_roots g) Kw Hnew) as Rel.
      unfold add_scheduled, s_add_standard. rewrite Kgfin.
      assert (Rv : (match s_bestfin q with Some bf => number t (pc_blk c) <=? bf | None => false end) = false).
      { destruct (s_bestfin q) as [bf|]; [|reflexivity]. apply N.leb_gt.
        assert (fin <> pc_blk c) by (intros X; apply Hnb; rewrite <- Hcb, <- X; exact Kf).
        pose proof (number_anc_lt t fin (pc_blk c) W Hcl H). lia. }
      rewrite Rv. rewrite Kr. unfold spec_import in Rel.
      assert (Dup : existsb (fun x => Nat.eqb (pc_blk (n_change x)) (pc_blk c)) (filter (lroot t fin) (g_roots g)) = false).
      { apply not_true_is_false. intros D. apply existsb_exists in D. destruct D as [x [Hx Ex]].
        apply Nat.eqb_eq in Ex. apply filter_In in Hx. destruct Hx as [Hx _].
        apply (Hnew (nblk x)); [apply in_fblocks_root; exact Hx | exact Ex]. }
      destruct (import_roots fixed t fin c (g_roots g)) as [G'|] eqn:IR; cbn [option_map] in Rel.
      * destruct (import_roots_fwf t fin c W Hcl (g_roots g) Kw Hnew G' IR) as [Fw' Fb'].
        assert (Spec1 : match s_import_roots_aux t c (filter (lroot t fin) (g_roots g)) with
                        | Some (Some r) => Some (s_with_roots q r)
                        | Some None => if existsb (fun x => Nat.eqb (pc_blk (n_change x)) (pc_blk c)) (filter (lroot t fin) (g_roots g))
                                       then None else Some (s_with_roots q (filter (lroot t fin) (g_roots g) ++ [Node c []]))
                        | None => None
                        end = Some (s_with_roots q (filter (lroot t fin) G'))).
        { rewrite Dup. destruct (s_import_roots_aux t c (filter (lroot t fin) (g_roots g))) as [[r|]|];
            try discriminate; injection Rel as Rel; rewrite Rel; reflexivity. }
        rewrite Spec1. rewrite apply_forced_fixed. cbn [g_forced]. rewrite Kgf. cbn [find].
        unfold s_apply_forced. cbn [s_with_roots s_forced]. rewrite Ksf. cbn [s_find_forced].
        cbn [fst snd is_rok]. split; [reflexivity|].
        constructor; cbn [g_forced g_roots g_setid g_auths g_changes g_fin s_with_roots s_forced s_roots s_setid s_hist s_changes s_bestfin];
          try assumption; try reflexivity.
        -- right. exact Kf.
        -- intros b Hb. destruct (Fb' b Hb) as [Q|Q]; [right; apply Kb; exact Q | left; rewrite Q, Hcb; reflexivity].
        -- exists ls. split; [|auto]. apply (tables_inv_same g); [exact T | reflexivity | reflexivity | reflexivity].
      * destruct (s_import_roots_aux t c (filter (lroot t fin) (g_roots g))) as [[r|]|]; try discriminate.
        reflexivity.
    + rewrite apply_forced_fixed. rewrite Kgf. cbn [find].
      unfold s_apply_forced. rewrite Ksf. cbn [s_find_forced].
      cbn [fst snd is_rok]. split; [reflexivity|].
      constructor; try assumption.
      * right. exact Kf.
      * intros b Hb. right. apply Kb. exact Hb.
      * exists ls. auto.
  - (* Finalise h *)
    destruct Hin as [Hin|Hin]; apply in_map_iff in Hin; destruct Hin as [x [E Hx]]; [discriminate|].
    injection E as ->. apply filter_In in Hx. destruct Hx as [Hseq Hc].
    apply andb_true_iff in Hc. destruct Hc as [Hc Hfh]. apply andb_true_iff in Hc. destruct Hc as [H1 H2].
    apply has_in in H1. apply negb_true_iff in H2. apply Nat.eqb_neq in H2.
    assert (Hlt : number t fin < number t h) by (apply number_anc_lt; [exact W | exact Hfh | congruence]).
    cbn [go_step spec_step].
    set (s0 := mkgst (g_forced g) (g_roots g) (g_setid g) (g_auths g) (g_changes g) h).
    unfold apply_scheduled, s_finalise. rewrite prune_keep_fixed.
    cbn [s0 g_forced g_roots g_setid g_auths g_changes g_fin]. rewrite Kgf, Ksf. cbn [filter].
    assert (Rv : (match s_bestfin q with Some bf => number t h <=? bf | None => false end) = false).
    { destruct (s_bestfin q) as [bf|]; [|reflexivity]. apply N.leb_gt. lia. }
    rewrite Rv. rewrite spec_find_root by exact W. rewrite Kr. rewrite find_root_filter by assumption.
    assert (Hle' : forall x, In x ls -> x <= number t h) by (intros x Hx; specialize (Hle x Hx); lia).
    destruct (g_roots g) as [|r0 rs] eqn:GR.
    + cbn [find_root filter length Nat.eqb negb fst snd is_rok]. split; [reflexivity|].
      constructor; cbn [g_forced g_roots g_setid g_auths g_changes g_fin s_forced s_roots s_setid s_hist s_changes s_bestfin];
        try assumption; try reflexivity; try lia.
      * exists ls. split; [|auto]. apply (tables_inv_same g); [exact T | reflexivity | reflexivity | reflexivity].
    + rewrite go_find_root by exact W. rewrite <- GR in *.
      destruct (find_root t h (g_roots g)) as [[n|]|] eqn:FR.
      * (* a change is enacted *)
        destruct (find_root_in t h _ n FR) as [Hn _].
        cbn [fst snd is_rok]. split; [reflexivity|].
        destruct T as [J1 R1]. pose proof (conj J1 R1) as T.
        constructor; cbn [g_forced g_roots g_setid g_auths g_changes g_fin s_forced s_roots s_setid s_hist s_changes s_bestfin];
          try assumption; try reflexivity; try lia.
        -- apply fwf_children. apply (proj1 (allP_forall _ _) Kw n Hn).
        -- intros b Hb. apply Kb. apply (in_fblocks_child _ n); assumption.
        -- apply filter_ext_in. intros x. apply retain_known. exact W.
        -- intros id. rewrite aget_aput, aget_snoc. rewrite <- Ka. rewrite <- Ksi.
           destruct (g_setid g + 1 =? id) eqn:E; [|destruct (aget (g_auths g) id); reflexivity].
           apply N.eqb_eq in E. subst id.
           destruct T as [_ [_ [_ [_ [_ I6]]]]]. rewrite I6 by lia. reflexivity.
        -- exists (ls ++ [number t h]). split; [|split; [|split]].
           ++ apply (tables_inv_push g _ ls (number t h) (pc_auth (n_change n)) T); reflexivity.
           ++ rewrite C, spec_table_snoc. cbn [Nat.add]. rewrite <- Ksi, J1. reflexivity.
           ++ apply sorted_n_snoc; assumption.
           ++ intros x Hx. apply in_app_or in Hx. destruct Hx as [Hx|[<-|[]]]; [apply Hle'; exact Hx | lia].
      * (* nothing due: roots of abandoned forks are pruned *)
        cbn [fixed v_keep_ancestors]. rewrite prune_keep_anc_fixed. rewrite prune_anc_lroot by exact W.
        assert (RR : filter (s_retain t h) (filter (lroot t fin) (g_roots g)) = filter (lroot t h) (g_roots g)).
        { rewrite (filter_ext_in (s_retain t h) (lroot t h)) by (intros x; apply retain_known; exact W).
          apply filter_filter_imp. intros x. apply lroot_mono; assumption. }
        rewrite RR.
        assert (Q' : forall changed : bool,
                  (if changed
                   then Some (mksst (s_auth q) (s_setid q) (filter (lroot t h) (g_roots g)) (Some (number t h)) []
                                    (s_changes q) (s_hist q))
                   else Some (mksst (s_auth q) (s_setid q) (filter (lroot t h) (g_roots g)) (Some (number t h)) []
                                    (s_changes q) (s_hist q)))
                  = Some (mksst (s_auth q) (s_setid q) (filter (lroot t h) (g_roots g)) (Some (number t h)) []
                                (s_changes q) (s_hist q))) by (intros [|]; reflexivity).
        rewrite Q'. cbn [fst snd is_rok]. split; [reflexivity|].
        constructor; cbn [g_forced g_roots g_setid g_auths g_changes g_fin s_forced s_roots s_setid s_hist s_changes s_bestfin];
          try assumption; try reflexivity; try lia.
        -- apply allP_filter. exact Kw.
        -- intros b Hb. apply Kb. apply (filter_fblocks _ _ _ Hb).
        -- symmetry. apply filter_filter_imp. auto.
        -- exists ls. split; [|auto]. apply (tables_inv_same g); [exact T | reflexivity | reflexivity | reflexivity].
      * reflexivity.
Qed.

Lemma forks_agree : forall t sched, wf t = true -> sched_ok sched ->
  forall evs imported fin g q, kinv t imported fin g q -> agree_run3 t sched imported fin g q evs.
Proof.
  intros t sched W Hok. induction evs as [|e r IH]; intros imported fin g q K; [exact I|].
  cbn [agree_run3]. intros Hin.
  pose proof (forks_step t sched W Hok imported fin g q e K Hin) as S.
  destruct (spec_step t sched [] q e) as [q'|]; [|exact S].
  cbn zeta. destruct S as [S1 K']. split; [exact S1|]. split.
  - apply (kinv_obs _ _ _ _ _ K').
  - apply IH. exact K'.
Qed.

Lemma forks_refines : forall t sched evs, wf t = true -> sched_ok sched ->
  agree_run3 t sched [O] O ginit sinit evs.
Proof. intros t sched evs W Hok. apply forks_agree; try assumption. apply kinv_init. exact W. Qed.
