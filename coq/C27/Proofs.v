(* C27/Proofs.v -- lemmas about the model of CheckEquivocation. *)
From Coq Require Import NArith ZArith List Bool Lia.
From C27 Require Import Gen Model.
Import ListNotations.
Local Open Scope N_scope.

(* ---- constants (regenerated from slot.go on every run) ---- *)
Example cap_value : max_slot_capacity = 1000. Proof. reflexivity. Qed.
Example prune_value : pruning_bound = 2 * max_slot_capacity. Proof. reflexivity. Qed.

Lemma sat_sub_eq : forall a b, sat_sub a b = a - b.
Proof. intros. unfold sat_sub. destruct (a <? b) eqn:E; [apply N.ltb_lt in E; lia | reflexivity]. Qed.

(* ---- table lemmas ---- *)
Lemma get_put : forall m k v k', get (put m k v) k' = if k =? k' then v else get m k'.
Proof.
  induction m as [|[k0 v0] m IH]; intros; cbn [put get].
  - destruct (k =? k'); reflexivity.
  - destruct (k0 =? k) eqn:E0; cbn [get].
    + apply N.eqb_eq in E0. subst. destruct (k =? k'); reflexivity.
    + rewrite IH. destruct (k0 =? k') eqn:E1; [|reflexivity].
      apply N.eqb_eq in E1. subst. rewrite N.eqb_sym, E0. reflexivity.
Qed.

Lemma get_prune : forall m lo hi k,
  get (prune m lo hi) k = if (lo <=? k) && (k <? hi) then [] else get m k.
Proof.
  induction m as [|[k0 v0] m IH]; intros; cbn [prune filter get fst].
  - destruct ((lo <=? k) && (k <? hi)); reflexivity.
  - fold (prune m lo hi). destruct ((lo <=? k0) && (k0 <? hi)) eqn:E; cbn [negb get].
    + rewrite IH. destruct (k0 =? k) eqn:E1; [|reflexivity].
      apply N.eqb_eq in E1. subst. rewrite E. reflexivity.
    + rewrite IH. destruct (k0 =? k) eqn:E1; [|reflexivity].
      apply N.eqb_eq in E1. subst. rewrite E. reflexivity.
Qed.

Lemma scan_lookup : forall l h sg,
  scan l h sg = match lookup l sg with
                | None => NotFound
                | Some h' => if h' =? h then Duplicate else Equivocation h'
                end.
Proof.
  induction l as [|[h0 s0] l IH]; intros; cbn [scan lookup]; [reflexivity|].
  destruct (s0 =? sg); [reflexivity | apply IH].
Qed.

Lemma lookup_snoc : forall l h sg sg',
  lookup (l ++ [(h, sg)]) sg' =
  match lookup l sg' with Some x => Some x | None => if sg =? sg' then Some h else None end.
Proof.
  induction l as [|[h0 s0] l IH]; intros; cbn [app lookup]; [reflexivity|].
  destruct (s0 =? sg'); [reflexivity | apply IH].
Qed.

(* ---- one step: the answer, and the evolution of the retained records ---- *)
Definition answer_of (s : st) (c : chk) : option proof :=
  if in_window s c then
    match retained s (c_slot c) (c_signer c) with
    | Some h' => if h' =? c_hdr c then None
                 else Some (mkproof (c_slot c) (c_signer c) h' (c_hdr c))
    | None => None
    end
  else None.

Lemma check_answer : forall s c, snd (check s c) = answer_of s c.
Proof.
  intros. unfold check, answer_of, in_window, out_of_capacity, retained, first_saved.
  destruct (max_slot_capacity <? sat_sub (c_now c) (c_slot c)); cbn [negb andb snd]; [reflexivity|].
  destruct (c_now c <? match start s with Some f => f | None => c_slot c end); cbn [negb snd]; [reflexivity|].
  rewrite scan_lookup.
  destruct (lookup (get (recs s) (c_slot c)) (c_signer c)) as [h'|]; [|reflexivity].
  destruct (h' =? c_hdr c); reflexivity.
Qed.

(* a check is recorded iff it is in the window and its (slot, signer) has no retained record *)
Definition records (s : st) (c : chk) : bool :=
  in_window s c && match retained s (c_slot c) (c_signer c) with None => true | Some _ => false end.
Definition new_first (s : st) (c : chk) : N :=
  let first := first_saved s (c_slot c) in
  if pruning_bound <=? c_now c - first then sat_sub (c_now c) max_slot_capacity else first.

Lemma check_not_recorded : forall s c, records s c = false -> fst (check s c) = s.
Proof.
  intros s c. unfold records, check, in_window, out_of_capacity, retained, first_saved.
  destruct (max_slot_capacity <? sat_sub (c_now c) (c_slot c)); cbn [negb andb fst]; [reflexivity|].
  destruct (c_now c <? match start s with Some f => f | None => c_slot c end); cbn [negb fst]; [reflexivity|].
  rewrite scan_lookup.
  destruct (lookup (get (recs s) (c_slot c)) (c_signer c)) as [h'|]; [|discriminate].
  destruct (h' =? c_hdr c); reflexivity.
Qed.

Lemma check_recorded_start : forall s c, records s c = true ->
  start (fst (check s c)) = Some (new_first s c).
Proof.
  intros s c. unfold records, new_first, check, in_window, out_of_capacity, retained, first_saved.
  destruct (max_slot_capacity <? sat_sub (c_now c) (c_slot c)); cbn [negb andb fst]; [discriminate|].
  destruct (c_now c <? match start s with Some f => f | None => c_slot c end); cbn [negb fst]; [discriminate|].
  rewrite scan_lookup.
  destruct (lookup (get (recs s) (c_slot c)) (c_signer c)) as [h'|]; [discriminate|].
  intros _. reflexivity.
Qed.

Lemma check_recorded_retained : forall s c slot sg, records s c = true ->
  retained (fst (check s c)) slot sg =
  if (first_saved s (c_slot c) <=? slot) && (slot <? new_first s c) then None
  else if (c_slot c =? slot) && (c_signer c =? sg) then Some (c_hdr c)
  else retained s slot sg.
Proof.
  intros s c slot sg. unfold records, new_first, check, in_window, out_of_capacity, retained, first_saved.
  destruct (max_slot_capacity <? sat_sub (c_now c) (c_slot c)); cbn [negb andb fst]; [discriminate|].
  destruct (c_now c <? match start s with Some f => f | None => c_slot c end); cbn [negb fst]; [discriminate|].
  rewrite scan_lookup.
  destruct (lookup (get (recs s) (c_slot c)) (c_signer c)) as [h'|] eqn:L; [discriminate|].
  intros _. cbn [fst recs]. rewrite get_prune.
  match goal with |- context [if ?b then [] else _] => destruct b end; [reflexivity|].
  rewrite get_put. destruct (c_slot c =? slot) eqn:E; cbn [andb]; [|reflexivity].
  apply N.eqb_eq in E. subst slot. rewrite lookup_snoc.
  destruct (c_signer c =? sg) eqn:E2.
  - apply N.eqb_eq in E2. subst sg. rewrite L. reflexivity.
  - destruct (lookup (get (recs s) (c_slot c)) sg); reflexivity.
Qed.

(* ---- histories ---- *)
Definition state_after (cs : list chk) : st := fst (run init cs).
Definition answer (cs : list chk) (c : chk) : option proof := snd (check (state_after cs) c).

Lemma run_snoc : forall cs s c,
  run s (cs ++ [c]) = (fst (check (fst (run s cs)) c), snd (run s cs) ++ [snd (check (fst (run s cs)) c)]).
Proof.
  induction cs as [|c0 cs IH]; intros; cbn [app run].
  - cbn [fst snd app]. destruct (check s c); reflexivity.
  - destruct (check s c0) as [s1 o]. rewrite IH.
    destruct (run s1 cs) as [s2 os]. reflexivity.
Qed.

Lemma state_after_snoc : forall cs c, state_after (cs ++ [c]) = fst (check (state_after cs) c).
Proof. intros. unfold state_after. rewrite run_snoc. reflexivity. Qed.

Lemma run_outputs_snoc : forall cs c, snd (run init (cs ++ [c])) = snd (run init cs) ++ [answer cs c].
Proof. intros. rewrite run_snoc. reflexivity. Qed.

Lemma run_length : forall cs s, length (snd (run s cs)) = length cs.
Proof.
  induction cs as [|c cs IH]; intros; cbn [run]; [reflexivity|].
  destruct (check s c) as [s1 o]. specialize (IH s1). destruct (run s1 cs). cbn in *. lia.
Qed.

(* the i-th output of a run is the answer to the i-th check after the first i checks *)
Lemma run_outputs : forall cs i c, nth_error cs i = Some c ->
  nth_error (snd (run init cs)) i = Some (answer (firstn i cs) c).
Proof.
  induction cs as [|c0 cs IH] using rev_ind; intros i c H.
  - destruct i; discriminate.
  - rewrite run_outputs_snoc.
    destruct (Nat.lt_ge_cases i (length cs)) as [Hlt|Hge].
    + rewrite nth_error_app1 in H by exact Hlt.
      rewrite nth_error_app1 by (rewrite run_length; exact Hlt).
      rewrite firstn_app. replace (i - length cs)%nat with 0%nat by lia.
      cbn [firstn]. rewrite app_nil_r. apply IH. exact H.
    + assert (i = length cs).
      { assert (i < length (cs ++ [c0]))%nat by (apply nth_error_Some; congruence).
        rewrite app_length in *. cbn in *. lia. }
      subst i. rewrite nth_error_app2 in H by lia. rewrite Nat.sub_diag in H. cbn in H.
      injection H as ->. rewrite nth_error_app2 by (rewrite run_length; lia).
      rewrite run_length, Nat.sub_diag. cbn [nth_error].
      rewrite firstn_app, Nat.sub_diag, firstn_all. cbn [firstn]. rewrite app_nil_r. reflexivity.
Qed.

(* ---- soundness w.r.t. the history (all histories) ---- *)
Definition from_history (cs : list chk) (s : st) : Prop :=
  forall slot sg h', retained s slot sg = Some h' ->
  exists c0, In c0 cs /\ c_slot c0 = slot /\ c_signer c0 = sg /\ c_hdr c0 = h'.

Lemma from_history_after : forall cs, from_history cs (state_after cs).
Proof.
  induction cs as [|c cs IH] using rev_ind.
  - intros slot sg h'. unfold state_after, retained. cbn. destruct slot; discriminate.
  - rewrite state_after_snoc. intros slot sg h' H.
    destruct (records (state_after cs) c) eqn:R.
    + rewrite check_recorded_retained in H by exact R.
      destruct ((first_saved (state_after cs) (c_slot c) <=? slot) && (slot <? new_first (state_after cs) c));
        [discriminate|].
      destruct ((c_slot c =? slot) && (c_signer c =? sg)) eqn:E.
      * apply andb_true_iff in E. destruct E as [E1 E2].
        apply N.eqb_eq in E1. apply N.eqb_eq in E2. injection H as <-.
        exists c. split; [apply in_or_app; right; left; reflexivity | auto].
      * destruct (IH slot sg h' H) as [c0 [Hin Hr]]. exists c0.
        split; [apply in_or_app; left; exact Hin | exact Hr].
    + rewrite check_not_recorded in H by exact R.
      destruct (IH slot sg h' H) as [c0 [Hin Hr]]. exists c0.
      split; [apply in_or_app; left; exact Hin | exact Hr].
Qed.

Lemma answer_sound : forall cs c p, answer cs c = Some p ->
  p_slot p = c_slot c /\ p_offender p = c_signer c /\ p_second p = c_hdr c /\ p_first p <> c_hdr c
  /\ exists c0, In c0 cs /\ c_slot c0 = c_slot c /\ c_signer c0 = c_signer c /\ c_hdr c0 = p_first p.
Proof.
  intros cs c p. unfold answer. rewrite check_answer. unfold answer_of.
  destruct (in_window (state_after cs) c); [|discriminate].
  destruct (retained (state_after cs) (c_slot c) (c_signer c)) as [h'|] eqn:R; [|discriminate].
  destruct (h' =? c_hdr c) eqn:E; [discriminate|].
  intros H. injection H as <-. cbn. apply N.eqb_neq in E.
  repeat split; auto. apply (from_history_after cs _ _ _ R).
Qed.

Lemma answer_sound_bool : forall cs c, proof_sound cs c (answer cs c) = true.
Proof.
  intros cs c. destruct (answer cs c) as [p|] eqn:A; [|reflexivity].
  destruct (answer_sound cs c p A) as [H1 [H2 [H3 [H4 [c0 [Hin [H5 [H6 H7]]]]]]]].
  unfold proof_sound. rewrite H1, H2, H3, !N.eqb_refl. cbn [andb].
  apply N.eqb_neq in H4. rewrite H4. cbn [negb andb].
  apply existsb_exists. exists c0. split; [exact Hin|].
  rewrite H5, H6, H7, !N.eqb_refl. reflexivity.
Qed.

Lemma answer_idempotent : forall cs c,
  (forall c0, In c0 cs -> c_slot c0 = c_slot c -> c_signer c0 = c_signer c -> c_hdr c0 = c_hdr c) ->
  answer cs c = None.
Proof.
  intros cs c H. destruct (answer cs c) as [p|] eqn:A; [|reflexivity].
  destruct (answer_sound cs c p A) as [_ [_ [_ [H4 [c0 [Hin [H5 [H6 H7]]]]]]]].
  exfalso. apply H4. rewrite <- H7. apply H; assumption.
Qed.

(* ---- exactness on sequential histories ---- *)
Definition last_now (t : N) (cs : list chk) : N := fold_left (fun _ c => c_now c) cs t.

Lemma sequential_from_snoc : forall cs t c,
  sequential_from t (cs ++ [c]) =
  sequential_from t cs && (last_now t cs <=? c_now c) && (c_slot c <=? c_now c).
Proof.
  induction cs as [|c0 cs IH]; intros; cbn [app sequential_from last_now fold_left].
  - rewrite andb_true_r. reflexivity.
  - rewrite IH. unfold last_now. rewrite !andb_assoc. reflexivity.
Qed.

Lemma last_now_snoc : forall cs t c, last_now t (cs ++ [c]) = c_now c.
Proof. intros. unfold last_now. rewrite fold_left_app. reflexivity. Qed.

Lemma first_hdr_snoc : forall cs c slot sg,
  first_hdr (cs ++ [c]) slot sg =
  match first_hdr cs slot sg with
  | Some x => Some x
  | None => if (c_slot c =? slot) && (c_signer c =? sg) then Some (c_hdr c) else None
  end.
Proof.
  induction cs as [|c0 cs IH]; intros; cbn [app first_hdr]; [reflexivity|].
  destruct ((c_slot c0 =? slot) && (c_signer c0 =? sg)); [reflexivity | apply IH].
Qed.

Record seq_inv (cs : list chk) (s : st) (t : N) : Prop := {
  si_start : forall f, start s = Some f -> f <= t;
  si_ret : forall slot sg, t <= slot + max_slot_capacity -> retained s slot sg = first_hdr cs slot sg
}.

Lemma seq_inv_window : forall cs s t c, seq_inv cs s t -> t <= c_now c -> c_slot c <= c_now c ->
  in_window s c = negb (max_slot_capacity <? c_now c - c_slot c).
Proof.
  intros cs s t c I Ht Hs. unfold in_window, out_of_capacity. rewrite sat_sub_eq.
  destruct (max_slot_capacity <? c_now c - c_slot c); cbn [negb andb]; [reflexivity|].
  unfold first_saved. destruct (start s) as [f|] eqn:S.
  - pose proof (si_start _ _ _ I f S). destruct (c_now c <? f) eqn:E; [apply N.ltb_lt in E; lia | reflexivity].
  - destruct (c_now c <? c_slot c) eqn:E; [apply N.ltb_lt in E; lia | reflexivity].
Qed.

Lemma seq_answer : forall cs s t c, seq_inv cs s t -> t <= c_now c -> c_slot c <= c_now c ->
  snd (check s c) = expected cs c.
Proof.
  intros cs s t c I Ht Hs. rewrite check_answer. unfold answer_of, expected.
  rewrite (seq_inv_window cs s t c I Ht Hs).
  destruct (max_slot_capacity <? c_now c - c_slot c) eqn:W; cbn [negb]; [reflexivity|].
  apply N.ltb_ge in W. rewrite (si_ret _ _ _ I) by lia. reflexivity.
Qed.

Lemma seq_step : forall cs s t c, seq_inv cs s t -> t <= c_now c -> c_slot c <= c_now c ->
  seq_inv (cs ++ [c]) (fst (check s c)) (c_now c).
Proof.
  intros cs s t c I Ht Hs.
  pose proof (seq_inv_window cs s t c I Ht Hs) as W.
  destruct (records s c) eqn:R.
  - (* recorded *)
    assert (Hw : in_window s c = true) by (unfold records in R; apply andb_true_iff in R; tauto).
    assert (Hr : retained s (c_slot c) (c_signer c) = None).
    { unfold records in R. apply andb_true_iff in R. destruct R as [_ R].
      destruct (retained s (c_slot c) (c_signer c)); [discriminate | reflexivity]. }
    rewrite Hw in W. symmetry in W. apply negb_true_iff in W. apply N.ltb_ge in W.
    assert (Hf : first_saved s (c_slot c) <= c_now c).
    { unfold first_saved. destruct (start s) as [f|] eqn:S; [|lia].
      pose proof (si_start _ _ _ I f S). lia. }
    split.
    + intros f. rewrite check_recorded_start by exact R. intros H. injection H as <-.
      unfold new_first. rewrite sat_sub_eq.
      destruct (pruning_bound <=? c_now c - first_saved s (c_slot c)); lia.
    + intros slot sg Hrange. rewrite check_recorded_retained by exact R.
      rewrite first_hdr_snoc.
      assert (Hnp : (first_saved s (c_slot c) <=? slot) && (slot <? new_first s c) = false).
      { apply andb_false_iff. unfold new_first. rewrite sat_sub_eq.
        destruct (pruning_bound <=? c_now c - first_saved s (c_slot c)).
        - right. apply N.ltb_ge. lia.
        - destruct (first_saved s (c_slot c) <=? slot) eqn:E; [right|left; reflexivity].
          apply N.ltb_ge. apply N.leb_le in E. exact E. }
      rewrite Hnp.
      destruct ((c_slot c =? slot) && (c_signer c =? sg)) eqn:E.
      * apply andb_true_iff in E. destruct E as [E1 E2].
        apply N.eqb_eq in E1. apply N.eqb_eq in E2. subst slot sg.
        rewrite <- (si_ret _ _ _ I) by lia. rewrite Hr. reflexivity.
      * rewrite (si_ret _ _ _ I) by lia. destruct (first_hdr cs slot sg); reflexivity.
  - (* not recorded: state unchanged *)
    rewrite check_not_recorded by exact R. split.
    + intros f S. pose proof (si_start _ _ _ I f S). lia.
    + intros slot sg Hrange. rewrite first_hdr_snoc. rewrite (si_ret _ _ _ I) by lia.
      destruct (first_hdr cs slot sg) as [x|] eqn:F; [reflexivity|].
      destruct ((c_slot c =? slot) && (c_signer c =? sg)) eqn:E; [|reflexivity].
      exfalso. apply andb_true_iff in E. destruct E as [E1 E2].
      apply N.eqb_eq in E1. apply N.eqb_eq in E2. subst slot sg.
      unfold records in R. rewrite W in R.
      assert (Hc : (max_slot_capacity <? c_now c - c_slot c) = false) by (apply N.ltb_ge; lia).
      rewrite Hc in R. cbn [negb andb] in R.
      rewrite (si_ret _ _ _ I) in R by lia. rewrite F in R. discriminate.
Qed.

Lemma seq_inv_after : forall cs, sequential cs = true -> seq_inv cs (state_after cs) (last_now 0 cs).
Proof.
  induction cs as [|c cs IH] using rev_ind; intros H.
  - split.
    + intros f. unfold state_after. cbn. discriminate.
    + intros slot sg _. unfold state_after, retained. cbn. reflexivity.
  - unfold sequential in H. rewrite sequential_from_snoc in H.
    apply andb_true_iff in H. destruct H as [H H3]. apply andb_true_iff in H. destruct H as [H1 H2].
    apply N.leb_le in H2. apply N.leb_le in H3.
    rewrite state_after_snoc, last_now_snoc. apply (seq_step cs _ (last_now 0 cs)); auto.
Qed.

Lemma exact_sequential : forall cs c, sequential (cs ++ [c]) = true -> answer cs c = expected cs c.
Proof.
  intros cs c H. unfold sequential in H. rewrite sequential_from_snoc in H.
  apply andb_true_iff in H. destruct H as [H H3]. apply andb_true_iff in H. destruct H as [H1 H2].
  apply N.leb_le in H2. apply N.leb_le in H3.
  unfold answer. apply (seq_answer cs _ (last_now 0 cs)); auto. apply seq_inv_after. exact H1.
Qed.
