(* C27/CodecProofs.v -- round trip of the stored slot records. *)
From Coq Require Import NArith List Bool Arith Lia.
From Common Require Import Bytes.
From Scale Require Import Compact CompactProofs.
From C27 Require Import Codec.
Import ListNotations.
Local Open Scope N_scope.

Lemma take_len : forall k (x r : list byte), length x = k -> take k (x ++ r) = Some (x, r).
Proof. intros k x r <-. apply take_app. Qed.

Lemma dec_bytes_enc : forall l r, small (blen l) -> dec_bytes (enc_bytes l ++ r) = Some (l, r).
Proof.
  intros l r H. unfold dec_bytes, enc_bytes. rewrite <- app_assoc.
  rewrite compact_decode_encode by exact H. unfold blen. rewrite Nnat.Nat2N.id. apply take_app.
Qed.

Lemma dec_item_enc : forall i r, wf_item i -> dec_item (enc_item i ++ r) = Some (i, r).
Proof.
  intros [tg eng d] r [Ht [He Hd]]. cbn [di_tag di_engine di_data] in *.
  unfold enc_item, dec_item. cbn [di_tag di_engine di_data app].
  assert (Hb : b2n (n2b tg) = tg).
  { apply b2n_n2b_lt. unfold valid_tag in Ht. apply orb_true_iff in Ht. destruct Ht as [Ht|Ht].
    - apply orb_true_iff in Ht. destruct Ht as [Ht|Ht]; apply N.eqb_eq in Ht; lia.
    - apply N.eqb_eq in Ht. lia. }
  rewrite Hb, Ht. rewrite <- app_assoc. rewrite (take_len 4 eng _ He).
  rewrite dec_bytes_enc by exact Hd. reflexivity.
Qed.

Lemma dec_n_enc : forall {A} (f : list byte -> option (A * list byte)) (enc : A -> list byte) l r,
  (forall x, In x l -> forall r', f (enc x ++ r') = Some (x, r')) ->
  dec_n f (length l) (concat (map enc l) ++ r) = Some (l, r).
Proof.
  intros A f enc. induction l as [|x l IH]; intros r H; [reflexivity|].
  cbn [length map concat dec_n]. rewrite <- app_assoc. rewrite (H x (or_introl eq_refl)).
  rewrite IH by (intros y Hy; apply H; right; exact Hy). reflexivity.
Qed.

Lemma dec_header_enc : forall h r, wf_header h -> dec_header (enc_header h ++ r) = Some (h, r).
Proof.
  intros [p n s e items] r [Hp [Hs [He [Hn [Hk Hi]]]]]. cbn [h_parent h_number h_state h_ext h_digest] in *.
  unfold enc_header, dec_header. cbn [h_parent h_number h_state h_ext h_digest].
  repeat rewrite <- app_assoc.
  rewrite (take_len 32 p _ Hp). rewrite compact_decode_encode by exact Hn.
  rewrite (take_len 32 s _ Hs). rewrite (take_len 32 e _ He).
  rewrite compact_decode_encode by exact Hk. rewrite Nnat.Nat2N.id.
  rewrite (dec_n_enc dec_item enc_item items r).
  - reflexivity.
  - intros x Hx r'. apply dec_item_enc. rewrite Forall_forall in Hi. apply Hi. exact Hx.
Qed.

Lemma dec_record_enc : forall x, wf_record x -> dec_record (enc_record x) = Some x.
Proof.
  intros [h sg] [Hh [Hs _]]. cbn [fst snd] in *. unfold dec_record, enc_record. cbn [fst snd].
  rewrite (b2n_n2b_lt 1) by lia. cbn [N.eqb Pos.eqb].
  rewrite dec_header_enc by exact Hh.
  rewrite <- (app_nil_r sg) at 1. rewrite (take_len 32 sg [] Hs). reflexivity.
Qed.

Lemma dec_record_framed_enc : forall x r, wf_record x ->
  dec_record_framed (enc_bytes (enc_record x) ++ r) = Some (x, r).
Proof.
  intros x r H. unfold dec_record_framed. rewrite dec_bytes_enc by (apply H).
  rewrite dec_record_enc by exact H. reflexivity.
Qed.

(* what CheckEquivocation writes for a slot decodes, entry by entry, to the same (header, signer) list *)
Lemma stored_round_trip : forall rs, Forall wf_record rs -> small (N.of_nat (length rs)) ->
  dec_stored (enc_stored rs) = Some rs.
Proof.
  intros rs Hw Hn. unfold dec_stored, enc_stored.
  rewrite compact_decode_encode by exact Hn. rewrite Nnat.Nat2N.id.
  rewrite <- (app_nil_r (concat _)).
  rewrite (dec_n_enc dec_record_framed (fun x => enc_bytes (enc_record x)) rs []).
  - reflexivity.
  - intros x Hx r'. apply dec_record_framed_enc. rewrite Forall_forall in Hw. apply Hw. exact Hx.
Qed.

(* distinct header contents have distinct encodings (so the header hash, taken over the encoding, can
   tell them apart only if the encodings differ; conversely equal encodings mean equal headers) *)
Lemma enc_record_inj : forall x y, wf_record x -> wf_record y -> enc_record x = enc_record y -> x = y.
Proof.
  intros x y Hx Hy E. pose proof (dec_record_enc x Hx) as Dx. rewrite E, (dec_record_enc y Hy) in Dx.
  injection Dx as ->. reflexivity.
Qed.
