(* C27/ProofsWindow.v -- second-round additions: refinement of the window specification on every
   history, re-check of an unanswered header, the window invariant of sequential histories as a
   statement of its own, and closure of the uint64 range (no wrap-around is smoothed over). *)
From Coq Require Import NArith ZArith List Bool Lia.
From C27 Require Import Gen Model Proofs.
Import ListNotations.
Local Open Scope N_scope.

(* ---- refinement: CheckEquivocation on the table = a_step on the abstract window ---- *)
Definition sim (s : st) (a : ast) : Prop :=
  start s = a_start a /\ forall sl sg, retained s sl sg = a_ret a sl sg.

Lemma sim_init : sim init a_init.
Proof. split; [reflexivity|]. intros. reflexivity. Qed.

Lemma sim_window : forall s a c, sim s a -> in_window s c = a_in_window a c.
Proof. intros s a c [H _]. unfold in_window, a_in_window, first_saved, a_first. rewrite H. reflexivity. Qed.

Lemma sim_step : forall s a c, sim s a ->
  sim (fst (check s c)) (fst (a_step a c)) /\ snd (check s c) = snd (a_step a c).
Proof.
  intros s a c S. pose proof (sim_window s a c S) as W. destruct S as [S1 S2].
  rewrite check_answer. unfold answer_of, a_step. rewrite <- W.
  destruct (in_window s c) eqn:IW.
  - rewrite <- S2. destruct (retained s (c_slot c) (c_signer c)) as [h'|] eqn:R.
    + assert (NR : records s c = false) by (unfold records; rewrite IW, R; reflexivity).
      rewrite check_not_recorded by exact NR. cbn [fst snd]. split; [split; assumption | reflexivity].
    + assert (YR : records s c = true) by (unfold records; rewrite IW, R; reflexivity).
      cbn [fst snd]. split; [|reflexivity]. split.
      * rewrite check_recorded_start by exact YR. cbn [a_start]. unfold new_first, first_saved, a_first.
        rewrite S1. reflexivity.
      * intros sl sg. rewrite check_recorded_retained by exact YR. cbn [a_ret].
        unfold new_first, first_saved, a_first. rewrite S1, S2. reflexivity.
  - assert (NR : records s c = false) by (unfold records; rewrite IW; reflexivity).
    rewrite check_not_recorded by exact NR. cbn [fst snd]. split; [split; assumption | reflexivity].
Qed.

Lemma sim_run : forall cs s a, sim s a -> snd (run s cs) = a_run a cs.
Proof.
  induction cs as [|c cs IH]; intros s a S; cbn [run a_run]; [reflexivity|].
  destruct (sim_step s a c S) as [S' E].
  destruct (check s c) as [s1 o]. destruct (a_step a c) as [a1 o']. cbn [fst snd] in *.
  specialize (IH s1 a1 S'). destruct (run s1 cs) as [s2 os]. cbn [snd] in *. subst. reflexivity.
Qed.

Lemma window_spec : forall cs, snd (run init cs) = spec_answers cs.
Proof. intros. apply sim_run. exact sim_init. Qed.

(* ---- re-check ---- *)
(* after a check that was inside the window and not answered with a proof, the record for its
   (slot, signer) is this very header or nothing (it may have been pruned in the same batch) *)
Lemma retained_after_unanswered : forall s c, in_window s c = true -> snd (check s c) = None ->
  retained (fst (check s c)) (c_slot c) (c_signer c) = Some (c_hdr c) \/
  retained (fst (check s c)) (c_slot c) (c_signer c) = None.
Proof.
  intros s c IW A. rewrite check_answer in A. unfold answer_of in A. rewrite IW in A.
  destruct (retained s (c_slot c) (c_signer c)) as [h'|] eqn:R.
  - destruct (h' =? c_hdr c) eqn:E; [|discriminate]. apply N.eqb_eq in E. subst h'.
    assert (NR : records s c = false) by (unfold records; rewrite IW, R; reflexivity).
    rewrite check_not_recorded by exact NR. left. exact R.
  - assert (YR : records s c = true) by (unfold records; rewrite IW, R; reflexivity).
    rewrite check_recorded_retained by exact YR.
    destruct ((first_saved s (c_slot c) <=? c_slot c) && (c_slot c <? new_first s c)); [right; reflexivity|].
    rewrite !N.eqb_refl. left. reflexivity.
Qed.

Lemma recheck_in_window : forall cs c c',
  in_window (state_after cs) c = true -> answer cs c = None ->
  c_slot c' = c_slot c -> c_signer c' = c_signer c -> c_hdr c' = c_hdr c ->
  answer (cs ++ [c]) c' = None.
Proof.
  intros cs c c' IW A E1 E2 E3. unfold answer in *. rewrite state_after_snoc.
  rewrite check_answer. unfold answer_of. rewrite E1, E2, E3.
  destruct (in_window (fst (check (state_after cs) c)) c'); [|reflexivity].
  destruct (retained_after_unanswered _ _ IW A) as [R|R]; rewrite R; [|reflexivity].
  rewrite N.eqb_refl. reflexivity.
Qed.

Lemma recheck_identical : forall cs c, answer cs c = None -> answer (cs ++ [c]) c = None.
Proof.
  intros cs c A. destruct (in_window (state_after cs) c) eqn:IW.
  - apply recheck_in_window; auto.
  - unfold answer in *. rewrite state_after_snoc.
    assert (NR : records (state_after cs) c = false) by (unfold records; rewrite IW; reflexivity).
    rewrite check_not_recorded by exact NR. exact A.
Qed.

(* ---- the window invariant of sequential histories, as a statement ---- *)
Lemma seq_window_invariant : forall cs, sequential cs = true ->
  let s := state_after cs in let t := last_now 0 cs in
  (forall f, start s = Some f -> f <= t) /\
  (forall slot sg, t <= slot + max_slot_capacity -> retained s slot sg = first_hdr cs slot sg).
Proof. intros cs H. destruct (seq_inv_after cs H) as [A B]. split; assumption. Qed.

(* ---- uint64: the model's N arithmetic never leaves the range on 64-bit inputs ---- *)
Lemma prune_keys : forall m lo hi kv, In kv (prune m lo hi) -> In kv m.
Proof. intros m lo hi kv H. unfold prune in H. apply filter_In in H. tauto. Qed.

Lemma put_keys : forall m k v kv, In kv (put m k v) -> In kv m \/ fst kv = k.
Proof.
  induction m as [|[k0 v0] m IH]; intros k v kv H; cbn [put] in H.
  - destruct H as [<-|[]]. right. reflexivity.
  - destruct (k0 =? k).
    + destruct H as [<-|H]; [right; reflexivity | left; right; exact H].
    + destruct H as [<-|H]; [left; left; reflexivity|].
      destruct (IH k v kv H) as [H'|H']; [left; right; exact H' | right; exact H'].
Qed.

Lemma u64_closed : forall s c, st_u64 s = true -> chk_u64 c = true -> st_u64 (fst (check s c)) = true.
Proof.
  intros s c Hs Hc. destruct (records s c) eqn:R; [|rewrite check_not_recorded by exact R; exact Hs].
  unfold st_u64 in *. apply andb_true_iff in Hs. destruct Hs as [Hs1 Hs2].
  unfold chk_u64 in Hc. apply andb_true_iff in Hc. destruct Hc as [Hc1 Hc2].
  apply N.ltb_lt in Hc1. apply N.ltb_lt in Hc2.
  apply andb_true_iff. split.
  - rewrite check_recorded_start by exact R. unfold new_first, first_saved. rewrite sat_sub_eq.
    destruct (start s) as [f|]; [apply N.ltb_lt in Hs1|];
      match goal with |- context [if ?b then _ else _] => destruct b end; apply N.ltb_lt; lia.
  - unfold records in R. apply andb_true_iff in R. destruct R as [IW R].
    unfold check. unfold in_window, out_of_capacity, first_saved in IW.
    apply andb_true_iff in IW. destruct IW as [W1 W2]. apply negb_true_iff in W1. apply negb_true_iff in W2.
    rewrite W1, W2. rewrite scan_lookup. unfold retained in R.
    destruct (lookup (get (recs s) (c_slot c)) (c_signer c)); [discriminate|].
    cbn [fst recs]. apply forallb_forall. intros kv Hin. apply prune_keys in Hin.
    apply put_keys in Hin. destruct Hin as [Hin|Hin].
    + rewrite forallb_forall in Hs2. apply Hs2. exact Hin.
    + rewrite Hin. apply N.ltb_lt. exact Hc2.
Qed.

(* every subtraction of the Go code on uint64 operands is either saturating or guarded: in a
   recorded check `slotNow - firstSavedSlot` has slotNow >= firstSavedSlot *)
Lemma guarded_sub : forall s c, records s c = true -> first_saved s (c_slot c) <= c_now c.
Proof.
  intros s c R. unfold records in R. apply andb_true_iff in R. destruct R as [IW _].
  unfold in_window in IW. apply andb_true_iff in IW. destruct IW as [_ W].
  apply negb_true_iff in W. apply N.ltb_ge in W. exact W.
Qed.

(* ---- moved from Properties.v (statement-only there) ---- *)
Lemma exact_state : forall s c p,
  snd (check s c) = Some p <->
  in_window s c = true /\
  exists h', retained s (c_slot c) (c_signer c) = Some h' /\ h' <> c_hdr c /\
             p = mkproof (c_slot c) (c_signer c) h' (c_hdr c).
Proof.
  intros s c p. rewrite check_answer. unfold answer_of. split.
  - destruct (in_window s c); [|discriminate].
    destruct (retained s (c_slot c) (c_signer c)) as [h'|]; [|discriminate].
    destruct (h' =? c_hdr c) eqn:E; [discriminate|]. intros H. injection H as <-.
    split; [reflexivity|]. exists h'. apply N.eqb_neq in E. auto.
  - intros [W [h' [R [N P]]]]. rewrite W, R. apply N.eqb_neq in N. rewrite N. subst p. reflexivity.
Qed.

Lemma retained_step : forall s c slot sg,
  retained (fst (check s c)) slot sg =
  if records s c then
    if (first_saved s (c_slot c) <=? slot) && (slot <? new_first s c) then None
    else if (c_slot c =? slot) && (c_signer c =? sg) then Some (c_hdr c)
    else retained s slot sg
  else retained s slot sg.
Proof.
  intros. destruct (records s c) eqn:R.
  - apply check_recorded_retained. exact R.
  - rewrite check_not_recorded by exact R. reflexivity.
Qed.
