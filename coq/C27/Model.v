(* C27/Model.v -- executable model of dot/state/slot.go SlotState.CheckEquivocation
   (definitions only).  Tier A: same case splits, same order of effects.

   Headers are identified by a number (the harness maps ids to distinct headers; equality of
   header hashes = equality of ids, i.e. BLAKE2b is assumed collision free on the handful of
   headers of a case).  Signers (AuthorityID) likewise.  The database table is an association
   list  slot -> list of (header, signer)  (key "slot_header_map"++LE64 slot) plus the optional
   value of key "slot_header_start".  uint64 slots are N; the only subtractions in the Go code
   are primitives.SaturatingSub and `slotNow-firstSavedSlot` behind the guard
   `slotNow < firstSavedSlot -> return`, so no wrap can occur and N.sub (truncated) is exact. *)
From Coq Require Import NArith ZArith List Bool.
From C27 Require Import Gen.
Import ListNotations.
Local Open Scope N_scope.

Definition max_slot_capacity : N := Z.to_N Gen.max_slot_capacity.
Definition pruning_bound : N := Z.to_N Gen.pruning_bound.

Definition hs_list := list (N * N).          (* (header id, signer) in insertion order *)
Record st := mkst { recs : list (N * hs_list); start : option N }.
Definition init : st := mkst [] None.

(* one call: CheckEquivocation(slotNow, slot, header, signer) *)
Record chk := mkchk { c_now : N; c_slot : N; c_hdr : N; c_signer : N }.
(* BabeEquivocationProof{Slot, Offender, FirstHeader, SecondHeader} *)
Record proof := mkproof { p_slot : N; p_offender : N; p_first : N; p_second : N }.

Fixpoint get (m : list (N * hs_list)) (k : N) : hs_list :=
  match m with
  | [] => []
  | (k', v) :: r => if k' =? k then v else get r k
  end.
Fixpoint put (m : list (N * hs_list)) (k : N) (v : hs_list) : list (N * hs_list) :=
  match m with
  | [] => [(k, v)]
  | (k', v') :: r => if k' =? k then (k, v) :: r else (k', v') :: put r k v
  end.
(* the delete loop  for s := firstSavedSlot; s < newFirstSavedSlot; s++ { batch.Del(key s) } *)
Definition prune (m : list (N * hs_list)) (lo hi : N) : list (N * hs_list) :=
  filter (fun kv => negb ((lo <=? fst kv) && (fst kv <? hi))) m.

(* primitives.SaturatingSub on uint64 *)
Definition sat_sub (a b : N) : N := if a <? b then 0 else a - b.

(* the scan `for _, headerAndSigner := range headersWithSigners` *)
Inductive scan_res := NotFound | Duplicate | Equivocation (first : N).
Fixpoint scan (l : hs_list) (h sg : N) : scan_res :=
  match l with
  | [] => NotFound
  | (h', sg') :: r =>
    if sg' =? sg then (if h' =? h then Duplicate else Equivocation h') else scan r h sg
  end.

Definition check (s : st) (c : chk) : st * option proof :=
  let now := c_now c in let slot := c_slot c in
  if max_slot_capacity <? sat_sub now slot then (s, None) else
  let cur := get (recs s) slot in
  let first := match start s with Some f => f | None => slot end in
  if now <? first then (s, None) else
  match scan cur (c_hdr c) (c_signer c) with
  | Equivocation h' => (s, Some (mkproof slot (c_signer c) h' (c_hdr c)))
  | Duplicate => (s, None)
  | NotFound =>
    let newfirst := if pruning_bound <=? now - first then sat_sub now max_slot_capacity else first in
    (* batch: Put(current slot), Put(start), Del(...)* applied in order *)
    let recs' := prune (put (recs s) slot (cur ++ [(c_hdr c, c_signer c)])) first newfirst in
    (mkst recs' (Some newfirst), None)
  end.

(* a whole history, outputs in order *)
Fixpoint run (s : st) (cs : list chk) : st * list (option proof) :=
  match cs with
  | [] => (s, [])
  | c :: r => let '(s1, o) := check s c in let '(s2, os) := run s1 r in (s2, o :: os)
  end.

(* ---------- history-level specification (what the property text says) ---------- *)

(* header of the first check of the history for (slot, signer) *)
Fixpoint first_hdr (cs : list chk) (slot sg : N) : option N :=
  match cs with
  | [] => None
  | c :: r => if (c_slot c =? slot) && (c_signer c =? sg) then Some (c_hdr c) else first_hdr r slot sg
  end.

(* sequential histories: the current slot never goes back and no header is from the future *)
Fixpoint sequential_from (t : N) (cs : list chk) : bool :=
  match cs with
  | [] => true
  | c :: r => (t <=? c_now c) && (c_slot c <=? c_now c) && sequential_from (c_now c) r
  end.
Definition sequential (cs : list chk) : bool := sequential_from 0 cs.

(* expected answer for check c after the (sequential) history cs *)
Definition expected (cs : list chk) (c : chk) : option proof :=
  if max_slot_capacity <? c_now c - c_slot c then None else
  match first_hdr cs (c_slot c) (c_signer c) with
  | Some h' => if h' =? c_hdr c then None else Some (mkproof (c_slot c) (c_signer c) h' (c_hdr c))
  | None => None
  end.

(* retained record for (slot, signer) in a state *)
Fixpoint lookup (l : hs_list) (sg : N) : option N :=
  match l with
  | [] => None
  | (h', sg') :: r => if sg' =? sg then Some h' else lookup r sg
  end.
Definition retained (s : st) (slot sg : N) : option N := lookup (get (recs s) slot) sg.
Definition first_saved (s : st) (slot : N) : N := match start s with Some f => f | None => slot end.
Definition out_of_capacity (c : chk) : bool := max_slot_capacity <? sat_sub (c_now c) (c_slot c).
Definition in_window (s : st) (c : chk) : bool :=
  negb (out_of_capacity c) && negb (c_now c <? first_saved s (c_slot c)).

(* soundness w.r.t. the history, checked by the driver on the implementation's outputs:
   a proof names the checked slot/signer/header, and its first header is a different header
   that an earlier check of the history presented for the same slot and signer *)
Definition proof_sound (cs : list chk) (c : chk) (o : option proof) : bool :=
  match o with
  | None => true
  | Some p =>
    (p_slot p =? c_slot c) && (p_offender p =? c_signer c) && (p_second p =? c_hdr c)
    && negb (p_first p =? c_hdr c)
    && existsb (fun c0 => (c_slot c0 =? c_slot c) && (c_signer c0 =? c_signer c) && (c_hdr c0 =? p_first p)) cs
  end.

(* ---------- window specification (added by the second-round audit) ----------
   The property text speaks of "a different header recorded for that slot within the retained
   window".  `ast` is that notion without any database representation: the first saved slot
   (None before the first recorded check) and a partial function (slot, signer) -> recorded
   header.  `a_step` says when a check is answered with a proof, when it is recorded and what
   leaves the window; C27_window_spec proves that CheckEquivocation refines it on EVERY
   history.  The driver evaluates the implementation's answers against `a_run`. *)
Record ast := mkast { a_start : option N; a_ret : N -> N -> option N }.
Definition a_init : ast := mkast None (fun _ _ => None).
Definition a_first (a : ast) (slot : N) : N := match a_start a with Some f => f | None => slot end.
Definition a_in_window (a : ast) (c : chk) : bool :=
  negb (out_of_capacity c) && negb (c_now c <? a_first a (c_slot c)).
Definition a_step (a : ast) (c : chk) : ast * option proof :=
  if a_in_window a c then
    match a_ret a (c_slot c) (c_signer c) with
    | Some h' => (a, if h' =? c_hdr c then None
                     else Some (mkproof (c_slot c) (c_signer c) h' (c_hdr c)))
    | None =>
      let first := a_first a (c_slot c) in
      let nf := if pruning_bound <=? c_now c - first then sat_sub (c_now c) max_slot_capacity else first in
      (mkast (Some nf)
             (fun sl sg => if (first <=? sl) && (sl <? nf) then None
                           else if (c_slot c =? sl) && (c_signer c =? sg) then Some (c_hdr c)
                           else a_ret a sl sg), None)
    end
  else (a, None).
Fixpoint a_run (a : ast) (cs : list chk) : list (option proof) :=
  match cs with
  | [] => []
  | c :: r => let '(a1, o) := a_step a c in o :: a_run a1 r
  end.
Definition spec_answers (cs : list chk) : list (option proof) := a_run a_init cs.

(* uint64 *)
Definition two64 : N := 18446744073709551616.
Definition chk_u64 (c : chk) : bool := (c_now c <? two64) && (c_slot c <? two64).
Definition st_u64 (s : st) : bool :=
  match start s with Some f => f <? two64 | None => true end && forallb (fun kv => fst kv <? two64) (recs s).

(* ---------- vm_compute cross-check of the extraction (bin/check vm_sample) ---------- *)
Definition proof_eqb (p q : proof) : bool :=
  (p_slot p =? p_slot q) && (p_offender p =? p_offender q) && (p_first p =? p_first q) && (p_second p =? p_second q).
Definition oproof_eqb (a b : option proof) : bool :=
  match a, b with None, None => true | Some p, Some q => proof_eqb p q | _, _ => false end.
Fixpoint list_eqb {A} (e : A -> A -> bool) (l1 l2 : list A) : bool :=
  match l1, l2 with
  | [], [] => true
  | x :: r1, y :: r2 => e x y && list_eqb e r1 r2
  | _, _ => false
  end.
Definition hs_eqb (a b : N * N) : bool := (fst a =? fst b) && (snd a =? snd b).
(* the implementation's observables of one case: answers, slot_header_start, table dump *)
Definition vm_case (cs : list chk) (outs : list (option proof)) (st0 : option N)
  (db : list (N * hs_list)) : bool :=
  let '(s, o) := run init cs in
  list_eqb oproof_eqb o outs && list_eqb oproof_eqb (spec_answers cs) outs
  && match start s, st0 with None, None => true | Some a, Some b => a =? b | _, _ => false end
  && Nat.eqb (length (recs s)) (length db)
  && forallb (fun kv => list_eqb hs_eqb (get (recs s) (fst kv)) (snd kv)) db.
