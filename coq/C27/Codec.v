(* C27/Codec.v -- third round: the SCALE encoding of the records CheckEquivocation stores under
   slot_header_map ++ LE64 slot, and its decoder.  Definitions only.
     value   = scale([][]byte)          = compact(#records) ++ concat (compact(len r_i) ++ r_i)
     r_i     = scale(headerAndSigner)   = 0x01 (Some: Header is a pointer) ++ scale(Header) ++ Signer(32 bytes)
     Header  = ParentHash(32) ++ compact(Number) ++ StateRoot(32) ++ ExtrinsicsRoot(32) ++ Digest
     Digest  = compact(#items) ++ concat items
     item    = index byte (6 PreRuntime | 4 Consensus | 5 Seal) ++ engine id (4 bytes) ++
               compact(len data) ++ data
   The compact integer codec and its round trip come from coq/Scale (Compact, CompactProofs). *)
From Coq Require Import NArith List Bool Arith.
From Common Require Import Bytes.
From Scale Require Import Compact.
Import ListNotations.
Local Open Scope N_scope.

Record ditem := mkditem { di_tag : N; di_engine : list byte; di_data : list byte }.
Record header := mkheader { h_parent : list byte; h_number : N; h_state : list byte; h_ext : list byte;
                            h_digest : list ditem }.
Definition srecord := (header * list byte)%type.      (* (header, signer) *)

Definition blen (l : list byte) : N := N.of_nat (length l).
Definition enc_bytes (l : list byte) : list byte := compact_encode (blen l) ++ l.
Definition enc_item (i : ditem) : list byte := n2b (di_tag i) :: di_engine i ++ enc_bytes (di_data i).
Definition enc_header (h : header) : list byte :=
  h_parent h ++ compact_encode (h_number h) ++ h_state h ++ h_ext h
  ++ compact_encode (N.of_nat (length (h_digest h))) ++ concat (map enc_item (h_digest h)).
(* Header is a *types.Header: scale encodes the pointer as an Option, 0x01 = Some *)
Definition enc_record (r : srecord) : list byte := n2b 1 :: enc_header (fst r) ++ snd r.
Definition enc_stored (rs : list srecord) : list byte :=
  compact_encode (N.of_nat (length rs)) ++ concat (map (fun r => enc_bytes (enc_record r)) rs).

(* ---- decoder ---- *)
Definition dec_bytes (bs : list byte) : option (list byte * list byte) :=
  match compact_decode bs with
  | Some (n, r) => take (N.to_nat n) r
  | None => None
  end.
Definition valid_tag (tg : N) : bool := (tg =? 4) || (tg =? 5) || (tg =? 6).
Definition dec_item (bs : list byte) : option (ditem * list byte) :=
  match bs with
  | [] => None
  | tb :: r =>
    if valid_tag (b2n tb) then
      match take 4 r with
      | Some (eng, r1) => match dec_bytes r1 with
                          | Some (d, r2) => Some (mkditem (b2n tb) eng d, r2)
                          | None => None
                          end
      | None => None
      end
    else None
  end.
Fixpoint dec_n {A} (f : list byte -> option (A * list byte)) (n : nat) (bs : list byte) : option (list A * list byte) :=
  match n with
  | O => Some ([], bs)
  | S k => match f bs with
           | Some (x, r) => match dec_n f k r with
                            | Some (xs, r') => Some (x :: xs, r')
                            | None => None
                            end
           | None => None
           end
  end.
Definition dec_header (bs : list byte) : option (header * list byte) :=
  match take 32 bs with
  | Some (p, r0) =>
    match compact_decode r0 with
    | Some (n, r1) =>
      match take 32 r1 with
      | Some (s, r2) =>
        match take 32 r2 with
        | Some (e, r3) =>
          match compact_decode r3 with
          | Some (k, r4) => match dec_n dec_item (N.to_nat k) r4 with
                            | Some (items, r5) => Some (mkheader p n s e items, r5)
                            | None => None
                            end
          | None => None
          end
        | None => None
        end
      | None => None
      end
    | None => None
    end
  | None => None
  end.
(* scale.Unmarshal(encodedHeaderAndSigner, &decodedHeaderAndSigner) *)
Definition dec_record (bs : list byte) : option srecord :=
  match bs with
  | ob :: bs' =>
    if b2n ob =? 1 then
      match dec_header bs' with
      | Some (h, r) => match take 32 r with
                       | Some (sg, []) => Some (h, sg)
                       | _ => None
                       end
      | None => None
      end
    else None          (* 0x00 = nil header: never written by CheckEquivocation *)
  | [] => None
  end.
Definition dec_record_framed (bs : list byte) : option (srecord * list byte) :=
  match dec_bytes bs with
  | Some (b, r) => match dec_record b with Some x => Some (x, r) | None => None end
  | None => None
  end.
(* scale.Unmarshal(value, &[][]byte) followed by the per-entry Unmarshal of CheckEquivocation *)
Definition dec_stored (bs : list byte) : option (list srecord) :=
  match compact_decode bs with
  | Some (n, r) => match dec_n dec_record_framed (N.to_nat n) r with
                   | Some (rs, []) => Some rs
                   | _ => None
                   end
  | None => None
  end.

(* ---- well-formedness of what gossamer writes ---- *)
Definition small (n : N) : Prop := n < 2 ^ 536.
Definition wf_item (i : ditem) : Prop :=
  valid_tag (di_tag i) = true /\ length (di_engine i) = 4%nat /\ small (blen (di_data i)).
Definition wf_header (h : header) : Prop :=
  length (h_parent h) = 32%nat /\ length (h_state h) = 32%nat /\ length (h_ext h) = 32%nat /\
  small (h_number h) /\ small (N.of_nat (length (h_digest h))) /\ Forall wf_item (h_digest h).
Definition wf_record (r : srecord) : Prop :=
  wf_header (fst r) /\ length (snd r) = 32%nat /\ small (blen (enc_record r)).

(* ---- the concrete headers and signers of the C27 harness (c27Header, c27Signer) ---- *)
Definition babe_engine : list byte := map n2b [66; 65; 66; 69].            (* "BABE" *)
Definition pad32 (l : list byte) : list byte := l ++ repeat (n2b 0) (32 - length l).
Definition mk_header (id : N) : header :=
  mkheader (pad32 (le_bytes 8 (id + 1))) (id mod 5) (repeat (n2b 0) 32) (repeat (n2b 0) 32)
           ((if id mod 2 =? 1 then [mkditem 6 babe_engine (map n2b [id mod 256; 1; 2])] else [])
            ++ (if id mod 3 =? 2 then [mkditem 5 babe_engine (repeat (n2b (id mod 256)) 64)] else [])).
Definition mk_signer (id : N) : list byte := le_bytes 8 (id + 256) ++ repeat (n2b 0) 23 ++ [n2b 170].
Definition mk_record (hs : N * N) : srecord := (mk_header (fst hs), mk_signer (snd hs)).
(* the stored value of one slot of the model's table *)
Definition stored_value (l : list (N * N)) : list byte := enc_stored (map mk_record l).
