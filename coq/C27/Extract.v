From Coq Require Import Extraction ExtrOcamlBasic.
From Common Require Import Bytes Drv.
From C27 Require Import Model Codec.
Extraction "model.ml" drv_b2n drv_n2b drv_z_of_n drv_n_of_z drv_nat_of_n drv_n_of_nat
  init mkchk mkproof check run first_hdr sequential expected proof_sound retained in_window
  out_of_capacity spec_answers stored_value dec_stored mk_record.
