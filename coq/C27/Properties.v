(* C27/Properties.v -- property C27: slot equivocations are detected exactly.
   `answer cs c` is what CheckEquivocation returns for check c on a SlotState that has
   processed the history cs (from an empty table); `run init cs` gives all answers in order
   (run_outputs: its i-th output is `answer (firstn i cs) (nth i cs)`). *)
From Coq Require Import NArith List Bool.
From C27 Require Import Model Proofs ProofsWindow.
Import ListNotations.
Local Open Scope N_scope.

(* State-level exactness, every state and check: a proof is returned exactly when the check is
   inside the retained window and a different header is retained for the same slot and signer;
   the proof carries (retained header, checked header). *)
Theorem C27_exact : forall s c p,
  snd (check s c) = Some p <->
  in_window s c = true /\
  exists h', retained s (c_slot c) (c_signer c) = Some h' /\ h' <> c_hdr c /\
             p = mkproof (c_slot c) (c_signer c) h' (c_hdr c).
Proof. exact exact_state. Qed.
Print Assumptions C27_exact.

(* How the retained records evolve: a check is recorded iff it is in the window and nothing is
   retained for its (slot, signer); then it becomes the retained record, and slots in
   [first saved, new first saved) are pruned; otherwise nothing changes. *)
Theorem C27_retained_step : forall s c slot sg,
  retained (fst (check s c)) slot sg =
  if records s c then
    if (first_saved s (c_slot c) <=? slot) && (slot <? new_first s c) then None
    else if (c_slot c =? slot) && (c_signer c =? sg) then Some (c_hdr c)
    else retained s slot sg
  else retained s slot sg.
Proof. exact retained_step. Qed.
Print Assumptions C27_retained_step.

(* Every history: a returned proof names the checked slot, signer and header, and its first
   header is a different header presented by an earlier check for the same slot and signer. *)
Theorem C27_sound : forall cs c p, answer cs c = Some p ->
  p_slot p = c_slot c /\ p_offender p = c_signer c /\ p_second p = c_hdr c /\ p_first p <> c_hdr c
  /\ exists c0, In c0 cs /\ c_slot c0 = c_slot c /\ c_signer c0 = c_signer c /\ c_hdr c0 = p_first p.
Proof. exact answer_sound. Qed.
Print Assumptions C27_sound.

(* Every history: if all earlier checks for this slot and signer presented this same header,
   no proof is returned (re-checking an identical header never yields a proof). *)
Theorem C27_idempotent : forall cs c,
  (forall c0, In c0 cs -> c_slot c0 = c_slot c -> c_signer c0 = c_signer c -> c_hdr c0 = c_hdr c) ->
  answer cs c = None.
Proof. exact answer_idempotent. Qed.
Print Assumptions C27_idempotent.

(* Sequential histories (current slot never decreases, no header from a future slot), any
   length: the answer is exactly `expected`: none when the header is more than
   max_slot_capacity slots old; otherwise a proof iff the FIRST header ever checked for this
   slot and signer differs from this one, carrying (that header, this header). *)
Theorem C27_exact_sequential : forall cs c, sequential (cs ++ [c]) = true ->
  answer cs c = expected cs c.
Proof. exact exact_sequential. Qed.
Print Assumptions C27_exact_sequential.

(* the outputs of a whole run are these answers *)
Theorem C27_run_outputs : forall cs i c, nth_error cs i = Some c ->
  nth_error (snd (run init cs)) i = Some (answer (firstn i cs) c).
Proof. exact run_outputs. Qed.
Print Assumptions C27_run_outputs.

(* ---- second-round additions ---- *)

(* EVERY history (no hypothesis on the order of current slots or on future headers, any length):
   the answers of CheckEquivocation are exactly those of the window specification `a_step`
   (Model.v): a proof iff the check is inside the window (not older than max_slot_capacity, not
   before the first saved slot) and a different header is recorded for (slot, signer); a check is
   recorded iff it is inside the window and nothing is recorded for (slot, signer); recording
   moves the first saved slot to now - max_slot_capacity when it is pruning_bound or more behind
   and forgets the slots in between.  No database representation is involved in `a_step`. *)
Theorem C27_window_spec : forall cs, snd (run init cs) = spec_answers cs.
Proof. exact window_spec. Qed.
Print Assumptions C27_window_spec.

(* Re-checking an identical header never yields a proof, every history: a check that was not
   answered with a proof is not answered with one when it is repeated (same current slot) ... *)
Theorem C27_recheck_identical : forall cs c, answer cs c = None -> answer (cs ++ [c]) c = None.
Proof. exact recheck_identical. Qed.
Print Assumptions C27_recheck_identical.

(* ... and, when it was inside the window, not at ANY later or earlier current slot either *)
Theorem C27_recheck_any_time : forall cs c c',
  in_window (fst (run init cs)) c = true -> answer cs c = None ->
  c_slot c' = c_slot c -> c_signer c' = c_signer c -> c_hdr c' = c_hdr c ->
  answer (cs ++ [c]) c' = None.
Proof. exact recheck_in_window. Qed.
Print Assumptions C27_recheck_any_time.

(* the retained-window invariant of sequential histories (DESIGN.md: "invariant on the retained
   window"): the first saved slot never exceeds the current slot, and for every slot not older
   than max_slot_capacity the record of (slot, signer) is the FIRST header ever checked for it *)
Theorem C27_window_invariant : forall cs, sequential cs = true ->
  let s := fst (run init cs) in let t := fold_left (fun _ c => c_now c) cs 0 in
  (forall f, start s = Some f -> f <= t) /\
  (forall slot sg, t <= slot + max_slot_capacity -> retained s slot sg = first_hdr cs slot sg).
Proof. exact seq_window_invariant. Qed.
Print Assumptions C27_window_invariant.

(* uint64: on 64-bit slots the table never holds a slot or first saved slot >= 2^64, and the one
   unguarded-looking subtraction `slotNow - firstSavedSlot` is only evaluated with
   slotNow >= firstSavedSlot: the model's exact arithmetic on N is the Go arithmetic on uint64 *)
Theorem C27_u64_closed : forall s c, st_u64 s = true -> chk_u64 c = true ->
  st_u64 (fst (check s c)) = true /\ (records s c = true -> first_saved s (c_slot c) <= c_now c).
Proof. intros s c Hs Hc. split; [apply u64_closed; assumption | apply guarded_sub]. Qed.
Print Assumptions C27_u64_closed.

(* non-vacuity of the additions: a chaotic history (time goes back, header from the future) on
   which the window specification yields a proof, and a sequential one *)
Example C27_window_nonvacuous :
  let cs := [mkchk 1500 1500 1 0; mkchk 700 1600 2 0; mkchk 1600 1600 3 0; mkchk 1500 1500 2 0; mkchk 4000 1500 1 0] in
  sequential cs = false /\
  spec_answers cs = [None; None; None; Some (mkproof 1500 0 1 2); None] /\
  snd (run init cs) = spec_answers cs.
Proof. vm_compute. repeat split; reflexivity. Qed.

(* non-vacuity: duplicate, equivocation, pruning at the 2*1000 bound, and a missed
   equivocation after pruning (outside the retained window) *)
Example C27_nonvacuous :
  let cs := [mkchk 2 2 7 0; mkchk 3 2 7 0; mkchk 4 2 8 0; mkchk 2002 1004 9 0; mkchk 2003 1004 10 0;
             mkchk 2004 2 8 0] in
  sequential cs = true /\
  snd (run init cs) = [None; None; Some (mkproof 2 0 7 8); None; Some (mkproof 1004 0 9 10); None] /\
  start (fst (run init cs)) = Some 1002 /\ retained (fst (run init cs)) 2 0 = None.
Proof. vm_compute. repeat split; reflexivity. Qed.

(* ---------------- third round: the SCALE round trip of the stored records ---------------- *)
From C27 Require Import Codec CodecProofs.

(* What CheckEquivocation writes under slot_header_map ++ LE64 slot (scale([][]byte) of the
   scale(headerAndSigner) entries; Codec.enc_stored) is decoded by the two-level Unmarshal at the
   start of the next CheckEquivocation (Codec.dec_stored) to exactly the same list of (header,
   signer) pairs: every header field, every digest item, the signer.  Any number of records and
   digest items, any contents; wf_record = the fixed-width fields have their widths (32/32/32/4/32
   bytes), the digest items are PreRuntime / Consensus / Seal, and no length reaches 2^536 (the
   range of SCALE compact integers).  The compact codec and its round trip are coq/Scale's. *)
Theorem C27_stored_round_trip : forall rs, Forall wf_record rs -> small (N.of_nat (length rs)) ->
  dec_stored (enc_stored rs) = Some rs.
Proof. exact stored_round_trip. Qed.
Print Assumptions C27_stored_round_trip.

(* equal encodings mean equal (header, signer): nothing of a header is lost in the table *)
Theorem C27_record_encoding_injective : forall x y, wf_record x -> wf_record y ->
  enc_record x = enc_record y -> x = y.
Proof. exact enc_record_inj. Qed.
Print Assumptions C27_record_encoding_injective.

(* non-vacuity: the harness's headers 1 (PreRuntime digest), 2 (Seal digest), 5 (both) and 0 (none),
   two signers: well-formed, and the stored value decodes back *)
Example C27_codec_nonvacuous :
  let l := [(1, 0); (2, 1); (5, 0); (0, 2)] in
  dec_stored (stored_value l) = Some (map mk_record l) /\
  length (stored_value l) = 693%nat /\
  forallb (fun r => Nat.eqb (length (h_parent (fst r))) 32 && Nat.eqb (length (snd r)) 32) (map mk_record l) = true.
Proof. vm_compute. repeat split; reflexivity. Qed.
