(* C34/Checker.v — executable entry points for the driver and the lock discipline of
   PriorityQueue as read from the Go source (definitions only). *)
From Coq Require Import List NArith Bool String.
From Common Require Import Lock.
From Conc Require Import Lin Cert.
From C34 Require Import Model Gen.
Import ListNotations.
Local Open Scope N_scope.

Definition qspec_eqb (a b : qspec) : bool := pairs_eqb a b.

(* memoized search: Some true is proved sound *)
Definition pq_lin (bud : N) (h : list (@orec op res)) : option bool :=
  lin_check_m qspec op res q_step res_eqb qspec_eqb bud [] h.
(* plain search: Some true and Some false are both proved *)
Definition pq_lin_complete (bud : N) (h : list (@orec op res)) : option bool :=
  lin_check_b qspec op res q_step res_eqb bud [] h.

(* certificate check (Conc/Cert.v): the positions of the records in linearization order, found by
   an untrusted search in the driver, are checked here; a passing certificate is proved to make
   the history linearizable *)
Definition pq_cert (h : list (@orec op res)) (p : list nat) : bool :=
  cert_ok qspec op res q_step res_eqb [] h p.

(* the same for a history with pending calls: which of them are completed and with which result *)
Definition pq_pcert (h : list (@orec op res)) (pend : list (pcall op)) (inf : N)
           (chosen : list (nat * res)) (p : list nat) : bool :=
  pcert_ok qspec op res q_step res_eqb [] h pend inf chosen p.

(* the Go method an operation of the model stands for *)
Definition method_name (o : op) : string :=
  match o with
  | Push _ _ => "Push" | Pop => "Pop" | PopT => "PopWithTimer" | Peek => "Peek"
  | Remove _ => "RemoveExtrinsic" | Exists _ => "Exists" | Len => "Len" | Pending => "Pending"
  end%string.

(* PopWithTimer takes no lock itself: it is a loop of calls of the locked method Pop and touches
   no field of the queue except the immutable pollInterval.  It is treated as a COMPOSITE of Pop
   calls (see Proofs: a composite whose last Pop is its linearization point), never as an
   unlocked access; every other method must take the exclusive lock first and release it by defer. *)
Definition composite (m : string) : bool := String.eqb m "PopWithTimer".
Definition entry_ok (x : string * lockmode * bool) : bool :=
  match x with
  | (m, LockExclusive, true) => negb (composite m)
  | (m, LockNone, _) => composite m
  | _ => false
  end.
Definition mode_of_name (m : string) : lockmode :=
  match lock_of pq_locks m with Some (md, _) => md | None => LockNone end.
(* the mode under which the shared state is accessed by an operation: a composite accesses it
   through Pop *)
Definition pq_mode (o : op) : lockmode :=
  if composite (method_name o) then mode_of_name "Pop" else mode_of_name (method_name o).

(* evaluated here so that the extracted code does not drag Coq strings along *)
Definition pq_discipline_ok : bool := Eval vm_compute in forallb entry_ok pq_locks.
Definition pq_methods_listed : bool := Eval vm_compute in
  forallb (fun m => match lock_of pq_locks m with Some _ => true | None => false end)
          ["Exists"; "Len"; "Peek"; "Pending"; "Pop"; "PopWithTimer"; "Push"; "RemoveExtrinsic"]%string.
Definition mode_exists : lockmode := Eval vm_compute in pq_mode (Exists 0).
Definition mode_len : lockmode := Eval vm_compute in pq_mode Len.
Definition mode_peek : lockmode := Eval vm_compute in pq_mode Peek.
Definition mode_pending : lockmode := Eval vm_compute in pq_mode Pending.
Definition mode_pop : lockmode := Eval vm_compute in pq_mode Pop.
Definition mode_popt : lockmode := Eval vm_compute in pq_mode PopT.
Definition mode_push : lockmode := Eval vm_compute in pq_mode (Push 0 0).
Definition mode_remove : lockmode := Eval vm_compute in pq_mode (Remove 0).

(* does a call finish while the harness holds the mutex? *)
Definition probe_runs (m : lockmode) : bool := match m with LockNone => true | _ => false end.
