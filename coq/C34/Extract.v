From Coq Require Import Extraction ExtrOcamlBasic.
From Common Require Import Bytes Drv Lock.
From Conc Require Import Lin.
From C34 Require Import Model ModelTrace Gen Checker.
Extraction "model.ml" drv_b2n drv_n2b drv_z_of_n drv_n_of_z drv_nat_of_n drv_n_of_nat
  q_step q_run m_new m_step m_run indices_ok res_eqb res_sim sort_pairs trace_ok m_buckets
  pq_lin pq_lin_complete pq_cert pq_pcert pq_discipline_ok pq_methods_listed probe_runs
  mode_exists mode_len mode_peek mode_pending mode_pop mode_popt mode_push mode_remove.
