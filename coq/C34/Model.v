(* C34/Model.v — models of lib/transaction/priority_queue.go (definitions only).

   A transaction is identified by a number [id] (the harness uses the 8-byte big-endian
   encoding of id as the extrinsic; the queue keys its map by the BLAKE2b hash of the
   extrinsic, which the model identifies with id).

   Two levels:
     QSpec   the sequential specification: the transactions in the queue in insertion order;
             Pop/Peek take the first one of maximal priority; a Push of an id already in the
             queue is refused; RemoveExtrinsic deletes; Exists/Len/Pending observe.
     Model   Tier A: the array of container/heap with sift-up / sift-down, Less = priority
             descending then insertion order ascending, Swap maintaining Item.index,
             the txs map (hash -> item), currOrder.  Follows heap.Push / heap.Pop /
             heap.Remove and the PriorityQueue methods statement by statement. *)
From Coq Require Import List NArith Bool Arith Lia.
Import ListNotations.
Local Open Scope N_scope.

Inductive op :=
| Push (id prio : N)
| Pop
| PopT                       (* PopWithTimer with an expired timer *)
| Peek
| Remove (id : N)
| Exists (id : N)
| Len
| Pending.

Inductive res :=
| ROk                        (* Push accepted *)
| RDup                       (* Push refused: ErrTransactionExists *)
| RTx (id prio : N)          (* Pop / Peek: a transaction *)
| RNone                      (* Pop / Peek: nil *)
| RUnit                      (* RemoveExtrinsic *)
| RBool (b : bool)
| RNum (n : N)
| RList (l : list (N * N))   (* Pending, in the order the implementation returns them *)
| RPanic.

Fixpoint pairs_eqb (a b : list (N * N)) : bool :=
  match a, b with
  | [], [] => true
  | (k, v) :: a', (k', v') :: b' => (k =? k') && (v =? v') && pairs_eqb a' b'
  | _, _ => false
  end.
Definition res_eqb (a b : res) : bool :=
  match a, b with
  | ROk, ROk | RDup, RDup | RNone, RNone | RUnit, RUnit | RPanic, RPanic => true
  | RTx i p, RTx j q => (i =? j) && (p =? q)
  | RBool x, RBool y => Bool.eqb x y
  | RNum x, RNum y => x =? y
  | RList x, RList y => pairs_eqb x y
  | _, _ => false
  end.

(* ------------------------------------------------------------------------------------ *)
(* QSpec *)
Definition qspec := list (N * N).     (* (id, priority), oldest first *)

Fixpoint qmem (id : N) (l : qspec) : bool :=
  match l with [] => false | (i, _) :: r => (i =? id) || qmem id r end.
Fixpoint qdel (id : N) (l : qspec) : qspec :=
  match l with [] => [] | (i, p) :: r => if i =? id then r else (i, p) :: qdel id r end.
(* the first element of maximal priority *)
Fixpoint qbest (l : qspec) : option (N * N) :=
  match l with
  | [] => None
  | (i, p) :: r =>
    match qbest r with
    | Some (j, q) => if p <? q then Some (j, q) else Some (i, p)
    | None => Some (i, p)
    end
  end.

(* Pending has no specified order: QSpec returns the queue as a set, in the canonical order
   "sorted by id"; implementation results are brought to the same order before comparing. *)
Fixpoint insert_pair (x : N * N) (l : list (N * N)) : list (N * N) :=
  match l with
  | [] => [x]
  | y :: r => if (fst x <? fst y) || ((fst x =? fst y) && (snd x <=? snd y)) then x :: l else y :: insert_pair x r
  end.
Definition sort_pairs (l : list (N * N)) : list (N * N) := fold_right insert_pair [] l.

Definition q_step (s : qspec) (o : op) : qspec * res :=
  match o with
  | Push id p => if qmem id s then (s, RDup) else (s ++ [(id, p)], ROk)
  | Pop | PopT =>
    match qbest s with
    | Some (i, p) => (qdel i s, RTx i p)
    | None => (s, RNone)
    end
  | Peek => match qbest s with Some (i, p) => (s, RTx i p) | None => (s, RNone) end
  | Remove id => (qdel id s, RUnit)
  | Exists id => (s, RBool (qmem id s))
  | Len => (s, RNum (N.of_nat (length s)))
  | Pending => (s, RList (sort_pairs s))
  end.

Fixpoint q_run (s : qspec) (ops : list op) : list res :=
  match ops with
  | [] => []
  | o :: r => let (s', x) := q_step s o in x :: q_run s' r
  end.

(* ------------------------------------------------------------------------------------ *)
(* Model: container/heap on an array *)
Record item := mki { it_id : N; it_prio : N; it_order : N; it_index : nat }.
Record pq := mkq { arr : list item; curr : N; txs : list (N * N) (* hash -> item (its order) *) }.

Definition with_index (x : item) (i : nat) : item := mki (it_id x) (it_prio x) (it_order x) i.

Fixpoint set_nth {A} (l : list A) (i : nat) (v : A) : list A :=
  match l, i with
  | [], _ => []
  | _ :: r, O => v :: r
  | x :: r, S j => x :: set_nth r j v
  end.

(* priorityQueue.Less *)
Definition item_less (x y : item) : bool :=
  if it_prio x =? it_prio y then it_order x <? it_order y else it_prio y <? it_prio x.
Definition less (a : list item) (i j : nat) : bool :=
  match nth_error a i, nth_error a j with
  | Some x, Some y => item_less x y
  | _, _ => false
  end.
(* priorityQueue.Swap (indices in range at every call site) *)
Definition swap (a : list item) (i j : nat) : list item :=
  match nth_error a i, nth_error a j with
  | Some x, Some y => set_nth (set_nth a i (with_index y i)) j (with_index x j)
  | _, _ => a
  end.

(* heap.up *)
Fixpoint up (fuel : nat) (a : list item) (j : nat) : list item :=
  match fuel with
  | O => a
  | S f =>
    let i := Nat.div (j - 1) 2 in          (* parent; j = 0 gives i = j *)
    if Nat.eqb i j || negb (less a j i) then a
    else up f (swap a i j) i
  end.

(* heap.down: returns the array and whether the element moved *)
Fixpoint down_from (fuel : nat) (a : list item) (i n : nat) : list item * nat :=
  match fuel with
  | O => (a, i)
  | S f =>
    let j1 := (2 * i + 1)%nat in
    if Nat.leb n j1 then (a, i) else
    let j := if Nat.ltb (j1 + 1) n && less a (j1 + 1) j1 then (j1 + 1)%nat else j1 in
    if negb (less a j i) then (a, i)
    else down_from f (swap a i j) j n
  end.
Definition down (a : list item) (i0 n : nat) : list item * bool :=
  let (a', i) := down_from (length a) a i0 n in (a', Nat.ltb i0 i).

(* heap.Push: h.Push(x); up(h, h.Len()-1) *)
Definition heap_push (a : list item) (x : item) : list item :=
  let n := length a in
  up (S n) (a ++ [with_index x n]) n.

(* heap.Pop: n := h.Len()-1; h.Swap(0,n); down(h,0,n); return h.Pop() *)
Definition heap_pop (a : list item) : list item * option item :=
  let n := (length a - 1)%nat in
  let a1 := swap a 0 n in
  let (a2, _) := down a1 0 n in
  (removelast a2, nth_error a2 n).

(* heap.Remove: n := h.Len()-1; if n != i { h.Swap(i,n); if !down(h,i,n) { up(h,i) } }; return h.Pop() *)
Definition heap_remove (a : list item) (i : nat) : list item * option item :=
  let n := (length a - 1)%nat in
  let a2 :=
    if Nat.eqb n i then a
    else let a1 := swap a i n in
         let (a1', moved) := down a1 i n in
         if moved then a1' else up (length a1') a1' i in
  (removelast a2, nth_error a2 n).

Fixpoint tget (h : N) (m : list (N * N)) : option N :=
  match m with [] => None | (k, v) :: r => if k =? h then Some v else tget h r end.
Fixpoint tset (h : N) (v : N) (m : list (N * N)) : list (N * N) :=
  match m with
  | [] => [(h, v)]
  | (k, w) :: r => if k =? h then (h, v) :: r else (k, w) :: tset h v r
  end.
Fixpoint tdel (h : N) (m : list (N * N)) : list (N * N) :=
  match m with [] => [] | (k, w) :: r => if k =? h then r else (k, w) :: tdel h r end.

(* the item a map entry points to *)
Fixpoint find_order (o : N) (a : list item) : option item :=
  match a with [] => None | x :: r => if it_order x =? o then Some x else find_order o r end.

Definition m_new : pq := mkq [] 0 [].

Definition m_pop (s : pq) : pq * res :=
  match arr s with
  | [] => (s, RNone)                                   (* spq.pq.Len() == 0 *)
  | _ :: _ =>
    match heap_pop (arr s) with
    | (a', Some x) => (mkq a' (curr s) (tdel (it_id x) (txs s)), RTx (it_id x) (it_prio x))
    | (a', None) => (s, RPanic)
    end
  end.

Definition m_step (s : pq) (o : op) : pq * res :=
  match o with
  | Push id p =>
    match tget id (txs s) with
    | Some _ => (s, RDup)
    | None =>
      let x := mki id p (curr s) 0 in
      (mkq (heap_push (arr s) x) (curr s + 1) (tset id (curr s) (txs s)), ROk)
    end
  | Pop | PopT => m_pop s
  | Peek => match arr s with x :: _ => (s, RTx (it_id x) (it_prio x)) | [] => (s, RNone) end
  | Remove id =>
    match tget id (txs s) with
    | None => (s, RUnit)
    | Some o =>
      match find_order o (arr s) with
      | Some x =>
        let (a', _) := heap_remove (arr s) (it_index x) in
        (mkq a' (curr s) (tdel id (txs s)), RUnit)
      | None => (s, RPanic)      (* stale item: index -1, heap.Remove would panic *)
      end
    end
  | Exists id => (s, RBool (match tget id (txs s) with Some _ => true | None => false end))
  | Len => (s, RNum (N.of_nat (length (arr s))))
  | Pending => (s, RList (map (fun x => (it_id x, it_prio x)) (arr s)))
  end.

Fixpoint m_run (s : pq) (ops : list op) : list res :=
  match ops with
  | [] => []
  | o :: r => let (s', x) := m_step s o in x :: m_run s' r
  end.

(* Item.index is maintained by Swap / Push: the harness reads it back *)
Definition indices_ok (s : pq) : bool :=
  forallb (fun p : nat * item => Nat.eqb (fst p) (it_index (snd p))) (combine (seq 0 (length (arr s))) (arr s)).

(* ------------------------------------------------------------------------------------ *)
(* comparing an implementation result with a specification result: Pending up to order *)
Definition res_sim (impl spec : res) : bool :=
  match impl, spec with
  | RList x, RList y => pairs_eqb (sort_pairs x) (sort_pairs y)
  | _, _ => res_eqb impl spec
  end.
