(* C34/ProofsTrace.v — every run of the queue specification, and therefore every run of the
   heap model, satisfies the declarative trace predicate of ModelTrace.v (duplicates refused,
   at most once, priority then insertion order, observers). *)
From Coq Require Import List NArith Bool Arith Lia Permutation Sorted.
From C34 Require Import Model ModelTrace Proofs ProofsHeap.
Import ListNotations.
Local Open Scope N_scope.

Definition proj (l : pres) : qspec := map (fun e : N * (N * N) => (fst e, fst (snd e))) l.
Definition stamp_lt (a b : N * (N * N)) : Prop := snd (snd a) < snd (snd b).

Record T (q : qspec) (s : tstate) : Prop := {
  t_proj : proj (ts_pres s) = q;
  t_nodup : NoDup (map fst (ts_pres s));
  t_sorted : StronglySorted stamp_lt (ts_pres s);
  t_bound : Forall (fun e : N * (N * N) => snd (snd e) < ts_next s) (ts_pres s) }.

Lemma NoDup_app_snoc {A} (l : list A) x : NoDup l -> ~ In x l -> NoDup (l ++ [x]).
Proof.
  induction l as [|a l IH]; simpl; intros H Hn; [constructor; [tauto|constructor]|].
  inversion H; subst. constructor.
  - intros Hin. apply in_app_iff in Hin. destruct Hin as [Hin|[Hin|[]]]; [tauto|]. subst. apply Hn. left. reflexivity.
  - apply IH; [assumption|]. intros Hin. apply Hn. right. exact Hin.
Qed.

Lemma StronglySorted_snoc {A} (Rl : A -> A -> Prop) (l : list A) x :
  StronglySorted Rl l -> Forall (fun e => Rl e x) l -> StronglySorted Rl (l ++ [x]).
Proof.
  induction l as [|a l IH]; simpl; intros H Hf; [constructor; constructor|].
  inversion H; subst. inversion Hf; subst. constructor; [apply IH; assumption|].
  apply Forall_app. split; [assumption|]. constructor; [assumption|constructor].
Qed.

Lemma T_init : T [] ts0.
Proof. constructor; simpl; constructor. Qed.

Lemma plook_none l id : plook id l = None <-> ~ In id (map fst l).
Proof.
  induction l as [|[i x] l IH]; simpl; [tauto|].
  destruct (i =? id) eqn:E.
  - apply N.eqb_eq in E. split; [discriminate|]. intros H. exfalso. apply H. left. exact E.
  - apply N.eqb_neq in E. rewrite IH. tauto.
Qed.

Lemma qmem_proj l id :
  qmem id (proj l) = match plook id l with Some _ => true | None => false end.
Proof.
  induction l as [|[i [p t]] l IH]; simpl; [reflexivity|].
  destruct (i =? id); simpl; [reflexivity|exact IH].
Qed.

Lemma proj_pdel l id : proj (pdel id l) = qdel id (proj l).
Proof.
  induction l as [|[i [p t]] l IH]; simpl; [reflexivity|].
  destruct (i =? id); simpl; [reflexivity|]. rewrite IH. reflexivity.
Qed.

Lemma pdel_incl l id e : In e (pdel id l) -> In e l.
Proof.
  induction l as [|[i x] l IH]; simpl; [tauto|].
  destruct (i =? id); simpl; [tauto|]. intros [H|H]; [left; exact H|right; apply IH; exact H].
Qed.

Lemma pdel_nodup l id : NoDup (map fst l) -> NoDup (map fst (pdel id l)).
Proof.
  induction l as [|[i x] l IH]; simpl; intros H; [constructor|].
  inversion H as [|? ? Hn Hd]; subst. destruct (i =? id); simpl; [exact Hd|].
  constructor; [|apply IH; exact Hd].
  intros Hin. apply Hn. apply in_map_iff in Hin. destruct Hin as [e [E1 E2]].
  apply in_map_iff. exists e. split; [exact E1|eapply pdel_incl; exact E2].
Qed.

Lemma pdel_sorted l id : StronglySorted stamp_lt l -> StronglySorted stamp_lt (pdel id l).
Proof.
  induction l as [|[i x] l IH]; simpl; intros H; [constructor|].
  inversion H as [|? ? Hs Hf]; subst. destruct (i =? id); [exact Hs|].
  constructor; [apply IH; exact Hs|].
  rewrite Forall_forall in *. intros e He. apply Hf. eapply pdel_incl; exact He.
Qed.

Lemma pdel_bound l id n :
  Forall (fun e : N * (N * N) => snd (snd e) < n) l ->
  Forall (fun e : N * (N * N) => snd (snd e) < n) (pdel id l).
Proof.
  rewrite !Forall_forall. intros H e He. apply H. eapply pdel_incl; exact He.
Qed.

Lemma T_del q s id : T q s -> T (qdel id q) (mkts (pdel id (ts_pres s)) (ts_next s)).
Proof.
  intros [P N S B]. constructor; simpl.
  - rewrite proj_pdel, P. reflexivity.
  - apply pdel_nodup; exact N.
  - apply pdel_sorted; exact S.
  - apply pdel_bound; exact B.
Qed.

Lemma proj_split l l1 i p l2 : proj l = l1 ++ (i, p) :: l2 ->
  exists m1 t m2, l = m1 ++ (i, (p, t)) :: m2 /\ proj m1 = l1 /\ proj m2 = l2.
Proof.
  revert l1. induction l as [|[j [q u]] l IH]; intros l1 H; simpl in H.
  - destruct l1; discriminate.
  - destruct l1 as [|[j' q'] l1]; simpl in H.
    + inversion H; subst. exists [], u, l. repeat split; reflexivity.
    + inversion H; subst. destruct (IH _ H3) as [m1 [t [m2 [E [E1 E2]]]]].
      exists ((j', (q', u)) :: m1), t, m2. subst. repeat split; reflexivity.
Qed.

Lemma plook_app_notin m1 m2 i : ~ In i (map fst m1) -> plook i (m1 ++ m2) = plook i m2.
Proof.
  induction m1 as [|[j x] m1 IH]; simpl; intros H; [reflexivity|].
  destruct (j =? i) eqn:E; [apply N.eqb_eq in E; exfalso; apply H; left; exact E|].
  apply IH. intros Hin. apply H. right. exact Hin.
Qed.

Lemma in_proj m j q : In (j, q) (proj m) -> exists u, In (j, (q, u)) m.
Proof.
  unfold proj. intros H. apply in_map_iff in H. destruct H as [[j' [q' u]] [E H]].
  simpl in E. inversion E; subst. exists u. exact H.
Qed.

Lemma head_ok q s i p : T q s -> qbest q = Some (i, p) -> is_head (ts_pres s) i p = true.
Proof.
  intros [P N S B] Hb. destruct (qbest_spec _ _ _ Hb) as [l1 [l2 [E [H1 H2]]]].
  rewrite <- P in E. destruct (proj_split _ _ _ _ _ E) as [m1 [t [m2 [El [E1 E2]]]]].
  unfold is_head. rewrite El in *.
  assert (Hn1 : ~ In i (map fst m1)).
  { rewrite map_app in N. simpl in N. intros Hin. apply NoDup_remove_2 in N. apply N.
    apply in_or_app. left. exact Hin. }
  rewrite (plook_app_notin _ _ _ Hn1). simpl. rewrite N.eqb_refl, N.eqb_refl. simpl.
  apply forallb_forall. intros [j [q' u]] Hin. simpl.
  apply in_app_iff in Hin. destruct Hin as [Hin|[Hin|Hin]].
  - (* inserted before: strictly lower priority *)
    assert (Hq : q' < p).
    { apply (H1 j). rewrite <- E1. unfold proj. apply in_map_iff. exists (j, (q', u)). split; [reflexivity|exact Hin]. }
    unfold beats. apply N.ltb_lt in Hq. rewrite Hq. apply orb_true_r.
  - inversion Hin; subst. rewrite N.eqb_refl. reflexivity.
  - (* inserted after: not higher, and a later stamp *)
    assert (Hq : q' <= p).
    { apply (H2 j). rewrite <- E2. unfold proj. apply in_map_iff. exists (j, (q', u)). split; [reflexivity|exact Hin]. }
    assert (Hu : t < u).
    { clear - S Hin. induction m1 as [|x m1 IH]; simpl in S.
      - inversion S as [|? ? _ Hf]; subst. rewrite Forall_forall in Hf. apply (Hf _ Hin).
      - inversion S; subst. apply IH. assumption. }
    unfold beats. destruct (q' <? p) eqn:Eq; [apply orb_true_r|].
    apply N.ltb_ge in Eq. assert (q' = p) by lia. subst.
    rewrite N.eqb_refl. apply N.ltb_lt in Hu. rewrite Hu. simpl. apply orb_true_r.
Qed.

Lemma proj_length l : length (proj l) = length l.
Proof. unfold proj. apply map_length. Qed.

Lemma pair_in_spec x l : In x l -> pair_in x l = true.
Proof.
  intros H. unfold pair_in. apply existsb_exists. exists x. split; [exact H|].
  rewrite !N.eqb_refl. reflexivity.
Qed.

(* the specification's own results pass the predicate, and T is preserved *)
Lemma spec_step_ok q s o : T q s ->
  exists s', tr_step s o (snd (q_step q o)) = Some s' /\ T (fst (q_step q o)) s'.
Proof.
  intros HT. pose proof HT as [P ND S B]. subst q. set (q := proj (ts_pres s)) in *.
  assert (P : proj (ts_pres s) = q) by reflexivity.
  destruct o as [id p| | | |id|id| |]; simpl.
  - (* Push *)
    assert (Hm : qmem id q = match plook id (ts_pres s) with Some _ => true | None => false end)
      by (unfold q; apply qmem_proj).
    rewrite Hm. destruct (plook id (ts_pres s)) as [x|] eqn:El; simpl.
    + exists s. split; [reflexivity|exact HT].
    + eexists. split; [reflexivity|]. constructor; simpl.
      * unfold proj in *. rewrite map_app, P. reflexivity.
      * rewrite map_app. simpl. apply NoDup_app_snoc; [exact ND|]. apply plook_none. exact El.
      * apply StronglySorted_snoc; [exact S|]. rewrite Forall_forall in *. intros e He.
        unfold stamp_lt. simpl. apply B. exact He.
      * apply Forall_app. split.
        -- rewrite Forall_forall in *. intros e He. specialize (B e He). lia.
        -- constructor; [simpl; lia|constructor].
  - (* Pop *)
    destruct (qbest q) as [[i p]|] eqn:Eb; simpl.
    + rewrite (head_ok _ _ _ _ HT Eb). eexists. split; [reflexivity|]. apply T_del. exact HT.
    + apply qbest_none in Eb. subst q. destruct (ts_pres s) eqn:E; [|discriminate].
      exists s. split; [reflexivity|exact HT].
  - (* PopT *)
    destruct (qbest q) as [[i p]|] eqn:Eb; simpl.
    + rewrite (head_ok _ _ _ _ HT Eb). eexists. split; [reflexivity|]. apply T_del. exact HT.
    + apply qbest_none in Eb. subst q. destruct (ts_pres s) eqn:E; [|discriminate].
      exists s. split; [reflexivity|exact HT].
  - (* Peek *)
    destruct (qbest q) as [[i p]|] eqn:Eb; simpl.
    + rewrite (head_ok _ _ _ _ HT Eb). exists s. split; [reflexivity|exact HT].
    + apply qbest_none in Eb. subst q. destruct (ts_pres s) eqn:E; [|discriminate].
      exists s. split; [reflexivity|exact HT].
  - (* Remove *)
    eexists. split; [reflexivity|]. apply T_del. exact HT.
  - (* Exists *)
    unfold q at 1. rewrite qmem_proj. rewrite Bool.eqb_reflx. exists s. split; [reflexivity|exact HT].
  - (* Len *)
    unfold q. rewrite proj_length, N.eqb_refl. exists s. split; [reflexivity|exact HT].
  - (* Pending *)
    assert (Hlen : N.of_nat (length (sort_pairs q)) =? N.of_nat (length (ts_pres s)) = true).
    { apply N.eqb_eq. f_equal. rewrite (Permutation_length (sort_perm q)), <- P. apply proj_length. }
    rewrite Hlen. simpl.
    assert (Hall : forallb (fun e : N * (N * N) => pair_in (fst e, fst (snd e)) (sort_pairs q)) (ts_pres s) = true).
    { apply forallb_forall. intros e He. apply pair_in_spec.
      eapply Permutation_in; [apply Permutation_sym, sort_perm|]. rewrite <- P. unfold proj.
      apply in_map_iff. exists e. split; [reflexivity|exact He]. }
    rewrite Hall. exists s. split; [reflexivity|exact HT].
Qed.

Lemma spec_trace_from : forall ops q s, T q s -> trace_from s (combine ops (q_run q ops)) = true.
Proof.
  induction ops as [|o ops IH]; intros q s HT; simpl; [reflexivity|].
  destruct (spec_step_ok q s o HT) as [s' [E HT']].
  destruct (q_step q o) as [q' r] eqn:Eq. simpl in *. rewrite E. apply IH. exact HT'.
Qed.

Theorem spec_trace_ok ops : trace_ok (combine ops (q_run [] ops)) = true.
Proof. apply spec_trace_from. apply T_init. Qed.

(* ---- transport along res_sim (equality, Pending up to order) ---- *)
Lemma pair_in_perm x l l' : Permutation l l' -> pair_in x l = pair_in x l'.
Proof.
  intros Hp. unfold pair_in. apply eq_true_iff_eq. rewrite !existsb_exists.
  split; intros [y [Hy H]]; exists y; (split; [|exact H]).
  - eapply Permutation_in; eauto.
  - eapply Permutation_in; [apply Permutation_sym|]; eauto.
Qed.

Lemma tr_step_sim s o r r' : res_sim r r' = true -> tr_step s o r = tr_step s o r'.
Proof.
  intros H. destruct r, r';
    try (unfold res_sim in H; apply res_eqb_spec in H; first [discriminate | inversion H; subst; reflexivity]).
  (* both lists *)
  unfold res_sim in H. apply pairs_eqb_spec in H.
  assert (Hp : Permutation l l0).
  { eapply Permutation_trans; [apply Permutation_sym, sort_perm|]. rewrite H. apply sort_perm. }
  destruct o; simpl; try reflexivity.
  rewrite (Permutation_length Hp).
  replace (forallb (fun e : N * (N * N) => pair_in (fst e, fst (snd e)) l) (ts_pres s))
    with (forallb (fun e : N * (N * N) => pair_in (fst e, fst (snd e)) l0) (ts_pres s)); [reflexivity|].
  induction (ts_pres s) as [|e m IHm]; simpl; [reflexivity|].
  rewrite IHm, (pair_in_perm _ _ _ Hp). reflexivity.
Qed.

Lemma trace_from_sim : forall ops rs rs' s,
  Forall2 (fun a b => res_sim a b = true) rs rs' ->
  trace_from s (combine ops rs) = trace_from s (combine ops rs').
Proof.
  induction ops as [|o ops IH]; intros rs rs' s H; simpl; [reflexivity|].
  inversion H as [|r r' l l' Hr Hl]; subst; [reflexivity|]. simpl.
  rewrite (tr_step_sim s o r r' Hr). destruct (tr_step s o r'); [apply IH; exact Hl|reflexivity].
Qed.

Theorem model_trace_ok ops : trace_ok (combine ops (m_run m_new ops)) = true.
Proof.
  unfold trace_ok. rewrite (trace_from_sim ops _ _ ts0 (m_run_refines ops m_new [] R_init)). apply spec_trace_ok.
Qed.
