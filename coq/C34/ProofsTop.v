(* C34/ProofsTop.v — putting the refinements together: the heap model refines the queue
   specification, hence every complete concurrent history under the exclusive discipline is
   linearizable w.r.t. that specification (results of Pending compared as sets). *)
From Coq Require Import List NArith Bool Arith Lia Permutation.
From Common Require Import Lock.
From Conc Require Import Lin Cert LockedObject Composite.
From C34 Require Import Model ModelConc Gen Checker Proofs ProofsHeap ProofsConc.
Import ListNotations.
Local Open Scope N_scope.

(* the specification as a relation: the result is the one of q_step, a Pending result up to order *)
Definition q_spec_sim (q : qspec) (o : op) (r : res) (q' : qspec) : Prop :=
  q' = fst (q_step q o) /\ res_sim r (snd (q_step q o)) = true.

Lemma R_step_sim s q o r s' : R s q -> m_fspec s o r s' -> exists q', q_spec_sim q o r q' /\ R s' q'.
Proof.
  intros HR Hs. unfold m_fspec, fspec in Hs. destruct (m_step_refines s q o HR) as [HR' Hres].
  rewrite Hs in HR', Hres. simpl in HR', Hres.
  exists (fst (q_step q o)). split; [split; [reflexivity|exact Hres]|exact HR'].
Qed.

Theorem m_run_q_run ops : Forall2 (fun a b => res_sim a b = true) (m_run m_new ops) (q_run [] ops).
Proof. apply m_run_refines. apply R_init. Qed.

Theorem pq_linearizable_qspec (mode : op -> lockmode) :
  (forall o, mode o = LockExclusive) ->
  forall (P : nat -> list op) (c : cfg pq loc op res),
    reach pq loc op res q_init q_fin q_mstep mode (init_cfg pq loc op res m_new P) c ->
    quiescent pq loc op res c ->
    exists l q, linearization q_spec_sim [] (done pq loc op res c) l q /\ R (shared pq loc op res c) q.
Proof.
  intros Hx P c Hr Hq.
  destruct (pq_linearizable mode Hx P c Hr Hq) as [l Hl].
  destruct (linearizable_sim m_fspec q_spec_sim R R_step_sim _ _ _ _ _ R_init Hl) as [q [Hl' HR]].
  exists l, q. split; assumption.
Qed.

(* ---- PopWithTimer as a composite of Pop calls ---- *)
Definition q_fspec : qspec -> op -> res -> qspec -> Prop := fspec qspec op res q_step.

(* a Pop that returns nil leaves the queue unchanged *)
Lemma failed_pop_noop (e : @orec op res) :
  o_op e = Pop -> o_res e = RNone -> noop qspec op res q_fspec e.
Proof.
  intros Ho Hr s1 s2 H. unfold q_fspec, fspec in H. rewrite Ho, Hr in H. simpl in H.
  destruct (qbest s1) as [[i p]|]; inversion H. reflexivity.
Qed.

(* PopWithTimer = failed Pops followed by a last Pop whose result it returns: the history in which
   the composite call replaces its sub-calls is linearizable when the one with the sub-calls is *)
Theorem popwithtimer_composite (h subs : list (@orec op res)) (last c : @orec op res) :
  linearizable q_fspec [] (h ++ last :: subs) ->
  Forall (fun e => o_op e = Pop /\ o_res e = RNone) subs ->
  o_op last = Pop -> o_op c = PopT -> o_res c = o_res last ->
  o_call c <= o_call last -> o_ret last <= o_ret c ->
  linearizable q_fspec [] (h ++ [c]).
Proof.
  intros HL Hs Hl Hc Hr H1 H2.
  eapply composite_linearizable; eauto.
  - rewrite Forall_forall in *. intros e He. destruct (Hs e He). apply failed_pop_noop; assumption.
  - intros s1 s2 H. unfold q_fspec, fspec in *. rewrite Hl in H. rewrite Hc, Hr. exact H.
Qed.

(* ---- the checkers applied to recorded histories ---- *)
Theorem pq_lin_sound bud h :
  pq_lin bud h = Some true -> linearizable (fspec qspec op res q_step) [] h.
Proof. apply lin_check_m_true. exact res_eqb_spec. Qed.

Theorem pq_lin_complete_false bud h :
  pq_lin_complete bud h = Some false -> ~ linearizable (fspec qspec op res q_step) [] h.
Proof. apply lin_check_b_false. exact res_eqb_spec. Qed.

Theorem pq_cert_sound h p :
  pq_cert h p = true -> linearizable (fspec qspec op res q_step) [] h.
Proof. apply cert_ok_sound. exact res_eqb_spec. Qed.

Theorem exists_unlocked_refuted :
  exists c : cfg pq loc op res,
    reach pq loc op res q_init q_fin q_mstep prefix_mode (init_cfg pq loc op res m_new push_and_exists) c /\
    at_loc c 0 writes_map = true /\ at_loc c 1 reads_map = true.
Proof. exists race_cfg. exact exists_races_with_push. Qed.

(* ---- histories with pending calls: every reachable configuration ---- *)
Theorem pq_linearizable_pending (mode : op -> lockmode) :
  (forall o, mode o = LockExclusive) ->
  forall (P : nat -> list op) (c : cfg pq loc op res),
    reach pq loc op res q_init q_fin q_mstep mode (init_cfg pq loc op res m_new P) c ->
    exists (ts : list nat) (compl : list (@orec op res)) l q,
      NoDup ts /\
      Forall2 (fun t e => th pq loc op res c t = Finished loc op res (o_call e) (o_op e) (o_res e) /\
                          o_ret e = clk pq loc op res c) ts compl /\
      linearization q_spec_sim [] (done pq loc op res c ++ compl) l q.
Proof.
  intros Hx P c Hr.
  destruct (exclusive_linearizable_pending pq loc op res q_init q_fin q_mstep mode Hx _ _ _ Hr)
    as [ts [compl [l [sb [Hn [Hf [Hp [Hl Ho]]]]]]]].
  assert (Hl' : linearization m_fspec m_new (done pq loc op res c ++ compl) l sb).
  { repeat split; try assumption. eapply legal_mono; [|exact Hl].
    intros s o r s' H. apply seq_spec_m_step. exact H. }
  destruct (linearizable_sim m_fspec q_spec_sim R R_step_sim _ _ _ _ _ R_init Hl') as [q [Hq _]].
  exists ts, compl, l, q. split; [exact Hn|split; [exact Hf|exact Hq]].
Qed.

Theorem pq_pcert_sound h pend inf chosen p :
  pq_pcert h pend inf chosen p = true -> linearizable_pending qspec op res q_step [] h pend.
Proof. apply pcert_ok_sound. exact res_eqb_spec. Qed.
