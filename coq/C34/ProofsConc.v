(* C34/ProofsConc.v — the transaction queue as a Conc.LockedObject. *)
From Coq Require Import List NArith Bool Arith Lia Permutation String.
From Common Require Import Lock.
From Conc Require Import Lin LockedObject.
From C34 Require Import Model ModelConc Gen Checker.
Import ListNotations.
Local Open Scope N_scope.

Notation qruns := (runs pq loc res q_fin q_mstep).
Notation qcfg := (cfg pq loc op res).

(* the sequential execution of a body is m_step *)
Lemma q_body_m_step s o : qruns (q_init o) s (snd (m_step s o)) (fst (m_step s o)).
Proof.
  destruct o; cbn [q_init m_step].
  - (* Push *)
    destruct (tget id (txs s)) eqn:E.
    + eapply runs_step; [reflexivity|cbn [q_mstep]; rewrite E; reflexivity|]. constructor. reflexivity.
    + eapply runs_step; [reflexivity|cbn [q_mstep]; rewrite E; reflexivity|].
      eapply runs_step; [reflexivity|reflexivity|].
      eapply runs_step; [reflexivity|reflexivity|]. constructor. reflexivity.
  - (* Pop *)
    unfold m_pop. destruct (arr s) as [|x a] eqn:Ea.
    + eapply runs_step; [reflexivity|cbn [q_mstep]; rewrite Ea; reflexivity|]. constructor. reflexivity.
    + eapply runs_step; [reflexivity|cbn [q_mstep]; rewrite Ea; reflexivity|].
      destruct (heap_pop (x :: a)) as [a' [y|]] eqn:Eh.
      * eapply runs_step; [reflexivity|cbn [q_mstep]; rewrite Ea, Eh; reflexivity|].
        eapply runs_step; [reflexivity|reflexivity|]. constructor. reflexivity.
      * eapply runs_step; [reflexivity|cbn [q_mstep]; rewrite Ea, Eh; reflexivity|]. constructor. reflexivity.
  - (* PopT *)
    unfold m_pop. destruct (arr s) as [|x a] eqn:Ea.
    + eapply runs_step; [reflexivity|cbn [q_mstep]; rewrite Ea; reflexivity|]. constructor. reflexivity.
    + eapply runs_step; [reflexivity|cbn [q_mstep]; rewrite Ea; reflexivity|].
      destruct (heap_pop (x :: a)) as [a' [y|]] eqn:Eh.
      * eapply runs_step; [reflexivity|cbn [q_mstep]; rewrite Ea, Eh; reflexivity|].
        eapply runs_step; [reflexivity|reflexivity|]. constructor. reflexivity.
      * eapply runs_step; [reflexivity|cbn [q_mstep]; rewrite Ea, Eh; reflexivity|]. constructor. reflexivity.
  - (* Peek *) eapply runs_step; [reflexivity|reflexivity|].
    cbn [m_step]. destruct (arr s); constructor; reflexivity.
  - (* Remove *)
    destruct (tget id (txs s)) as [o|] eqn:E.
    + eapply runs_step; [reflexivity|cbn [q_mstep]; rewrite E; reflexivity|].
      destruct (find_order o (arr s)) as [x|] eqn:Ef.
      * destruct (heap_remove (arr s) (it_index x)) as [a' y] eqn:Eh.
        eapply runs_step; [reflexivity|cbn [q_mstep]; rewrite Ef, Eh; reflexivity|].
        eapply runs_step; [reflexivity|reflexivity|]. constructor. reflexivity.
      * eapply runs_step; [reflexivity|cbn [q_mstep]; rewrite Ef; reflexivity|]. constructor. reflexivity.
    + eapply runs_step; [reflexivity|cbn [q_mstep]; rewrite E; reflexivity|]. constructor. reflexivity.
  - (* Exists *) eapply runs_step; [reflexivity|reflexivity|]. constructor. reflexivity.
  - (* Len *) eapply runs_step; [reflexivity|reflexivity|]. constructor. reflexivity.
  - (* Pending *) eapply runs_step; [reflexivity|reflexivity|]. constructor. reflexivity.
Qed.

Theorem seq_spec_m_step s o r s' :
  seq_spec pq loc op res q_init q_fin q_mstep s o r s' <-> m_step s o = (s', r).
Proof.
  unfold seq_spec. pose proof (q_body_m_step s o) as Hr. split.
  - intros H. destruct (runs_det pq loc res q_fin q_mstep _ _ _ _ _ _ H Hr) as [-> ->].
    destruct (m_step s o); reflexivity.
  - intros H. rewrite H in Hr. exact Hr.
Qed.

Definition m_fspec : pq -> op -> res -> pq -> Prop := fspec pq op res m_step.

Theorem pq_linearizable (mode : op -> lockmode) :
  (forall o, mode o = LockExclusive) ->
  forall (P : nat -> list op) (c : qcfg),
    reach pq loc op res q_init q_fin q_mstep mode (init_cfg pq loc op res m_new P) c ->
    quiescent pq loc op res c ->
    exists l, linearization m_fspec m_new (done pq loc op res c) l (shared pq loc op res c).
Proof.
  intros Hx P c Hr Hq.
  destruct (exclusive_linearizable pq loc op res q_init q_fin q_mstep mode Hx _ _ _ Hr Hq)
    as [l [Hp [Hl Ho]]].
  exists l. repeat split; try assumption.
  eapply legal_mono; [|exact Hl]. intros s o r s' H. apply seq_spec_m_step. exact H.
Qed.

(* ---- the pre-fix discipline: Exists took no lock ---- *)
Definition prefix_mode (o : op) : lockmode := match o with Exists _ => LockNone | _ => LockExclusive end.
Definition push_and_exists (t : nat) : list op :=
  match t with 0%nat => [Push 7 1] | 1%nat => [Exists 7] | _ => [] end.
(* thread 0: call, Lock, duplicate test, heap.Push (4 steps): it is about to write the map;
   thread 1: call, "acquire" (no lock): it is about to read the map *)
Definition race_schedule : list nat := [0; 0; 0; 0; 1; 1]%nat.
Definition race_cfg : qcfg :=
  run_sched pq loc op res q_init q_fin q_mstep prefix_mode race_schedule (init_cfg pq loc op res m_new push_and_exists).

Definition at_loc (c : qcfg) (t : nat) (f : loc -> bool) : bool :=
  match th pq loc op res c t with Running _ _ _ _ _ l => f l | _ => false end.

Theorem exists_races_with_push :
  reach pq loc op res q_init q_fin q_mstep prefix_mode (init_cfg pq loc op res m_new push_and_exists) race_cfg /\
  at_loc race_cfg 0 writes_map = true /\ at_loc race_cfg 1 reads_map = true.
Proof.
  split; [apply run_sched_reach; constructor|]. split; vm_compute; reflexivity.
Qed.

(* with every method exclusive no reachable configuration has two threads inside bodies *)
Theorem exclusive_no_two_running (mode : op -> lockmode) :
  (forall o, mode o = LockExclusive) ->
  forall P c, reach pq loc op res q_init q_fin q_mstep mode (init_cfg pq loc op res m_new P) c ->
  forall t1 t2 f g, t1 <> t2 -> at_loc c t1 f = true -> at_loc c t2 g = true -> False.
Proof.
  intros Hx P c Hr t1 t2 f g Hne H1 H2.
  destruct (Inv_reach pq loc op res q_init q_fin q_mstep mode Hx m_new _ _
              (Inv_init pq loc op res q_init q_fin q_mstep m_new P) Hr)
    as [L [sb [_ [Hlock _]]]].
  unfold at_loc in H1, H2. unfold lock_inv in Hlock.
  destruct (lock pq loc op res c) as [|t0|n].
  - destruct Hlock as [_ Hn]. specialize (Hn t1). destruct (th pq loc op res c t1); try discriminate. exact Hn.
  - destruct Hlock as [_ Hn]. destruct (Nat.eq_dec t1 t0) as [->|Hd].
    + specialize (Hn t2 (fun E => Hne (eq_sym E))). destruct (th pq loc op res c t2); try discriminate. exact Hn.
    + specialize (Hn t1 Hd). destruct (th pq loc op res c t1); try discriminate. exact Hn.
  - exact Hlock.
Qed.
