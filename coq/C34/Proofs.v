(* C34/Proofs.v — small lemmas: boolean equality of results. *)
From Coq Require Import List NArith Bool Arith Lia.
From C34 Require Import Model.
Import ListNotations.
Local Open Scope N_scope.

Lemma pairs_eqb_spec a : forall b, pairs_eqb a b = true <-> a = b.
Proof.
  induction a as [|[k v] a IH]; intros [|[k' v'] b]; simpl; split; intros H; try discriminate; try reflexivity.
  - apply andb_true_iff in H. destruct H as [H H3]. apply andb_true_iff in H. destruct H as [H1 H2].
    apply N.eqb_eq in H1, H2. apply IH in H3. subst. reflexivity.
  - inversion H; subst. rewrite !N.eqb_refl. simpl. apply IH. reflexivity.
Qed.

Lemma res_eqb_spec a b : res_eqb a b = true <-> a = b.
Proof.
  destruct a, b; simpl; split; intros H; try discriminate; try reflexivity.
  - apply andb_true_iff in H. destruct H as [H1 H2]. apply N.eqb_eq in H1, H2. subst. reflexivity.
  - inversion H. rewrite !N.eqb_refl. reflexivity.
  - apply Bool.eqb_prop in H. subst. reflexivity.
  - inversion H. apply Bool.eqb_reflx.
  - apply N.eqb_eq in H. subst. reflexivity.
  - inversion H. apply N.eqb_refl.
  - apply pairs_eqb_spec in H. subst. reflexivity.
  - inversion H. apply pairs_eqb_spec. reflexivity.
Qed.

(* ---- what the specification says: Pop/Peek take the first element of maximal priority ---- *)
Lemma qbest_spec l i p : qbest l = Some (i, p) ->
  exists l1 l2, l = l1 ++ (i, p) :: l2 /\
                (forall j q, In (j, q) l1 -> q < p) /\ (forall j q, In (j, q) l2 -> q <= p).
Proof.
  revert i p. induction l as [|[i0 p0] l IH]; simpl; intros i p H; [discriminate|].
  destruct (qbest l) as [[j q]|] eqn:Eb.
  - destruct (p0 <? q) eqn:E.
    + inversion H; subst. destruct (IH _ _ eq_refl) as [l1 [l2 [-> [H1 H2]]]].
      exists ((i0, p0) :: l1), l2. split; [reflexivity|]. split; [|exact H2].
      intros j' q' [Hin|Hin]; [inversion Hin; subst; apply N.ltb_lt; exact E|eapply H1; exact Hin].
    + inversion H; subst. exists [], l. split; [reflexivity|]. split; [intros j' q' []|].
      destruct (IH _ _ eq_refl) as [l1 [l2 [-> [H1 H2]]]]. apply N.ltb_ge in E.
      intros j' q' Hin. apply in_app_iff in Hin. destruct Hin as [Hin|[Hin|Hin]].
      * specialize (H1 _ _ Hin). lia.
      * inversion Hin; subst. exact E.
      * specialize (H2 _ _ Hin). lia.
  - inversion H; subst. exists [], l. split; [reflexivity|]. split; [intros j' q' []|].
    destruct l as [|[j q] l]; [intros j' q' []|]. simpl in Eb.
    destruct (qbest l) as [[? ?]|]; [destruct (q <? n0)|]; discriminate.
Qed.

Lemma qbest_none l : qbest l = None -> l = [].
Proof.
  destruct l as [|[i p] l]; [reflexivity|]. simpl.
  destruct (qbest l) as [[j q]|]; [destruct (p <? q)|]; discriminate.
Qed.
