(* C34/Proofs.v — lemmas (extended below). *)
From Coq Require Import List NArith Bool Arith Lia.
From C34 Require Import Model.
