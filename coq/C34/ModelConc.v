(* C34/ModelConc.v — the PriorityQueue methods as bodies of atomic micro-steps (one statement
   of priority_queue.go that touches the shared fields each), for Conc.LockedObject
   (definitions only). *)
From Coq Require Import List NArith Bool Arith.
From Common Require Import Lock.
From C34 Require Import Model.
Import ListNotations.
Local Open Scope N_scope.

Inductive loc :=
| LPush1 (id p : N)            (* if spq.txs[hash] != nil *)
| LPush2 (id p : N)            (* item.order = currOrder; currOrder++; heap.Push *)
| LPush3 (id p o : N)          (* spq.txs[hash] = item *)
| LPop1                        (* if spq.pq.Len() == 0 *)
| LPop2                        (* heap.Pop *)
| LPop3 (x : item)             (* delete(spq.txs, item.hash) *)
| LRem1 (id : N)               (* item, ok := spq.txs[hash] *)
| LRem2 (id o : N)             (* heap.Remove(&spq.pq, item.index) *)
| LRem3 (id : N)               (* delete(spq.txs, hash) *)
| LPeek | LExists (id : N) | LLen | LPending
| LDone (r : res).

(* PopWithTimer with an expired timer makes exactly one call of Pop: as an operation of the
   locked object its body is the body of Pop (under Pop's lock) *)
Definition q_init (o : op) : loc :=
  match o with
  | Push id p => LPush1 id p
  | Pop | PopT => LPop1
  | Peek => LPeek
  | Remove id => LRem1 id
  | Exists id => LExists id
  | Len => LLen
  | Pending => LPending
  end.
Definition q_fin (l : loc) : option res := match l with LDone r => Some r | _ => None end.

Definition q_mstep (l : loc) (s : pq) : loc * pq :=
  match l with
  | LPush1 id p => match tget id (txs s) with Some _ => (LDone RDup, s) | None => (LPush2 id p, s) end
  | LPush2 id p =>
    (LPush3 id p (curr s), mkq (heap_push (arr s) (mki id p (curr s) 0)) (curr s + 1) (txs s))
  | LPush3 id p o => (LDone ROk, mkq (arr s) (curr s) (tset id o (txs s)))
  | LPop1 => match arr s with [] => (LDone RNone, s) | _ :: _ => (LPop2, s) end
  | LPop2 =>
    match heap_pop (arr s) with
    | (a', Some x) => (LPop3 x, mkq a' (curr s) (txs s))
    | (_, None) => (LDone RPanic, s)
    end
  | LPop3 x => (LDone (RTx (it_id x) (it_prio x)), mkq (arr s) (curr s) (tdel (it_id x) (txs s)))
  | LRem1 id => match tget id (txs s) with None => (LDone RUnit, s) | Some o => (LRem2 id o, s) end
  | LRem2 id o =>
    match find_order o (arr s) with
    | Some x => (LRem3 id, mkq (fst (heap_remove (arr s) (it_index x))) (curr s) (txs s))
    | None => (LDone RPanic, s)
    end
  | LRem3 id => (LDone RUnit, mkq (arr s) (curr s) (tdel id (txs s)))
  | LPeek => (LDone (snd (m_step s Peek)), s)
  | LExists id => (LDone (snd (m_step s (Exists id))), s)
  | LLen => (LDone (snd (m_step s Len)), s)
  | LPending => (LDone (snd (m_step s Pending)), s)
  | LDone r => (LDone r, s)
  end.

(* is the body at a statement that WRITES the txs map / READS it *)
Definition writes_map (l : loc) : bool := match l with LPush3 _ _ _ | LPop3 _ | LRem3 _ => true | _ => false end.
Definition reads_map (l : loc) : bool := match l with LPush1 _ _ | LRem1 _ | LExists _ => true | _ => false end.
