(* C34/ModelTrace.v — the property of the queue said DECLARATIVELY, as a predicate on a trace
   of (operation, result) pairs (definitions only).

   The predicate does not run a queue: it keeps, for the transactions that are currently in the
   queue, the priority they were accepted with and an acceptance stamp, and checks every
   observed result against the clauses of property C34:

     duplicates refused   Push of a present id must answer dup, Push of an absent id must be
                          accepted;
     at most once         a transaction can only be yielded (Pop / PopWithTimer) while present,
                          and leaves at the yield; RemoveExtrinsic makes it leave; so between
                          two yields of an id there is an accepted Push of that id;
     order                the transaction a Pop / Peek yields BEATS every other present one:
                          strictly higher priority, or equal priority and accepted earlier;
                          nil only when nothing is present;
     observers            Exists / Len / Pending agree with the set of present transactions.

   [trace_ok] is evaluated by the driver on the observables of the Go implementation, and is
   proved (ProofsTrace.v) of every run of the specification and of the heap model. *)
From Coq Require Import List NArith Bool Arith.
From C34 Require Import Model.
Import ListNotations.
Local Open Scope N_scope.

(* present transactions: (id, (priority, acceptance stamp)), oldest first; next stamp *)
Definition pres := list (N * (N * N)).
Record tstate := mkts { ts_pres : pres; ts_next : N }.
Definition ts0 : tstate := mkts [] 0.

Fixpoint plook (id : N) (l : pres) : option (N * N) :=
  match l with [] => None | (i, x) :: r => if i =? id then Some x else plook id r end.
Fixpoint pdel (id : N) (l : pres) : pres :=
  match l with [] => [] | (i, x) :: r => if i =? id then r else (i, x) :: pdel id r end.

(* (p, t) is ahead of (q, u): higher priority, or the same priority and accepted earlier *)
Definition beats (p t q u : N) : bool := (q <? p) || ((q =? p) && (t <? u)).

(* the transaction (i, p) is present with priority p and beats every other present one *)
Definition is_head (l : pres) (i p : N) : bool :=
  match plook i l with
  | Some (p', t) =>
    (p' =? p) && forallb (fun e : N * (N * N) => (fst e =? i) || beats p t (fst (snd e)) (snd (snd e))) l
  | None => false
  end.

Definition pair_in (x : N * N) (l : list (N * N)) : bool :=
  existsb (fun y => (fst y =? fst x) && (snd y =? snd x)) l.

(* one observed (operation, result): None = the observation contradicts the property *)
Definition tr_step (s : tstate) (o : op) (r : res) : option tstate :=
  let l := ts_pres s in
  match o, r with
  | Push id p, ROk =>
    match plook id l with
    | Some _ => None
    | None => Some (mkts (l ++ [(id, (p, ts_next s))]) (ts_next s + 1))
    end
  | Push id _, RDup => match plook id l with Some _ => Some s | None => None end
  | Pop, RTx i p | PopT, RTx i p =>
    if is_head l i p then Some (mkts (pdel i l) (ts_next s)) else None
  | Pop, RNone | PopT, RNone | Peek, RNone => match l with [] => Some s | _ :: _ => None end
  | Peek, RTx i p => if is_head l i p then Some s else None
  | Remove id, RUnit => Some (mkts (pdel id l) (ts_next s))
  | Exists id, RBool b =>
    if Bool.eqb b (match plook id l with Some _ => true | None => false end) then Some s else None
  | Len, RNum n => if n =? N.of_nat (length l) then Some s else None
  | Pending, RList x =>
    if (N.of_nat (length x) =? N.of_nat (length l)) &&
       forallb (fun e : N * (N * N) => pair_in (fst e, fst (snd e)) x) l
    then Some s else None
  | _, _ => None
  end.

Fixpoint trace_from (s : tstate) (tr : list (op * res)) : bool :=
  match tr with
  | [] => true
  | (o, r) :: rest => match tr_step s o r with Some s' => trace_from s' rest | None => false end
  end.
Definition trace_ok (tr : list (op * res)) : bool := trace_from ts0 tr.

(* coverage buckets of one step of the heap model, for the driver's tag histogram:
   0 other, 1 push-no-sift, 2 push-sift-up, 3 remove-absent, 4 remove-last (n == i),
   5 remove-sift-down, 6 remove-sift-up, 7 remove-in-place, 8 pop-tie (the yielded priority is
   shared by another present transaction), 9 pop-no-tie, 10 pop-empty *)
Definition m_bucket (s : pq) (o : op) : N :=
  match o with
  | Push id p =>
    match tget id (txs s) with
    | Some _ => 0
    | None =>
      let n := length (arr s) in
      match nth_error (heap_push (arr s) (mki id p (curr s) 0)) n with
      | Some x => if it_id x =? id then 1 else 2
      | None => 0
      end
    end
  | Remove id =>
    match tget id (txs s) with
    | None => 3
    | Some o =>
      match find_order o (arr s) with
      | None => 0
      | Some x =>
        let i := it_index x in
        let n := (length (arr s) - 1)%nat in
        if Nat.eqb n i then 4 else
        let a1 := swap (arr s) i n in
        let (a1', moved) := down a1 i n in
        if moved then 5 else
        match nth_error (up (length a1') a1' i) i, nth_error a1' i with
        | Some y, Some z => if it_id y =? it_id z then 7 else 6
        | _, _ => 0
        end
      end
    end
  | Pop | PopT =>
    match arr s with
    | [] => 10
    | x :: r => if existsb (fun y => it_prio y =? it_prio x) r then 8 else 9
    end
  | _ => 0
  end.

Fixpoint m_buckets (s : pq) (ops : list op) : list N :=
  match ops with
  | [] => []
  | o :: r => m_bucket s o :: m_buckets (fst (m_step s o)) r
  end.

(* equality of result lists, for the vm_compute cross-check of sampled traces *)
Fixpoint res_list_eqb (a b : list res) : bool :=
  match a, b with
  | [], [] => true
  | x :: a', y :: b' => res_eqb x y && res_list_eqb a' b'
  | _, _ => false
  end.
(* one sampled sequential case, recomputed inside Coq: the heap model's results are the observed
   ones, and the observed trace satisfies the declarative predicate *)
Definition vm_seq_case (ops : list op) (obs : list res) : bool :=
  res_list_eqb (m_run m_new ops) obs && trace_ok (combine ops obs).
