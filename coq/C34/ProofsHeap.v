(* C34/ProofsHeap.v — the Tier-A model of the binary-heap priority queue (Model.m_step)
   refines the sequential specification (Model.q_step).

   Structure:
     (a) set_nth / swap: length, nth, Permutation
     (b) the order item_less / ile
     (c) frame properties of sequences of swaps
     (d) heap predicates; down_from; up
     (e) heap_push / heap_pop / heap_remove
     (f) the root is the minimum
     (g) qbest / qdel / qmem on the insertion-ordered list
     (h) the map txs
     (i) sort_pairs on permutations
     (j) the simulation relation R and the main theorem *)
From Coq Require Import List NArith Bool Arith Lia Permutation Sorted.
From C34 Require Import Model.
Import ListNotations.
Local Open Scope nat_scope.

(* ------------------------------------------------------------------------------------ *)
(* (a) set_nth, swap *)

Lemma set_nth_length {A} (l : list A) i v : length (set_nth l i v) = length l.
Proof. revert i; induction l as [|x l IH]; intros [|i]; simpl; auto. Qed.

Lemma nth_set_nth {A} (l : list A) i k v d : i < length l ->
  nth k (set_nth l i v) d = if k =? i then v else nth k l d.
Proof.
  revert i k; induction l as [|x l IH]; intros [|i] [|k] H; simpl in *; try lia; auto.
  apply IH; lia.
Qed.

Lemma nth_error_set_nth {A} (l : list A) i k v : i < length l ->
  nth_error (set_nth l i v) k = if k =? i then Some v else nth_error l k.
Proof.
  revert i k; induction l as [|x l IH]; intros [|i] [|k] H; simpl in *; try lia; auto.
  apply IH; lia.
Qed.

Lemma map_set_nth {A B} (f : A -> B) (l : list A) i v :
  map f (set_nth l i v) = set_nth (map f l) i (f v).
Proof. revert i; induction l as [|x l IH]; intros [|i]; simpl; auto. now rewrite IH. Qed.

Lemma set_nth_perm {A} (l : list A) i x v : nth_error l i = Some x ->
  Permutation (v :: l) (x :: set_nth l i v).
Proof.
  revert i; induction l as [|y l IH]; intros [|i] H; simpl in *; try discriminate.
  - injection H as ->. apply perm_swap.
  - eapply perm_trans; [apply perm_swap|].
    eapply perm_trans; [apply perm_skip, IH, H|]. apply perm_swap.
Qed.

Lemma set2_perm {A} (l : list A) i j x y :
  nth_error l i = Some x -> nth_error l j = Some y ->
  Permutation (set_nth (set_nth l i y) j x) l.
Proof.
  intros Hi Hj.
  assert (Li : i < length l) by (apply nth_error_Some; congruence).
  assert (Lj : j < length l) by (apply nth_error_Some; congruence).
  pose proof (set_nth_perm l i x y Hi) as P1.
  assert (Hj' : nth_error (set_nth l i y) j = Some y).
  { rewrite nth_error_set_nth by auto. destruct (j =? i); auto. }
  pose proof (set_nth_perm _ j y x Hj') as P2.
  symmetry. eapply Permutation_cons_inv. eapply perm_trans; [apply P1|apply P2].
Qed.

Definition dflt : item := mki 0 0 0 0.
Definition norm (x : item) : item := with_index x 0.
Definition geti (a : list item) (k : nat) : item := norm (nth k a dflt).
Definition norms (a : list item) : list item := map norm a.
Definition idx_ok (a : list item) : Prop :=
  forall k, k < length a -> it_index (nth k a dflt) = k.

Lemma norm_with_index x i : norm (with_index x i) = norm x.
Proof. reflexivity. Qed.
Lemma norm_norm x : norm (norm x) = norm x.
Proof. reflexivity. Qed.

Lemma swap_length a i j : length (swap a i j) = length a.
Proof.
  unfold swap. destruct (nth_error a i), (nth_error a j); auto.
  now rewrite !set_nth_length.
Qed.

Lemma swap_nth a i j k : i < length a -> j < length a ->
  nth k (swap a i j) dflt =
  if k =? j then with_index (nth i a dflt) j
  else if k =? i then with_index (nth j a dflt) i else nth k a dflt.
Proof.
  intros Hi Hj. unfold swap.
  rewrite (nth_error_nth' a dflt Hi), (nth_error_nth' a dflt Hj).
  rewrite nth_set_nth by (now rewrite set_nth_length).
  destruct (k =? j); auto.
  now rewrite nth_set_nth by auto.
Qed.

Lemma swap_g a i j k : i < length a -> j < length a ->
  geti (swap a i j) k = if k =? j then geti a i else if k =? i then geti a j else geti a k.
Proof.
  intros Hi Hj. unfold geti. rewrite swap_nth by auto.
  destruct (k =? j); [reflexivity|]. destruct (k =? i); reflexivity.
Qed.

Lemma swap_g_j a i j : i < length a -> j < length a -> geti (swap a i j) j = geti a i.
Proof. intros. rewrite swap_g by auto. now rewrite Nat.eqb_refl. Qed.
Lemma swap_g_i a i j : i < length a -> j < length a -> geti (swap a i j) i = geti a j.
Proof.
  intros. rewrite swap_g by auto. rewrite Nat.eqb_refl.
  destruct (Nat.eqb_spec i j); [now subst|reflexivity].
Qed.
Lemma swap_g_o a i j k : i < length a -> j < length a -> k <> i -> k <> j ->
  geti (swap a i j) k = geti a k.
Proof.
  intros. rewrite swap_g by auto.
  destruct (Nat.eqb_spec k j); [lia|]. destruct (Nat.eqb_spec k i); [lia|]. reflexivity.
Qed.

Lemma swap_perm a i j : Permutation (norms (swap a i j)) (norms a).
Proof.
  unfold swap, norms.
  destruct (nth_error a i) as [x|] eqn:Hi; auto.
  destruct (nth_error a j) as [y|] eqn:Hj; auto.
  rewrite !map_set_nth. rewrite !norm_with_index.
  apply set2_perm; now apply map_nth_error.
Qed.

Lemma swap_idx a i j : i < length a -> j < length a -> idx_ok a -> idx_ok (swap a i j).
Proof.
  intros Hi Hj H k Hk. rewrite swap_length in Hk. rewrite swap_nth by auto.
  destruct (Nat.eqb_spec k j); [now subst|].
  destruct (Nat.eqb_spec k i); [now subst|]. now apply H.
Qed.

(* ------------------------------------------------------------------------------------ *)
(* (b) the order *)

Definition ile (x y : item) : Prop := item_less y x = false.

Ltac nb :=
  repeat match goal with
  | |- context [N.eqb ?a ?b] => destruct (N.eqb_spec a b)
  | |- context [N.ltb ?a ?b] => destruct (N.ltb_spec a b)
  | |- context [N.leb ?a ?b] => destruct (N.leb_spec a b)
  | H : context [N.eqb ?a ?b] |- _ => destruct (N.eqb_spec a b)
  | H : context [N.ltb ?a ?b] |- _ => destruct (N.ltb_spec a b)
  | H : context [N.leb ?a ?b] |- _ => destruct (N.leb_spec a b)
  end; try discriminate; try reflexivity; try lia.

Lemma ile_refl x : ile x x.
Proof. unfold ile, item_less. nb. Qed.
Lemma ile_trans x y z : ile x y -> ile y z -> ile x z.
Proof. unfold ile, item_less. intros H1 H2. nb. Qed.
Lemma ile_total x y : ile x y \/ ile y x.
Proof. unfold ile, item_less. nb; auto. Qed.
Lemma less_ile x y : item_less x y = true -> ile x y.
Proof. unfold ile, item_less. intros H1. nb. Qed.
Lemma nless_ile x y : item_less x y = false -> ile y x.
Proof. auto. Qed.

Lemma less_g a i j : i < length a -> j < length a ->
  less a j i = item_less (geti a j) (geti a i).
Proof.
  intros Hi Hj. unfold less.
  now rewrite (nth_error_nth' a dflt Hi), (nth_error_nth' a dflt Hj).
Qed.

(* ------------------------------------------------------------------------------------ *)
(* (c) sequences of swaps below n *)

Inductive swaps (n : nat) : list item -> list item -> Prop :=
| sw_refl a : swaps n a a
| sw_step a i j a' : i < n -> j < n -> swaps n (swap a i j) a' -> swaps n a a'.

Lemma swaps_frame n a a' : swaps n a a' -> n <= length a ->
  length a' = length a /\ (forall k, n <= k -> nth k a' dflt = nth k a dflt) /\
  Permutation (norms a') (norms a) /\ (idx_ok a -> idx_ok a').
Proof.
  induction 1 as [a|a i j a' Hi Hj Hs IH]; intros Hn.
  - repeat split; auto.
  - rewrite swap_length in IH. destruct (IH Hn) as (L & F & P & I).
    repeat split.
    + auto.
    + intros k Hk. rewrite F by auto. rewrite swap_nth by lia.
      destruct (Nat.eqb_spec k j); [lia|]. destruct (Nat.eqb_spec k i); [lia|]. auto.
    + eapply perm_trans; [apply P|apply swap_perm].
    + intros Hx. apply I. apply swap_idx; auto; lia.
Qed.

(* ------------------------------------------------------------------------------------ *)
(* (d) heap predicates *)

Definition child (p c : nat) : Prop := c = 2 * p + 1 \/ c = 2 * p + 2.

Definition heap_n (a : list item) (n : nat) : Prop :=
  forall p c, c < n -> child p c -> ile (geti a p) (geti a c).

(* all edges not incident to i are fine, and so are grandparent-grandchild pairs across i *)
Definition heap_ex (a : list item) (n i : nat) : Prop :=
  (forall p c, c < n -> child p c -> p <> i -> c <> i -> ile (geti a p) (geti a c)) /\
  (forall p c, c < n -> child p i -> child i c -> ile (geti a p) (geti a c)).

(* all edges except the one from j to its parent are fine; grandparent pairs across j too *)
Definition heap_eu (a : list item) (n j : nat) : Prop :=
  (forall p c, c < n -> child p c -> c <> j -> ile (geti a p) (geti a c)) /\
  (forall p c, c < n -> child p j -> child j c -> ile (geti a p) (geti a c)).

Lemma par_child j : 0 < j -> child ((j - 1) / 2) j.
Proof.
  intros H. unfold child.
  pose proof (Nat.div_mod (j - 1) 2). pose proof (Nat.mod_upper_bound (j - 1) 2). lia.
Qed.

Lemma heap_ex_close a n i : heap_ex a n i ->
  (forall p, child p i -> ile (geti a p) (geti a i)) ->
  (forall c, c < n -> child i c -> ile (geti a i) (geti a c)) -> heap_n a n.
Proof.
  intros [E G] Hp Hc p c Hcn Hpc.
  destruct (Nat.eq_dec c i) as [->|Hci]; [now apply Hp|].
  destruct (Nat.eq_dec p i) as [->|Hpi]; [now apply Hc|]. now apply E.
Qed.

(* -------- down -------- *)
Definition pick (a : list item) (i n : nat) : nat :=
  if Nat.ltb (2 * i + 1 + 1) n && less a (2 * i + 1 + 1) (2 * i + 1) then 2 * i + 1 + 1 else 2 * i + 1.

Lemma down_from_S f a i n :
  down_from (S f) a i n =
  if Nat.leb n (2 * i + 1) then (a, i) else
  if negb (less a (pick a i n) i) then (a, i)
  else down_from f (swap a i (pick a i n)) (pick a i n) n.
Proof. reflexivity. Qed.

Lemma pick_range a i n : 2 * i + 1 < n -> i < pick a i n < n /\ child i (pick a i n).
Proof.
  intros H. unfold pick, child.
  destruct (Nat.ltb_spec (2 * i + 1 + 1) n); cbn [andb]; [|lia].
  destruct (less a (2 * i + 1 + 1) (2 * i + 1)); lia.
Qed.

Lemma pick_min a i n : n <= length a -> 2 * i + 1 < n ->
  forall c, c < n -> child i c -> ile (geti a (pick a i n)) (geti a c).
Proof.
  intros Hn H c Hc Hch. unfold pick.
  destruct (Nat.ltb_spec (2 * i + 1 + 1) n) as [L|L]; cbn [andb].
  - rewrite less_g by lia.
    destruct (item_less (geti a (2 * i + 1 + 1)) (geti a (2 * i + 1))) eqn:E.
    + destruct Hch as [->| ->].
      * now apply less_ile.
      * replace (2 * i + 2) with (2 * i + 1 + 1) by lia. apply ile_refl.
    + destruct Hch as [->| ->].
      * apply ile_refl.
      * replace (2 * i + 2) with (2 * i + 1 + 1) by lia. exact E.
  - assert (c = 2 * i + 1) as -> by (unfold child in Hch; lia). apply ile_refl.
Qed.

Lemma down_swaps f : forall a i n, swaps n a (fst (down_from f a i n)).
Proof.
  induction f as [|f IH]; intros a i n.
  - constructor.
  - rewrite down_from_S. destruct (Nat.leb_spec n (2 * i + 1)); [constructor|].
    destruct (less a (pick a i n) i); simpl; [|constructor].
    destruct (pick_range a i n) as [? _]; auto.
    eapply sw_step; [| |apply IH]; lia.
Qed.

Lemma heap_ex_swap_down a n i j : n <= length a -> j < n -> child i j -> heap_ex a n i ->
  (forall c, c < n -> child i c -> ile (geti a j) (geti a c)) ->
  item_less (geti a j) (geti a i) = true ->
  heap_ex (swap a i j) n j /\
  (forall p, child p j -> ile (geti (swap a i j) p) (geti (swap a i j) j)).
Proof.
  intros Hn Hj Hc [E G] Hmin Hlt.
  assert (Hij : i < j) by (unfold child in Hc; lia).
  split; [split|].
  - intros p c Hcn Hpc Hpj Hcj.
    destruct (Nat.eq_dec c i) as [->|Hci].
    + assert (p <> i) by (unfold child in Hpc; lia).
      rewrite swap_g_i, swap_g_o by lia. apply G; auto.
    + destruct (Nat.eq_dec p i) as [->|Hpi].
      * rewrite swap_g_i, swap_g_o by lia. apply Hmin; auto.
      * rewrite !swap_g_o by lia. apply E; auto.
  - intros p c Hcn Hpj Hjc.
    assert (p = i) as -> by (unfold child in *; lia).
    assert (c <> i /\ c <> j) as [? ?] by (unfold child in *; lia).
    rewrite swap_g_i, swap_g_o by lia. apply E; auto; lia.
  - intros p Hpj. assert (p = i) as -> by (unfold child in *; lia).
    rewrite swap_g_i, swap_g_j by lia. now apply less_ile.
Qed.

Lemma down_from_spec f : forall a i n, n <= length a -> n <= f + i -> heap_ex a n i ->
  (snd (down_from f a i n) = i /\ fst (down_from f a i n) = a /\
   (forall c, c < n -> child i c -> ile (geti a i) (geti a c))) \/
  (i < snd (down_from f a i n) /\ heap_n (fst (down_from f a i n)) n).
Proof.
  induction f as [|f IH]; intros a i n Hn Hf Hex.
  - left. simpl. repeat split; auto. intros c Hc Hch. unfold child in Hch; lia.
  - rewrite down_from_S. destruct (Nat.leb_spec n (2 * i + 1)) as [L|L].
    + left. simpl. repeat split; auto. intros c Hc Hch. unfold child in Hch; lia.
    + destruct (pick_range a i n L) as [Hr Hch].
      pose proof (pick_min a i n Hn L) as Hmin.
      set (j := pick a i n) in *.
      rewrite less_g by lia.
      destruct (item_less (geti a j) (geti a i)) eqn:Hlt; simpl.
      * right.
        destruct (heap_ex_swap_down a n i j) as [Hex1 Hp1]; auto; try lia.
        specialize (IH (swap a i j) j n). rewrite swap_length in IH.
        destruct IH as [(S1 & F1 & C1)|(S1 & H1)]; auto; try lia.
        -- rewrite S1, F1. split; [lia|]. apply heap_ex_close with j; auto.
        -- split; [lia|auto].
      * left. repeat split; auto. intros c Hc Hcc.
        eapply ile_trans; [exact Hlt|]. apply Hmin; auto.
Qed.

Lemma down_heap f a i n : n <= length a -> n <= f + i -> heap_ex a n i ->
  (forall p, child p i -> ile (geti a p) (geti a i)) -> heap_n (fst (down_from f a i n)) n.
Proof.
  intros Hn Hf Hex Hp.
  destruct (down_from_spec f a i n Hn Hf Hex) as [(S1 & F1 & C1)|(S1 & H1)]; auto.
  rewrite F1. apply heap_ex_close with i; auto.
Qed.

(* -------- up -------- *)
Lemma up_S f a j :
  up (S f) a j =
  if Nat.eqb ((j - 1) / 2) j || negb (less a j ((j - 1) / 2)) then a
  else up f (swap a ((j - 1) / 2) j) ((j - 1) / 2).
Proof. reflexivity. Qed.

Lemma heap_eu_swap_up a n i j : n <= length a -> j < n -> child i j -> heap_eu a n j ->
  item_less (geti a j) (geti a i) = true -> heap_eu (swap a i j) n i.
Proof.
  intros Hn Hj Hc [E G] Hlt.
  assert (Hij : i < j) by (unfold child in Hc; lia).
  split.
  - intros p c Hcn Hpc Hci.
    destruct (Nat.eq_dec c j) as [->|Hcj].
    + assert (p = i) as -> by (unfold child in *; lia).
      rewrite swap_g_i, swap_g_j by lia. now apply less_ile.
    + destruct (Nat.eq_dec p j) as [->|Hpj].
      * rewrite swap_g_j, swap_g_o by lia. apply G; auto.
      * destruct (Nat.eq_dec p i) as [->|Hpi].
        -- rewrite swap_g_i, swap_g_o by lia.
           eapply ile_trans; [apply less_ile, Hlt|]. apply E; auto.
        -- rewrite !swap_g_o by lia. apply E; auto.
  - intros p c Hcn Hpi Hic.
    assert (p <> i /\ p <> j) as [? ?] by (unfold child in *; lia).
    destruct (Nat.eq_dec c j) as [->|Hcj].
    + rewrite swap_g_j, swap_g_o by lia. apply E; auto; lia.
    + assert (c <> i) by (unfold child in *; lia).
      rewrite !swap_g_o by lia.
      eapply ile_trans; [apply (E p i); auto; lia|]. apply E; auto.
Qed.

Lemma up_heap f : forall a j n, n <= length a -> j < n -> j < f -> heap_eu a n j ->
  heap_n (up f a j) n.
Proof.
  induction f as [|f IH]; intros a j n Hn Hj Hf Heu; [lia|].
  rewrite up_S. destruct (Nat.eq_dec j 0) as [->|Hj0].
  - simpl. destruct Heu as [E G]. intros p c Hc Hpc. apply E; auto.
    unfold child in Hpc; lia.
  - pose proof (par_child j ltac:(lia)) as Hch. set (i := (j - 1) / 2) in *.
    assert (Hij : i < j) by (unfold child in Hch; lia).
    destruct (Nat.eqb_spec i j) as [?|_]; [lia|]. simpl.
    rewrite less_g by lia.
    destruct (item_less (geti a j) (geti a i)) eqn:Hlt; simpl.
    + apply IH; rewrite ?swap_length; try lia. apply heap_eu_swap_up; auto.
    + destruct Heu as [E G]. intros p c Hc Hpc.
      destruct (Nat.eq_dec c j) as [->|Hcj]; [|now apply E].
      assert (p = i) as -> by (unfold child in *; lia). exact Hlt.
Qed.

Lemma up_swaps f : forall a j n, j < n -> swaps n a (up f a j).
Proof.
  induction f as [|f IH]; intros a j n Hj; [constructor|].
  rewrite up_S. destruct (Nat.eq_dec j 0) as [->|Hj0]; [simpl; constructor|].
  pose proof (par_child j ltac:(lia)) as Hch. set (i := (j - 1) / 2) in *.
  assert (Hij : i < j) by (unfold child in Hch; lia).
  destruct (Nat.eqb i j || negb (less a j i)); [constructor|].
  eapply sw_step; [| |apply IH]; lia.
Qed.

(* ------------------------------------------------------------------------------------ *)
(* (e) heap_push / heap_pop / heap_remove *)

Definition hinv (a : list item) : Prop := heap_n a (length a) /\ idx_ok a.

Lemma g_app1 a l k : k < length a -> geti (a ++ l) k = geti a k.
Proof. intros. unfold geti. now rewrite app_nth1. Qed.

Lemma heap_n_app b l n : heap_n (b ++ l) n -> n <= length b -> heap_n b n.
Proof.
  intros Hh Hn p c Hc Hpc. specialize (Hh p c Hc Hpc).
  rewrite !g_app1 in Hh; auto; unfold child in Hpc; lia.
Qed.

Lemma idx_ok_app b l : idx_ok (b ++ l) -> idx_ok b.
Proof.
  intros Hi k Hk. specialize (Hi k). rewrite app_length, app_nth1 in Hi by auto.
  apply Hi. lia.
Qed.

Lemma heap_n_le a n m : heap_n a n -> m <= n -> heap_n a m.
Proof. intros Hh Hm p c Hc Hpc. apply Hh; auto; lia. Qed.

Lemma removelast_nth {A} (a : list A) d : a <> [] ->
  a = removelast a ++ [nth (length a - 1) a d].
Proof.
  induction a as [|x a IH]; intros Hne; [congruence|].
  destruct a as [|y r]; [reflexivity|].
  change (removelast (x :: y :: r)) with (x :: removelast (y :: r)).
  replace (length (x :: y :: r) - 1) with (S (length (y :: r) - 1)) by (simpl; lia).
  cbn [nth]. rewrite <- app_comm_cons. f_equal. apply IH. discriminate.
Qed.

Lemma drop_last a2 n : length a2 = S n -> heap_n a2 n -> idx_ok a2 ->
  nth_error a2 n = Some (nth n a2 dflt) /\
  hinv (removelast a2) /\
  Permutation (geti a2 n :: norms (removelast a2)) (norms a2).
Proof.
  intros HL Hh Hi.
  assert (Hne : a2 <> []) by (destruct a2; simpl in *; [lia|discriminate]).
  pose proof (removelast_nth a2 dflt Hne) as Hs.
  replace (length a2 - 1) with n in Hs by lia.
  set (b := removelast a2) in *.
  assert (Lb : length b = n).
  { apply (f_equal (@length item)) in Hs. rewrite app_length in Hs. simpl in Hs. lia. }
  split; [apply nth_error_nth'; lia|]. split; [split|].
  - rewrite Lb. rewrite Hs in Hh. eapply heap_n_app; eauto. lia.
  - rewrite Hs in Hi. eapply idx_ok_app; eauto.
  - assert (Hm : norms a2 = norms b ++ [geti a2 n]).
    { unfold norms. rewrite Hs at 1. now rewrite map_app. }
    rewrite Hm. apply Permutation_cons_append.
Qed.

Lemma heap_push_spec a x : hinv a ->
  hinv (heap_push a x) /\ Permutation (norms (heap_push a x)) (norm x :: norms a).
Proof.
  intros [Hh Hi]. unfold heap_push.
  set (n := length a). set (a0 := a ++ [with_index x n]).
  assert (L0 : length a0 = S n) by (unfold a0; rewrite app_length; simpl; lia).
  assert (Hi0 : idx_ok a0).
  { intros k Hk. unfold a0. destruct (Nat.eq_dec k n) as [->|Hkn].
    - rewrite app_nth2 by (fold n; lia). fold n. now rewrite Nat.sub_diag.
    - rewrite app_nth1 by (fold n; lia). apply Hi. fold n. lia. }
  assert (Heu : heap_eu a0 (S n) n).
  { split.
    - intros p c Hc Hpc Hcn. unfold a0.
      rewrite !g_app1 by (fold n; unfold child in Hpc; lia). apply Hh; auto. fold n. lia.
    - intros p c Hc Hpn Hnc. unfold child in *. lia. }
  destruct (swaps_frame (S n) a0 (up (S n) a0 n)) as (L & F & P & I);
    [apply up_swaps; lia|lia|].
  split; [split|].
  - rewrite L, L0. apply up_heap; auto; lia.
  - auto.
  - eapply perm_trans; [apply P|]. unfold a0, norms. rewrite map_app. simpl.
    symmetry. apply Permutation_cons_append.
Qed.

Lemma heap_pop_spec a : hinv a -> a <> [] ->
  exists a' z, heap_pop a = (a', Some z) /\ norm z = geti a 0 /\ hinv a' /\
               Permutation (geti a 0 :: norms a') (norms a).
Proof.
  intros [Hh Hi] Hne. unfold heap_pop, down.
  assert (Lpos : 0 < length a) by (destruct a; simpl; [congruence|lia]).
  set (n := length a - 1). set (a1 := swap a 0 n).
  assert (L1 : length a1 = length a) by apply swap_length.
  destruct (down_from (length a1) a1 0 n) as [a2 i2] eqn:E.
  assert (E2 : a2 = fst (down_from (length a1) a1 0 n)) by now rewrite E.
  destruct (swaps_frame n a1 a2) as (L & F & P & I);
    [rewrite E2; apply down_swaps|lia|].
  assert (Hex : heap_ex a1 n 0).
  { split.
    - intros p c Hc Hpc Hp0 Hc0. unfold a1.
      rewrite !swap_g_o by (unfold child in Hpc; lia). apply Hh; auto. lia.
    - intros p c Hc Hp0. unfold child in Hp0. lia. }
  assert (Hh2 : heap_n a2 n).
  { rewrite E2. apply down_heap; auto; try lia.
    intros p Hp0. unfold child in Hp0. lia. }
  destruct (drop_last a2 n) as (N1 & H1 & P1); auto; [lia| |].
  { apply I. unfold a1. apply swap_idx; auto; lia. }
  assert (Gn : geti a2 n = geti a 0).
  { unfold geti. rewrite F by lia. unfold a1. rewrite swap_nth by lia.
    now rewrite Nat.eqb_refl. }
  exists (removelast a2), (nth n a2 dflt). split; [now rewrite N1|].
  split; [exact Gn|]. split; [exact H1|].
  rewrite <- Gn. eapply perm_trans; [apply P1|]. eapply perm_trans; [apply P|].
  apply swap_perm.
Qed.

Lemma heap_remove_spec a i : hinv a -> i < length a ->
  exists a' z, heap_remove a i = (a', z) /\ hinv a' /\
               Permutation (geti a i :: norms a') (norms a).
Proof.
  intros [Hh Hi] Hlt. unfold heap_remove.
  set (n := length a - 1).
  destruct (Nat.eqb_spec n i) as [Hni|Hni].
  - destruct (drop_last a n) as (N1 & H1 & P1); auto; [lia| |].
    { eapply heap_n_le; eauto. lia. }
    eexists _, _. split; [reflexivity|]. split; [exact H1|]. now rewrite <- Hni.
  - assert (Hin : i < n) by lia.
    set (a1 := swap a i n).
    assert (L1 : length a1 = length a) by apply swap_length.
    assert (Hex : heap_ex a1 n i).
    { split.
      - intros p c Hc Hpc Hpi Hci. unfold a1.
        rewrite !swap_g_o by (unfold child in Hpc; lia). apply Hh; auto. lia.
      - intros p c Hc Hpi Hic. unfold a1.
        rewrite !swap_g_o by (unfold child in *; lia).
        eapply ile_trans; [apply (Hh p i); auto; lia|]. apply Hh; auto. lia. }
    set (a2 := let (a1', moved) := down a1 i n in
               if moved then a1' else up (length a1') a1' i).
    assert (K : swaps n a1 a2 /\ heap_n a2 n).
    { unfold a2, down.
      destruct (down_from (length a1) a1 i n) as [a1' i'] eqn:E. cbv beta iota.
      pose proof (down_swaps (length a1) a1 i n) as Sw.
      pose proof (down_from_spec (length a1) a1 i n) as Sp.
      rewrite E in Sw, Sp. cbn [fst snd] in Sw, Sp.
      destruct Sp as [(S1 & F1 & C1)|(S1 & G1)]; auto; try lia.
      - subst i' a1'.
        rewrite Nat.ltb_irrefl. split; [apply up_swaps; auto|].
        apply up_heap; auto; try lia.
        destruct Hex as [Ex Gx]. split; auto.
        intros p c Hc Hpc Hci.
        destruct (Nat.eq_dec p i) as [->|Hpi]; [now apply C1|now apply Ex].
      - destruct (Nat.ltb_spec i i'); [|lia]. split; auto. }
    destruct K as [Ksw Kh].
    destruct (swaps_frame n a1 a2 Ksw) as (L & F & P & I); [lia|].
    destruct (drop_last a2 n) as (N1 & H1 & P1); auto; [lia| |].
    { apply I. unfold a1. apply swap_idx; auto; lia. }
    assert (Gn : geti a2 n = geti a i).
    { unfold geti. rewrite F by lia. unfold a1. rewrite swap_nth by lia.
      now rewrite Nat.eqb_refl. }
    eexists _, _. split; [reflexivity|]. split; [exact H1|].
    rewrite <- Gn. eapply perm_trans; [apply P1|]. eapply perm_trans; [apply P|].
    apply swap_perm.
Qed.

(* ------------------------------------------------------------------------------------ *)
(* (f) the root is the minimum *)
Lemma root_min a n : heap_n a n -> forall k, k < n -> ile (geti a 0) (geti a k).
Proof.
  intros Hh k. induction k as [k IH] using lt_wf_ind. intros Hk.
  destruct (Nat.eq_dec k 0) as [->|Hk0]; [apply ile_refl|].
  pose proof (par_child k ltac:(lia)) as Hch.
  set (p := (k - 1) / 2) in *.
  assert (p < k) by (unfold child in Hch; lia).
  apply ile_trans with (geti a p); [apply (IH p); lia|]. apply Hh; auto.
Qed.

(* ------------------------------------------------------------------------------------ *)
(* (g) the insertion-ordered list *)

Definition ip (x : item) : N * N := (it_id x, it_prio x).
Definition ordlt (x y : item) : Prop := (it_order x < it_order y)%N.

Fixpoint lfind (id : N) (L : list item) : option item :=
  match L with
  | [] => None
  | x :: r => if (it_id x =? id)%N then Some x else lfind id r
  end.
Fixpoint ldel (id : N) (L : list item) : list item :=
  match L with
  | [] => []
  | x :: r => if (it_id x =? id)%N then r else x :: ldel id r
  end.

Lemma qmem_lfind id L :
  qmem id (map ip L) = match lfind id L with Some _ => true | None => false end.
Proof.
  induction L as [|x L IH]; simpl; auto. destruct (it_id x =? id)%N; simpl; auto.
Qed.

Lemma qdel_ldel id L : qdel id (map ip L) = map ip (ldel id L).
Proof.
  induction L as [|x L IH]; simpl; auto. destruct (it_id x =? id)%N; simpl; auto.
  now rewrite IH.
Qed.

Lemma lfind_some id L x : lfind id L = Some x -> In x L /\ it_id x = id.
Proof.
  induction L as [|y L IH]; simpl; [discriminate|].
  destruct (N.eqb_spec (it_id y) id) as [E|E]; intros Hx.
  - injection Hx as <-. auto.
  - destruct (IH Hx); auto.
Qed.

Lemma lfind_none id L : lfind id L = None <-> ~ In id (map it_id L).
Proof.
  induction L as [|y L IH]; simpl; [tauto|].
  destruct (N.eqb_spec (it_id y) id) as [E|E].
  - split; [discriminate|]. intros Hn. exfalso. auto.
  - rewrite IH. tauto.
Qed.

Lemma ldel_none id L : lfind id L = None -> ldel id L = L.
Proof.
  induction L as [|y L IH]; simpl; auto.
  destruct (it_id y =? id)%N; [discriminate|]. intros Hn. now rewrite IH.
Qed.

Lemma lfind_app k L x :
  lfind k (L ++ [x]) =
  match lfind k L with
  | Some y => Some y
  | None => if (it_id x =? k)%N then Some x else None
  end.
Proof.
  induction L as [|y L IH]; simpl; auto. destruct (it_id y =? k)%N; auto.
Qed.

Lemma ldel_in id L z : In z (ldel id L) -> In z L.
Proof.
  induction L as [|y L IH]; simpl; auto.
  destruct (it_id y =? id)%N; simpl; intuition.
Qed.

Lemma ldel_perm L m : NoDup (map it_id L) -> In m L ->
  Permutation L (m :: ldel (it_id m) L).
Proof.
  induction L as [|y L IH]; simpl; intros Hnd Hin; [contradiction|].
  inversion Hnd as [|? ? Hny Hnd']; subst.
  destruct (N.eqb_spec (it_id y) (it_id m)) as [E|E].
  - destruct Hin as [->|Hin]; auto.
    exfalso. apply Hny. rewrite E. now apply in_map.
  - destruct Hin as [->|Hin]; [congruence|].
    eapply perm_trans; [apply perm_skip, IH; auto|]. apply perm_swap.
Qed.

Lemma ldel_sorted id L : StronglySorted ordlt L -> StronglySorted ordlt (ldel id L).
Proof.
  induction 1 as [|y L Hs IH Hf]; simpl; [constructor|].
  destruct (it_id y =? id)%N; auto. constructor; auto.
  rewrite Forall_forall in *. intros z Hz. apply Hf. eapply ldel_in; eauto.
Qed.

Lemma lfind_ldel_ne k id L : k <> id -> lfind k (ldel id L) = lfind k L.
Proof.
  intros Hne. induction L as [|y L IH]; simpl; auto.
  destruct (N.eqb_spec (it_id y) id) as [E|E]; simpl.
  - destruct (N.eqb_spec (it_id y) k); [congruence|auto].
  - now rewrite IH.
Qed.

Lemma sorted_snoc L x : StronglySorted ordlt L -> Forall (fun y => ordlt y x) L ->
  StronglySorted ordlt (L ++ [x]).
Proof.
  induction 1 as [|y L Hs IH Hf]; simpl; intros Hx.
  - constructor; constructor.
  - inversion Hx; subst. constructor; auto.
    apply Forall_app. split; auto.
Qed.

Lemma sorted_order_inj L x y : StronglySorted ordlt L -> In x L -> In y L ->
  it_order x = it_order y -> x = y.
Proof.
  induction 1 as [|z L Hs IH Hf]; simpl; [contradiction|].
  rewrite Forall_forall in Hf. unfold ordlt in Hf.
  intros [->|Hx] [->|Hy] E; auto.
  - specialize (Hf _ Hy). lia.
  - specialize (Hf _ Hx). lia.
Qed.

Lemma qbest_in l : forall b, qbest l = Some b -> In b l.
Proof.
  induction l as [|[i p] r IH]; simpl; intros b Hb; [discriminate|].
  destruct (qbest r) as [[j q]|].
  - destruct (p <? q)%N; injection Hb as <-; auto.
  - injection Hb as <-; auto.
Qed.

Lemma qbest_min L m : StronglySorted ordlt L -> In m L ->
  (forall y, In y L -> ile m y) -> qbest (map ip L) = Some (ip m).
Proof.
  induction 1 as [|y L Hs IH Hf]; intros Hin Hmin; [contradiction|].
  rewrite Forall_forall in Hf.
  change (qbest (map ip (y :: L))) with
    (match qbest (map ip L) with
     | Some (j, q) => if (it_prio y <? q)%N then Some (j, q) else Some (ip y)
     | None => Some (ip y)
     end).
  destruct Hin as [->|Hin].
  - destruct (qbest (map ip L)) as [[j q]|] eqn:Eb; [|reflexivity].
    apply qbest_in in Eb. apply in_map_iff in Eb as (z & Ez & Hz).
    injection Ez as <- <-.
    pose proof (Hmin z (or_intror Hz)) as Hl. pose proof (Hf z Hz) as Ho.
    unfold ile, item_less, ordlt in *.
    destruct (N.ltb_spec (it_prio m) (it_prio z)); [|reflexivity].
    exfalso. nb.
  - rewrite IH; auto; [|intros; apply Hmin; now right].
    unfold ip at 1.
    pose proof (Hmin y (or_introl eq_refl)) as Hl. pose proof (Hf m Hin) as Ho.
    unfold ile, item_less, ordlt in *.
    destruct (N.ltb_spec (it_prio y) (it_prio m)); [reflexivity|].
    exfalso. nb.
Qed.

(* ------------------------------------------------------------------------------------ *)
(* (h) the map *)

Lemma tget_tset k h v m : tget k (tset h v m) = if (k =? h)%N then Some v else tget k m.
Proof.
  induction m as [|[k' w] r IH]; simpl.
  - rewrite (N.eqb_sym h k). reflexivity.
  - destruct (N.eqb_spec k' h) as [E|E]; simpl.
    + subst k'. rewrite (N.eqb_sym h k). destruct (k =? h)%N; auto.
    + rewrite IH. destruct (N.eqb_spec k' k) as [E'|E']; auto.
      subst k'. destruct (N.eqb_spec k h); [congruence|auto].
Qed.

Lemma tset_keys_in k h v m : In k (map fst (tset h v m)) -> k = h \/ In k (map fst m).
Proof.
  induction m as [|[k' w] r IH]; simpl.
  - intros [<-|[]]; auto.
  - destruct (N.eqb_spec k' h) as [E|E]; simpl.
    + intros [<-|Hi]; auto.
    + intros [<-|Hi]; auto. destruct (IH Hi); auto.
Qed.

Lemma tset_keys_nodup h v m : NoDup (map fst m) -> NoDup (map fst (tset h v m)).
Proof.
  induction m as [|[k' w] r IH]; simpl; intros Hnd.
  - constructor; auto.
  - inversion Hnd as [|? ? Hn Hnd']; subst.
    destruct (N.eqb_spec k' h) as [E|E]; simpl.
    + subst. constructor; auto.
    + constructor; auto. intros Hi. apply tset_keys_in in Hi as [->|Hi]; auto.
Qed.

Lemma tget_notin h m : ~ In h (map fst m) -> tget h m = None.
Proof.
  induction m as [|[k' w] r IH]; simpl; auto. intros Hn.
  destruct (N.eqb_spec k' h); [exfalso; auto|auto].
Qed.

Lemma tdel_keys_in k h m : In k (map fst (tdel h m)) -> In k (map fst m).
Proof.
  induction m as [|[k' w] r IH]; simpl; auto.
  destruct (k' =? h)%N; simpl; intuition.
Qed.

Lemma tdel_keys_nodup h m : NoDup (map fst m) -> NoDup (map fst (tdel h m)).
Proof.
  induction m as [|[k' w] r IH]; simpl; intros Hnd; auto.
  inversion Hnd as [|? ? Hn Hnd']; subst.
  destruct (k' =? h)%N; simpl; auto. constructor; auto.
  intros Hi. apply Hn. eapply tdel_keys_in; eauto.
Qed.

Lemma tget_tdel k h m : NoDup (map fst m) ->
  tget k (tdel h m) = if (k =? h)%N then None else tget k m.
Proof.
  induction m as [|[k' w] r IH]; simpl; intros Hnd.
  - destruct (k =? h)%N; auto.
  - inversion Hnd as [|? ? Hn Hnd']; subst.
    destruct (N.eqb_spec k' h) as [E|E]; simpl.
    + subst k'. destruct (N.eqb_spec k h) as [->|Hkh].
      * now apply tget_notin.
      * destruct (N.eqb_spec h k); [congruence|auto].
    + rewrite IH by auto. destruct (N.eqb_spec k h) as [->|Hkh].
      * destruct (N.eqb_spec k' h); [congruence|auto].
      * reflexivity.
Qed.

(* ------------------------------------------------------------------------------------ *)
(* (i) sort_pairs gives equal results on permutations *)

Definition lep (x y : N * N) : bool :=
  (fst x <? fst y)%N || ((fst x =? fst y)%N && (snd x <=? snd y)%N).
Definition lepP (x y : N * N) : Prop := lep x y = true.

Ltac nbs :=
  repeat match goal with
  | |- context [N.eqb ?a ?b] => destruct (N.eqb_spec a b)
  | |- context [N.ltb ?a ?b] => destruct (N.ltb_spec a b)
  | |- context [N.leb ?a ?b] => destruct (N.leb_spec a b)
  | H : context [N.eqb ?a ?b] |- _ => destruct (N.eqb_spec a b)
  | H : context [N.ltb ?a ?b] |- _ => destruct (N.ltb_spec a b)
  | H : context [N.leb ?a ?b] |- _ => destruct (N.leb_spec a b)
  end; simpl in *; try discriminate; try reflexivity; try lia.

Lemma lep_refl x : lepP x x.
Proof. destruct x; unfold lepP, lep; simpl. nbs. Qed.
Lemma lep_trans x y z : lepP x y -> lepP y z -> lepP x z.
Proof. destruct x, y, z; unfold lepP, lep; simpl. intros H1 H2. nbs. Qed.
Lemma lep_total x y : lep x y = false -> lepP y x.
Proof. destruct x, y; unfold lepP, lep; simpl. intros H1. nbs. Qed.
Lemma lep_antisym x y : lepP x y -> lepP y x -> x = y.
Proof.
  destruct x, y; unfold lepP, lep; simpl. intros H1 H2. nbs; f_equal; lia.
Qed.

Lemma insert_pair_eq x y r :
  insert_pair x (y :: r) = if lep x y then x :: y :: r else y :: insert_pair x r.
Proof. reflexivity. Qed.

Lemma insert_perm x l : Permutation (insert_pair x l) (x :: l).
Proof.
  induction l as [|y r IH]; [simpl; auto|].
  rewrite insert_pair_eq. destruct (lep x y); auto.
  eapply perm_trans; [apply perm_skip, IH|]. apply perm_swap.
Qed.

Lemma insert_sorted x l : StronglySorted lepP l -> StronglySorted lepP (insert_pair x l).
Proof.
  induction 1 as [|y r Hs IH Hf].
  - simpl. constructor; constructor.
  - rewrite insert_pair_eq. destruct (lep x y) eqn:E.
    + constructor; [constructor; auto|]. constructor; auto.
      rewrite Forall_forall in *. intros z Hz. eapply lep_trans; [exact E|]. auto.
    + constructor; auto. rewrite Forall_forall in *. intros z Hz.
      apply (Permutation_in _ (insert_perm x r)) in Hz. destruct Hz as [<-|Hz]; auto.
      now apply lep_total.
Qed.

Lemma sort_sorted l : StronglySorted lepP (sort_pairs l).
Proof.
  induction l as [|x l IH]; simpl; [constructor|]. now apply insert_sorted.
Qed.

Lemma sort_perm l : Permutation (sort_pairs l) l.
Proof.
  induction l as [|x l IH]; simpl; auto.
  eapply perm_trans; [apply insert_perm|]. now apply perm_skip.
Qed.

Lemma sorted_perm_eq l1 : forall l2, StronglySorted lepP l1 -> StronglySorted lepP l2 ->
  Permutation l1 l2 -> l1 = l2.
Proof.
  induction l1 as [|x l1 IH]; intros l2 S1 S2 P.
  - apply Permutation_nil in P. now subst.
  - destruct l2 as [|y l2]; [symmetry in P; apply Permutation_nil in P; discriminate|].
    inversion S1 as [|? ? S1' F1]; subst. inversion S2 as [|? ? S2' F2]; subst.
    rewrite Forall_forall in F1, F2.
    assert (x = y) as ->.
    { apply lep_antisym.
      - assert (Hy : In y (x :: l1)) by (eapply Permutation_in; [symmetry; exact P|now left]).
        destruct Hy as [->|Hy]; [apply lep_refl|auto].
      - assert (Hx : In x (y :: l2)) by (eapply Permutation_in; [exact P|now left]).
        destruct Hx as [->|Hx]; [apply lep_refl|auto]. }
    f_equal. apply IH; auto. eapply Permutation_cons_inv; eauto.
Qed.

Lemma sort_pairs_perm l1 l2 : Permutation l1 l2 -> sort_pairs l1 = sort_pairs l2.
Proof.
  intros P. apply sorted_perm_eq; try apply sort_sorted.
  eapply perm_trans; [apply sort_perm|]. eapply perm_trans; [exact P|].
  symmetry. apply sort_perm.
Qed.

Lemma pairs_eqb_refl l : pairs_eqb l l = true.
Proof.
  induction l as [|[k v] l IH]; simpl; auto. now rewrite !N.eqb_refl, IH.
Qed.

(* ------------------------------------------------------------------------------------ *)
(* (j) the simulation relation and the main theorem *)

Definition R (s : pq) (q : qspec) : Prop :=
  exists L : list item,
    Permutation L (norms (arr s)) /\
    StronglySorted ordlt L /\
    Forall (fun x => (it_order x < curr s)%N) L /\
    NoDup (map it_id L) /\
    q = map ip L /\
    hinv (arr s) /\
    NoDup (map fst (txs s)) /\
    (forall id, tget id (txs s) = option_map it_order (lfind id L)).

Lemma R_init : R m_new [].
Proof.
  exists []. simpl. repeat split; auto; try constructor.
  - intros p c Hc. simpl in Hc. lia.
  - intros k Hk. simpl in Hk. lia.
Qed.

Lemma in_M_nth a y : In y (norms a) -> exists k, k < length a /\ y = geti a k.
Proof.
  intros Hy. apply in_map_iff in Hy as (z & <- & Hz).
  destruct (In_nth _ _ dflt Hz) as (k & Hk & E). exists k. split; auto.
  unfold geti. now rewrite E.
Qed.

Lemma root_best L x r : Permutation L (norms (x :: r)) -> StronglySorted ordlt L ->
  hinv (x :: r) -> In (norm x) L /\ qbest (map ip L) = Some (ip x).
Proof.
  intros HP HS [Hh _].
  assert (Hin : In (norm x) L).
  { eapply Permutation_in; [symmetry; exact HP|]. now left. }
  split; auto.
  change (ip x) with (ip (norm x)). apply qbest_min; auto.
  intros y Hy. apply (Permutation_in _ HP) in Hy.
  apply in_M_nth in Hy as (k & Hk & ->).
  change (norm x) with (geti (x :: r) 0). eapply root_min; eauto.
Qed.

Lemma R_remove a c t L m a' :
  Permutation L (norms a) -> StronglySorted ordlt L ->
  Forall (fun x => (it_order x < c)%N) L -> NoDup (map it_id L) ->
  NoDup (map fst t) -> (forall id, tget id t = option_map it_order (lfind id L)) ->
  In m L -> hinv a' -> Permutation (m :: norms a') (norms a) ->
  R (mkq a' c (tdel (it_id m) t)) (qdel (it_id m) (map ip L)).
Proof.
  intros HP HS HF HN HK HT Hm HH' HP'.
  pose proof (ldel_perm L m HN Hm) as PL.
  assert (HN' : NoDup (it_id m :: map it_id (ldel (it_id m) L))).
  { eapply Permutation_NoDup; [|exact HN].
    change (it_id m :: map it_id (ldel (it_id m) L))
      with (map it_id (m :: ldel (it_id m) L)).
    now apply Permutation_map. }
  inversion HN' as [|? ? Hnin HN'']; subst.
  exists (ldel (it_id m) L). cbn [arr curr txs]. repeat split.
  - apply Permutation_cons_inv with (a := m).
    eapply perm_trans; [symmetry; exact PL|].
    eapply perm_trans; [exact HP|]. symmetry. exact HP'.
  - now apply ldel_sorted.
  - rewrite Forall_forall in *. intros z Hz. apply HF. eapply ldel_in; eauto.
  - exact HN''.
  - apply qdel_ldel.
  - apply HH'.
  - apply HH'.
  - now apply tdel_keys_nodup.
  - intros id. rewrite tget_tdel by auto.
    destruct (N.eqb_spec id (it_id m)) as [->|Hne].
    + apply lfind_none in Hnin. now rewrite Hnin.
    + rewrite lfind_ldel_ne by auto. apply HT.
Qed.

Lemma find_order_spec o a z : In z a -> it_order z = o ->
  exists z', find_order o a = Some z' /\ In z' a /\ it_order z' = o.
Proof.
  induction a as [|y a IH]; simpl; [contradiction|]. intros Hz Ho.
  destruct (N.eqb_spec (it_order y) o) as [E|E].
  - exists y. auto.
  - destruct Hz as [->|Hz]; [congruence|].
    destruct (IH Hz Ho) as (z' & F & I & O). exists z'. auto.
Qed.

Lemma lfind_opt id L o : option_map it_order (lfind id L) = Some o ->
  exists m, lfind id L = Some m /\ it_order m = o.
Proof.
  destruct (lfind id L) as [m|]; simpl; [|discriminate].
  intros E. injection E as <-. eauto.
Qed.

Lemma res_sim_refl r : res_sim r r = true.
Proof.
  destruct r; simpl; auto; try apply pairs_eqb_refl.
  - now rewrite !N.eqb_refl.
  - apply eqb_reflx.
  - apply N.eqb_refl.
Qed.

Lemma m_step_strong s q o : R s q ->
  R (fst (m_step s o)) (fst (q_step q o)) /\
  match o with
  | Pending => res_sim (snd (m_step s o)) (snd (q_step q o)) = true
  | _ => snd (m_step s o) = snd (q_step q o)
  end.
Proof.
  intros Hr. pose proof Hr as (L & HP & HS & HF & HN & Hq & HH & HK & HT).
  destruct s as [a c t]. cbn [arr curr txs] in *. subst q.
  destruct o as [id p| | | |id|id| |]; cbn [m_step q_step arr curr txs].
  - (* Push *)
    rewrite qmem_lfind. rewrite HT.
    destruct (lfind id L) as [y|] eqn:El; cbn [option_map fst snd]; [auto|].
    split; [|reflexivity].
    set (x0 := mki id p c 0).
    destruct (heap_push_spec a x0 HH) as [HH' P'].
    exists (L ++ [x0]). cbn [arr curr txs]. repeat split.
    + eapply perm_trans; [symmetry; apply Permutation_cons_append|].
      eapply perm_trans; [apply perm_skip, HP|]. symmetry. exact P'.
    + apply sorted_snoc; [exact HS|exact HF].
    + apply Forall_app. split.
      * eapply Forall_impl; [|exact HF]. cbv beta. intros; lia.
      * constructor; [|constructor]. unfold x0; simpl. lia.
    + rewrite map_app. cbn [map]. eapply Permutation_NoDup; [apply Permutation_cons_append|].
      constructor; auto. now apply lfind_none.
    + now rewrite map_app.
    + apply HH'.
    + apply HH'.
    + now apply tset_keys_nodup.
    + intros k. rewrite tget_tset, lfind_app.
      destruct (N.eqb_spec k id) as [->|Hne].
      * rewrite El. unfold x0; cbn [it_id]. now rewrite N.eqb_refl.
      * rewrite HT. destruct (lfind k L); auto.
        unfold x0; cbn [it_id]. destruct (N.eqb_spec id k); [congruence|auto].
  - (* Pop *)
    unfold m_pop. cbn [arr curr txs].
    destruct a as [|x r].
    + symmetry in HP. apply Permutation_nil in HP. subst L. simpl. auto.
    + destruct (heap_pop_spec (x :: r) HH) as (a' & z & E & Hz & HH' & P'); [discriminate|].
      destruct (root_best L x r HP HS HH) as [Hin Hb].
      rewrite E, Hb. cbn [ip fst snd].
      change (geti (x :: r) 0) with (norm x) in *.
      assert (it_id z = it_id x) as -> by (apply (f_equal it_id) in Hz; exact Hz).
      assert (it_prio z = it_prio x) as -> by (apply (f_equal it_prio) in Hz; exact Hz).
      split; [|reflexivity].
      apply (R_remove (x :: r) c t L (norm x) a'); auto.
  - (* PopT *)
    unfold m_pop. cbn [arr curr txs].
    destruct a as [|x r].
    + symmetry in HP. apply Permutation_nil in HP. subst L. simpl. auto.
    + destruct (heap_pop_spec (x :: r) HH) as (a' & z & E & Hz & HH' & P'); [discriminate|].
      destruct (root_best L x r HP HS HH) as [Hin Hb].
      rewrite E, Hb. cbn [ip fst snd].
      change (geti (x :: r) 0) with (norm x) in *.
      assert (it_id z = it_id x) as -> by (apply (f_equal it_id) in Hz; exact Hz).
      assert (it_prio z = it_prio x) as -> by (apply (f_equal it_prio) in Hz; exact Hz).
      split; [|reflexivity].
      apply (R_remove (x :: r) c t L (norm x) a'); auto.
  - (* Peek *)
    destruct a as [|x r].
    + symmetry in HP. apply Permutation_nil in HP. subst L. simpl. auto.
    + destruct (root_best L x r HP HS HH) as [Hin Hb]. rewrite Hb. cbn [ip fst snd]. auto.
  - (* Remove *)
    rewrite HT.
    destruct (option_map it_order (lfind id L)) as [o|] eqn:Eo.
    + apply lfind_opt in Eo as (m & El & Eo).
      apply lfind_some in El as [Hm Hid].
      assert (Hma : In m (norms a)) by (eapply Permutation_in; eauto).
      apply in_map_iff in Hma as (z & Ez & Hz).
      destruct (find_order_spec o a z Hz) as (z' & F & Hz' & Ho').
      { rewrite <- Eo, <- Ez. reflexivity. }
      rewrite F.
      assert (Ez' : norm z' = m).
      { apply (sorted_order_inj L); auto.
        - eapply Permutation_in; [symmetry; exact HP|]. now apply in_map.
        - rewrite Eo. exact Ho'. }
      destruct (In_nth _ _ dflt Hz') as (k & Hk & Ek).
      assert (Hidx : it_index z' = k) by (rewrite <- Ek; now apply HH).
      rewrite Hidx.
      destruct (heap_remove_spec a k HH Hk) as (a' & zz & E & HH' & P').
      rewrite E. cbn [fst snd]. split; [|reflexivity].
      rewrite <- Hid.
      apply (R_remove a c t L m a'); auto.
      unfold geti in P'. rewrite Ek, Ez' in P'. exact P'.
    + cbn [fst snd]. split; [|reflexivity].
      destruct (lfind id L) eqn:El; [discriminate|].
      rewrite qdel_ldel, ldel_none by auto. exact Hr.
  - (* Exists *)
    cbn [fst snd]. split; [exact Hr|].
    rewrite qmem_lfind, HT. destruct (lfind id L); reflexivity.
  - (* Len *)
    cbn [fst snd]. split; [exact Hr|].
    rewrite map_length, (Permutation_length HP). unfold norms. now rewrite map_length.
  - (* Pending *)
    cbn [fst snd]. split; [exact Hr|].
    cbn [res_sim].
    rewrite (sort_pairs_perm _ _ (sort_perm (map ip L))).
    rewrite (sort_pairs_perm (map (fun x => (it_id x, it_prio x)) a) (map ip L)).
    + apply pairs_eqb_refl.
    + assert (Em : map (fun x => (it_id x, it_prio x)) a = map ip (norms a)).
      { unfold norms. rewrite map_map. apply map_ext. reflexivity. }
      rewrite Em. apply Permutation_map. symmetry. exact HP.
Qed.

Theorem m_step_refines : forall s q o, R s q ->
  R (fst (m_step s o)) (fst (q_step q o)) /\
  res_sim (snd (m_step s o)) (snd (q_step q o)) = true.
Proof.
  intros s q o Hr. destruct (m_step_strong s q o Hr) as [HR Hres]. split; auto.
  destruct o; try (rewrite Hres; apply res_sim_refl). exact Hres.
Qed.

Corollary m_step_res_eq : forall s q o, R s q -> o <> Pending ->
  snd (m_step s o) = snd (q_step q o).
Proof.
  intros s q o Hr Hne. destruct (m_step_strong s q o Hr) as [_ Hres].
  destruct o; auto. congruence.
Qed.

Lemma q_step_no_panic q o : snd (q_step q o) <> RPanic.
Proof.
  destruct o; simpl; try discriminate.
  - destruct (qmem id q); discriminate.
  - destruct (qbest q) as [[i p]|]; discriminate.
  - destruct (qbest q) as [[i p]|]; discriminate.
  - destruct (qbest q) as [[i p]|]; discriminate.
Qed.

Corollary m_step_no_panic : forall s q o, R s q -> snd (m_step s o) <> RPanic.
Proof.
  intros s q o Hr.
  assert (D : o = Pending \/ o <> Pending) by (destruct o; auto; right; discriminate). destruct D as [->|Hne].
  - simpl. discriminate.
  - rewrite (m_step_res_eq s q o Hr Hne). apply q_step_no_panic.
Qed.

Corollary m_run_refines : forall ops s q, R s q ->
  Forall2 (fun a b => res_sim a b = true) (m_run s ops) (q_run q ops).
Proof.
  induction ops as [|o ops IH]; intros s q Hr; simpl; [constructor|].
  destruct (m_step_refines s q o Hr) as [HR Hres].
  destruct (m_step s o) as [s' x]. destruct (q_step q o) as [q' y].
  constructor; auto.
Qed.
