(* C34/Properties.v — property C34: the transaction queue is ordered and linearizable.
   Only statements, each closed by `exact <lemma>`, with Print Assumptions beneath. *)
From Coq Require Import List NArith Bool.
From Common Require Import Lock.
From Conc Require Import Lin Cert LockedObject.
From C34 Require Import Model ModelTrace ModelConc Gen Checker Proofs ProofsHeap ProofsTrace ProofsConc ProofsTop.
Import ListNotations.
Local Open Scope N_scope.

(* ---- obligations tied to the Go source by the translator (Gen.v is regenerated on every run):
   every method of PriorityQueue takes the mutex first and releases it by defer, except the
   composite PopWithTimer, which only calls Pop; all eight methods are in the table *)
Example C34_discipline_ok : forallb entry_ok pq_locks = true.
Proof. reflexivity. Qed.
Example C34_methods_listed : pq_methods_listed = true.
Proof. reflexivity. Qed.
Example C34_modes_exclusive : forall o, pq_mode o = LockExclusive.
Proof. destruct o; reflexivity. Qed.
(* the shape the linearizability theorem assumes, read from the source: each locking method is
   ONE critical section (Lock first, defer Unlock next, no other lock call), and the lock-free
   PopWithTimer touches no field that any method writes *)
Example C34_one_critical_section : forallb snd pq_shapes = true.
Proof. reflexivity. Qed.

(* ---- sequential behaviour: for every sequence of operations the Tier A model (the array of
   container/heap with sift-up/sift-down, Item.index, the txs map) returns what the queue
   specification returns: Pop/Peek yield the first-inserted transaction of maximal priority,
   a transaction is yielded or removed at most once (it leaves the queue), duplicates are
   refused.  Results are equal, except that Pending lists are compared as sets. *)
Theorem C34_seq_refines : forall ops : list op,
  Forall2 (fun a b => res_sim a b = true) (m_run m_new ops) (q_run [] ops).
Proof. exact m_run_q_run. Qed.
Print Assumptions C34_seq_refines.

(* the specification itself: the transaction Pop/Peek select has strictly higher priority than
   everything inserted before it and at least the priority of everything inserted after it *)
Theorem C34_spec_order : forall (q : qspec) i p, qbest q = Some (i, p) ->
  exists l1 l2, q = l1 ++ (i, p) :: l2 /\
                (forall j x, In (j, x) l1 -> x < p) /\ (forall j x, In (j, x) l2 -> x <= p).
Proof. exact qbest_spec. Qed.
Print Assumptions C34_spec_order.

(* ---- the clauses of the property said declaratively, on traces.  [trace_ok] (ModelTrace.v)
   runs no queue: it tracks which transactions are present, with the priority and the acceptance
   stamp of their accepted Push, and requires of every (operation, result) pair:
   a Push of a present id answers dup and a Push of an absent id is accepted (duplicates
   refused); only a present transaction is yielded, and it leaves at the yield or at its removal
   (yielded or removed at most once per accepted Push); the transaction Pop / PopWithTimer /
   Peek yield has strictly higher priority than, or the same priority as and an earlier
   acceptance than, every other present transaction, and nil is answered only when nothing is
   present; Exists / Len / Pending agree with the present set.
   Every run of the specification and every run of the heap model satisfies it, for all
   operation sequences.  The driver evaluates the same predicate on the Go observables. *)
Theorem C34_spec_trace_ok : forall ops : list op, trace_ok (combine ops (q_run [] ops)) = true.
Proof. exact spec_trace_ok. Qed.
Print Assumptions C34_spec_trace_ok.

Theorem C34_model_trace_ok : forall ops : list op, trace_ok (combine ops (m_run m_new ops)) = true.
Proof. exact model_trace_ok. Qed.
Print Assumptions C34_model_trace_ok.

(* the predicate is not vacuous: it rejects a second yield of the same transaction, an accepted
   duplicate, LIFO order among equal priorities, a lower priority first, and nil from a
   non-empty queue *)
Example C34_trace_ok_rejects :
  trace_ok [(Push 1 5, ROk); (Pop, RTx 1 5); (Pop, RTx 1 5)] = false /\
  trace_ok [(Push 1 5, ROk); (Push 1 7, ROk)] = false /\
  trace_ok [(Push 1 5, ROk); (Push 2 5, ROk); (Pop, RTx 2 5)] = false /\
  trace_ok [(Push 1 5, ROk); (Push 2 6, ROk); (Pop, RTx 1 5)] = false /\
  trace_ok [(Push 1 5, ROk); (Pop, RNone)] = false /\
  trace_ok [(Push 1 5, ROk); (Remove 1, RUnit); (Pop, RTx 1 5)] = false /\
  trace_ok [(Push 1 5, ROk); (Push 2 5, ROk); (Push 1 9, RDup); (Pop, RTx 1 5); (Exists 1, RBool false);
            (Push 1 4, ROk); (Peek, RTx 2 5); (Pending, RList [(1, 4); (2, 5)]); (Len, RNum 2)] = true.
Proof. vm_compute. repeat split; reflexivity. Qed.

(* The generic theorem models a method as ONE critical section around its whole body (acquire,
   body, release); that the source has this shape is the obligation C34_one_critical_section above
   (shapes read by the translator on every run), cross-checked per method by the harness. *)
(* ---- concurrency: with the lock modes read from the source, every complete interleaved
   history of any number of threads (method bodies interleaved statement by statement) is
   linearizable w.r.t. the queue specification, and the final heap represents the queue reached
   by that linearization. *)
Theorem C34_linearizable :
  forall (P : nat -> list op) (c : cfg pq loc op res),
    reach pq loc op res q_init q_fin q_mstep pq_mode (init_cfg pq loc op res m_new P) c ->
    quiescent pq loc op res c ->
    exists l q, linearization q_spec_sim [] (done pq loc op res c) l q /\ R (shared pq loc op res c) q.
Proof. exact (pq_linearizable_qspec pq_mode C34_modes_exclusive). Qed.
Print Assumptions C34_linearizable.

(* PopWithTimer takes no lock itself: it is a loop of Pop calls (Gen.v lists it as LockNone and
   the discipline obligation admits it only as this composite).  A history in which one record of
   the composite call (spanning its sub-calls, returning what the last Pop returned) replaces the
   records of its failed Pops and of its last Pop is linearizable whenever the history with the
   sub-call records is: the composite takes effect where its last Pop does. *)
Theorem C34_popwithtimer_composite :
  forall (h subs : list (@orec op res)) (last c : @orec op res),
    linearizable q_fspec [] (h ++ last :: subs) ->
    Forall (fun e => o_op e = Pop /\ o_res e = RNone) subs ->
    o_op last = Pop -> o_op c = PopT -> o_res c = o_res last ->
    o_call c <= o_call last -> o_ret last <= o_ret c ->
    linearizable q_fspec [] (h ++ [c]).
Proof. exact popwithtimer_composite. Qed.
Print Assumptions C34_popwithtimer_composite.

(* no reachable configuration has two threads inside method bodies (race freedom at the level
   of the lock discipline abstraction) *)
Theorem C34_no_two_in_bodies :
  forall P c, reach pq loc op res q_init q_fin q_mstep pq_mode (init_cfg pq loc op res m_new P) c ->
  forall t1 t2 f g, t1 <> t2 -> at_loc c t1 f = true -> at_loc c t2 g = true -> False.
Proof. exact (exclusive_no_two_running pq_mode C34_modes_exclusive). Qed.
Print Assumptions C34_no_two_in_bodies.

(* ---- the checker run on recorded histories of the real queue *)
Theorem C34_lin_check_sound : forall bud h,
  pq_lin bud h = Some true -> linearizable (fspec qspec op res q_step) [] h.
Proof. exact pq_lin_sound. Qed.
Print Assumptions C34_lin_check_sound.

Theorem C34_lin_check_complete : forall bud h,
  pq_lin_complete bud h = Some false -> ~ linearizable (fspec qspec op res q_step) [] h.
Proof. exact pq_lin_complete_false. Qed.
Print Assumptions C34_lin_check_complete.

(* a linearization found by the driver's own (untrusted) search is accepted only through the
   certificate check: positions of the records in linearization order *)
Theorem C34_lin_cert_sound : forall h p,
  pq_cert h p = true -> linearizable (fspec qspec op res q_step) [] h.
Proof. exact pq_cert_sound. Qed.
Print Assumptions C34_lin_cert_sound.

(* ---- histories with pending calls.  In EVERY reachable configuration (calls may be waiting for
   the mutex, running, or finished but not yet returned) the completed calls together with the
   calls that have released the mutex — completed with the result they computed, returning "now" —
   form a linearizable history; the calls still waiting or running are omitted.  This is
   linearizability of an incomplete history (some completion of the pending calls is linearizable). *)
Theorem C34_linearizable_pending :
  forall (P : nat -> list op) (c : cfg pq loc op res),
    reach pq loc op res q_init q_fin q_mstep pq_mode (init_cfg pq loc op res m_new P) c ->
    exists (ts : list nat) (compl : list (@orec op res)) l q,
      NoDup ts /\
      Forall2 (fun t e => th pq loc op res c t = Finished loc op res (o_call e) (o_op e) (o_res e) /\
                          o_ret e = clk pq loc op res c) ts compl /\
      linearization q_spec_sim [] (done pq loc op res c ++ compl) l q.
Proof. exact (pq_linearizable_pending pq_mode C34_modes_exclusive). Qed.
Print Assumptions C34_linearizable_pending.

(* the certificate check for recorded histories cut at an instant: [h] the calls that had returned,
   [pend] the calls in flight *)
Theorem C34_lin_pcert_sound : forall h pend inf chosen p,
  pq_pcert h pend inf chosen p = true -> linearizable_pending qspec op res q_step [] h pend.
Proof. exact pq_pcert_sound. Qed.
Print Assumptions C34_lin_pcert_sound.

(* ---- the pinned source before the fix: Exists took no lock.  A reachable configuration has
   one thread about to write the txs map (inside Push, holding the mutex) while another is
   about to read it (inside Exists): the data race `go test -race` reports. *)
Theorem C34_exists_unlocked_refuted :
  exists c : cfg pq loc op res,
    reach pq loc op res q_init q_fin q_mstep prefix_mode (init_cfg pq loc op res m_new push_and_exists) c /\
    at_loc c 0 writes_map = true /\ at_loc c 1 reads_map = true.
Proof. exact exists_unlocked_refuted. Qed.
Print Assumptions C34_exists_unlocked_refuted.

(* non-vacuity: priority first, FIFO among equals, duplicates refused, removal *)
Example C34_nonvacuous :
  q_run [] [Push 1 5; Push 2 5; Push 3 9; Push 2 7; Remove 1; Push 4 5; Pop; Pop; Pop; Pop]
  = [ROk; ROk; ROk; RDup; RUnit; ROk; RTx 3 9; RTx 2 5; RTx 4 5; RNone].
Proof. vm_compute. reflexivity. Qed.
