(* C34/Properties.v *)
From Coq Require Import List NArith Bool.
From Common Require Import Lock.
From C34 Require Import Model Gen Checker Proofs.

Example C34_discipline_ok : forallb entry_ok pq_locks = true.
Proof. reflexivity. Qed.
