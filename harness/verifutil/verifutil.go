// Package verifutil is the shared driver of the /verif correspondence harnesses.
// It is NOT part of gossamer: it is injected at build time with `go test -overlay`
// as github.com/ChainSafe/gossamer/internal/verifutil and imports nothing from gossamer.
//
// A harness supplies gen (produce case inputs from one PRNG) and run (execute one input on
// the real code and return the projected observables as a single-line string). Run writes the
// trace `<id>\t<input>\t<observed>` to $VERIF_OUT.
package verifutil

import (
	"bufio"
	"encoding/hex"
	"fmt"
	"os"
	"runtime/debug"
	"strconv"
	"strings"
	"testing"
	"time"
)

// RNG is splitmix64; every random choice of a harness derives from one of these.
type RNG struct{ s uint64 }

// NewRNG seeds a generator. The seed is passed through the splitmix finaliser first: with a
// plain affine seeding, seeds s and s+1 would give the same stream shifted by one draw.
func NewRNG(seed uint64) *RNG {
	r := &RNG{s: seed ^ 0x6a09e667f3bcc909}
	r.s = r.U64() ^ (seed * 0xD6E8FEB86659FD93)
	return r
}

func (r *RNG) U64() uint64 {
	r.s += 0x9E3779B97F4A7C15
	z := r.s
	z = (z ^ (z >> 30)) * 0xBF58476D1CE4E5B9
	z = (z ^ (z >> 27)) * 0x94D049BB133111EB
	return z ^ (z >> 31)
}

// Intn returns a number in [0,n); n<=0 gives 0.
func (r *RNG) Intn(n int) int {
	if n <= 0 {
		return 0
	}
	return int(r.U64() % uint64(n))
}

// Range returns a number in [lo,hi].
func (r *RNG) Range(lo, hi int) int { return lo + r.Intn(hi-lo+1) }

// Chance is true with probability num/den.
func (r *RNG) Chance(num, den int) bool { return r.Intn(den) < num }

func (r *RNG) Bytes(n int) []byte {
	b := make([]byte, n)
	for i := range b {
		b[i] = byte(r.U64())
	}
	return b
}

// Fork derives an independent generator (so sub-generators do not perturb each other).
func (r *RNG) Fork() *RNG { return &RNG{s: r.U64()} }

// Hex renders bytes as lower-case hex, "-" for empty (fields are never empty).
func Hex(b []byte) string {
	if len(b) == 0 {
		return "-"
	}
	return hex.EncodeToString(b)
}

// UnHex is the inverse of Hex.
func UnHex(s string) []byte {
	if s == "-" || s == "" {
		return []byte{}
	}
	b, err := hex.DecodeString(s)
	if err != nil {
		panic("verifutil.UnHex: " + err.Error())
	}
	return b
}

// X renders an unsigned number in hex (the drivers read all numbers as hex).
func X(v uint64) string { return strconv.FormatUint(v, 16) }

// XI renders a signed number in hex with an optional leading '-'.
func XI(v int64) string { return strconv.FormatInt(v, 16) }

// UnX parses X's output.
func UnX(s string) uint64 {
	v, err := strconv.ParseUint(s, 16, 64)
	if err != nil {
		panic("verifutil.UnX: " + err.Error())
	}
	return v
}

// UnXI parses XI's output.
func UnXI(s string) int64 {
	v, err := strconv.ParseInt(s, 16, 64)
	if err != nil {
		panic("verifutil.UnXI: " + err.Error())
	}
	return v
}

func envInt(name string, def int) int {
	if s := os.Getenv(name); s != "" {
		if v, err := strconv.Atoi(s); err == nil {
			return v
		}
	}
	return def
}

// N returns the case budget: $VERIF_N or def.
func N(def int) int { return envInt("VERIF_N", def) }

// Thorough reports whether the thorough tier was requested.
func Thorough() bool { return os.Getenv("VERIF_TIER") == "thorough" }

func sanitize(s string) string {
	s = strings.ReplaceAll(s, "\t", " ")
	s = strings.ReplaceAll(s, "\n", " ")
	s = strings.ReplaceAll(s, "\r", " ")
	return s
}

func readInputs(path string) []string {
	f, err := os.Open(path)
	if err != nil {
		return nil
	}
	defer f.Close()
	var out []string
	sc := bufio.NewScanner(f)
	sc.Buffer(make([]byte, 1<<20), 1<<28)
	for sc.Scan() {
		line := sc.Text()
		if line == "" || strings.HasPrefix(line, "#") {
			continue
		}
		// accept either a bare input or a full trace line id\tinput\tobs
		parts := strings.Split(line, "\t")
		if len(parts) >= 2 {
			out = append(out, parts[1])
		} else {
			out = append(out, parts[0])
		}
	}
	return out
}

// Run drives one harness. gen is called with a seeded RNG, the case budget and an emit
// callback; run executes one input. A panic in run is recorded as the observable "panic",
// exceeding the per-case watchdog ($VERIF_TIMEOUT_MS, default 20000) as "hang".
func Run(t *testing.T, prop string, defN int,
	gen func(r *RNG, n int, emit func(in string)),
	run func(in string) string) {
	out := os.Getenv("VERIF_OUT")
	if out == "" {
		t.Skip("VERIF_OUT not set: verification harness " + prop + " is driven by /verif/bin/check")
	}
	seed := uint64(envInt("VERIF_SEED", 1))
	n := N(defN)
	timeout := time.Duration(envInt("VERIF_TIMEOUT_MS", 20000)) * time.Millisecond

	f, err := os.Create(out)
	if err != nil {
		t.Fatalf("verifutil: %v", err)
	}
	w := bufio.NewWriterSize(f, 1<<20)
	logf, _ := os.Create(out + ".log")
	defer func() {
		w.Flush()
		f.Close()
		if logf != nil {
			logf.Close()
		}
	}()

	// the input being executed is kept in <out>.current (no fsync: it only has to survive a
	// crash of this process), so that a fatal runtime error (out of memory, stack overflow,
	// concurrent map access), which no recover can catch, still names its input
	curf, _ := os.Create(out + ".current")
	defer func() {
		if curf != nil {
			curf.Close()
			os.Remove(out + ".current")
		}
	}()
	id := 0
	hangs := 0
	exec := func(in string) {
		in = sanitize(in)
		if curf != nil {
			b := []byte(in)
			if _, err := curf.WriteAt(b, 0); err == nil {
				_ = curf.Truncate(int64(len(b)))
			}
		}
		type res struct{ obs string }
		ch := make(chan res, 1)
		go func() {
			defer func() {
				if p := recover(); p != nil {
					if logf != nil {
						fmt.Fprintf(logf, "case %d input %s\npanic: %v\n%s\n", id, in, p, debug.Stack())
					}
					ch <- res{"panic"}
				}
			}()
			ch <- res{run(in)}
		}()
		var obs string
		select {
		case r := <-ch:
			obs = r.obs
		case <-time.After(timeout):
			obs = "hang"
			hangs++
		}
		fmt.Fprintf(w, "%d\t%s\t%s\n", id, in, sanitize(obs))
		id++
		if hangs > 20 {
			w.Flush()
			t.Fatalf("verifutil: too many hanging cases")
		}
	}

	if rp := os.Getenv("VERIF_REPLAY"); rp != "" {
		for _, in := range readInputs(rp) {
			exec(in)
		}
		return
	}
	if cp := os.Getenv("VERIF_CORPUS"); cp != "" {
		for _, p := range strings.Split(cp, ":") {
			for _, in := range readInputs(p) {
				exec(in)
			}
		}
	}
	gen(NewRNG(seed), n, exec)
}
