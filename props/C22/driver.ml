(* C22 driver: trace validation of a multi-voter GRANDPA round played by lib/grandpa Services.
   Per honest voter the mirror C21.Model is replayed (model_eq: every answer of the
   implementation is the mirror's answer, when it does not depend on Go map iteration order).
   prop_ok = the premises of C22.Model.step / finalised hold of the implementation's answers:
     - an honest precommit is for a block of the tree that has more than 2/3 of the prevotes in
       the voter's view (stored votes + equivocators + its own prevote),
     - a finalised block has more than 2/3 of the precommits in the voter's view,
   and the conclusion of C22_safety: when the Byzantine voters are within the tolerance, all
   blocks finalised by the voters are on one chain. *)
open Model
open Vutil

let list_of s = if s = "-" || s = "" then [] else String.split_on_char ',' s
let nat_of_hex s = nat_of_int (int_of_string ("0x" ^ s))
let hex_of_nat x = Printf.sprintf "%x" (int_of_nat x)
let gv_str g = Printf.sprintf "%s.%s" (hex_of_nat g.gv_block) (hex_of_n g.gv_num)
let parse_gv s = match String.split_on_char '.' s with
  | [b; n] when b <> "?" && b <> "none" -> (try Some { gv_block = nat_of_hex b; gv_num = n_of_hex n } with _ -> None)
  | _ -> None
let round_primary n = 5 mod n   (* s.state.round = 5 in the harness *)

let check inp obs =
  match split_ws inp with
  | ["s"; ps; nv; nb; bests; ops] ->
    let t = List.map nat_of_hex (list_of ps) in
    let n = int_of_string ("0x" ^ nv) and nbyz = int_of_string ("0x" ^ nb) in
    let nh = n - nbyz in
    let bests = Array.of_list (List.map nat_of_hex (list_of bests)) in
    let env i = { e_tree = t; e_voters = nat_of_int n; e_best = bests.(i); e_next_change = None; e_self = nat_of_int i } in
    let st = Array.init nh (fun _ -> { s_pv = []; s_pc = []; s_pv_eq = []; s_pc_eq = []; s_head = O }) in
    let pool = ref [||] in
    let push m = pool := Array.append !pool [| m |] in
    let prevoted = Array.make nh false and precommitted = Array.make nh false in
    let ops = list_of ops and obs_l = list_of obs in
    if List.length ops <> List.length obs_l then
      { prop_ok = false; model_eq = false; nontrivial = false; finding = "-"; tags = "shape"; detail = "observed " ^ obs }
    else begin
      let prop = ref true and eq = ref true and detail = ref "" in
      let tags = Hashtbl.create 16 in
      let tag s = Hashtbl.replace tags s () in
      let fail_prop msg = prop := false; if !detail = "" then detail := msg in
      let fail_eq msg = eq := false; if !detail = "" then detail := msg in
      let diverged = ref false in
      let finalised = ref [] in
      let tolerated = nbyz <= (n - 1) / 3 in
      if not tolerated then tag "byz-over-tolerance";
      let det i = not (hash_conflict st.(i) Prevote) && no_tie (prevote_candidates (env i) st.(i))
                  && not (hash_conflict st.(i) Precommit) in
      List.iteri (fun idx (op, ob) ->
        if not !diverged then begin
        let rest = String.sub op 1 (String.length op - 1) in
        match op.[0] with
        | 'v' ->
          let i = int_of_string ("0x" ^ rest) in
          if prevoted.(i) then (if ob <> "dup" then fail_eq (Printf.sprintf "op %d %s: go=%s model=dup" idx op ob))
          else begin
            (* determinePreVote: the primary's prevote if it is stored and not below the head, else the best block *)
            let e = env i in
            let best = { gv_block = e.e_best; gv_num = number e e.e_best } in
            let expect = (match lookup (nat_of_int (round_primary n)) st.(i).s_pv with
              | Some g -> g   (* head is genesis: number >= 0 always *)
              | None -> best) in
            (match parse_gv ob with
             | Some g ->
               if gv_str expect <> ob then fail_eq (Printf.sprintf "op %d %s: go=%s model=%s" idx op ob (gv_str expect));
               if not (known e g.gv_block) then fail_prop (Printf.sprintf "op %d %s: prevote for an unknown block" idx op);
               st.(i) <- store_own e st.(i) Prevote g; prevoted.(i) <- true;
               push (nat_of_int i, Prevote, g); tag "prevote"
             | None -> fail_eq (Printf.sprintf "op %d %s: go=%s" idx op ob); diverged := true)
          end
        | 'c' ->
          let i = int_of_string ("0x" ^ rest) in
          if precommitted.(i) then (if ob <> "dup" then fail_eq (Printf.sprintf "op %d %s: go=%s model=dup" idx op ob))
          else begin
            let e = env i in
            let expect = (match prevoted_block e st.(i) with
              | Ok pvb ->
                if N.leb (total_votes e st.(i) Prevote pvb.gv_block) (threshold0 e) then "wait"
                else (match determine_precommit true e st.(i) with
                      | Ok g -> gv_str g | Err c -> Printf.sprintf "e%x" (int_of_nat c) | _ -> "panic")
              | Err c -> Printf.sprintf "e%x" (int_of_nat c)
              | _ -> "panic") in
            let d = det i in
            if d then (if ob <> expect then begin fail_eq (Printf.sprintf "op %d %s: go=%s model=%s" idx op ob expect) end)
            else tag "order-dependent";
            (match parse_gv ob with
             | Some g ->
               (* premise of step_precommit *)
               if not (known e g.gv_block && spec_supermajority e st.(i) Prevote g.gv_block) then
                 fail_prop (Printf.sprintf "op %d %s: precommit %s without a supermajority of prevotes in the view" idx op ob);
               st.(i) <- store_own e st.(i) Precommit g; precommitted.(i) <- true;
               push (nat_of_int i, Precommit, g); tag "precommit"
             | None -> if ob = "wait" then tag "precommit-wait" else tag "precommit-error")
          end
        | 'f' ->
          let i = int_of_string ("0x" ^ rest) in
          let e = env i in
          let (r, st') = attempt_to_finalize e st.(i) in
          let expect = (match r with
            | Ok None -> "0" | Ok (Some b) -> "1." ^ hex_of_nat b
            | Err c -> Printf.sprintf "e%x" (int_of_nat c) | _ -> "panic") in
          let d = det i in
          if d then (if ob <> expect then fail_eq (Printf.sprintf "op %d %s: go=%s model=%s" idx op ob expect))
          else tag "order-dependent";
          if String.length ob > 2 && String.sub ob 0 2 = "1." then begin
            let b = String.sub ob 2 (String.length ob - 2) in
            if b = "?" || b = "none" then fail_prop (Printf.sprintf "op %d %s: finalised an unknown block" idx op)
            else begin
              let b = nat_of_hex b in
              tag "finalised";
              if not (spec_supermajority e st.(i) Precommit b) then
                fail_prop (Printf.sprintf "op %d %s: finalised %s without a supermajority of precommits in the view" idx op ob);
              finalised := b :: !finalised;
              st.(i) <- { st.(i) with s_head = b }
            end
          end else if d then st.(i) <- st'
        | 'd' ->
          (match String.split_on_char '.' rest with
           | [i; m] ->
             let i = int_of_string ("0x" ^ i) and m = int_of_string ("0x" ^ m) in
             if m >= Array.length !pool then (if ob <> "nomsg" then begin fail_eq (Printf.sprintf "op %d %s: go=%s model=nomsg" idx op ob); diverged := true end)
             else begin
               let (v, sg, g) = !pool.(m) in
               let msg = { m_round = RoundCurrent; m_setid_ok = true; m_stage = sg; m_voter = v; m_sig_ok = true; m_vote = g } in
               let (c, st') = validate_vote_message true (env i) st.(i) msg in
               let expect = Printf.sprintf "%x" (int_of_nat c) in
               if ob <> expect then begin fail_eq (Printf.sprintf "op %d %s: go=%s model=%s" idx op ob expect); diverged := true end;
               st.(i) <- st'; tag ("deliver-" ^ expect)
             end
           | _ -> fail "bad op %s" op)
        | 'b' ->
          (match String.split_on_char '.' rest with
           | [j; sg; b] ->
             let b = nat_of_hex b in
             push (nat_of_hex j, (if sg = "c" then Precommit else Prevote), { gv_block = b; gv_num = drv_n_of_nat (depth t b) });
             tag "byzantine-vote"
           | _ -> fail "bad op %s" op)
        | _ -> fail "bad op %s" op
        end) (List.combine ops obs_l);
      (* the conclusion of the safety theorem *)
      let fin = List.sort_uniq compare (List.map int_of_nat !finalised) in
      let conflict = List.exists (fun a -> List.exists (fun b ->
          let a = nat_of_int a and b = nat_of_int b in not (ancb t a b || ancb t b a)) fin) fin in
      if List.length fin >= 2 then tag "finalised-2-blocks";
      if conflict then begin
        if tolerated then fail_prop ("conflicting blocks finalised: " ^ String.concat " " (List.map string_of_int fin))
        else tag "conflict-with-byz-over-tolerance"
      end;
      let tl = Hashtbl.fold (fun k () acc -> k :: acc) tags [] in
      { prop_ok = !prop; model_eq = !prop && !eq; nontrivial = (fin <> []); finding = "-";
        tags = String.concat "," (List.sort compare tl); detail = !detail }
    end
  | _ -> fail "C22: bad input %s" inp

let () = run_driver check
