(* C22 driver: trace validation of a multi-voter GRANDPA round played by lib/grandpa Services.
   Per honest voter the mirror C21.Model is replayed (model_eq: every answer of the
   implementation is the mirror's answer, when it does not depend on Go map iteration order).
   prop_ok = the premises of C22.Model.step / finalised hold of the implementation's answers:
     - an honest precommit is for a block of the tree that has more than 2/3 of the prevotes in
       the voter's view (stored votes + equivocators + its own prevote),
     - a finalised block has more than 2/3 of the precommits in the voter's view,
   and the conclusion of C22_safety: when the Byzantine voters are within the tolerance, all
   blocks finalised by the voters are on one chain. *)
open Model
open Vutil

let list_of s = if s = "-" || s = "" then [] else String.split_on_char ',' s
let nat_of_hex s = nat_of_int (int_of_string ("0x" ^ s))
let hex_of_nat x = Printf.sprintf "%x" (int_of_nat x)
let gv_str g = Printf.sprintf "%s.%s" (hex_of_nat g.gv_block) (hex_of_n g.gv_num)
let parse_gv s = match String.split_on_char '.' s with
  | [b; n] when b <> "?" && b <> "none" -> (try Some { gv_block = nat_of_hex b; gv_num = n_of_hex n } with _ -> None)
  | _ -> None
let round_primary n = 5 mod n   (* s.state.round = 5 in the harness *)


(* ------------------------------------------------------------------------------------------
   multi-round mode (input keyword w): every honest voter runs through several rounds with the
   real Service.initiateRound.  Per voter the C21 mirror is replayed round by round (model_eq),
   including determine_prevote; the votes cast per round are collected and, at the end,
     - all blocks finalised by all voters in all rounds must be on one chain when the Byzantine
       voters are within the tolerance (prop_ok, the conclusion of C22_safety);
     - the guard later_below (C22/ModelImpl.v: some honest vote of a later round does not descend
       from a block that has > 2/3 of the precommits cast in an earlier round) classifies a
       conflict as the recorded finding round-advance-ignores-estimate;
     - the premise follows_previous of Model.step is evaluated on the voter's own last view of
       the previous round and on the view "everything cast in that round"; a vote for which
       neither establishes it is not a step of the protocol model: prop_ok = false inside the
       recorded finding (lib/grandpa does not implement the rule).
   ------------------------------------------------------------------------------------------ *)
let c22_round = 5
(* what the vm_compute cross-check re-evaluates: tree, voters, honest voters, votes cast, guard *)
let last_multi : (nat list * int * int * vote list list * vote list list * bool) option ref = ref None

let parse_votes s =
  if s = "-" || s = "" then [] else
    List.filter_map (fun e -> match String.split_on_char '.' e with
      | [v; b] when b <> "?" -> (try Some (nat_of_hex v, nat_of_hex b) with _ -> None)
      | _ -> None) (String.split_on_char '+' s)

let check_multi ps nv nb bests ops obs =
  let t = List.map nat_of_hex (list_of ps) in
  let n = int_of_string ("0x" ^ nv) and nbyz = int_of_string ("0x" ^ nb) in
  let nh = n - nbyz in
  let bests = Array.of_list (List.map (fun part -> Array.of_list (List.map nat_of_hex (list_of part)))
                               (String.split_on_char ';' bests)) in
  let ridx = Array.make nh 0 in
  let st = Array.init nh (fun _ -> { s_pv = []; s_pc = []; s_pv_eq = []; s_pc_eq = []; s_head = O }) in
  (* the voter's best block is re-evaluated when it enters a round and when it finalises: the
     preferred block of that round if it descends from the voter's finalised head, else that head *)
  let best_of i =
    let r = min ridx.(i) (Array.length bests - 1) in
    let want = bests.(r).(i) in
    let head = st.(i).s_head in
    if ancb t head want then want else head in
  let best_eff = Array.init nh best_of in
  let env i =
    { e_tree = t; e_voters = nat_of_int n; e_best = best_eff.(i); e_next_change = None; e_self = nat_of_int i } in
  let pool = ref [||] in
  let push m = pool := Array.append !pool [| Some m |] in
  let push_empty () = pool := Array.append !pool [| None |] in
  let maxr = 16 in
  let pvs = Array.make maxr [] and pcs = Array.make maxr [] in
  let cast sg r v b =
    if r < maxr then begin
      let x = { vvoter = v; vblock = b; vsig = O } in
      if sg = Precommit then pcs.(r) <- x :: pcs.(r) else pvs.(r) <- x :: pvs.(r)
    end in
  (* commit pool: (round index, target block, precommits listed as (voter, block)) *)
  let commits = ref [||] in
  let push_commit c = commits := Array.append !commits [| c |] in
  (* per voter: the finalised block recorded per round index (own finalisation or accepted commit),
     in the order of recording *)
  let fin_rounds = Array.make nh [] in
  let prevoted = Array.make nh false and precommitted = Array.make nh false and fin = Array.make nh false in
  let prev_view = Array.make nh None in
  let ops = list_of ops and obs_l = list_of obs in
  if List.length ops <> List.length obs_l then
    { prop_ok = false; model_eq = false; nontrivial = false; finding = "-"; tags = "shape"; detail = "observed " ^ obs }
  else begin
    let prop = ref true and eq = ref true and detail = ref "" and finding = ref "-" in
    let tags = Hashtbl.create 16 in
    let tag s = Hashtbl.replace tags s () in
    tag "multi-round";
    let fail_prop msg = prop := false; if !detail = "" then detail := msg in
    let fail_eq msg = eq := false; if !detail = "" then detail := msg in
    let diverged = ref false in
    let finalised = ref [] in
    let tolerated = nbyz <= (n - 1) / 3 in
    if not tolerated then tag "byz-over-tolerance";
    let det i = not (hash_conflict st.(i) Prevote) && no_tie (prevote_candidates (env i) st.(i))
                && not (hash_conflict st.(i) Precommit) in
    (* the premise follows_previous of Model.step for a vote of round r > 0: SOME view of round r-1
       is completable with an estimate below the vote.  Evaluated on the two views at hand: the
       voter's own last view of round r-1 and the view "everything cast in round r-1 so far"; when
       neither establishes it the vote is not a step of the protocol model (prop; the recorded
       finding round-advance-ignores-estimate is exactly this deviation of lib/grandpa) *)
    let premise_failed = ref "" in
    let premise i g what =
      let r = ridx.(i) in
      if r > 0 then begin
        let ws = unit_ws (env i) in
        let ok_own = (match prev_view.(i) with
          | Some (pr, v, c) when pr = r - 1 -> follows_view t ws v c g.gv_block
          | _ -> false) in
        let ok_cast = r - 1 < maxr && follows_view t ws pvs.(r - 1) pcs.(r - 1) g.gv_block in
        if ok_own || ok_cast then tag (what ^ "-follows-estimate")
        else begin
          tag (what ^ "-ignores-estimate");
          if !premise_failed = "" then
            premise_failed := Printf.sprintf "voter %d's %s %s of round index %d is not above the estimate of a completable view of round index %d (own view and all-cast view)" i what (gv_str g) r (r - 1)
        end
      end in
    List.iteri (fun idx (op, ob) ->
      if not !diverged then begin
      let rest = String.sub op 1 (String.length op - 1) in
      match op.[0] with
      | 'v' ->
        let i = int_of_string ("0x" ^ rest) in
        if prevoted.(i) then begin push_empty (); if ob <> "dup" then fail_eq (Printf.sprintf "op %d %s: go=%s model=dup" idx op ob) end
        else begin
          let e = env i in
          let primary = nat_of_int ((c22_round + ridx.(i)) mod n) in
          let expect = (match determine_prevote e st.(i) primary with
            | Ok g -> gv_str g | Err c -> Printf.sprintf "e%x" (int_of_nat c) | _ -> "panic") in
          if ob <> expect then fail_eq (Printf.sprintf "op %d %s: go=%s model=%s" idx op ob expect);
          (match parse_gv ob with
           | Some g ->
             if not (known e g.gv_block) then fail_prop (Printf.sprintf "op %d %s: prevote for an unknown block" idx op);
             premise i g "prevote";
             st.(i) <- store_own e st.(i) Prevote g; prevoted.(i) <- true;
             push (nat_of_int i, Prevote, g, ridx.(i)); cast Prevote ridx.(i) (nat_of_int i) g.gv_block;
             tag "prevote"
           | None -> push_empty (); diverged := true)
        end
      | 'c' ->
        let i = int_of_string ("0x" ^ rest) in
        if precommitted.(i) then begin push_empty (); if ob <> "dup" then fail_eq (Printf.sprintf "op %d %s: go=%s model=dup" idx op ob) end
        else begin
          let e = env i in
          let expect = (match prevoted_block e st.(i) with
            | Ok pvb ->
              if N.leb (total_votes e st.(i) Prevote pvb.gv_block) (threshold0 e) then "wait"
              else (match determine_precommit true e st.(i) with
                    | Ok g -> gv_str g | Err c -> Printf.sprintf "e%x" (int_of_nat c) | _ -> "panic")
            | Err c -> Printf.sprintf "e%x" (int_of_nat c)
            | _ -> "panic") in
          let d = det i in
          if d then (if ob <> expect then fail_eq (Printf.sprintf "op %d %s: go=%s model=%s" idx op ob expect))
          else tag "order-dependent";
          (match parse_gv ob with
           | Some g ->
             if not (known e g.gv_block && spec_supermajority e st.(i) Prevote g.gv_block) then
               fail_prop (Printf.sprintf "op %d %s: precommit %s without a supermajority of prevotes in the view" idx op ob);
             premise i g "precommit";
             st.(i) <- store_own e st.(i) Precommit g; precommitted.(i) <- true;
             push (nat_of_int i, Precommit, g, ridx.(i)); cast Precommit ridx.(i) (nat_of_int i) g.gv_block;
             tag "precommit"
           | None -> push_empty (); if ob = "wait" then tag "precommit-wait" else tag "precommit-error")
        end
      | 'f' ->
        let i = int_of_string ("0x" ^ rest) in
        if fin.(i) then begin push_commit None; if ob <> "done" then fail_eq (Printf.sprintf "op %d %s: go=%s model=done" idx op ob) end
        else begin
          (* the observation of a finalisation carries the commit message created: 1.<block>|<votes> *)
          let (ob, commit_part) = (match String.index_opt ob '|' with
            | Some p -> (String.sub ob 0 p, Some (String.sub ob (p + 1) (String.length ob - p - 1)))
            | None -> (ob, None)) in
          let e = env i in
          let (r, st') = attempt_to_finalize e st.(i) in
          let expect = (match r with
            | Ok None -> "0" | Ok (Some b) -> "1." ^ hex_of_nat b
            | Err c -> Printf.sprintf "e%x" (int_of_nat c) | _ -> "panic") in
          let d = det i in
          if d then (if ob <> expect then fail_eq (Printf.sprintf "op %d %s: go=%s model=%s" idx op ob expect))
          else tag "order-dependent";
          if String.length ob > 2 && String.sub ob 0 2 = "1." then begin
            let b = String.sub ob 2 (String.length ob - 2) in
            if b = "?" || b = "none" then begin push_commit None; fail_prop (Printf.sprintf "op %d %s: finalised an unknown block" idx op); diverged := true end
            else begin
              let b = nat_of_hex b in
              tag "finalised"; tag (Printf.sprintf "finalised-in-round-%d" ridx.(i));
              if not (spec_supermajority e st.(i) Precommit b) then
                fail_prop (Printf.sprintf "op %d %s: finalised %s without a supermajority of precommits in the view" idx op ob);
              finalised := (b, ridx.(i)) :: !finalised;
              fin.(i) <- true;
              fin_rounds.(i) <- (ridx.(i), b) :: fin_rounds.(i);
              st.(i) <- { st.(i) with s_head = b };
              best_eff.(i) <- best_of i;
              (match commit_part with
               | Some cp -> push_commit (Some (ridx.(i), b, parse_votes cp)); tag "commit-created"
               | None -> push_commit None)
            end
          end else begin push_commit None; if d then st.(i) <- st' end
        end
      | 'n' ->
        let i = int_of_string ("0x" ^ rest) in
        let has_fin = List.exists (fun (r, _) -> r >= ridx.(i)) fin_rounds.(i) in
        if not (fin.(i) || has_fin) then (if ob <> "wait" then fail_eq (Printf.sprintf "op %d %s: go=%s model=wait" idx op ob))
        else begin
          (* initiateRound: the highest finalised round the block state knows, its block is the head *)
          let top = List.fold_left (fun a (r, _) -> max a r) 0 fin_rounds.(i) in
          let top_blk = (try List.assoc top fin_rounds.(i) with Not_found -> st.(i).s_head) in
          if top > ridx.(i) then tag "round-jump";
          let left_round = ridx.(i) in
          st.(i) <- { st.(i) with s_head = top_blk };
          ridx.(i) <- top;
          let expect = Printf.sprintf "r%x.h%s" (ridx.(i) + 1) (hex_of_nat st.(i).s_head) in
          if ob <> expect then begin fail_eq (Printf.sprintf "op %d %s: go=%s model=%s" idx op ob expect); diverged := true end;
          prev_view.(i) <- Some (left_round, spec_votes st.(i) Prevote, spec_votes st.(i) Precommit);
          st.(i) <- { s_pv = []; s_pc = []; s_pv_eq = []; s_pc_eq = []; s_head = st.(i).s_head };
          ridx.(i) <- ridx.(i) + 1;
          best_eff.(i) <- best_of i;
          prevoted.(i) <- false; precommitted.(i) <- false; fin.(i) <- false;
          tag "next-round"
        end
      | 'd' ->
        (match String.split_on_char '.' rest with
         | [i; m] ->
           let i = int_of_string ("0x" ^ i) and m = int_of_string ("0x" ^ m) in
           if m >= Array.length !pool || !pool.(m) = None then (if ob <> "nomsg" then begin fail_eq (Printf.sprintf "op %d %s: go=%s model=nomsg" idx op ob); diverged := true end)
           else begin
             let (v, sg, g, mr) = (match !pool.(m) with Some x -> x | None -> assert false) in
             let rk = if mr = ridx.(i) then RoundCurrent else if mr = ridx.(i) + 1 then RoundNext
                      else if mr = ridx.(i) - 1 then RoundPrevious else RoundOutOfBounds in
             let msg = { m_round = rk; m_setid_ok = true; m_stage = sg; m_voter = v; m_sig_ok = true; m_vote = g } in
             let (c, st') = validate_vote_message true (env i) st.(i) msg in
             let expect = Printf.sprintf "%x" (int_of_nat c) in
             if ob <> expect then begin fail_eq (Printf.sprintf "op %d %s: go=%s model=%s" idx op ob expect); diverged := true end;
             st.(i) <- st'; tag ("deliver-" ^ expect)
           end
         | _ -> fail "bad op %s" op)
      | 'b' ->
        (match String.split_on_char '.' rest with
         | [j; sg; b; r] ->
           let b = nat_of_hex b and r = int_of_string ("0x" ^ r) in
           let sg = if sg = "c" then Precommit else Prevote in
           push (nat_of_hex j, sg, { gv_block = b; gv_num = drv_n_of_nat (depth t b) }, r);
           cast sg r (nat_of_hex j) b;
           tag "byzantine-vote"
         | _ -> fail "bad op %s" op)
      | 'x' ->
        (match String.split_on_char '.' rest with
         | [_; b; r; ms] ->
           let b = nat_of_hex b and r = int_of_string ("0x" ^ r) in
           (* what counts: correctly signed precommits of that round (other entries fail the
              signature check of verifyJustification) *)
           let votes = List.filter_map (fun ms ->
               let m = int_of_string ("0x" ^ ms) in
               if m < Array.length !pool then
                 (match !pool.(m) with
                  | Some (v, Precommit, g, mr) when mr = r -> Some (v, g.gv_block)
                  | _ -> None)
               else None) (if ms = "-" then [] else String.split_on_char '+' ms) in
           push_commit (Some (r, b, votes)); tag "byzantine-commit"
         | _ -> fail "bad op %s" op)
      | 'k' ->
        (match String.split_on_char '.' rest with
         | [i; c] ->
           let i = int_of_string ("0x" ^ i) and c = int_of_string ("0x" ^ c) in
           let slot = if c < Array.length !commits then !commits.(c) else None in
           (match slot with
            | None -> if ob <> "nomsg" then begin fail_eq (Printf.sprintf "op %d %s: go=%s model=nomsg" idx op ob); diverged := true end
            | Some (r, b, votes) ->
              let had = List.exists (fun (r', _) -> r' = r) fin_rounds.(i) in
              if had then begin
                if ob <> "already" && not (String.length ob > 0 && ob.[0] = 'e') then
                  fail_eq (Printf.sprintf "op %d %s: go=%s although the round has a finalised block" idx op ob);
                tag "commit-already"
              end else if ob = "0" then begin
                (* premise of Model.finalised: the precommits of the commit have a supermajority *)
                let ws = List.init n (fun _ -> Npos XH) in
                let vl = List.map (fun (v, blk) -> { vvoter = v; vblock = blk; vsig = O }) votes in
                if not (has_supermajority t ws vl b) then
                  fail_prop (Printf.sprintf "op %d %s: commit for block %s accepted without a supermajority of precommits (%d listed)"
                               idx op (hex_of_nat b) (List.length votes));
                finalised := (b, r) :: !finalised;
                fin_rounds.(i) <- (r, b) :: fin_rounds.(i);
                (* the best block is re-evaluated against the block state's finalised head *)
                tag "commit-accepted"
              end else if String.length ob > 0 && ob.[0] = 'e' then tag "commit-rejected"
              else begin fail_eq (Printf.sprintf "op %d %s: go=%s" idx op ob); diverged := true end)
         | _ -> fail "bad op %s" op)
      | _ -> fail "bad op %s" op
      end) (List.combine ops obs_l);
    (* the conclusion of the safety theorem, over all rounds *)
    let fin_blocks = List.sort_uniq compare (List.map (fun (b, _) -> int_of_nat b) !finalised) in
    let conflict = List.exists (fun a -> List.exists (fun b ->
        let a = nat_of_int a and b = nat_of_int b in not (ancb t a b || ancb t b a)) fin_blocks) fin_blocks in
    if List.length fin_blocks >= 2 then tag "finalised-2-blocks";
    let rounds_reached = Array.fold_left max 0 ridx in
    tag (Printf.sprintf "rounds-%d" (rounds_reached + 1));
    let ws = List.init n (fun _ -> Npos XH) in
    let guard = later_below t ws (fun v -> int_of_nat v < nh) (Array.to_list pvs) (Array.to_list pcs) in
    last_multi := Some (t, n, nh, Array.to_list pvs, Array.to_list pcs, guard);
    if guard then tag "later-vote-below-finalised";
    if conflict then begin
      if tolerated then begin
        fail_prop ("conflicting blocks finalised: " ^ String.concat " " (List.map string_of_int fin_blocks));
        if guard then finding := "round-advance-ignores-estimate";
        tag "conflict"
      end else tag "conflict-with-byz-over-tolerance"
    end;
    if !premise_failed <> "" && !prop then begin
      prop := false; finding := "round-advance-ignores-estimate";
      if !detail = "" then detail := !premise_failed
    end;
    let tl = Hashtbl.fold (fun k () acc -> k :: acc) tags [] in
    { prop_ok = !prop; model_eq = !prop && !eq; nontrivial = (fin_blocks <> []); finding = !finding;
      tags = String.concat "," (List.sort compare tl); detail = !detail }
  end

let check inp obs =
  match split_ws inp with
  | ["s"; ps; nv; nb; bests; ops] ->
    let t = List.map nat_of_hex (list_of ps) in
    let n = int_of_string ("0x" ^ nv) and nbyz = int_of_string ("0x" ^ nb) in
    let nh = n - nbyz in
    let bests = Array.of_list (List.map nat_of_hex (list_of bests)) in
    let env i = { e_tree = t; e_voters = nat_of_int n; e_best = bests.(i); e_next_change = None; e_self = nat_of_int i } in
    let st = Array.init nh (fun _ -> { s_pv = []; s_pc = []; s_pv_eq = []; s_pc_eq = []; s_head = O }) in
    let pool = ref [||] in
    let push m = pool := Array.append !pool [| m |] in
    let prevoted = Array.make nh false and precommitted = Array.make nh false in
    let ops = list_of ops and obs_l = list_of obs in
    if List.length ops <> List.length obs_l then
      { prop_ok = false; model_eq = false; nontrivial = false; finding = "-"; tags = "shape"; detail = "observed " ^ obs }
    else begin
      let prop = ref true and eq = ref true and detail = ref "" in
      let tags = Hashtbl.create 16 in
      let tag s = Hashtbl.replace tags s () in
      let fail_prop msg = prop := false; if !detail = "" then detail := msg in
      let fail_eq msg = eq := false; if !detail = "" then detail := msg in
      let diverged = ref false in
      let finalised = ref [] in
      let tolerated = nbyz <= (n - 1) / 3 in
      if not tolerated then tag "byz-over-tolerance";
      let det i = not (hash_conflict st.(i) Prevote) && no_tie (prevote_candidates (env i) st.(i))
                  && not (hash_conflict st.(i) Precommit) in
      List.iteri (fun idx (op, ob) ->
        if not !diverged then begin
        let rest = String.sub op 1 (String.length op - 1) in
        match op.[0] with
        | 'v' ->
          let i = int_of_string ("0x" ^ rest) in
          if prevoted.(i) then (if ob <> "dup" then fail_eq (Printf.sprintf "op %d %s: go=%s model=dup" idx op ob))
          else begin
            (* determinePreVote: the primary's prevote if it is stored and not below the head, else the best block *)
            let e = env i in
            let best = { gv_block = e.e_best; gv_num = number e e.e_best } in
            let expect = (match lookup (nat_of_int (round_primary n)) st.(i).s_pv with
              | Some g -> g   (* head is genesis: number >= 0 always *)
              | None -> best) in
            (match parse_gv ob with
             | Some g ->
               if gv_str expect <> ob then fail_eq (Printf.sprintf "op %d %s: go=%s model=%s" idx op ob (gv_str expect));
               if not (known e g.gv_block) then fail_prop (Printf.sprintf "op %d %s: prevote for an unknown block" idx op);
               st.(i) <- store_own e st.(i) Prevote g; prevoted.(i) <- true;
               push (nat_of_int i, Prevote, g); tag "prevote"
             | None -> fail_eq (Printf.sprintf "op %d %s: go=%s" idx op ob); diverged := true)
          end
        | 'c' ->
          let i = int_of_string ("0x" ^ rest) in
          if precommitted.(i) then (if ob <> "dup" then fail_eq (Printf.sprintf "op %d %s: go=%s model=dup" idx op ob))
          else begin
            let e = env i in
            let expect = (match prevoted_block e st.(i) with
              | Ok pvb ->
                if N.leb (total_votes e st.(i) Prevote pvb.gv_block) (threshold0 e) then "wait"
                else (match determine_precommit true e st.(i) with
                      | Ok g -> gv_str g | Err c -> Printf.sprintf "e%x" (int_of_nat c) | _ -> "panic")
              | Err c -> Printf.sprintf "e%x" (int_of_nat c)
              | _ -> "panic") in
            let d = det i in
            if d then (if ob <> expect then begin fail_eq (Printf.sprintf "op %d %s: go=%s model=%s" idx op ob expect) end)
            else tag "order-dependent";
            (match parse_gv ob with
             | Some g ->
               (* premise of step_precommit *)
               if not (known e g.gv_block && spec_supermajority e st.(i) Prevote g.gv_block) then
                 fail_prop (Printf.sprintf "op %d %s: precommit %s without a supermajority of prevotes in the view" idx op ob);
               st.(i) <- store_own e st.(i) Precommit g; precommitted.(i) <- true;
               push (nat_of_int i, Precommit, g); tag "precommit"
             | None -> if ob = "wait" then tag "precommit-wait" else tag "precommit-error")
          end
        | 'f' ->
          let i = int_of_string ("0x" ^ rest) in
          let e = env i in
          let (r, st') = attempt_to_finalize e st.(i) in
          let expect = (match r with
            | Ok None -> "0" | Ok (Some b) -> "1." ^ hex_of_nat b
            | Err c -> Printf.sprintf "e%x" (int_of_nat c) | _ -> "panic") in
          let d = det i in
          if d then (if ob <> expect then fail_eq (Printf.sprintf "op %d %s: go=%s model=%s" idx op ob expect))
          else tag "order-dependent";
          if String.length ob > 2 && String.sub ob 0 2 = "1." then begin
            let b = String.sub ob 2 (String.length ob - 2) in
            if b = "?" || b = "none" then fail_prop (Printf.sprintf "op %d %s: finalised an unknown block" idx op)
            else begin
              let b = nat_of_hex b in
              tag "finalised";
              if not (spec_supermajority e st.(i) Precommit b) then
                fail_prop (Printf.sprintf "op %d %s: finalised %s without a supermajority of precommits in the view" idx op ob);
              finalised := b :: !finalised;
              st.(i) <- { st.(i) with s_head = b }
            end
          end else if d then st.(i) <- st'
        | 'd' ->
          (match String.split_on_char '.' rest with
           | [i; m] ->
             let i = int_of_string ("0x" ^ i) and m = int_of_string ("0x" ^ m) in
             if m >= Array.length !pool then (if ob <> "nomsg" then begin fail_eq (Printf.sprintf "op %d %s: go=%s model=nomsg" idx op ob); diverged := true end)
             else begin
               let (v, sg, g) = !pool.(m) in
               let msg = { m_round = RoundCurrent; m_setid_ok = true; m_stage = sg; m_voter = v; m_sig_ok = true; m_vote = g } in
               let (c, st') = validate_vote_message true (env i) st.(i) msg in
               let expect = Printf.sprintf "%x" (int_of_nat c) in
               if ob <> expect then begin fail_eq (Printf.sprintf "op %d %s: go=%s model=%s" idx op ob expect); diverged := true end;
               st.(i) <- st'; tag ("deliver-" ^ expect)
             end
           | _ -> fail "bad op %s" op)
        | 'b' ->
          (match String.split_on_char '.' rest with
           | [j; sg; b] ->
             let b = nat_of_hex b in
             push (nat_of_hex j, (if sg = "c" then Precommit else Prevote), { gv_block = b; gv_num = drv_n_of_nat (depth t b) });
             tag "byzantine-vote"
           | _ -> fail "bad op %s" op)
        | _ -> fail "bad op %s" op
        end) (List.combine ops obs_l);
      (* the conclusion of the safety theorem *)
      let fin = List.sort_uniq compare (List.map int_of_nat !finalised) in
      let conflict = List.exists (fun a -> List.exists (fun b ->
          let a = nat_of_int a and b = nat_of_int b in not (ancb t a b || ancb t b a)) fin) fin in
      if List.length fin >= 2 then tag "finalised-2-blocks";
      if conflict then begin
        if tolerated then fail_prop ("conflicting blocks finalised: " ^ String.concat " " (List.map string_of_int fin))
        else tag "conflict-with-byz-over-tolerance"
      end;
      let tl = Hashtbl.fold (fun k () acc -> k :: acc) tags [] in
      { prop_ok = !prop; model_eq = !prop && !eq; nontrivial = (fin <> []); finding = "-";
        tags = String.concat "," (List.sort compare tl); detail = !detail }
    end
  | ["w"; ps; nv; nb; bests; ops] -> check_multi ps nv nb bests ops obs
  | _ -> fail "C22: bad input %s" inp

(* vm_compute cross-check of the extraction: the guard of the multi-round cases recomputed inside
   Coq on the votes the implementation cast *)
let coq inp obs =
  match split_ws inp with
  | "w" :: _ ->
    last_multi := None;
    let _ = check inp obs in
    (match !last_multi with
     | Some (t, n, nh, pvs, pcs, guard) ->
       let nat_l l = "[" ^ String.concat "; " (List.map (fun x -> string_of_int (int_of_nat x)) l) ^ "]%nat" in
       let votes l = "[" ^ String.concat "; " (List.map (fun x ->
           Printf.sprintf "mkVote %d %d 0" (int_of_nat x.vvoter) (int_of_nat x.vblock)) l) ^ "]" in
       let cast c =
         (* drop the empty rounds at the end *)
         let rec trim = function [] :: r -> trim r | l -> l in
         "[" ^ String.concat "; " (List.map votes (List.rev (trim (List.rev c)))) ^ "]" in
       Some (Printf.sprintf "Bool.eqb (later_below %s (repeat 1%%N %d) (fun v => Nat.ltb v %d) %s %s) %s"
               (nat_l t) n nh (cast pvs) (cast pcs) (if guard then "true" else "false"))
     | None -> None)
  | _ -> None

let () = run_driver ~coq check
