// C22 trace-validation harness (injected into package lib/grandpa by `go test -overlay`).
//
// One case = one GRANDPA round played by several lib/grandpa Services in one process: every honest
// voter is a Service (own in-memory BlockState over the real lib/blocktree, same block tree, own
// best block), Byzantine voters are just keys.  A seeded scheduler (the op list) decides who acts:
// an honest voter prevotes (determinePreVote), tries to precommit (the guard of
// finalisationEngine.defineRoundVotes, then determinePreCommit), attempts to finalise
// (attemptToFinalize), a message is delivered to a voter (validateVoteMessage) -- in any order, any
// number of times, or never -- and Byzantine voters sign arbitrary votes (equivocations included).
// The driver replays the trace on the models and checks the premises of the safety theorem
// (C22/Model.v) on the implementation's answers, and that no two finalised blocks conflict.
//
// A second mode (keyword w, documented above c22RunMulti below) plays SEVERAL rounds per case through
// the real Service.initiateRound.
//
// input (numbers hex):  s <parents> <nvoters> <nbyz> <bests> <ops>
//   parents  comma list, parent index of block 1, 2, ...; "-" if none (block 0 = genesis = finalised head)
//   nbyz     the last nbyz voters are Byzantine
//   bests    comma list: the best block of honest voter 0, 1, ...
//   ops      comma list:
//     v<i>             honest voter i prevotes (once)           -> message appended to the pool
//     c<i>             honest voter i tries to precommit (once) -> message appended when it does
//     f<i>             honest voter i attempts to finalise
//     d<i>.<k>         message k of the pool is delivered to honest voter i
//     b<j>.<p|c>.<blk> Byzantine voter j signs a prevote / precommit for the block -> appended
// observed, one entry per op joined by ",":
//     v: <block>.<number> | dup | e<class>      c: wait | <block>.<number> | dup | e<class>
//     f: 0 | 1.<block> | e<class>               d: <class> | nomsg        b: -
package grandpa

import (
	"encoding/json"
	"errors"
	"fmt"
	"strings"
	"sync"
	"testing"
	"time"

	"github.com/ChainSafe/gossamer/dot/network"
	"github.com/ChainSafe/gossamer/dot/state"
	"github.com/ChainSafe/gossamer/dot/types"
	"github.com/ChainSafe/gossamer/internal/database"
	"github.com/ChainSafe/gossamer/internal/log"
	"github.com/ChainSafe/gossamer/lib/blocktree"
	"github.com/ChainSafe/gossamer/lib/common"
	"github.com/ChainSafe/gossamer/lib/crypto/ed25519"
	"github.com/ChainSafe/gossamer/lib/runtime"
	"github.com/ChainSafe/gossamer/pkg/scale"
	"github.com/libp2p/go-libp2p/core/peer"
	"github.com/libp2p/go-libp2p/core/protocol"

	vu "github.com/ChainSafe/gossamer/internal/verifutil"
)

var errC22HeaderByNumber = errors.New("c22: no block of that number on the best chain")
var errC22NoRuntime = errors.New("c22: no runtime")

// ---- in-memory BlockState over the real block tree ----
type c22BlockState struct {
	bt        *blocktree.BlockTree
	headers   map[common.Hash]*types.Header
	genesis   common.Hash
	best      common.Hash
	finalised []common.Hash
	head      *types.Header
	// (round, set id) -> finalised hash, as dot/state records it (multi-round mode: initiateRound
	// reads the highest finalised round and its header)
	finRound map[[2]uint64]common.Hash
	highest  [2]uint64
}

func (b *c22BlockState) GenesisHash() common.Hash { return b.genesis }
func (b *c22BlockState) HasHeader(h common.Hash) (bool, error) {
	_, ok := b.headers[h]
	return ok, nil
}
func (b *c22BlockState) GetHeader(h common.Hash) (*types.Header, error) {
	hd, ok := b.headers[h]
	if !ok {
		return nil, database.ErrNotFound
	}
	return hd, nil
}
func (b *c22BlockState) GetHeaderByNumber(num uint) (*types.Header, error) {
	cur := b.headers[b.best]
	for cur != nil {
		if cur.Number == num {
			return cur, nil
		}
		if cur.Number < num {
			break
		}
		cur = b.headers[cur.ParentHash]
	}
	return nil, errC22HeaderByNumber
}

// as dot/state BlockState.IsDescendantOf: the block tree first, then the headers
func (b *c22BlockState) IsDescendantOf(ancestor, descendant common.Hash) (bool, error) {
	is, err := b.bt.IsDescendantOf(ancestor, descendant)
	if err != nil {
		dh, err2 := b.GetHeader(descendant)
		if err2 != nil {
			return false, fmt.Errorf("getting header: %w", err2)
		}
		ah, err2 := b.GetHeader(ancestor)
		if err2 != nil {
			return false, fmt.Errorf("getting header: %w", err2)
		}
		for cur := dh; cur.Number > ah.Number; {
			if cur.ParentHash == ancestor {
				return true, nil
			}
			cur, err2 = b.GetHeader(cur.ParentHash)
			if err2 != nil {
				return false, fmt.Errorf("getting header: %w", err2)
			}
		}
		return false, nil
	}
	return is, nil
}
func (b *c22BlockState) LowestCommonAncestor(x, y common.Hash) (common.Hash, error) {
	return b.bt.LowestCommonAncestor(x, y)
}
func (b *c22BlockState) HasFinalisedBlock(round, setID uint64) (bool, error) {
	if b.finRound == nil {
		return false, nil
	}
	_, ok := b.finRound[[2]uint64{round, setID}]
	return ok, nil
}
func (b *c22BlockState) GetFinalisedHeader(round, setID uint64) (*types.Header, error) {
	if b.finRound == nil {
		return b.head, nil
	}
	h, ok := b.finRound[[2]uint64{round, setID}]
	if !ok {
		return nil, database.ErrNotFound
	}
	return b.headers[h], nil
}
func (b *c22BlockState) GetRoundAndSetID() (uint64, uint64) { return 0, 0 }
func (b *c22BlockState) GetFinalisedHash(round, setID uint64) (common.Hash, error) {
	return b.head.Hash(), nil
}
func (b *c22BlockState) SetFinalisedHash(h common.Hash, round, setID uint64) error {
	b.finalised = append(b.finalised, h)
	if b.finRound != nil {
		b.finRound[[2]uint64{round, setID}] = h
		if setID > b.highest[1] || (setID == b.highest[1] && round > b.highest[0]) {
			b.highest = [2]uint64{round, setID}
		}
	}
	return nil
}
func (b *c22BlockState) BestBlockHeader() (*types.Header, error) { return b.headers[b.best], nil }
func (b *c22BlockState) GetHighestFinalisedHeader() (*types.Header, error) {
	if b.finRound != nil {
		return b.headers[b.finRound[b.highest]], nil
	}
	return b.head, nil
}
func (b *c22BlockState) GetImportedBlockNotifierChannel() chan *types.Block {
	return make(chan *types.Block)
}
func (b *c22BlockState) FreeImportedBlockNotifierChannel(ch chan *types.Block) {}
func (b *c22BlockState) GetFinalisedNotifierChannel() chan *types.FinalisationInfo {
	return make(chan *types.FinalisationInfo)
}
func (b *c22BlockState) FreeFinalisedNotifierChannel(ch chan *types.FinalisationInfo) {}
func (b *c22BlockState) SetJustification(hash common.Hash, data []byte) error   { return nil }
func (b *c22BlockState) BestBlockNumber() (uint, error)                          { return b.headers[b.best].Number, nil }
func (b *c22BlockState) GetHighestRoundAndSetID() (uint64, uint64, error) {
	if b.finRound == nil {
		return 0, 0, nil
	}
	return b.highest[0], b.highest[1], nil
}
func (b *c22BlockState) BestBlockHash() common.Hash                              { return b.best }
func (b *c22BlockState) GetRuntime(h common.Hash) (runtime.Instance, error)      { return nil, errC22NoRuntime }
func (b *c22BlockState) GetJustification(hash common.Hash) ([]byte, error)       { return nil, database.ErrNotFound }

type c22GrandpaState struct {
	nextChange *uint
	// multi-round mode: the precommit justifications finalise() stores (newCommitMessage reads them)
	pcs map[[2]uint64][]SignedVote
}

func (g *c22GrandpaState) GetCurrentSetID() (uint64, error) { return c22SetID, nil }
func (g *c22GrandpaState) GetAuthorities(setID uint64) ([]types.GrandpaVoter, error) {
	return nil, nil
}
func (g *c22GrandpaState) GetSetIDByBlockNumber(num uint) (uint64, error)          { return c22SetID, nil }
func (g *c22GrandpaState) SetLatestRound(round uint64) error                       { return nil }
func (g *c22GrandpaState) GetLatestRound() (uint64, error)                         { return c22Round, nil }
func (g *c22GrandpaState) SetPrevotes(round, setID uint64, data []SignedVote) error { return nil }
func (g *c22GrandpaState) SetPrecommits(round, setID uint64, data []SignedVote) error {
	if g.pcs != nil {
		g.pcs[[2]uint64{round, setID}] = append([]SignedVote{}, data...)
	}
	return nil
}
func (g *c22GrandpaState) GetPrevotes(round, setID uint64) ([]SignedVote, error)   { return nil, nil }
func (g *c22GrandpaState) GetPrecommits(round, setID uint64) ([]SignedVote, error) {
	if g.pcs != nil {
		return g.pcs[[2]uint64{round, setID}], nil
	}
	return nil, nil
}
func (g *c22GrandpaState) NextGrandpaAuthorityChange(h common.Hash, n uint) (uint, error) {
	if g.nextChange == nil {
		return 0, state.ErrNoNextAuthorityChange
	}
	return *g.nextChange, nil
}
func (g *c22GrandpaState) GetAuthoritiesChangesFromBlock(blockNumber uint) ([]uint, error) {
	return nil, nil
}

type c22Network struct{}

func (c22Network) GossipMessage(msg network.NotificationsMessage)              {}
func (c22Network) SendMessage(to peer.ID, msg NotificationsMessage) error      { return nil }
func (c22Network) RegisterNotificationsProtocol(sub protocol.ID, messageID network.MessageType,
	handshakeGetter network.HandshakeGetter, handshakeDecoder network.HandshakeDecoder,
	handshakeValidator network.HandshakeValidator, messageDecoder network.MessageDecoder,
	messageHandler network.NotificationsMessageHandler, batchHandler network.NotificationsMessageBatchHandler,
	maxSize uint64) error {
	return nil
}

type c22Telemetry struct{}

func (c22Telemetry) SendMessage(msg json.Marshaler) {}

const (
	c22Round = uint64(5)
	c22SetID = uint64(3)
	c22Keys  = 10
)

var (
	c22Once     sync.Once
	c22Keypairs []*ed25519.Keypair
	c22Digest   types.Digest
)

func c22Init() {
	c22Once.Do(func() {
		logger.Patch(log.SetLevel(log.Critical))
		for i := 0; i < c22Keys; i++ {
			seed := make([]byte, 32)
			seed[0] = byte(i + 1)
			seed[31] = 0x21
			kp, err := ed25519.NewKeypairFromSeed(seed)
			if err != nil {
				panic(err)
			}
			c22Keypairs = append(c22Keypairs, kp)
		}
		babeDigest := types.NewBabeDigest()
		if err := babeDigest.SetValue(types.BabePrimaryPreDigest{AuthorityIndex: 0}); err != nil {
			panic(err)
		}
		enc, err := scale.Marshal(babeDigest)
		if err != nil {
			panic(err)
		}
		c22Digest = types.NewDigest()
		if err := c22Digest.Add(types.PreRuntimeDigest{ConsensusEngineID: types.BabeEngineID, Data: enc}); err != nil {
			panic(err)
		}
	})
}

func c22Class(err error) int {
	switch {
	case err == nil:
		return 0
	case errors.Is(err, ErrInvalidSignature):
		return 1
	case errors.Is(err, ErrSetIDMismatch):
		return 2
	case errors.Is(err, errRoundOutOfBounds):
		return 3
	case errors.Is(err, errRoundsMismatch):
		return 4
	case errors.Is(err, ErrVoterNotFound):
		return 5
	case errors.Is(err, errVoteFromSelf):
		return 6
	case errors.Is(err, ErrBlockDoesNotExist):
		return 7
	case errors.Is(err, errVoteBlockMismatch):
		return 8
	case errors.Is(err, ErrEquivocation):
		return 9
	case errors.Is(err, ErrBlockNumbersMismatch):
		return 10
	case errors.Is(err, ErrNoGHOST):
		return 20
	case errors.Is(err, errBeforeFinalizedBlock):
		return 21
	case errors.Is(err, errC22HeaderByNumber):
		return 22
	}
	return 99
}

func c22List(s string) []uint64 {
	if s == "-" || s == "" {
		return nil
	}
	parts := strings.Split(s, ",")
	out := make([]uint64, len(parts))
	for i, p := range parts {
		out[i] = vu.UnX(p)
	}
	return out
}


type c22Msg struct {
	vm *VoteMessage
}

func c22Run(in string) string {
	c22Init()
	f := strings.Split(in, " ")
	if len(f) == 6 && f[0] == "w" {
		return c22RunMulti(f)
	}
	if len(f) != 6 || f[0] != "s" {
		return "err:badinput"
	}
	parents := c22List(f[1])
	k := len(parents) + 1
	n := int(vu.UnX(f[2]))
	nbyz := int(vu.UnX(f[3]))
	bests := c22List(f[4])
	nh := n - nbyz
	if n < 1 || n > c22Keys || nbyz < 0 || nh < 1 || len(bests) != nh {
		return "err:badinput"
	}
	hdr := make([]*types.Header, k)
	index := make(map[common.Hash]int)
	hdr[0] = types.NewHeader(common.Hash{}, common.Hash{}, common.Hash{}, 0, types.NewDigest())
	index[hdr[0].Hash()] = 0
	for i := 1; i < k; i++ {
		p := int(parents[i-1])
		if p >= i {
			return "err:badinput"
		}
		hdr[i] = types.NewHeader(hdr[p].Hash(), common.Hash{}, common.Hash{byte(i), 0x22}, hdr[p].Number+1, c22Digest)
		index[hdr[i].Hash()] = i
	}
	voters := make([]Voter, n)
	for i := 0; i < n; i++ {
		voters[i] = Voter{Key: *c22Keypairs[i].Public().(*ed25519.PublicKey), ID: uint64(i)}
	}
	svc := make([]*Service, nh)
	bss := make([]*c22BlockState, nh)
	for v := 0; v < nh; v++ {
		if int(bests[v]) >= k {
			return "err:badinput"
		}
		bs := &c22BlockState{headers: make(map[common.Hash]*types.Header)}
		bs.bt = blocktree.NewBlockTreeFromRoot(hdr[0])
		bs.genesis = hdr[0].Hash()
		bs.headers[hdr[0].Hash()] = hdr[0]
		for i := 1; i < k; i++ {
			if err := bs.bt.AddBlock(hdr[i], time.Unix(int64(1000+i), 0)); err != nil {
				return "err:addblock:" + err.Error()
			}
			bs.headers[hdr[i].Hash()] = hdr[i]
		}
		bs.best = hdr[bests[v]].Hash()
		bs.head = hdr[0]
		s := &Service{
			blockState:         bs,
			grandpaState:       &c22GrandpaState{},
			keypair:            c22Keypairs[v],
			authority:          true,
			network:            c22Network{},
			state:              NewState(voters, c22SetID, c22Round),
			prevotes:           new(sync.Map),
			precommits:         new(sync.Map),
			pvEquivocations:    make(map[ed25519.PublicKeyBytes][]*SignedVote),
			pcEquivocations:    make(map[ed25519.PublicKeyBytes][]*SignedVote),
			preVotedBlock:      make(map[uint64]*Vote),
			bestFinalCandidate: make(map[uint64]*Vote),
			head:               bs.head,
			resumed:            make(chan struct{}),
			telemetry:          c22Telemetry{},
			interval:           time.Second,
		}
		s.paused.Store(false)
		s.tracker = newTracker(bs, nil)
		svc[v] = s
		bss[v] = bs
	}
	blk := func(h common.Hash) string {
		if i, ok := index[h]; ok {
			return vu.X(uint64(i))
		}
		return "?"
	}
	voteStr := func(v Vote) string { return blk(v.Hash) + "." + vu.X(uint64(v.Number)) }
	sign := func(v int, vote *Vote, stage Subround) *VoteMessage {
		msg, err := scale.Marshal(FullVote{Stage: stage, Vote: *vote, Round: c22Round, SetID: c22SetID})
		if err != nil {
			panic(err)
		}
		sig, err := c22Keypairs[v].Sign(msg)
		if err != nil {
			panic(err)
		}
		return &VoteMessage{Round: c22Round, SetID: c22SetID, Message: SignedMessage{
			Stage: stage, BlockHash: vote.Hash, Number: vote.Number,
			Signature:   ed25519.NewSignatureBytes(sig),
			AuthorityID: c22Keypairs[v].Public().(*ed25519.PublicKey).AsBytes(),
		}}
	}
	var pool []*VoteMessage
	prevoted := make([]bool, nh)
	precommitted := make([]bool, nh)
	var out []string
	if f[5] != "-" {
		for _, op := range strings.Split(f[5], ",") {
			switch op[0] {
			case 'v':
				i := int(vu.UnX(op[1:]))
				if i >= nh {
					return "err:badinput"
				}
				if prevoted[i] {
					out = append(out, "dup")
					continue
				}
				s := svc[i]
				pv, err := s.determinePreVote()
				if err != nil {
					out = append(out, fmt.Sprintf("e%x", c22Class(err)))
					continue
				}
				spv, vm, err := s.createSignedVoteAndVoteMessage(pv, prevote)
				if err != nil {
					return "err:sign"
				}
				s.prevotes.Store(s.publicKeyBytes(), spv)
				prevoted[i] = true
				pool = append(pool, vm)
				out = append(out, voteStr(*pv))
			case 'c':
				i := int(vu.UnX(op[1:]))
				if i >= nh {
					return "err:badinput"
				}
				if precommitted[i] {
					out = append(out, "dup")
					continue
				}
				s := svc[i]
				// the guard of finalisationEngine.defineRoundVotes
				ghost, err := s.getPreVotedBlock()
				if err != nil {
					out = append(out, fmt.Sprintf("e%x", c22Class(err)))
					continue
				}
				total, err := s.getTotalVotesForBlock(ghost.Hash, prevote)
				if err != nil {
					out = append(out, fmt.Sprintf("e%x", c22Class(err)))
					continue
				}
				if total <= s.state.threshold() {
					out = append(out, "wait")
					continue
				}
				pc, err := s.determinePreCommit()
				if err != nil {
					out = append(out, fmt.Sprintf("e%x", c22Class(err)))
					continue
				}
				spc, vm, err := s.createSignedVoteAndVoteMessage(pc, precommit)
				if err != nil {
					return "err:sign"
				}
				s.precommits.Store(s.publicKeyBytes(), spc)
				precommitted[i] = true
				pool = append(pool, vm)
				out = append(out, voteStr(*pc))
			case 'f':
				i := int(vu.UnX(op[1:]))
				if i >= nh {
					return "err:badinput"
				}
				before := len(bss[i].finalised)
				ok, err := svc[i].attemptToFinalize()
				switch {
				case err != nil:
					out = append(out, fmt.Sprintf("e%x", c22Class(err)))
				case ok && len(bss[i].finalised) == before+1:
					out = append(out, "1."+blk(bss[i].finalised[before]))
				case ok:
					out = append(out, "1.none")
				default:
					out = append(out, "0")
				}
			case 'd':
				g := strings.Split(op[1:], ".")
				i, m := int(vu.UnX(g[0])), int(vu.UnX(g[1]))
				if i >= nh {
					return "err:badinput"
				}
				if m >= len(pool) {
					out = append(out, "nomsg")
					continue
				}
				_, err := svc[i].validateVoteMessage(peer.ID("verif"), pool[m])
				out = append(out, fmt.Sprintf("%x", c22Class(err)))
			case 'b':
				g := strings.Split(op[1:], ".")
				j, b := int(vu.UnX(g[0])), int(vu.UnX(g[2]))
				if j < nh || j >= n || b >= k {
					return "err:badinput"
				}
				stage := prevote
				if g[1] == "c" {
					stage = precommit
				}
				pool = append(pool, sign(j, &Vote{Hash: hdr[b].Hash(), Number: uint32(hdr[b].Number)}, stage)) //nolint:gosec
				out = append(out, "-")
			default:
				return "err:badinput"
			}
		}
	}
	if len(out) == 0 {
		return "-"
	}
	return strings.Join(out, ",")
}

// ---- generator ----
func c22Case(r *vu.RNG) string {
	k := 2 + r.Intn(7)
	parents := c22Tree(r, k)
	n := 4 + r.Intn(4)
	if r.Chance(1, 5) {
		n = 1 + r.Intn(7)
	}
	tol := (n - 1) / 3
	nbyz := r.Intn(tol + 1)
	if r.Chance(1, 12) && n >= 3 {
		nbyz = tol + 1 // more than the protocol tolerates: conflicts are then possible
	}
	nh := n - nbyz
	// honest voters mostly agree on a best block
	focus := r.Intn(k)
	below := c22Below(parents, focus)
	bests := make([]uint64, nh)
	for i := range bests {
		switch r.Intn(5) {
		case 0:
			bests[i] = uint64(r.Intn(k))
		default:
			bests[i] = uint64(below[r.Intn(len(below))])
		}
	}
	var ops []string
	msgs := 0
	m := 10 + r.Intn(12*n)
	prevoted := 0
	for i := 0; i < m; i++ {
		x := r.Intn(100)
		switch {
		case x < 12 && prevoted < nh:
			ops = append(ops, fmt.Sprintf("v%x", r.Intn(nh)))
			msgs++ // at most
			prevoted++
		case x < 20:
			ops = append(ops, fmt.Sprintf("v%x", r.Intn(nh)))
			msgs++
		case x < 32:
			ops = append(ops, fmt.Sprintf("c%x", r.Intn(nh)))
			msgs++
		case x < 42:
			ops = append(ops, fmt.Sprintf("f%x", r.Intn(nh)))
		case x < 52 && nbyz > 0:
			st := "p"
			if r.Chance(1, 2) {
				st = "c"
			}
			b := below[r.Intn(len(below))]
			if r.Chance(1, 3) {
				b = r.Intn(k)
			}
			ops = append(ops, fmt.Sprintf("b%x.%s.%x", nh+r.Intn(nbyz), st, b))
			msgs++
		default:
			if msgs > 0 {
				ops = append(ops, fmt.Sprintf("d%x.%x", r.Intn(nh), r.Intn(msgs)))
			}
		}
	}
	// a final sweep: deliver everything to everybody, precommit, deliver, finalise
	if r.Chance(2, 3) {
		for i := 0; i < nh; i++ {
			ops = append(ops, fmt.Sprintf("v%x", i))
		}
		msgs += nh
		for rep := 0; rep < 2; rep++ {
			for i := 0; i < nh; i++ {
				for mm := 0; mm < msgs; mm++ {
					if r.Chance(9, 10) {
						ops = append(ops, fmt.Sprintf("d%x.%x", i, mm))
					}
				}
			}
			for i := 0; i < nh; i++ {
				ops = append(ops, fmt.Sprintf("c%x", i))
			}
			msgs += nh
		}
		for i := 0; i < nh; i++ {
			ops = append(ops, fmt.Sprintf("f%x", i))
		}
	}
	if len(ops) == 0 {
		ops = []string{"f0"}
	}
	return fmt.Sprintf("s %s %x %x %s %s", c22Join(parents), n, nbyz, c22Join(bests), strings.Join(ops, ","))
}

func c22Gen(r *vu.RNG, n int, emit func(string)) {
	for i := 0; i < n; i++ {
		if i%3 == 2 {
			emit(c22CaseMulti(r.Fork()))
		} else {
			emit(c22Case(r))
		}
	}
}

// multi-round case: 2-3 rounds; in every round the honest voters prevote, messages are delivered
// to each voter with a per-case probability (loss) in a shuffled order (reordering), the voters
// try to precommit (twice, with more deliveries in between), attempt to finalise and start the
// next round; Byzantine voters sign votes (also equivocating ones, also for other rounds); the
// preferred best block of every voter changes from round to round (best-chain switches).
func c22CaseMulti(r *vu.RNG) string {
	k := 3 + r.Intn(7)
	parents := c22Tree(r, k)
	n := 4 + r.Intn(4)
	if r.Chance(1, 6) {
		n = 1 + r.Intn(7)
	}
	tol := (n - 1) / 3
	nbyz := r.Intn(tol + 1)
	if r.Chance(1, 2) {
		nbyz = tol
	}
	if r.Chance(1, 14) && n >= 3 {
		nbyz = tol + 1
	}
	nh := n - nbyz
	rounds := 2 + r.Intn(2)
	focus := r.Intn(k)
	var bestParts []string
	var focuses []int
	for ri := 0; ri < rounds; ri++ {
		below := c22Below(parents, focus)
		focuses = append(focuses, focus)
		b := make([]uint64, nh)
		for i := range b {
			switch r.Intn(6) {
			case 0:
				b[i] = uint64(r.Intn(k))
			case 1: // a sibling fork: a descendant of the focus's parent
				p := 0
				if focus > 0 {
					p = int(parents[focus-1])
				}
				sib := c22Below(parents, p)
				b[i] = uint64(sib[r.Intn(len(sib))])
			default:
				b[i] = uint64(below[r.Intn(len(below))])
			}
		}
		bestParts = append(bestParts, c22Join(b))
		// next round: usually deeper on the same chain, sometimes elsewhere
		if r.Chance(2, 3) {
			focus = below[r.Intn(len(below))]
		} else {
			focus = r.Intn(k)
		}
	}
	pDeliver := 10 // out of 10
	switch r.Intn(3) {
	case 0:
		pDeliver = 5 + r.Intn(3)
	case 1:
		pDeliver = 8 + r.Intn(2)
	}
	var ops []string
	msgs := 0
	ncommits := 0
	deliver := func(lo int) {
		type dm struct{ i, m int }
		var ds []dm
		for i := 0; i < nh; i++ {
			for m := lo; m < msgs; m++ {
				if r.Intn(10) < pDeliver {
					ds = append(ds, dm{i, m})
				}
			}
		}
		for x := len(ds) - 1; x > 0; x-- {
			y := r.Intn(x + 1)
			ds[x], ds[y] = ds[y], ds[x]
		}
		for _, d := range ds {
			ops = append(ops, fmt.Sprintf("d%x.%x", d.i, d.m))
		}
	}
	byzVotes := func(stage string, ri int) {
		for j := nh; j < n; j++ {
			if !r.Chance(4, 5) {
				continue
			}
			votes := 1
			if r.Chance(1, 3) {
				votes = 2
			}
			for v := 0; v < votes; v++ {
				below := c22Below(parents, focuses[ri])
				b := below[r.Intn(len(below))]
				if r.Chance(1, 3) {
					b = r.Intn(k)
				}
				rr := ri
				if r.Chance(1, 10) {
					rr = r.Intn(rounds + 1)
				}
				ops = append(ops, fmt.Sprintf("b%x.%s.%x.%x", j, stage, b, rr))
				msgs++
			}
		}
	}
	for ri := 0; ri < rounds; ri++ {
		lo := msgs
		for i := 0; i < nh; i++ {
			if r.Chance(9, 10) {
				ops = append(ops, fmt.Sprintf("v%x", i))
				msgs++
			}
		}
		byzVotes("p", ri)
		deliver(lo)
		var cslots []int
		for rep := 0; rep < 2; rep++ {
			for i := 0; i < nh; i++ {
				if r.Chance(9, 10) {
					ops = append(ops, fmt.Sprintf("c%x", i))
					cslots = append(cslots, msgs)
					msgs++
				}
			}
			if rep == 0 {
				byzVotes("c", ri)
			}
			deliver(lo)
		}
		clo := ncommits
		// a Byzantine voter assembles a commit message from the round's messages: its own two
		// (equivocating) precommits first, last or around some honest precommits; any target.
		// Half of the time it is built and delivered BEFORE the voters attempt to finalise.
		byzCommit := func() {
			if nbyz == 0 || !r.Chance(1, 2) {
				return
			}
			j := nh + r.Intn(nbyz)
			below := c22Below(parents, focuses[ri])
			target := below[r.Intn(len(below))]
			if r.Chance(1, 4) {
				target = r.Intn(k)
			}
			other := r.Intn(k)
			ops = append(ops, fmt.Sprintf("b%x.c.%x.%x", j, other, ri), fmt.Sprintf("b%x.c.%x.%x", j, target, ri))
			own := []int{msgs, msgs + 1}
			msgs += 2
			var list []int
			if r.Chance(1, 2) && len(cslots) > 0 {
				// just short of a supermajority: need-2 honest precommits and the equivocator
				want := 2*n/3 + 1 - 2
				perm := make([]int, len(cslots))
				copy(perm, cslots)
				for x := len(perm) - 1; x > 0; x-- {
					y := r.Intn(x + 1)
					perm[x], perm[y] = perm[y], perm[x]
				}
				for x := 0; x < want && x < len(perm); x++ {
					list = append(list, perm[x])
				}
			} else {
				for m := lo; m < msgs-2; m++ {
					if r.Chance(1, 2) {
						list = append(list, m)
					}
				}
			}
			switch r.Intn(3) {
			case 0:
				list = append(own, list...)
			case 1:
				list = append(list, own...)
			default:
				list = append(append([]int{own[0]}, list...), own[1])
			}
			var ls []string
			for _, m := range list {
				ls = append(ls, fmt.Sprintf("%x", m))
			}
			ops = append(ops, fmt.Sprintf("x%x.%x.%x.%s", j, target, ri, strings.Join(ls, "+")))
			c := ncommits
			ncommits++
			for i := 0; i < nh; i++ {
				if r.Intn(10) < pDeliver {
					ops = append(ops, fmt.Sprintf("k%x.%x", i, c))
				}
			}
		}
		early := r.Chance(1, 2)
		if early {
			byzCommit()
		}
		for i := 0; i < nh; i++ {
			ops = append(ops, fmt.Sprintf("f%x", i))
			ncommits++
		}
		if r.Chance(1, 3) { // late deliveries, another attempt
			deliver(lo)
			for i := 0; i < nh; i++ {
				ops = append(ops, fmt.Sprintf("f%x", i))
				ncommits++
			}
		}
		if !early {
			byzCommit()
		}
		// the honest commit messages reach some voters
		if r.Chance(2, 3) {
			for i := 0; i < nh; i++ {
				for c := clo; c < ncommits; c++ {
					if r.Intn(20) < pDeliver {
						ops = append(ops, fmt.Sprintf("k%x.%x", i, c))
					}
				}
			}
		}
		for i := 0; i < nh; i++ {
			if r.Chance(9, 10) {
				ops = append(ops, fmt.Sprintf("n%x", i))
			}
		}
		if r.Chance(1, 2) { // stale messages of the finished round reach voters of the next one
			for x := 0; x < 3 && msgs > 0; x++ {
				ops = append(ops, fmt.Sprintf("d%x.%x", r.Intn(nh), r.Intn(msgs)))
			}
		}
	}
	return fmt.Sprintf("w %s %x %x %s %s", c22Join(parents), n, nbyz, strings.Join(bestParts, ";"), strings.Join(ops, ","))
}

func TestVerifC22(t *testing.T) { vu.Run(t, "C22", 300, c22Gen, c22Run) }

// ---------------------------------------------------------------------------------------------
// multi-round mode
//
// input:  w <parents> <nvoters> <nbyz> <bests> <ops>
//   bests    rounds separated by ";", each a comma list with the PREFERRED best block of honest
//            voter 0, 1, ... while it is in round index 0, 1, ... (the last entry repeats).  The
//            voter's best block is the preferred block when that descends from the voter's
//            finalised head, else the head itself (dot/state prunes the other forks); it is
//            re-evaluated when the voter enters a round and when it finalises a block.
//   ops      v<i> c<i> f<i> d<i>.<k> as in the single-round mode, acting in voter i's CURRENT round;
//            n<i>                  voter i starts its next round (the real Service.initiateRound) if it
//                                  has finalised a block in its current round or its block state has
//                                  a finalised block for the round (accepted commit), else "wait"
//            b<j>.<p|c>.<blk>.<r>  Byzantine voter j signs a vote of round index r
//            x<j>.<blk>.<r>.<m1>+<m2>+..  Byzantine voter j assembles a commit message of round index
//                                  r for the block from the pool messages m1, m2, .. (in that order)
//            k<i>.<c>              commit message c reaches voter i (Service.handleCommitMessage)
//   every v, c and b op occupies exactly one slot of the message pool (an empty one when no vote was
//   cast: dup, wait, error) and every f and x op one slot of the commit pool (a voter that finalises
//   creates the commit message the engine gossips, Service.newCommitMessage), so that indices do
//   not depend on the outcome of earlier ops.  Every pool message carries the round it was signed
//   in; validateVoteMessage classifies it against the receiver's current round.  A commit of a
//   later round makes initiateRound jump.  The primary's proposal message is not simulated (its
//   own prevote is its best block in both cases).
// observed: as in the single-round mode, plus
//   f: "done" when the voter already finalised in this round; 1.<block>|<voter>.<block>+... with the
//      precommits of the commit message it creates
//   n: r<new round index>.h<head> | wait | e<class>      x: the precommits listed
//   k: 0 accepted and recorded | already (the round has a finalised block) | e<class> | nomsg
func c22RunMulti(f []string) string {
	parents := c22List(f[1])
	k := len(parents) + 1
	n := int(vu.UnX(f[2]))
	nbyz := int(vu.UnX(f[3]))
	nh := n - nbyz
	if n < 1 || n > c22Keys || nbyz < 0 || nh < 1 {
		return "err:badinput"
	}
	var bests [][]uint64
	for _, part := range strings.Split(f[4], ";") {
		l := c22List(part)
		if len(l) != nh {
			return "err:badinput"
		}
		for _, b := range l {
			if int(b) >= k {
				return "err:badinput"
			}
		}
		bests = append(bests, l)
	}
	hdr := make([]*types.Header, k)
	index := make(map[common.Hash]int)
	hdr[0] = types.NewHeader(common.Hash{}, common.Hash{}, common.Hash{}, 0, types.NewDigest())
	index[hdr[0].Hash()] = 0
	for i := 1; i < k; i++ {
		p := int(parents[i-1])
		if p >= i {
			return "err:badinput"
		}
		hdr[i] = types.NewHeader(hdr[p].Hash(), common.Hash{}, common.Hash{byte(i), 0x22}, hdr[p].Number+1, c22Digest)
		index[hdr[i].Hash()] = i
	}
	isAnc := func(a, b int) bool { // a is b or an ancestor of b
		for b > a {
			b = int(parents[b-1])
		}
		return a == b
	}
	voters := make([]Voter, n)
	for i := 0; i < n; i++ {
		voters[i] = Voter{Key: *c22Keypairs[i].Public().(*ed25519.PublicKey), ID: uint64(i)}
	}
	svc := make([]*Service, nh)
	bss := make([]*c22BlockState, nh)
	ridx := make([]int, nh) // current round index of each honest voter
	setBest := func(v int) {
		r := ridx[v]
		if r >= len(bests) {
			r = len(bests) - 1
		}
		want := int(bests[r][v])
		head := index[svc[v].head.Hash()]
		if !isAnc(head, want) {
			want = head
		}
		bss[v].best = hdr[want].Hash()
	}
	for v := 0; v < nh; v++ {
		bs := &c22BlockState{headers: make(map[common.Hash]*types.Header)}
		bs.bt = blocktree.NewBlockTreeFromRoot(hdr[0])
		bs.genesis = hdr[0].Hash()
		bs.headers[hdr[0].Hash()] = hdr[0]
		for i := 1; i < k; i++ {
			if err := bs.bt.AddBlock(hdr[i], time.Unix(int64(1000+i), 0)); err != nil {
				return "err:addblock:" + err.Error()
			}
			bs.headers[hdr[i].Hash()] = hdr[i]
		}
		bs.head = hdr[0]
		// the round before the first simulated one finalised the genesis block
		bs.finRound = map[[2]uint64]common.Hash{{c22Round - 1, c22SetID}: hdr[0].Hash()}
		bs.highest = [2]uint64{c22Round - 1, c22SetID}
		s := &Service{
			blockState:         bs,
			grandpaState:       &c22GrandpaState{pcs: make(map[[2]uint64][]SignedVote)},
			keypair:            c22Keypairs[v],
			authority:          true,
			network:            c22Network{},
			state:              NewState(voters, c22SetID, c22Round),
			prevotes:           new(sync.Map),
			precommits:         new(sync.Map),
			pvEquivocations:    make(map[ed25519.PublicKeyBytes][]*SignedVote),
			pcEquivocations:    make(map[ed25519.PublicKeyBytes][]*SignedVote),
			preVotedBlock:      make(map[uint64]*Vote),
			bestFinalCandidate: make(map[uint64]*Vote),
			head:               bs.head,
			resumed:            make(chan struct{}),
			telemetry:          c22Telemetry{},
			interval:           time.Second,
		}
		s.paused.Store(false)
		s.tracker = newTracker(bs, nil)
		svc[v] = s
		bss[v] = bs
		setBest(v)
	}
	blk := func(h common.Hash) string {
		if i, ok := index[h]; ok {
			return vu.X(uint64(i))
		}
		return "?"
	}
	voteStr := func(v Vote) string { return blk(v.Hash) + "." + vu.X(uint64(v.Number)) }
	sign := func(v int, vote *Vote, stage Subround, round uint64) *VoteMessage {
		msg, err := scale.Marshal(FullVote{Stage: stage, Vote: *vote, Round: round, SetID: c22SetID})
		if err != nil {
			panic(err)
		}
		sig, err := c22Keypairs[v].Sign(msg)
		if err != nil {
			panic(err)
		}
		return &VoteMessage{Round: round, SetID: c22SetID, Message: SignedMessage{
			Stage: stage, BlockHash: vote.Hash, Number: vote.Number,
			Signature:   ed25519.NewSignatureBytes(sig),
			AuthorityID: c22Keypairs[v].Public().(*ed25519.PublicKey).AsBytes(),
		}}
	}
	var pool []*VoteMessage
	var commits []*CommitMessage
	voterOf := make(map[ed25519.PublicKeyBytes]int)
	for i := 0; i < n; i++ {
		voterOf[c22Keypairs[i].Public().(*ed25519.PublicKey).AsBytes()] = i
	}
	commitStr := func(cm *CommitMessage) string {
		var l []string
		for x, pc := range cm.Precommits {
			l = append(l, fmt.Sprintf("%x.%s", voterOf[cm.AuthData[x].AuthorityID], blk(pc.Hash)))
		}
		if len(l) == 0 {
			return "-"
		}
		return strings.Join(l, "+")
	}
	prevoted := make([]bool, nh)
	precommitted := make([]bool, nh)
	finalisedNow := make([]bool, nh)
	var out []string
	if f[5] != "-" {
		for _, op := range strings.Split(f[5], ",") {
			switch op[0] {
			case 'v':
				i := int(vu.UnX(op[1:]))
				if i >= nh {
					return "err:badinput"
				}
				if prevoted[i] {
					pool = append(pool, nil)
					out = append(out, "dup")
					continue
				}
				s := svc[i]
				pv, err := s.determinePreVote()
				if err != nil {
					pool = append(pool, nil)
					out = append(out, fmt.Sprintf("e%x", c22Class(err)))
					continue
				}
				spv, vm, err := s.createSignedVoteAndVoteMessage(pv, prevote)
				if err != nil {
					return "err:sign"
				}
				s.prevotes.Store(s.publicKeyBytes(), spv)
				prevoted[i] = true
				pool = append(pool, vm)
				out = append(out, voteStr(*pv))
			case 'c':
				i := int(vu.UnX(op[1:]))
				if i >= nh {
					return "err:badinput"
				}
				if precommitted[i] {
					pool = append(pool, nil)
					out = append(out, "dup")
					continue
				}
				s := svc[i]
				ghost, err := s.getPreVotedBlock()
				if err != nil {
					pool = append(pool, nil)
					out = append(out, fmt.Sprintf("e%x", c22Class(err)))
					continue
				}
				total, err := s.getTotalVotesForBlock(ghost.Hash, prevote)
				if err != nil {
					pool = append(pool, nil)
					out = append(out, fmt.Sprintf("e%x", c22Class(err)))
					continue
				}
				if total <= s.state.threshold() {
					pool = append(pool, nil)
					out = append(out, "wait")
					continue
				}
				pc, err := s.determinePreCommit()
				if err != nil {
					pool = append(pool, nil)
					out = append(out, fmt.Sprintf("e%x", c22Class(err)))
					continue
				}
				spc, vm, err := s.createSignedVoteAndVoteMessage(pc, precommit)
				if err != nil {
					return "err:sign"
				}
				s.precommits.Store(s.publicKeyBytes(), spc)
				precommitted[i] = true
				pool = append(pool, vm)
				out = append(out, voteStr(*pc))
			case 'f':
				i := int(vu.UnX(op[1:]))
				if i >= nh {
					return "err:badinput"
				}
				if finalisedNow[i] {
					commits = append(commits, nil)
					out = append(out, "done")
					continue
				}
				before := len(bss[i].finalised)
				ok, err := svc[i].attemptToFinalize()
				switch {
				case err != nil:
					out = append(out, fmt.Sprintf("e%x", c22Class(err)))
				case ok && len(bss[i].finalised) == before+1:
					finalisedNow[i] = true
					setBest(i) // dot/state prunes the forks that do not contain the finalised block
					// the commit message votingRoundHandler gossips after finalising
					cm, cerr := svc[i].newCommitMessage(svc[i].head, svc[i].state.round, c22SetID)
					if cerr != nil {
						commits = append(commits, nil)
						out = append(out, "1."+blk(bss[i].finalised[before]))
					} else {
						cm.SetID = c22SetID
						commits = append(commits, cm)
						out = append(out, "1."+blk(bss[i].finalised[before])+"|"+commitStr(cm))
					}
					continue
				case ok:
					out = append(out, "1.none")
				default:
					out = append(out, "0")
				}
				commits = append(commits, nil)
			case 'n':
				i := int(vu.UnX(op[1:]))
				if i >= nh {
					return "err:badinput"
				}
				// finalisationEngine: the round ends when the node finalised a block or the block state
				// has a finalised block for the round (a commit message was accepted)
				hasFin, _ := bss[i].HasFinalisedBlock(svc[i].state.round, c22SetID)
				if bss[i].highest[0] > svc[i].state.round {
					hasFin = true // checkRoundCompletable: a block was finalised in a higher round
				}
				if !finalisedNow[i] && !hasFin {
					out = append(out, "wait")
					continue
				}
				if err := svc[i].initiateRound(); err != nil {
					out = append(out, fmt.Sprintf("e%x", c22Class(err)))
					continue
				}
				if svc[i].state.round <= c22Round+uint64(ridx[i]) {
					out = append(out, fmt.Sprintf("badround%x", svc[i].state.round))
					continue
				}
				ridx[i] = int(svc[i].state.round - c22Round)
				prevoted[i], precommitted[i], finalisedNow[i] = false, false, false
				setBest(i)
				out = append(out, fmt.Sprintf("r%x.h%s", ridx[i], blk(svc[i].head.Hash())))
			case 'd':
				g := strings.Split(op[1:], ".")
				i, m := int(vu.UnX(g[0])), int(vu.UnX(g[1]))
				if i >= nh {
					return "err:badinput"
				}
				if m >= len(pool) || pool[m] == nil {
					out = append(out, "nomsg")
					continue
				}
				_, err := svc[i].validateVoteMessage(peer.ID("verif"), pool[m])
				out = append(out, fmt.Sprintf("%x", c22Class(err)))
			case 'b':
				g := strings.Split(op[1:], ".")
				if len(g) != 4 {
					return "err:badinput"
				}
				j, b, r := int(vu.UnX(g[0])), int(vu.UnX(g[2])), vu.UnX(g[3])
				if j < nh || j >= n || b >= k {
					return "err:badinput"
				}
				stage := prevote
				if g[1] == "c" {
					stage = precommit
				}
				pool = append(pool, sign(j, &Vote{Hash: hdr[b].Hash(), Number: uint32(hdr[b].Number)}, stage, c22Round+r)) //nolint:gosec
				out = append(out, "-")
			case 'x': // a Byzantine voter assembles a commit message from pool messages
				g := strings.Split(op[1:], ".")
				if len(g) != 4 {
					return "err:badinput"
				}
				target, r := int(vu.UnX(g[1])), vu.UnX(g[2])
				if target >= k {
					return "err:badinput"
				}
				cm := &CommitMessage{Round: c22Round + r, SetID: c22SetID,
					Vote: Vote{Hash: hdr[target].Hash(), Number: uint32(hdr[target].Number)}} //nolint:gosec
				if g[3] != "-" {
					for _, ms := range strings.Split(g[3], "+") {
						m := int(vu.UnX(ms))
						if m >= len(pool) || pool[m] == nil {
							continue
						}
						cm.Precommits = append(cm.Precommits, Vote{Hash: pool[m].Message.BlockHash, Number: pool[m].Message.Number})
						cm.AuthData = append(cm.AuthData, AuthData{Signature: pool[m].Message.Signature, AuthorityID: pool[m].Message.AuthorityID})
					}
				}
				commits = append(commits, cm)
				out = append(out, commitStr(cm))
			case 'k': // a commit message reaches an honest voter
				g := strings.Split(op[1:], ".")
				i, c := int(vu.UnX(g[0])), int(vu.UnX(g[1]))
				if i >= nh {
					return "err:badinput"
				}
				if c >= len(commits) || commits[c] == nil {
					out = append(out, "nomsg")
					continue
				}
				cm := commits[c]
				had, _ := bss[i].HasFinalisedBlock(cm.Round, c22SetID)
				before := len(bss[i].finalised)
				err := svc[i].handleCommitMessage(cm)
				switch {
				case err != nil:
					out = append(out, fmt.Sprintf("e%x", c22Class(err)))
				case had:
					out = append(out, "already")
				case len(bss[i].finalised) == before+1 && bss[i].finalised[before] == cm.Vote.Hash:
					setBest(i)
					out = append(out, "0")
				default:
					out = append(out, "0?")
				}
			default:
				return "err:badinput"
			}
		}
	}
	if len(out) == 0 {
		return "-"
	}
	return strings.Join(out, ",")
}
func c22Tree(r *vu.RNG, k int) []uint64 {
	p := make([]uint64, 0, k)
	mode := r.Intn(4)
	for i := 1; i < k; i++ {
		switch mode {
		case 0:
			p = append(p, uint64(r.Intn(i)))
		case 1:
			if r.Chance(3, 4) {
				p = append(p, uint64(i-1))
			} else {
				p = append(p, uint64(r.Intn(i)))
			}
		case 2:
			p = append(p, uint64(r.Intn((i+1)/2)))
		default:
			if i <= 2 {
				p = append(p, 0)
			} else {
				p = append(p, uint64(i-2))
			}
		}
	}
	return p
}

func c22Join(v []uint64) string {
	if len(v) == 0 {
		return "-"
	}
	s := make([]string, len(v))
	for i, x := range v {
		s[i] = vu.X(x)
	}
	return strings.Join(s, ",")
}

func c22Depth(parents []uint64, b int) int {
	d := 0
	for b > 0 {
		b = int(parents[b-1])
		d++
	}
	return d
}

func c22Below(parents []uint64, b int) []int {
	k := len(parents) + 1
	var out []int
	for c := 0; c < k; c++ {
		x := c
		for x > b {
			x = int(parents[x-1])
		}
		if x == b {
			out = append(out, c)
		}
	}
	return out
}

