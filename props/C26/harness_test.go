// C26 correspondence harness (injected into package dot/state by `go test -overlay`).
//
// input (numbers in hex; lists separated by ';', "-" for an empty list):
//   tree <epochLength> <blocks> <announcements> <db entries> <queries>
//   blocks        <parent index>,<slot>;...      block k (k = 1..) ; block 0 is the genesis block
//   announcements <kind><block>,<payload id>     kind e = NextEpochData, c = NextConfigDataV1;
//                                                handled by HandleBABEDigest right after the block's import
//   db entries    <kind><epoch>,<payload id>     SetEpochDataRaw / StoreConfigData before the queries
//   queries       <kind>,<epoch|n>,<header>      kind e = GetEpochDataRaw, c = GetConfigData,
//                                                g = GetEpochForBlock; epoch n = GetEpochForBlock(header);
//                 E,<skipped>.<current>,<header> GetSkippedEpochDataRaw(skipped, current, header)
//                 C,<skipped>.<current>,<header> GetSkippedConfigData(skipped, current, header)
//                                                (both re-key the definition of the skipped epoch to
//                                                 the current epoch, in the database or in the map)
//                 U,<skipped>.<current>,<header> UpdateSkippedEpochDefinitions (what HandleBlockImport calls for a
//                                                block that skips an epoch); only generated with the skipped
//                                                epoch's data in the database (otherwise the Go code dies in
//                                                updateSkippedEpochDataRaw: RLock of one mutex, RUnlock of another)
//                 R,0,i0                         restart: the EpochState is re-created from its
//                                                database (NewEpochState -> restoreMapFromDisk);
//                                                the queries are executed in order on one state
//                 header  i<block>               the header of an imported block
//                         f<parent>.<slot>       a header that is NOT imported (child of <parent>)
// observed: a=<ok|err> per announcement, ME=<epoch>:<blk>.<id>+...;... (nextEpochData), MC=... ,
//   then per query  [<natural epoch>@]ok.<id> | err.epoch | err.hash | err.other | ep.<epoch>
//   E / C queries: <result>/ME=<nextEpochData after the call> resp. <result>/MC=<nextConfigData ...>
//   U: <ok|err.*>/MC=<nextConfigData after the call>
//   R: R/ME=<restored nextEpochData>/MC=<restored nextConfigData>
//   (the whole case is `hang` when a lookup does not return: verifutil watchdog).
//
// Resource protection: on a tree where findAncestor does not terminate every hanging lookup
// leaves a spinning goroutine behind.  The generator therefore first probes one fixed
// hang-candidate input under its own watchdog; when it hangs, that input and at most two more
// hang candidates are emitted and the remaining candidates are filtered out of the generated
// queries (`run` itself stays a pure function of its input).
package state

import (
	"encoding/json"
	"errors"
	"fmt"
	"sort"
	"strings"
	"testing"
	"time"

	"github.com/ChainSafe/gossamer/dot/types"
	"github.com/ChainSafe/gossamer/internal/database"
	"github.com/ChainSafe/gossamer/lib/common"
	"github.com/ChainSafe/gossamer/pkg/trie"
	vu "github.com/ChainSafe/gossamer/internal/verifutil"
)

type c26Telemetry struct{}

func (c26Telemetry) SendMessage(_ json.Marshaler) {}

func c26Header(parent common.Hash, number uint, slot uint64, salt uint64) *types.Header {
	d := types.NewDigest()
	pd, err := types.NewBabePrimaryPreDigest(0, slot, [32]byte{}, [64]byte{}).ToPreRuntimeDigest()
	if err != nil {
		panic(err)
	}
	d.Add(*pd)
	var er common.Hash
	for i := 0; i < 8; i++ {
		er[i] = byte(salt >> (8 * i))
	}
	er[31] = 0x26
	return &types.Header{ParentHash: parent, Number: number, StateRoot: trie.EmptyHash, ExtrinsicsRoot: er, Digest: d}
}

// ---- generator-side tree (only to produce meaningful queries) ----
type c26Tree struct {
	elen   uint64
	parent []int
	slot   []uint64
	num    []int
}

func (t *c26Tree) anc1(i int) int {
	for t.num[i] > 1 {
		i = t.parent[i]
	}
	return i
}
func (t *c26Tree) epochImp(i int) uint64 {
	if t.num[i] <= 1 {
		return 0
	}
	return (t.slot[i] - t.slot[t.anc1(i)]) / t.elen
}
func (t *c26Tree) epochFresh(p int, s uint64) uint64 {
	if t.num[p] == 0 {
		return 0
	}
	return (s - t.slot[t.anc1(p)]) / t.elen
}
func (t *c26Tree) onChain(b, head int) bool {
	for {
		if head == b {
			return true
		}
		if head == 0 {
			return false
		}
		head = t.parent[head]
	}
}

type c26Ann struct {
	kind byte
	blk  int
	id   uint64
}

const c26Canary = "tree 3 0,1;1,2;0,1 e3,5 - e,1,i2"

func c26Probe(run func(string) string) bool {
	ch := make(chan struct{}, 1)
	go func() {
		defer func() { recover(); ch <- struct{}{} }()
		run(c26Canary)
	}()
	select {
	case <-ch:
		return false
	case <-time.After(3 * time.Second):
		return true
	}
}

func c26Gen(r *vu.RNG, n int, emit func(string)) {
	hangs := c26Probe(c26Run)
	budget := 0
	if hangs {
		emit(c26Canary)
		budget = 2
	}
	// fixed boundary cases
	for _, s := range []string{
		"tree 3 0,1;1,2;0,1 e3,5 - e,1,i3;e,1,i1;e,1,f2.3;e,1,f0.1;e,1,f3.2;g,n,i2",
		"tree 2 0,1;1,3;2,5;0,2;4,4 c1,7;c4,8 - c,1,i3;c,2,i3;c,1,i5;c,n,i3;c,n,f3.7;c,3,i0",
		"tree 2 0,1;1,3;2,5 e1,1;e2,2;e3,3;c1,4;c3,5 e2,9;c1,a e,1,i3;e,2,i3;e,3,i3;e,4,i3;c,1,i3;c,2,i3;c,3,i3;c,4,i3;e,0,i3;c,0,i3",
		// restart with two forks announcing for the same epoch (seeded/C26-m2)
		"tree 3 0,1;1,2;0,1;3,2 e1,5;e3,6;c1,7;c3,8 - R,0,i0;e,1,i2;e,1,i4;c,1,i2;c,1,i4;e,1,f2.3;e,1,f4.3",
	} {
		emit(s)
	}
	if !hangs {
		for _, s := range []string{
			// skipped epoch: data announced for epoch 1 used for epoch 2, in memory and in the database
			"tree 3 0,1;1,2;0,1;3,2 e1,5;e3,6;c1,7 e1,9 E,1.2,i2;e,2,i2;e,1,i2;C,1.2,i2;c,2,i2;c,2,i4;C,1.3,i4",
			// UpdateSkippedEpochDefinitions with the skipped epoch's configuration on the other fork only
			"tree 2 0,1;1,3;0,1;3,3;4,5 c1,7;c3,8;c2,9 e2,4d U,2.3,i5;c,3,i5;c,2,i5;e,3,i5;U,2.4,i2;c,3,i2",
			"tree 3 0,1;1,2;0,1;3,2 e1,5;e3,6;c3,8 - E,1.2,i2;e,2,i2;e,2,i4;e,1,i4;E,1.2,i2;C,1.2,i2;C,1.2,f2.9;R,0,i0;e,2,i2;e,1,i2",
		} {
			emit(s)
		}
	}
	for i := 0; i < n; i++ {
		t := &c26Tree{elen: uint64([]int{2, 3, 5}[r.Intn(3)]), parent: []int{0}, slot: []uint64{0}, num: []int{0}}
		nb := 2 + r.Intn(7)
		chainy := r.Chance(1, 2)
		for k := 1; k <= nb; k++ {
			p := r.Intn(k)
			if chainy && r.Chance(3, 4) {
				p = k - 1
			}
			t.parent = append(t.parent, p)
			t.num = append(t.num, t.num[p]+1)
			t.slot = append(t.slot, t.slot[p]+uint64(1+r.Intn(4)))
		}
		var anns []c26Ann
		nextID := uint64(1)
		for k := 1; k <= nb; k++ {
			firstOfEpoch := t.epochImp(k) > t.epochImp(t.parent[k]) || t.num[k] == 1
			if (firstOfEpoch && r.Chance(7, 10)) || r.Chance(1, 8) {
				anns = append(anns, c26Ann{'e', k, nextID})
				nextID++
			}
			if (firstOfEpoch && r.Chance(3, 10)) || r.Chance(1, 10) {
				anns = append(anns, c26Ann{'c', k, nextID})
				nextID++
			}
			if r.Chance(1, 30) && len(anns) > 0 { // same block announces twice: last one wins
				a := anns[len(anns)-1]
				anns = append(anns, c26Ann{a.kind, a.blk, nextID})
				nextID++
			}
		}
		var dbs []string
		for r.Chance(1, 5) && len(dbs) < 2 {
			dbs = append(dbs, fmt.Sprintf("%c%s,%s", "ec"[r.Intn(2)], vu.X(uint64(1+r.Intn(3))), vu.X(0x80+uint64(len(dbs)))))
		}
		// hang candidate (for the pinned findAncestor): the epoch has entries, none on the chain
		candidate := func(kind byte, e uint64, head int) bool {
			lo := e
			if kind == 'c' {
				lo = 1
			}
			for x := e; x >= lo && x >= 1; x-- {
				has, on := false, false
				for _, a := range anns {
					if a.kind == kind && t.epochImp(a.blk)+1 == x {
						has = true
						if t.onChain(a.blk, head) {
							on = true
						}
					}
				}
				if has && !on {
					return true
				}
				if on {
					return false
				}
			}
			return false
		}
		var qs []string
		caseHasCandidate := false
		add := func(kind byte, nat bool, e uint64, imp bool, b int, s uint64) {
			if kind != 'g' && hangs && candidate(kind, e, b) {
				if budget == 0 || caseHasCandidate {
					return // filtered: would leave one more spinning goroutine behind
				}
				caseHasCandidate = true
				budget--
			}
			es := vu.X(e)
			if nat {
				es = "n"
			}
			h := "i" + vu.X(uint64(b))
			if !imp {
				h = fmt.Sprintf("f%s.%s", vu.X(uint64(b)), vu.X(s))
			}
			qs = append(qs, fmt.Sprintf("%c,%s,%s", kind, es, h))
		}
		for b := 0; b <= nb; b++ {
			add('e', true, t.epochImp(b), true, b, 0)
			add('c', true, t.epochImp(b), true, b, 0)
			s := t.slot[b] + uint64(1+r.Intn(6))
			add('e', true, t.epochFresh(b, s), false, b, s)
			add('c', true, t.epochFresh(b, s), false, b, s)
			if r.Chance(1, 4) {
				add('g', true, 0, true, b, 0)
			}
		}
		for j := 0; j < 12; j++ {
			b := r.Intn(nb + 1)
			e := uint64(r.Intn(5))
			kind := "ec"[r.Intn(2)]
			if r.Chance(1, 2) {
				add(kind, false, e, true, b, 0)
			} else {
				add(kind, false, e, false, b, t.slot[b]+uint64(1+r.Intn(6)))
			}
		}
		// second round: restart of the EpochState from its database, and skipped-epoch lookups
		hs := func(imp bool, b int, sl uint64) string {
			if imp {
				return "i" + vu.X(uint64(b))
			}
			return fmt.Sprintf("f%s.%s", vu.X(uint64(b)), vu.X(sl))
		}
		if r.Chance(1, 3) {
			switch r.Intn(4) {
			case 0: // in the middle
				at := r.Intn(len(qs) + 1)
				qs = append(qs[:at], append([]string{"R,0,i0"}, qs[at:]...)...)
			default: // before every query
				qs = append([]string{"R,0,i0"}, qs...)
			}
		}
		if !hangs && r.Chance(1, 3) {
			nsk := 1 + r.Intn(3)
			for j := 0; j < nsk; j++ {
				b := r.Intn(nb + 1)
				imp := r.Chance(2, 3)
				sl := t.slot[b] + uint64(1+r.Intn(6))
				eb := t.epochImp(b)
				if !imp {
					eb = t.epochFresh(b, sl)
				}
				se := eb + 1
				if r.Chance(1, 4) {
					se = uint64(r.Intn(4))
				}
				ce := se + 1 + uint64(r.Intn(2))
				if r.Chance(1, 8) {
					ce = se
				}
				kind := "EC"[r.Intn(2)]
				qs = append(qs, fmt.Sprintf("%c,%s.%s,%s", kind, vu.X(se), vu.X(ce), hs(imp, b, sl)))
				if r.Chance(1, 2) { // the same lookup again: the definition has moved
					qs = append(qs, fmt.Sprintf("%c,%s.%s,%s", kind, vu.X(se), vu.X(ce), hs(imp, b, sl)))
				}
				lk := byte('e')
				if kind == 'C' {
					lk = 'c'
				}
				qs = append(qs, fmt.Sprintf("%c,%s,%s", lk, vu.X(ce), hs(imp, b, sl)), fmt.Sprintf("%c,%s,%s", lk, vu.X(se), hs(imp, b, sl)))
				o := r.Intn(nb + 1)
				qs = append(qs, fmt.Sprintf("%c,%s,i%s", lk, vu.X(ce), vu.X(uint64(o))), fmt.Sprintf("%c,%s,i%s", lk, vu.X(se), vu.X(uint64(o))))
				if r.Chance(1, 4) {
					qs = append(qs, "R,0,i0", fmt.Sprintf("%c,%s,%s", lk, vu.X(ce), hs(imp, b, sl)), fmt.Sprintf("%c,%s,%s", lk, vu.X(se), hs(imp, b, sl)))
				}
			}
		}
		if !hangs && r.Chance(1, 4) {
			// a block that skips an epoch is imported: UpdateSkippedEpochDefinitions, then the lookups
			b := r.Intn(nb + 1)
			imp := r.Chance(2, 3)
			sl := t.slot[b] + uint64(1+r.Intn(6))
			eb := t.epochImp(b)
			if !imp {
				eb = t.epochFresh(b, sl)
			}
			se := eb + 1
			if r.Chance(1, 5) {
				se = uint64(1 + r.Intn(3))
			}
			ce := se + 1 + uint64(r.Intn(2))
			has := false
			for _, d := range dbs {
				if strings.HasPrefix(d, "e"+vu.X(se)+",") {
					has = true
				}
			}
			if !has {
				dbs = append(dbs, fmt.Sprintf("e%s,%s", vu.X(se), vu.X(0x90+uint64(len(dbs)))))
			}
			qs = append(qs, fmt.Sprintf("U,%s.%s,%s", vu.X(se), vu.X(ce), hs(imp, b, sl)),
				fmt.Sprintf("c,%s,%s", vu.X(ce), hs(imp, b, sl)), fmt.Sprintf("e,%s,%s", vu.X(ce), hs(imp, b, sl)),
				fmt.Sprintf("c,%s,%s", vu.X(se), hs(imp, b, sl)), fmt.Sprintf("c,%s,i%s", vu.X(ce), vu.X(uint64(r.Intn(nb+1)))))
		}
		var bl, al []string
		for k := 1; k <= nb; k++ {
			bl = append(bl, fmt.Sprintf("%s,%s", vu.X(uint64(t.parent[k])), vu.X(t.slot[k])))
		}
		for _, a := range anns {
			al = append(al, fmt.Sprintf("%c%s,%s", a.kind, vu.X(uint64(a.blk)), vu.X(a.id)))
		}
		j := func(l []string) string {
			if len(l) == 0 {
				return "-"
			}
			return strings.Join(l, ";")
		}
		emit(fmt.Sprintf("tree %s %s %s %s %s", vu.X(t.elen), j(bl), j(al), j(dbs), j(qs)))
	}
}

func c26List(s string) []string {
	if s == "-" || s == "" {
		return nil
	}
	return strings.Split(s, ";")
}

func c26Err(err error) string {
	switch {
	case errors.Is(err, ErrEpochNotInMemory):
		return "err.epoch"
	case errors.Is(err, errHashNotInMemory):
		return "err.hash"
	default:
		return "err.other"
	}
}

func c26Run(in string) string {
	f := strings.Split(in, " ")
	if len(f) != 6 || f[0] != "tree" {
		return "err:badinput"
	}
	elen := vu.UnX(f[1])
	db, err := database.NewPebble("", true)
	if err != nil {
		return "err:db"
	}
	defer db.Close()
	genesis := &types.Header{Number: 0, StateRoot: trie.EmptyHash, Digest: types.NewDigest()}
	bs, err := NewBlockStateFromGenesis(db, newTriesEmpty(), genesis, c26Telemetry{})
	if err != nil {
		return "err:blockstate"
	}
	var rnd [32]byte
	rnd[0] = 0xee
	c26cfg := &types.BabeConfiguration{
		SlotDuration: 1000, EpochLength: elen, C1: 0xee, C2: 1000,
		GenesisAuthorities: []types.AuthorityRaw{}, Randomness: rnd, SecondarySlots: 1}
	es, err := NewEpochStateFromGenesis(db, bs, c26cfg)
	if err != nil {
		return "err:epochstate"
	}
	headers := []*types.Header{genesis}
	index := map[common.Hash]int{genesis.Hash(): 0}
	anns := c26List(f[3])
	var out []string
	for k, b := range c26List(f[2]) {
		p := strings.Split(b, ",")
		pi := int(vu.UnX(p[0]))
		if pi > k {
			return "err:badtree"
		}
		h := c26Header(headers[pi].Hash(), headers[pi].Number+1, vu.UnX(p[1]), uint64(k+1))
		if err := bs.AddBlock(&types.Block{Header: *h, Body: types.Body{}}); err != nil {
			return "err:addblock"
		}
		headers = append(headers, h)
		index[h.Hash()] = k + 1
		for _, a := range anns {
			q := strings.Split(a[1:], ",")
			if int(vu.UnX(q[0])) != k+1 {
				continue
			}
			id := vu.UnX(q[1])
			dg := types.NewBabeConsensusDigest()
			if a[0] == 'e' {
				var rr [32]byte
				rr[0] = byte(id)
				err = dg.SetValue(types.NextEpochData{
					Authorities: []types.AuthorityRaw{{Key: [32]byte{byte(id), 1}, Weight: 1}}, Randomness: rr})
			} else {
				v := types.NewVersionedNextConfigData()
				if err := v.SetValue(types.NextConfigDataV1{C1: id, C2: 1000, SecondarySlots: 1}); err != nil {
					return "err:setvalue"
				}
				err = dg.SetValue(v)
			}
			if err != nil {
				return "err:setvalue"
			}
			if err := es.HandleBABEDigest(h, dg); err != nil {
				out = append(out, "a=err")
			} else {
				out = append(out, "a=ok")
			}
		}
	}
	for _, d := range c26List(f[4]) {
		q := strings.Split(d[1:], ",")
		e, id := vu.UnX(q[0]), vu.UnX(q[1])
		if d[0] == 'e' {
			var rr [32]byte
			rr[0] = byte(id)
			err = es.SetEpochDataRaw(e, &types.EpochDataRaw{Authorities: []types.AuthorityRaw{}, Randomness: rr})
		} else {
			err = es.StoreConfigData(e, &types.ConfigData{C1: id, C2: 1000, SecondarySlots: 1})
		}
		if err != nil {
			return "err:dbput"
		}
	}
	// dump of the in-memory maps
	dumpE := func() string {
		var parts []string
		var eps []uint64
		for e := range es.nextEpochData {
			eps = append(eps, e)
		}
		sort.Slice(eps, func(i, j int) bool { return eps[i] < eps[j] })
		for _, e := range eps {
			var ent []string
			var bl []int
			m := map[int]uint64{}
			for h, v := range es.nextEpochData[e] {
				b, ok := index[h]
				if !ok {
					b = 0xffff
				}
				bl = append(bl, b)
				m[b] = uint64(v.Randomness[0])
			}
			sort.Ints(bl)
			for _, b := range bl {
				ent = append(ent, vu.X(uint64(b))+"."+vu.X(m[b]))
			}
			parts = append(parts, vu.X(e)+":"+strings.Join(ent, "+"))
		}
		if len(parts) == 0 {
			return "-"
		}
		return strings.Join(parts, ";")
	}
	dumpC := func() string {
		var parts []string
		var eps []uint64
		for e := range es.nextConfigData {
			eps = append(eps, e)
		}
		sort.Slice(eps, func(i, j int) bool { return eps[i] < eps[j] })
		for _, e := range eps {
			var ent []string
			var bl []int
			m := map[int]uint64{}
			for h, v := range es.nextConfigData[e] {
				b, ok := index[h]
				if !ok {
					b = 0xffff
				}
				bl = append(bl, b)
				m[b] = v.C1
			}
			sort.Ints(bl)
			for _, b := range bl {
				ent = append(ent, vu.X(uint64(b))+"."+vu.X(m[b]))
			}
			parts = append(parts, vu.X(e)+":"+strings.Join(ent, "+"))
		}
		if len(parts) == 0 {
			return "-"
		}
		return strings.Join(parts, ";")
	}
	out = append(out, "ME="+dumpE(), "MC="+dumpC())
	for _, q := range c26List(f[5]) {
		p := strings.Split(q, ",")
		if len(p) != 3 {
			return "err:badquery"
		}
		var h *types.Header
		if p[2][0] == 'i' {
			i := int(vu.UnX(p[2][1:]))
			if i >= len(headers) {
				return "err:badquery"
			}
			h = headers[i]
		} else {
			ps := strings.Split(p[2][1:], ".")
			i := int(vu.UnX(ps[0]))
			if i >= len(headers) {
				return "err:badquery"
			}
			h = c26Header(headers[i].Hash(), headers[i].Number+1, vu.UnX(ps[1]), 0xffff)
		}
		if p[0] == "R" {
			es2, err := NewEpochState(db, bs, c26cfg)
			if err != nil {
				out = append(out, "R/err")
				continue
			}
			es = es2
			out = append(out, "R/ME="+dumpE()+"/MC="+dumpC())
			continue
		}
		if p[0] == "U" {
			sc := strings.Split(p[1], ".")
			if len(sc) != 2 {
				return "err:badquery"
			}
			se, ce := vu.UnX(sc[0]), vu.UnX(sc[1])
			if se != 0 { // never enter the lock mix-up path: it is a fatal error, not a panic
				if _, err := es.db.Get(epochDataKey(se)); err != nil {
					out = append(out, "skip/MC="+dumpC()) // would be `fatal error: sync: RUnlock of unlocked RWMutex`
					continue
				}
			}
			if err := es.UpdateSkippedEpochDefinitions(se, ce, h); err != nil {
				out = append(out, c26Err(err)+"/MC="+dumpC())
			} else {
				out = append(out, "ok/MC="+dumpC())
			}
			continue
		}
		if p[0] == "E" || p[0] == "C" {
			sc := strings.Split(p[1], ".")
			if len(sc) != 2 {
				return "err:badquery"
			}
			se, ce := vu.UnX(sc[0]), vu.UnX(sc[1])
			if p[0] == "E" {
				d, err := es.GetSkippedEpochDataRaw(se, ce, h)
				switch {
				case err != nil:
					out = append(out, c26Err(err)+"/ME="+dumpE())
				case d == nil:
					out = append(out, "err.nil/ME="+dumpE())
				default:
					out = append(out, "ok."+vu.X(uint64(d.Randomness[0]))+"/ME="+dumpE())
				}
			} else {
				d, err := es.GetSkippedConfigData(se, ce, h)
				switch {
				case err != nil:
					out = append(out, c26Err(err)+"/MC="+dumpC())
				case d == nil:
					out = append(out, "err.nil/MC="+dumpC())
				default:
					out = append(out, "ok."+vu.X(d.C1)+"/MC="+dumpC())
				}
			}
			continue
		}
		pre := ""
		var e uint64
		if p[1] == "n" || p[0] == "g" {
			e, err = es.GetEpochForBlock(h)
			if err != nil {
				out = append(out, "err.other")
				continue
			}
			if p[0] == "g" {
				out = append(out, "ep."+vu.X(e))
				continue
			}
			pre = vu.X(e) + "@"
		} else {
			e = vu.UnX(p[1])
		}
		switch p[0] {
		case "e":
			d, err := es.GetEpochDataRaw(e, h)
			if err != nil {
				out = append(out, pre+c26Err(err))
			} else if d == nil {
				out = append(out, pre+"err.nil")
			} else {
				out = append(out, pre+"ok."+vu.X(uint64(d.Randomness[0])))
			}
		case "c":
			d, err := es.GetConfigData(e, h)
			if err != nil {
				out = append(out, pre+c26Err(err))
			} else if d == nil {
				out = append(out, pre+"err.nil")
			} else {
				out = append(out, pre+"ok."+vu.X(d.C1))
			}
		default:
			return "err:badquery"
		}
	}
	return strings.Join(out, " ")
}

func TestVerifC26(t *testing.T) { vu.Run(t, "C26", 600, c26Gen, c26Run) }
