(* C26 driver: rebuilds the block tree and announcements of a case in the extracted model
   (variant `fixed`: the code after fixes/C26-*.patch), replays the queries, and evaluates the
   property predicate on the implementation's answers:
     epoch data  : spec_epoch_data = Some l  ->  answer is ok.d with d in l
                   spec_epoch_data = None    ->  answer is an error (not a value, not a hang)
     config data : answer is ok.d with d in spec_config (latest configuration at or before the
                   epoch that is persisted or announced on the header's own ancestry, else genesis)
     natural epoch (GetEpochForBlock) must be the epoch of the header on its own chain. *)
open Model
open Vutil
(* ModelSkip's definitions are extracted into the same model.ml *)

let lst s = if s = "-" || s = "" then [] else String.split_on_char ';' s
let nat_of_hex s = nat_of_int (int_of_n (n_of_hex s))
let sub s i = String.sub s i (String.length s - i)

let parse_hdr s =
  if s.[0] = 'i' then Imp (nat_of_hex (sub s 1))
  else match String.split_on_char '.' (sub s 1) with
    | [p; sl] -> Fresh (nat_of_hex p, n_of_hex sl)
    | _ -> fail "bad header %s" s

let dump (m : (n * (nat * n) list) list) =
  let m = List.sort (fun (a, _) (b, _) -> compare (int_of_n a) (int_of_n b)) m in
  if m = [] then "-" else
  String.concat ";" (List.map (fun (e, l) ->
    let l = List.sort (fun (a, _) (b, _) -> compare (int_of_nat a) (int_of_nat b)) l in
    hex_of_n e ^ ":" ^ String.concat "+" (List.map (fun (b, d) ->
      Printf.sprintf "%x.%s" (int_of_nat b) (hex_of_n d)) l)) m)

(* split "<res>/ME=..." style tokens *)
let split_slash s = String.split_on_char '/' s

let tok_of_out pre hang = function
  | Ok l -> List.map (fun d -> pre ^ "ok." ^ hex_of_n d) l
  | Err c -> [pre ^ (if int_of_nat c = 1 then "err.epoch" else if int_of_nat c = 2 then "err.hash" else "err.other")]
  | Panic -> ["panic"]
  | OutOfFuel -> hang := true; ["hang"]

let is_err pre o = String.length o >= String.length pre + 4 && String.sub o 0 (String.length pre + 4) = pre ^ "err."

let check inp obs =
  match split_ws inp with
  | ["tree"; elen; bl; al; dl; ql] ->
    let t = List.map (fun b -> match String.split_on_char ',' b with
      | [p; s] -> (nat_of_hex p, n_of_hex s) | _ -> fail "bad block %s" b) (lst bl) in
    if not (wf t) then fail "C26: ill-formed tree %s" inp;
    let nb = List.length t in
    let anns = List.map (fun a -> match String.split_on_char ',' (sub a 1) with
      | [b; d] -> (a.[0], int_of_n (n_of_hex b), n_of_hex d) | _ -> fail "bad ann %s" a) (lst al) in
    let dbs = List.map (fun a -> match String.split_on_char ',' (sub a 1) with
      | [e; d] -> (a.[0], n_of_hex e, n_of_hex d) | _ -> fail "bad db %s" a) (lst dl) in
    let dbe = List.rev (List.filter_map (fun (k, e, d) -> if k = 'e' then Some (e, d) else None) dbs) in
    let dbc = List.rev (List.filter_map (fun (k, e, d) -> if k = 'c' then Some (e, d) else None) dbs) in
    (* the announcements are handled before the database entries are written, but the model's
       announce_* do not look at dbe/dbc, so the initial state may carry them already *)
    let xs = ref (x_init t (n_of_hex elen) dbe dbc) in
    let toks = ref [] in
    for k = 1 to nb do
      List.iter (fun (kind, b, d) -> if b = k then begin
        xs := (if kind = 'e' then x_announce_epoch !xs (nat_of_int b) d else x_announce_config !xs (nat_of_int b) d);
        toks := "a=ok" :: !toks end) anns
    done;
    toks := ("MC=" ^ dump (!xs).x_s.ncd) :: ("ME=" ^ dump (!xs).x_s.ned) :: !toks;
    let pre_toks = List.rev !toks in
    let npre = List.length pre_toks in
    let fuel = enough_fuel t in
    let tags = Hashtbl.create 16 in
    let tag x = Hashtbl.replace tags x () in
    let nontrivial = ref false in
    let hang = ref false in
    let why = ref [] in
    let eq = ref true in
    let model_toks = ref [] in
    let otoks = split_ws obs in
    let qs = lst ql in
    if obs = "hang" then begin
      (* the repaired model never runs out of fuel (C26_epoch_data): a hang is a violation *)
      why := ["hang: a lookup did not return"]; eq := false
    end else if List.length otoks <> npre + List.length qs then begin
      why := ["shape"]; eq := false
    end else begin
      List.iteri (fun i o -> if i < npre then begin
          if o <> List.nth pre_toks i then begin
            eq := false;
            why := (Printf.sprintf "store[%d]: %s expected %s" i o (List.nth pre_toks i)) :: !why end end) otoks;
      let oq = List.filteri (fun i _ -> i >= npre) otoks in
      let restarted = ref false and skipped = ref false in
      List.iteri (fun qi (q, o) ->
        let st = (!xs).x_s in
        let bad fmt = Printf.ksprintf (fun m -> why := (Printf.sprintf "query[%d]=%s %s" qi o m) :: !why) fmt in
        let foreign m ep h = (match alookup m ep with
          | Some entries -> List.exists (fun (b, _) -> not (on_chain t h b)) entries
          | None -> false) in
        match String.split_on_char ',' q with
        | ["R"; _; _] ->
          tag "restart"; restarted := true;
          if !skipped then tag "restart-after-skip";
          let x' = x_restart !xs in
          if List.exists (fun (_, l) -> List.length l > 1) x'.x_s.ned || List.exists (fun (_, l) -> List.length l > 1) x'.x_s.ncd
          then (tag "restart-with-competing-announcements"; nontrivial := true);
          let m = "R/ME=" ^ dump x'.x_s.ned ^ "/MC=" ^ dump x'.x_s.ncd in
          model_toks := m :: !model_toks;
          (* every announcement that was persisted must be back in memory, under its epoch and block *)
          if o <> m then begin eq := false; bad "restored maps differ from the persisted announcements %s" m end;
          xs := x'
        | ["U"; sc; h] ->
          let h = parse_hdr h in
          if not (valid_hdr t h) then fail "C26: bad header in %s" q;
          let (se, ce) = match String.split_on_char '.' sc with
            | [a; b] -> (n_of_hex a, n_of_hex b) | _ -> fail "bad skipped query %s" q in
          skipped := true;
          if foreign st.ncd se h then nontrivial := true;
          (match update_skipped fixed true fuel st se ce h with
           | Ok alts ->
             tag "U-ok";
             if foreign st.ncd se h && announced t st.ncd se h = [] && alookup st.dbc se = None then tag "U-past-competing-fork";
             let acc = List.map (fun (s' : est) -> ("ok/MC=" ^ dump s'.ncd, s')) alts in
             model_toks := String.concat "|" (List.map fst acc) :: !model_toks;
             (match List.find_opt (fun (tk, _) -> tk = o) acc with
              | Some (_, s') -> xs := { !xs with x_s = s' }
              | None -> eq := false; xs := { !xs with x_s = snd (List.hd acc) })
           | Err c ->
             tag "U-err";
             let m = List.hd (tok_of_out "" hang (Err c)) ^ "/MC=" ^ dump st.ncd in
             model_toks := m :: !model_toks; if o <> m then eq := false
           | _ ->
             (* the skipped epoch's data is not in the database: the Go code would die in the lock
                mix-up of updateSkippedEpochDataRaw; the harness does not make the call *)
             tag "U-not-run(fatal-lock-path)";
             let m = "skip/MC=" ^ dump st.ncd in
             model_toks := m :: !model_toks; if o <> m then eq := false);
          (* specification: the re-keying never fails (C26_update_skipped_total): what another fork
             announced must not keep this block from being imported *)
          if not (String.length o >= 3 && (String.sub o 0 3 = "ok/" || (String.length o >= 5 && String.sub o 0 5 = "skip/"))) then
            bad "UpdateSkippedEpochDefinitions failed"
        | [("E" | "C") as k; sc; h] ->
          let h = parse_hdr h in
          if not (valid_hdr t h) then fail "C26: bad header in %s" q;
          let (se, ce) = match String.split_on_char '.' sc with
            | [a; b] -> (n_of_hex a, n_of_hex b) | _ -> fail "bad skipped query %s" q in
          skipped := true;
          let (ores, odump) = match split_slash o with [a; b] -> (a, b) | _ -> (o, "") in
          let isE = (k = "E") in
          let r = if isE then get_skipped_epoch_data fixed fuel st se ce h
                  else get_skipped_config fixed true fuel st se ce h in
          let dump_of (s' : est) = if isE then "ME=" ^ dump s'.ned else "MC=" ^ dump s'.ncd in
          if foreign (if isE then st.ned else st.ncd) se h then nontrivial := true;
          (match r with
           | Ok alts ->
             tag (if isE then "E-ok" else "C-ok");
             if List.exists (fun (_, (s' : est)) -> s'.dbe <> st.dbe || s'.dbc <> st.dbc) alts then tag (k ^ "-moved-in-database")
             else if List.exists (fun (_, (s' : est)) -> s'.ned <> st.ned || s'.ncd <> st.ncd) alts then tag (k ^ "-moved-in-memory")
             else tag (k ^ "-genesis-or-fallback");
             let acc = List.map (fun (d, s') -> ("ok." ^ hex_of_n d ^ "/" ^ dump_of s', s')) alts in
             model_toks := String.concat "|" (List.map fst acc) :: !model_toks;
             (match List.find_opt (fun (tk, _) -> tk = o) acc with
              | Some (_, s') -> xs := { !xs with x_s = s' }
              | None -> eq := false; xs := { !xs with x_s = snd (List.hd acc) })
           | Err c ->
             tag (if isE then "E-err" else "C-err");
             let m = List.hd (tok_of_out "" hang (Err c)) ^ "/" ^ dump_of st in
             model_toks := m :: !model_toks;
             if o <> m then eq := false
           | _ -> hang := true; eq := false; model_toks := "hang" :: !model_toks);
          (* specification: the skipped lookup answers like the plain lookup for the skipped epoch *)
          if isE then (match spec_epoch_data st se h with
            | Some l -> if not (List.mem ores (List.map (fun d -> "ok." ^ hex_of_n d) l)) then
                bad "GetSkippedEpochDataRaw: expected one of %s" (String.concat "|" (List.map hex_of_n l))
            | None -> if not (is_err "" ores) then bad "GetSkippedEpochDataRaw: expected an error")
          else begin
            let sp = spec_config st se h in
            if not (List.mem ores (List.map (fun d -> "ok." ^ hex_of_n d) sp)) then
              bad "GetSkippedConfigData: expected one of %s" (String.concat "|" (List.map hex_of_n sp));
            if foreign st.ncd se h && announced t st.ncd se h = [] && alookup st.dbc se = None then tag "C-fallback-past-competing-fork"
          end;
          ignore odump
        | [k; e; h] ->
          let h = parse_hdr h in
          if not (valid_hdr t h) then fail "C26: bad header in %s" q;
          let nat = (e = "n") || k = "g" in
          let ep = if nat then epoch_of t st.e_len h else n_of_hex e in
          let pre = if nat && k <> "g" then hex_of_n ep ^ "@" else "" in
          tag (match h with Imp _ -> "hdr-imported" | Fresh _ -> "hdr-not-imported");
          let after = (if !restarted then "-after-restart" else "") in
          (match k with
           | "g" -> tag "q-epoch";
             let m = "ep." ^ hex_of_n ep in
             model_toks := m :: !model_toks;
             if o <> m then begin eq := false; bad "GetEpochForBlock: expected %s" m end
           | "e" ->
             let r = get_epoch_data fixed fuel st ep h in
             let sp = spec_epoch_data st ep h in
             if foreign st.ned ep h then nontrivial := true;
             (match r with
              | Ok l -> tag ((if List.length l > 1 then "e-ok-ambiguous" else "e-ok") ^ after);
                        if foreign st.ned ep h then tag ("e-ok-with-competing-fork" ^ after)
              | Err c -> tag (if int_of_nat c = 1 then "e-err-epoch-not-in-memory" else "e-err-not-on-own-fork")
              | _ -> tag "e-model-hang");
             let acc = tok_of_out pre hang r in
             model_toks := String.concat "|" acc :: !model_toks;
             if not (List.mem o acc) then eq := false;
             (match sp with
              | Some l -> if not (List.mem o (List.map (fun d -> pre ^ "ok." ^ hex_of_n d) l)) then
                  bad "violates the spec (model: %s)" (String.concat "|" acc)
              | None -> if not (is_err pre o) then bad "violates the spec: expected an error (model: %s)" (String.concat "|" acc))
           | "c" ->
             let r = get_config fixed fuel st ep h in
             let sp = spec_config st ep h in
             if foreign st.ncd ep h then nontrivial := true;
             (match r with
              | Ok l ->
                tag ((if l = [genesis_id] then "c-genesis" else if List.length l > 1 then "c-ok-ambiguous" else "c-ok") ^ after);
                if foreign st.ncd ep h && announced t st.ncd ep h = [] then tag "c-fallback-past-competing-fork"
              | Err _ -> tag "c-err"
              | _ -> tag "c-model-hang");
             let acc = tok_of_out pre hang r in
             model_toks := String.concat "|" acc :: !model_toks;
             if not (List.mem o acc) then eq := false;
             if not (List.mem o (List.map (fun d -> pre ^ "ok." ^ hex_of_n d) sp)) then
               bad "violates the spec (model: %s)" (String.concat "|" acc)
           | _ -> fail "bad query %s" q)
        | _ -> fail "bad query %s" q) (List.combine qs oq);
      if !hang then eq := false
    end;
    let prop = (!why = []) in
    let model_s = String.concat " " (pre_toks @ List.rev !model_toks) in
    { prop_ok = prop; model_eq = !eq; nontrivial = !nontrivial; finding = "-";
      tags = String.concat "," (List.sort compare (Hashtbl.fold (fun k () a -> k :: a) tags []));
      detail = (if prop && !eq then "" else Printf.sprintf "%s model=%s" (String.concat "; " (List.rev !why)) model_s) }
  | _ -> fail "C26: bad input %s" inp

(* vm_compute cross-check: the whole case re-run inside Coq (ModelSkip.vm_case) *)
let coq inp obs =
  let coq_nat i = Printf.sprintf "(%d)%%nat" i in
  let hx s = int_of_n (n_of_hex s) in
  let coq_hdr = function
    | Imp i -> Printf.sprintf "(Imp %s)" (coq_nat (int_of_nat i))
    | Fresh (p, s) -> Printf.sprintf "(Fresh %s %s)" (coq_nat (int_of_nat p)) (coq_n s) in
  let coq_emap s =
    if s = "-" then "[]" else
    "[" ^ String.concat "; " (List.map (fun el -> match String.split_on_char ':' el with
      | [e; l] -> Printf.sprintf "(%s, [%s])" (coq_n (n_of_hex e))
          (if l = "" then "" else String.concat "; " (List.map (fun bd -> match String.split_on_char '.' bd with
             | [b; d] -> Printf.sprintf "(%s, %s)" (coq_nat (hx b)) (coq_n (n_of_hex d))
             | _ -> raise Exit) (String.split_on_char '+' l)))
      | _ -> raise Exit) (String.split_on_char ';' s)) ^ "]" in
  let strip p s = let l = String.length p in
    if String.length s >= l && String.sub s 0 l = p then String.sub s l (String.length s - l) else raise Exit in
  let res s =
    if String.length s > 3 && String.sub s 0 3 = "ok." then `Ok (n_of_hex (sub s 3))
    else if s = "err.epoch" then `Err 1 else if s = "err.hash" then `Err 2
    else if s = "err.other" then `Err 3 else raise Exit in
  match split_ws inp with
  | ["tree"; elen; bl; al; dl; ql] ->
    (try
      let t = List.map (fun b -> match String.split_on_char ',' b with
        | [p; s] -> (hx p, n_of_hex s) | _ -> raise Exit) (lst bl) in
      let nb = List.length t in
      let anns = List.map (fun a -> match String.split_on_char ',' (sub a 1) with
        | [b; d] -> (a.[0], hx b, n_of_hex d) | _ -> raise Exit) (lst al) in
      let ordered = List.concat (List.init nb (fun k -> List.filter (fun (_, b, _) -> b = k + 1) anns)) in
      let dbs = List.map (fun a -> match String.split_on_char ',' (sub a 1) with
        | [e; d] -> (a.[0], n_of_hex e, n_of_hex d) | _ -> raise Exit) (lst dl) in
      let db k = List.rev (List.filter_map (fun (k', e, d) -> if k' = k then Some (e, d) else None) dbs) in
      let coq_db l = "[" ^ String.concat "; " (List.map (fun (e, d) -> Printf.sprintf "(%s, %s)" (coq_n e) (coq_n d)) l) ^ "]" in
      let otoks = split_ws obs in
      let na = List.length ordered in
      let qs = lst ql in
      if List.length otoks <> na + 2 + List.length qs then raise Exit;
      List.iteri (fun i o -> if i < na && o <> "a=ok" then raise Exit) otoks;
      let me = coq_emap (strip "ME=" (List.nth otoks na)) and mc = coq_emap (strip "MC=" (List.nth otoks (na + 1))) in
      let oq = List.filteri (fun i _ -> i >= na + 2) otoks in
      let vo_plain o = match res o with
        | `Ok d -> Printf.sprintf "VOok %s" (coq_n d) | `Err c -> Printf.sprintf "VOerr %s" (coq_nat c) in
      let one (q, o) = match String.split_on_char ',' q with
        | ["R"; _; _] ->
          (match String.split_on_char '/' o with
           | ["R"; a; b] -> Printf.sprintf "(VQR, VOr %s %s)" (coq_emap (strip "ME=" a)) (coq_emap (strip "MC=" b))
           | _ -> raise Exit)
        | [("E" | "C") as k; sc; h] ->
          let (se, ce) = match String.split_on_char '.' sc with [a; b] -> (n_of_hex a, n_of_hex b) | _ -> raise Exit in
          (match String.split_on_char '/' o with
           | [r; m] ->
             let m = coq_emap (strip (if k = "E" then "ME=" else "MC=") m) in
             Printf.sprintf "(VQ%s %s %s %s, %s)" k (coq_n se) (coq_n ce) (coq_hdr (parse_hdr h))
               (match res r with `Ok d -> Printf.sprintf "VOokm %s %s" (coq_n d) m | `Err c -> Printf.sprintf "VOerrm %s %s" (coq_nat c) m)
           | _ -> raise Exit)
        | ["g"; _; h] -> Printf.sprintf "(VQg %s, VOep %s)" (coq_hdr (parse_hdr h)) (coq_n (n_of_hex (strip "ep." o)))
        | [("e" | "c") as k; e; h] ->
          if e = "n" then (match String.split_on_char '@' o with
            | [ep; r] -> Printf.sprintf "(VQ%s true %s %s, %s)" k (coq_n (n_of_hex ep)) (coq_hdr (parse_hdr h)) (vo_plain r)
            | _ -> raise Exit)
          else Printf.sprintf "(VQ%s false %s %s, %s)" k (coq_n (n_of_hex e)) (coq_hdr (parse_hdr h)) (vo_plain o)
        | _ -> raise Exit in
      Some (Printf.sprintf "vm_case [%s] %s [%s] %s %s %s %s [%s]"
        (String.concat "; " (List.map (fun (p, s) -> Printf.sprintf "(%s, %s)" (coq_nat p) (coq_n s)) t))
        (coq_n (n_of_hex elen))
        (String.concat "; " (List.map (fun (k, b, d) -> Printf.sprintf "(%s, %s, %s)" (if k = 'e' then "true" else "false") (coq_nat b) (coq_n d)) ordered))
        (coq_db (db 'e')) (coq_db (db 'c')) me mc
        (String.concat "; " (List.map one (List.combine qs oq))))
    with Exit | Failure _ | Not_found | Invalid_argument _ -> None)
  | _ -> None

let () = run_driver ~coq check
