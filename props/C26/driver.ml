(* C26 driver: rebuilds the block tree and announcements of a case in the extracted model
   (variant `fixed`: the code after fixes/C26-*.patch), replays the queries, and evaluates the
   property predicate on the implementation's answers:
     epoch data  : spec_epoch_data = Some l  ->  answer is ok.d with d in l
                   spec_epoch_data = None    ->  answer is an error (not a value, not a hang)
     config data : answer is ok.d with d in spec_config (latest configuration at or before the
                   epoch that is persisted or announced on the header's own ancestry, else genesis)
     natural epoch (GetEpochForBlock) must be the epoch of the header on its own chain. *)
open Model
open Vutil

let lst s = if s = "-" || s = "" then [] else String.split_on_char ';' s
let nat_of_hex s = nat_of_int (int_of_n (n_of_hex s))
let sub s i = String.sub s i (String.length s - i)

let parse_hdr s =
  if s.[0] = 'i' then Imp (nat_of_hex (sub s 1))
  else match String.split_on_char '.' (sub s 1) with
    | [p; sl] -> Fresh (nat_of_hex p, n_of_hex sl)
    | _ -> fail "bad header %s" s

let dump (m : (n * (nat * n) list) list) =
  let m = List.sort (fun (a, _) (b, _) -> compare (int_of_n a) (int_of_n b)) m in
  if m = [] then "-" else
  String.concat ";" (List.map (fun (e, l) ->
    let l = List.sort (fun (a, _) (b, _) -> compare (int_of_nat a) (int_of_nat b)) l in
    hex_of_n e ^ ":" ^ String.concat "+" (List.map (fun (b, d) ->
      Printf.sprintf "%x.%s" (int_of_nat b) (hex_of_n d)) l)) m)

let check inp obs =
  match split_ws inp with
  | ["tree"; elen; bl; al; dl; ql] ->
    let t = List.map (fun b -> match String.split_on_char ',' b with
      | [p; s] -> (nat_of_hex p, n_of_hex s) | _ -> fail "bad block %s" b) (lst bl) in
    if not (wf t) then fail "C26: ill-formed tree %s" inp;
    let nb = List.length t in
    let anns = List.map (fun a -> match String.split_on_char ',' (sub a 1) with
      | [b; d] -> (a.[0], int_of_n (n_of_hex b), n_of_hex d) | _ -> fail "bad ann %s" a) (lst al) in
    let dbs = List.map (fun a -> match String.split_on_char ',' (sub a 1) with
      | [e; d] -> (a.[0], n_of_hex e, n_of_hex d) | _ -> fail "bad db %s" a) (lst dl) in
    let dbe = List.rev (List.filter_map (fun (k, e, d) -> if k = 'e' then Some (e, d) else None) dbs) in
    let dbc = List.rev (List.filter_map (fun (k, e, d) -> if k = 'c' then Some (e, d) else None) dbs) in
    let st = ref { e_tree = t; e_len = n_of_hex elen; ned = []; ncd = []; dbe; dbc } in
    let toks = ref [] in
    for k = 1 to nb do
      List.iter (fun (kind, b, d) -> if b = k then begin
        st := (if kind = 'e' then announce_epoch !st (nat_of_int b) d else announce_config !st (nat_of_int b) d);
        toks := "a=ok" :: !toks end) anns
    done;
    let st = !st in
    toks := ("MC=" ^ dump st.ncd) :: ("ME=" ^ dump st.ned) :: !toks;
    let pre_toks = List.rev !toks in
    let fuel = enough_fuel t in
    let tags = Hashtbl.create 16 in
    let tag x = Hashtbl.replace tags x () in
    let nontrivial = ref false in
    let hang = ref false in
    (* per query: (model acceptable tokens, spec check function on the observed token) *)
    let queries = List.map (fun q -> match String.split_on_char ',' q with
      | [k; e; h] ->
        let h = parse_hdr h in
        if not (valid_hdr t h) then fail "C26: bad header in %s" q;
        let nat = (e = "n") || k = "g" in
        let ep = if nat then epoch_of t st.e_len h else n_of_hex e in
        let pre = if nat && k <> "g" then hex_of_n ep ^ "@" else "" in
        tag (match h with Imp _ -> "hdr-imported" | Fresh _ -> "hdr-not-imported");
        let tok_of = function
          | Ok l -> List.map (fun d -> pre ^ "ok." ^ hex_of_n d) l
          | Err c -> [pre ^ (if int_of_nat c = 1 then "err.epoch" else if int_of_nat c = 2 then "err.hash" else "err.other")]
          | Panic -> ["panic"]
          | OutOfFuel -> hang := true; ["hang"] in
        let foreign m = (match alookup m ep with
          | Some entries -> List.exists (fun (b, _) -> not (on_chain t h b)) entries
          | None -> false) in
        (match k with
         | "g" -> tag "q-epoch"; (["ep." ^ hex_of_n ep], (fun o -> o = "ep." ^ hex_of_n ep))
         | "e" ->
           let r = get_epoch_data fixed fuel st ep h in
           let sp = spec_epoch_data st ep h in
           if foreign st.ned then nontrivial := true;
           (match r with
            | Ok l -> tag (if List.length l > 1 then "e-ok-ambiguous" else "e-ok");
                      if foreign st.ned then tag "e-ok-with-competing-fork"
            | Err c -> tag (if int_of_nat c = 1 then "e-err-epoch-not-in-memory" else "e-err-not-on-own-fork")
            | _ -> tag "e-model-hang");
           (tok_of r, (fun o -> match sp with
              | Some l -> List.mem o (List.map (fun d -> pre ^ "ok." ^ hex_of_n d) l)
              | None -> String.length o >= String.length pre + 4
                        && String.sub o 0 (String.length pre + 4) = pre ^ "err."))
         | "c" ->
           let r = get_config fixed fuel st ep h in
           let sp = spec_config st ep h in
           if foreign st.ncd then nontrivial := true;
           (match r with
            | Ok l ->
              tag (if l = [genesis_id] then "c-genesis" else if List.length l > 1 then "c-ok-ambiguous" else "c-ok");
              if foreign st.ncd && announced t st.ncd ep h = [] then tag "c-fallback-past-competing-fork"
            | Err c -> tag "c-err"
            | _ -> tag "c-model-hang");
           (tok_of r, (fun o -> List.mem o (List.map (fun d -> pre ^ "ok." ^ hex_of_n d) sp)))
         | _ -> fail "bad query %s" q)
      | _ -> fail "bad query %s" q) (lst ql) in
    let otoks = split_ws obs in
    let npre = List.length pre_toks in
    let why = ref [] in
    let eq = ref true in
    if obs = "hang" then begin
      why := ["hang: a lookup did not return"]; eq := !hang
    end else if !hang then begin eq := false end
    else if List.length otoks <> npre + List.length queries then begin
      why := ["shape"]; eq := false
    end else begin
      List.iteri (fun i o ->
        if i < npre then begin
          if o <> List.nth pre_toks i then begin
            eq := false;
            (* the announcement bookkeeping (target epoch on the block's own chain) is part of the property *)
            why := (Printf.sprintf "store[%d]: %s expected %s" i o (List.nth pre_toks i)) :: !why end
        end else begin
          let (acc, spec) = List.nth queries (i - npre) in
          if not (List.mem o acc) then eq := false;
          if not (spec o) then why := (Printf.sprintf "query[%d]=%s violates the spec (model: %s)" (i - npre) o (String.concat "|" acc)) :: !why
        end) otoks
    end;
    let prop = (!why = []) in
    let model_s = String.concat " " (pre_toks @ List.map (fun (acc, _) -> String.concat "|" acc) queries) in
    { prop_ok = prop; model_eq = !eq; nontrivial = !nontrivial; finding = "-";
      tags = String.concat "," (List.sort compare (Hashtbl.fold (fun k () a -> k :: a) tags []));
      detail = (if prop && !eq then "" else Printf.sprintf "%s model=%s" (String.concat "; " (List.rev !why)) model_s) }
  | _ -> fail "C26: bad input %s" inp

let () = run_driver check
