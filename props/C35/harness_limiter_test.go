// C35 harness for a real user of the LRU cache: dot/network/ratelimiters.SlidingWindowRateLimiter
// (LRUCache[common.Hash, []time.Time], capacity DefaultMaxCachedRequestSize = 500).
//
// input:  rl <maxReqs> <op>...     a:<id> AddRequest(hash of id)   q:<id> IsLimitExceeded(hash of id)
// observed: one token per op:  u  (AddRequest)  |  b:0 | b:1  (IsLimitExceeded)
//
// The window is one hour, so no time stamp expires during a case: the limiter is then a counter per
// id kept in the LRU cache (AddRequest = Get, Put count+1; IsLimitExceeded = Get, Put count — which
// also inserts an unknown id with count 0 and refreshes recency); an id evicted by 500 other ids
// starts again at 0.  The driver replays this on the recency-list specification with capacity 500.
package ratelimiters

import (
	"fmt"
	"strings"
	"testing"
	"time"

	vu "github.com/ChainSafe/gossamer/internal/verifutil"
	"github.com/ChainSafe/gossamer/lib/common"
)

func c35lHash(k uint64) common.Hash {
	var h common.Hash
	for i := 0; i < 8; i++ {
		h[31-i] = byte(k >> (8 * i))
	}
	return h
}

func c35lRun(in string) string {
	f := strings.Split(in, " ")
	if f[0] != "rl" || len(f) < 2 {
		return "err:badinput"
	}
	rl := NewSlidingWindowRateLimiter(uint32(vu.UnX(f[1])), time.Hour)
	out := make([]string, 0, len(f))
	for _, op := range f[2:] {
		p := strings.Split(op, ":")
		switch p[0] {
		case "a":
			rl.AddRequest(c35lHash(vu.UnX(p[1])))
			out = append(out, "u")
		case "q":
			if rl.IsLimitExceeded(c35lHash(vu.UnX(p[1]))) {
				out = append(out, "b:1")
			} else {
				out = append(out, "b:0")
			}
		default:
			out = append(out, "badop")
		}
	}
	if len(out) == 0 {
		return "-"
	}
	return strings.Join(out, " ")
}

func c35lGen(r *vu.RNG, n int, emit func(string)) {
	emit("rl 2 q:1 a:1 a:1 q:1 a:1 q:1 q:2")
	for c := 0; c < n; c++ {
		max := r.Range(1, 3)
		var ops []string
		switch c % 3 {
		case 0: // few ids, counters cross the limit
			ids := r.Range(1, 4)
			for i := 0; i < r.Range(5, 40); i++ {
				if r.Chance(2, 3) {
					ops = append(ops, fmt.Sprintf("a:%x", r.Intn(ids)))
				} else {
					ops = append(ops, fmt.Sprintf("q:%x", r.Intn(ids)))
				}
			}
		default: // more ids than the cache holds: an id pushed over the limit is forgotten (or not,
			// when it was used recently enough) once 500 other ids came by
			victim := uint64(1000)
			for i := 0; i <= max+1; i++ {
				ops = append(ops, fmt.Sprintf("a:%x", victim))
			}
			ops = append(ops, fmt.Sprintf("q:%x", victim))
			others := DefaultMaxCachedRequestSize - 2 + r.Intn(5)
			for i := 0; i < others; i++ {
				if i == others/2 && r.Chance(1, 2) {
					ops = append(ops, fmt.Sprintf("q:%x", victim)) // refreshes the victim
				}
				if r.Chance(1, 2) {
					ops = append(ops, fmt.Sprintf("a:%x", i))
				} else {
					ops = append(ops, fmt.Sprintf("q:%x", i))
				}
			}
			ops = append(ops, fmt.Sprintf("q:%x", victim), "q:0", "q:1", fmt.Sprintf("q:%x", victim))
		}
		emit(fmt.Sprintf("rl %x %s", max, strings.Join(ops, " ")))
	}
}

func TestVerifC35Limiter(t *testing.T) { vu.Run(t, "C35", 12, c35lGen, c35lRun) }
