// C35 harness for a real user of the LRU cache: pkg/trie/cache/inmemory.TrieInMemoryCache node cache
// (LRUCache[string, []byte], capacity defaultNodeCacheMaxElements = 10000).
//
// input:  tc <fill> <op>...    first SetNode(key i, value i+1) for i = 0..fill-1 (hex count), then
//                              s:<k>:<v> SetNode   n:<k> GetNode      (key k = "n" + 8 bytes of k)
// observed: one token per op after the fill:  u | v:<n>   (value n = minimal big-endian bytes;
//           a missing node and the empty value both read as 0)
package inmemory

import (
	"encoding/binary"
	"fmt"
	"strings"
	"testing"

	vu "github.com/ChainSafe/gossamer/internal/verifutil"
)

func c35tKey(k uint64) []byte {
	b := make([]byte, 9)
	b[0] = 'n'
	binary.BigEndian.PutUint64(b[1:], k)
	return b
}

func c35tBytes(v uint64) []byte {
	var b []byte
	for v > 0 {
		b = append([]byte{byte(v)}, b...)
		v >>= 8
	}
	return b
}

func c35tRun(in string) string {
	f := strings.Split(in, " ")
	if f[0] != "tc" || len(f) < 2 {
		return "err:badinput"
	}
	tc := NewTrieInMemoryCache()
	fill := vu.UnX(f[1])
	for i := uint64(0); i < fill; i++ {
		tc.SetNode(c35tKey(i), c35tBytes(i+1))
	}
	out := make([]string, 0, len(f))
	for _, op := range f[2:] {
		p := strings.Split(op, ":")
		switch p[0] {
		case "s":
			tc.SetNode(c35tKey(vu.UnX(p[1])), c35tBytes(vu.UnX(p[2])))
			out = append(out, "u")
		case "n":
			var v uint64
			for _, x := range tc.GetNode(c35tKey(vu.UnX(p[1]))) {
				v = v<<8 | uint64(x)
			}
			out = append(out, "v:"+vu.X(v))
		default:
			out = append(out, "badop")
		}
	}
	if len(out) == 0 {
		return "-"
	}
	return strings.Join(out, " ")
}

func c35tGen(r *vu.RNG, n int, emit func(string)) {
	emit("tc 3 n:0 n:1 n:5 s:5:9 n:5")
	for c := 0; c < n; c++ {
		fill := defaultNodeCacheMaxElements - r.Intn(3) // full, or one / two short of full
		var ops []string
		ops = append(ops, "n:0") // refresh the oldest node
		for i := 0; i < r.Range(3, 8); i++ {
			k := defaultNodeCacheMaxElements + 10 + i
			ops = append(ops, fmt.Sprintf("s:%x:%x", k, 7+i))
		}
		// who is still there: the refreshed one, the next oldest ones, the newest
		ops = append(ops, "n:0", "n:1", "n:2", "n:3", "n:4", "n:5", "n:6", "n:7",
			fmt.Sprintf("n:%x", defaultNodeCacheMaxElements+10), fmt.Sprintf("n:%x", fill-1), "s:1:3", "n:1")
		emit(fmt.Sprintf("tc %x %s", fill, strings.Join(ops, " ")))
	}
}

func TestVerifC35TrieCache(t *testing.T) { vu.Run(t, "C35", 2, c35tGen, c35tRun) }
