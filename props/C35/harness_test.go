// C35 correspondence harness (injected into package lib/utils/lru-cache by `go test -overlay`).
//
// inputs (fields separated by one space, numbers in hex):
//
//	seq <cap> <op>...                      one cache, operations applied sequentially
//	conc <cap> <prefill> <prog0> <prog1>...  prefill sequentially, then one goroutine per prog
//	                                       (a prog is ops joined by ',', "-" when empty)
//	concl <cap> <prefill> <prog0> ...      the same in lockstep: a spin barrier before every call,
//	                                       so that the i-th calls of all programs run at once
//	concg <cap> <prefill> <prog0> ...      lockstep, and the harness holds c.Lock() until all calls
//	                                       of the round are pending
//	probe <method> <x|r>                   hold c.Lock() (x) or c.RLock() (r) in the harness and
//	                                       call the method from another goroutine
//	typed <hu|ht|sb> <cap> <op>...         the same g/p operations on the instantiations the three
//	                                       users of the cache have: hu LRUCache[common.Hash,uint]
//	                                       (dot/sync request de-dup), ht LRUCache[common.Hash,[]time.Time]
//	                                       (rate limiter: value n = a slice of n time stamps),
//	                                       sb LRUCache[string,[]byte] (trie node cache: value n = its
//	                                       minimal big-endian bytes); key k = hash / string of k
//	shape <method>                         the critical-section shape of the method, read from
//	                                       lru_cache.go with go/parser (see c35Shape)
//	ops:  g:<k>   Get(k)      p:<k>:<v>   Put(k,v)     d   dump (harness, under c.Lock())
//
// observables:
//
//	seq   -> one result per op:  v:<n> | u | l:<k>=<v>,...  | l:- | corrupt:<why> | panic
//	conc  -> one record per completed call, in no particular order:
//	         <tid>/<call stamp>/<ret stamp>/<op>/<result>     stamps from one atomic counter;
//	         prefill records have tid fe, the final dump has tid ff
//	probe -> blocked | ran:same | ran:changed   (did the call finish while the harness held the
//	         lock, and did the recency order change meanwhile)
//
//	shape -> <locks>:<unlocks>:<deferred unlocks>:<other lock calls>:<recv.Lock() first>:
//	         <defer recv.Unlock() next>     (hex; "missing" when there is no such method)
//
// In gate mode the harness keeps the lock for 1.5 ms after the last call of the round is pending: then
// releases it and takes it back at once (barging) for 0.1 ms.  The caller woken by the release finds
// the mutex taken after having waited longer than 1 ms and switches it to starvation mode (FIFO
// hand-off, no barging), so a method that takes the lock twice is really interleaved with the other
// calls of the round.
//
// The conc and probe cases depend on the scheduler: their observables are histories, every one of
// which must be linearizable (conc) / must not show a mutation under a lock held by someone else.
package lrucache

import (
	"fmt"
	"go/ast"
	"go/parser"
	"go/token"
	"os"
	"runtime"
	"strings"
	"sync"
	"sync/atomic"
	"testing"
	"time"

	vu "github.com/ChainSafe/gossamer/internal/verifutil"
	"github.com/ChainSafe/gossamer/lib/common"
)

type c35Cache = LRUCache[uint64, uint64]

// c35Dump walks the list front to back (bounded), checks it against the map and the
// backward links, and renders it.
func c35DumpLocked(c *c35Cache) string {
	n := c.lruList.Len()
	bound := n + len(c.cache) + 2
	var items []string
	var elems []interface{}
	cnt := 0
	for e := c.lruList.Front(); e != nil; e = e.Next() {
		cnt++
		if cnt > bound {
			return "corrupt:cycle"
		}
		ent, ok := e.Value.(*Entry[uint64, uint64])
		if !ok || ent == nil {
			return "corrupt:value"
		}
		if c.cache[ent.key] != e {
			return "corrupt:map"
		}
		items = append(items, vu.X(ent.key)+"="+vu.X(ent.value))
		elems = append(elems, e)
	}
	if cnt != n || n != len(c.cache) {
		return "corrupt:len"
	}
	i := len(elems) - 1
	cnt = 0
	for e := c.lruList.Back(); e != nil; e = e.Prev() {
		cnt++
		if cnt > bound || i < 0 || elems[i] != interface{}(e) {
			return "corrupt:prev"
		}
		i--
	}
	if i != -1 {
		return "corrupt:prev"
	}
	if len(items) == 0 {
		return "l:-"
	}
	return "l:" + strings.Join(items, ",")
}

func c35Dump(c *c35Cache) string {
	c.Lock()
	defer c.Unlock()
	return c35DumpLocked(c)
}

func c35Do(c *c35Cache, op string) (res string) {
	defer func() {
		if p := recover(); p != nil {
			res = "panic"
		}
	}()
	f := strings.Split(op, ":")
	switch f[0] {
	case "g":
		return "v:" + vu.X(c.Get(vu.UnX(f[1])))
	case "p":
		c.Put(vu.UnX(f[1]), vu.UnX(f[2]))
		return "u"
	case "d":
		return c35Dump(c)
	}
	return "badop"
}

func c35Prog(s string) []string {
	if s == "-" || s == "" {
		return nil
	}
	return strings.Split(s, ",")
}

type c35Rec struct {
	tid       int
	call, ret uint64
	op, res   string
}

// c35Barrier is a sense-reversing spin barrier: the goroutines leave it within nanoseconds of
// each other, so the calls that follow really run at the same time.
type c35Barrier struct {
	n     int32
	count atomic.Int32
	gen   atomic.Int32
}

func (b *c35Barrier) wait() {
	g := b.gen.Load()
	if b.count.Add(1) == b.n {
		b.count.Store(0)
		b.gen.Add(1)
		return
	}
	for i := 0; b.gen.Load() == g; i++ {
		if i > 3000 {
			runtime.Gosched()
		}
	}
}

// mode "conc": free running; "concl": a barrier before every call (round i = the i-th call of
// every program, all at once); "concg": as concl, and the harness holds c.Lock() until every
// goroutine of the round has stamped its call, so that all calls of a round are pending together
// whatever the machine load is.
func c35Conc(capacity uint, prefill []string, progs [][]string, mode string) string {
	lockstep := mode != "conc"
	gate := mode == "concg"
	c := NewLRUCache[uint64, uint64](capacity)
	var clock atomic.Uint64
	var all []c35Rec
	for _, op := range prefill {
		k := clock.Add(1)
		r := c35Do(c, op)
		all = append(all, c35Rec{0xfe, k, clock.Add(1), op, r})
	}
	T := len(progs)
	recs := make([][]c35Rec, T)
	rounds := 0
	for _, p := range progs {
		if len(p) > rounds {
			rounds = len(p)
		}
	}
	bar := &c35Barrier{n: int32(T)}
	if gate {
		bar.n++ // the harness goroutine takes part
	}
	var called, returned atomic.Int32
	var wg sync.WaitGroup
	for t := 0; t < T; t++ {
		wg.Add(1)
		go func(t int) {
			defer wg.Done()
			if !lockstep {
				bar.wait()
			}
			for i := 0; i < rounds; i++ {
				if lockstep {
					bar.wait()
				}
				if i >= len(progs[t]) {
					continue
				}
				op := progs[t][i]
				k := clock.Add(1)
				called.Add(1)
				r := c35Do(c, op)
				recs[t] = append(recs[t], c35Rec{t, k, clock.Add(1), op, r})
				returned.Add(1)
			}
		}(t)
	}
	if gate {
		want := int32(0)
		for i := 0; i < rounds; i++ {
			for t := 0; t < T; t++ {
				if i < len(progs[t]) {
					want++
				}
			}
			c.Lock()
			bar.wait()
			for called.Load() < want {
				runtime.Gosched()
			}
			time.Sleep(1500 * time.Microsecond) // see the header: starvation mode
			c.Unlock()
			c.Lock() // barge: the woken caller finds the mutex taken again after > 1 ms of waiting
			time.Sleep(100 * time.Microsecond)
			c.Unlock()
			for returned.Load() < want { // the round must drain before the gate closes again
				runtime.Gosched()
			}
		}
	}
	wg.Wait()
	for t := 0; t < T; t++ {
		all = append(all, recs[t]...)
	}
	k := clock.Add(1)
	d := c35Dump(c)
	all = append(all, c35Rec{0xff, k, clock.Add(1), "d", d})
	out := make([]string, len(all))
	for i, r := range all {
		out[i] = fmt.Sprintf("%x/%x/%x/%s/%s", r.tid, r.call, r.ret, r.op, r.res)
	}
	return strings.Join(out, " ")
}

// c35Probe: the harness holds the lock; does the method run anyway, and does it change the
// recency order while the lock is held by someone else?
func c35Probe(method, hold string) string {
	c := NewLRUCache[uint64, uint64](4)
	c.Put(1, 10)
	c.Put(2, 20)
	c.Put(3, 30) // order 3,2,1: key 1 is at the back
	if hold == "x" {
		c.Lock()
	} else {
		c.RLock()
	}
	before := c35DumpLocked(c)
	done := make(chan struct{})
	go func() {
		defer close(done)
		defer func() { _ = recover() }()
		switch method {
		case "Get":
			c.Get(1)
		case "Put":
			c.Put(1, 11)
		}
	}()
	ran := false
	select {
	case <-done:
		ran = true
	case <-time.After(60 * time.Millisecond):
	}
	after := c35DumpLocked(c)
	if hold == "x" {
		c.Unlock()
	} else {
		c.RUnlock()
	}
	<-done
	if !ran {
		return "blocked"
	}
	if before == after {
		return "ran:same"
	}
	return "ran:changed"
}

// c35Shape reads lru_cache.go (the file under test) and reports the critical-section shape of a
// method of LRUCache: calls of <recv>.Lock(), of <recv>.Unlock(), deferred ones among the latter,
// other lock calls (RLock, RUnlock, TryLock, TryRLock), whether <recv>.Lock() is a statement of the
// body before which the receiver is not mentioned, and whether defer <recv>.Unlock() follows it.
// C35_linearizable models a method as ONE exclusive critical section around the body: 1:1:1:0:1:1.
func c35Shape(method string) string {
	fset := token.NewFileSet()
	file, err := parser.ParseFile(fset, "lru_cache.go", nil, 0)
	if err != nil {
		return "err:parse"
	}
	for _, d := range file.Decls {
		fd, ok := d.(*ast.FuncDecl)
		if !ok || fd.Recv == nil || len(fd.Recv.List) != 1 || fd.Body == nil || fd.Name.Name != method {
			continue
		}
		if len(fd.Recv.List[0].Names) != 1 {
			return "err:receiver"
		}
		recv := fd.Recv.List[0].Names[0].Name
		isRecvCall := func(e ast.Expr, name string) bool {
			ce, ok := e.(*ast.CallExpr)
			if !ok {
				return false
			}
			sel, ok := ce.Fun.(*ast.SelectorExpr)
			if !ok || sel.Sel.Name != name {
				return false
			}
			id, ok := sel.X.(*ast.Ident)
			return ok && id.Name == recv
		}
		var locks, unlocks, deferred, other uint64
		ast.Inspect(fd.Body, func(n ast.Node) bool {
			switch x := n.(type) {
			case *ast.DeferStmt:
				if isRecvCall(x.Call, "Unlock") {
					deferred++
				}
			case *ast.CallExpr:
				if sel, ok := x.Fun.(*ast.SelectorExpr); ok {
					switch sel.Sel.Name {
					case "Lock":
						locks++
					case "Unlock":
						unlocks++
					case "RLock", "RUnlock", "TryLock", "TryRLock":
						other++
					}
				}
			}
			return true
		})
		first, second := uint64(0), uint64(0)
		for i, stmt := range fd.Body.List {
			if es, ok := stmt.(*ast.ExprStmt); ok && isRecvCall(es.X, "Lock") {
				first = 1
				if i+1 < len(fd.Body.List) {
					if ds, ok := fd.Body.List[i+1].(*ast.DeferStmt); ok && isRecvCall(ds.Call, "Unlock") {
						second = 1
					}
				}
				break
			}
			mentions := false
			ast.Inspect(stmt, func(n ast.Node) bool {
				if id, ok := n.(*ast.Ident); ok && id.Name == recv {
					mentions = true
				}
				return true
			})
			if mentions {
				break
			}
		}
		return fmt.Sprintf("%x:%x:%x:%x:%x:%x", locks, unlocks, deferred, other, first, second)
	}
	return "missing"
}

func c35Hash(k uint64) common.Hash {
	var h common.Hash
	for i := 0; i < 8; i++ {
		h[31-i] = byte(k >> (8 * i))
	}
	return h
}

func c35Bytes(v uint64) []byte {
	var b []byte
	for v > 0 {
		b = append([]byte{byte(v)}, b...)
		v >>= 8
	}
	return b
}

func c35UnBytes(b []byte) uint64 {
	var v uint64
	for _, x := range b {
		v = v<<8 | uint64(x)
	}
	return v
}

// c35Typed runs g/p operations on one of the instantiations the users of the cache have.
func c35Typed(kind string, capacity uint, ops []string) string {
	var get func(k uint64) uint64
	var put func(k, v uint64)
	switch kind {
	case "hu":
		c := NewLRUCache[common.Hash, uint](capacity)
		get = func(k uint64) uint64 { return uint64(c.Get(c35Hash(k))) }
		put = func(k, v uint64) { c.Put(c35Hash(k), uint(v)) }
	case "ht":
		c := NewLRUCache[common.Hash, []time.Time](capacity)
		t0 := time.Unix(1700000000, 0)
		get = func(k uint64) uint64 { return uint64(len(c.Get(c35Hash(k)))) }
		put = func(k, v uint64) {
			ts := make([]time.Time, v)
			for i := range ts {
				ts[i] = t0.Add(time.Duration(i) * time.Second)
			}
			c.Put(c35Hash(k), ts)
		}
	case "sb":
		c := NewLRUCache[string, []byte](capacity)
		get = func(k uint64) uint64 { return c35UnBytes(c.Get(fmt.Sprintf("node-%x", k))) }
		put = func(k, v uint64) { c.Put(fmt.Sprintf("node-%x", k), c35Bytes(v)) }
	default:
		return "err:badkind"
	}
	out := make([]string, 0, len(ops))
	for _, op := range ops {
		res := func() (r string) {
			defer func() {
				if p := recover(); p != nil {
					r = "panic"
				}
			}()
			f := strings.Split(op, ":")
			switch f[0] {
			case "g":
				return "v:" + vu.X(get(vu.UnX(f[1])))
			case "p":
				put(vu.UnX(f[1]), vu.UnX(f[2]))
				return "u"
			}
			return "badop"
		}()
		out = append(out, res)
	}
	if len(out) == 0 {
		return "-"
	}
	return strings.Join(out, " ")
}

func c35Run(in string) string {
	f := strings.Split(in, " ")
	switch f[0] {
	case "typed":
		return c35Typed(f[1], uint(vu.UnX(f[2])), f[3:])
	case "shape":
		return c35Shape(f[1])
	case "seq":
		c := NewLRUCache[uint64, uint64](uint(vu.UnX(f[1])))
		out := make([]string, 0, len(f)-2)
		for _, op := range f[2:] {
			out = append(out, c35Do(c, op))
		}
		if len(out) == 0 {
			return "-"
		}
		return strings.Join(out, " ")
	case "conc", "concl", "concg":
		progs := make([][]string, 0, len(f)-3)
		for _, p := range f[3:] {
			progs = append(progs, c35Prog(p))
		}
		return c35Conc(uint(vu.UnX(f[1])), c35Prog(f[2]), progs, f[0])
	case "probe":
		return c35Probe(f[1], f[2])
	}
	return "err:badinput"
}

func c35Op(r *vu.RNG, nkeys int, dumps bool) string {
	k := uint64(r.Intn(nkeys))
	switch x := r.Intn(20); {
	case x < 8:
		return "g:" + vu.X(k)
	case x < 19 || !dumps:
		v := uint64(r.Intn(4)) // value 0 (the zero value) on purpose
		if r.Chance(1, 2) {
			v = uint64(r.Intn(1000))
		}
		return "p:" + vu.X(k) + ":" + vu.X(v)
	default:
		return "d"
	}
}

func c35GenSeq(r *vu.RNG) string {
	capacity := r.Range(1, 8)
	if r.Chance(1, 25) {
		capacity = 0 // default capacity 20
	}
	nkeys := capacity + 1 + r.Intn(3)
	if capacity == 0 {
		nkeys = 23
	}
	n := r.Range(4, 50)
	if capacity == 0 {
		n = r.Range(40, 90)
	}
	ops := make([]string, 0, n+2)
	switch r.Intn(4) {
	case 0: // fill exactly to capacity, touch the back, overflow by one
		for k := 0; k < capacity; k++ {
			ops = append(ops, fmt.Sprintf("p:%x:%x", k, k+1))
		}
		ops = append(ops, "g:0", fmt.Sprintf("p:%x:7", capacity), "d")
	case 1: // hammer the back element
		for k := 0; k < capacity; k++ {
			ops = append(ops, fmt.Sprintf("p:%x:%x", k, k+1))
		}
		for i := 0; i < 4; i++ {
			ops = append(ops, fmt.Sprintf("g:%x", i%(capacity+1)))
		}
	}
	for len(ops) < n {
		ops = append(ops, c35Op(r, nkeys, true))
	}
	ops = append(ops, "d")
	return fmt.Sprintf("seq %x %s", capacity, strings.Join(ops, " "))
}

func c35GenConc(r *vu.RNG) string {
	capacity := r.Range(1, 6)
	nkeys := capacity + r.Intn(3)
	if nkeys < 2 {
		nkeys = 2
	}
	T := r.Range(2, 8)
	per := r.Range(3, 64/T)
	pre := make([]string, 0, capacity)
	for k := 0; k < capacity && r.Chance(4, 5); k++ {
		pre = append(pre, fmt.Sprintf("p:%x:%x", k, k+1))
	}
	parts := []string{"-"}
	if len(pre) > 0 {
		parts[0] = strings.Join(pre, ",")
	}
	getHeavy := r.Chance(1, 2)
	for t := 0; t < T; t++ {
		ops := make([]string, per)
		for i := range ops {
			if getHeavy && r.Chance(3, 4) {
				ops[i] = "g:" + vu.X(uint64(r.Intn(nkeys)))
			} else {
				ops[i] = c35Op(r, nkeys, false)
			}
		}
		parts = append(parts, strings.Join(ops, ","))
	}
	kw := []string{"conc", "concl", "concl", "concg", "concg"}[r.Intn(5)]
	return fmt.Sprintf("%s %x %s", kw, capacity, strings.Join(parts, " "))
}

// c35Broken probes the lock discipline directly: when a method runs while the harness holds the
// lock, the concurrent cases are not run (unsynchronised map writes make the Go runtime abort the
// whole process, and the trace with it); the probe cases report the defect.
func c35Broken() bool {
	for _, m := range []string{"Get", "Put"} {
		for _, h := range []string{"x", "r"} {
			if c35Probe(m, h) != "blocked" {
				return true
			}
		}
	}
	return false
}

func c35Gen(r *vu.RNG, n int, emit func(string)) {
	mode := os.Getenv("VERIF_MODE")
	for _, m := range []string{"Get", "Put"} {
		emit("probe " + m + " x")
		emit("probe " + m + " r")
	}
	emit("shape Get")
	emit("shape Put")
	broken := c35Broken()
	if mode == "stress" { // concurrent histories only (run under -race in the thorough tier)
		for i := 0; i < n && !broken; i++ {
			emit(c35GenConc(r))
		}
		return
	}
	emit("seq 0")
	emit("seq 1 g:0 p:0:0 g:0 d p:1:5 d g:0 g:1")
	emit("seq 2 p:1:a p:2:14 g:1 p:3:1e d")
	nconc := n / 25
	for i := 0; i < n; i++ {
		emit(c35GenSeq(r))
	}
	// the users' instantiations: the same sequences without dumps
	for i := 0; i < n/20; i++ {
		f := strings.Split(c35GenSeq(r), " ")
		ops := make([]string, 0, len(f))
		for _, op := range f[2:] {
			if op != "d" {
				ops = append(ops, op)
			}
		}
		emit("typed " + []string{"hu", "ht", "sb"}[i%3] + " " + f[1] + " " + strings.Join(ops, " "))
	}
	for i := 0; i < nconc && !broken; i++ {
		emit(c35GenConc(r))
	}
}

func TestVerifC35(t *testing.T) { vu.Run(t, "C35", 5000, c35Gen, c35Run) }
