(* C35 driver: replays the Go trace on the extracted models.
   seq   : prop_ok  = the implementation's results are those of the specifications (recency list
                      RSpec for everything, time-stamp TSpec for the Get/Put results);
           model_eq = they are those of the Tier A models (map+list Model, pointer-level PModel).
   conc  : prop_ok  = the recorded history is linearizable w.r.t. RSpec (a linearization found by the
                      driver's untrusted search passes the PROVED certificate check, else the proved searches);
           model_eq = the history consists of exactly the calls of the input programs.
   probe : prop_ok  = nothing ran while the harness held the lock exclusively, and nothing changed
                      the recency order while the harness held it shared;
           model_eq = ran/blocked as predicted from the lock table read from the Go source.
   shape : prop_ok  = the method body is ONE exclusive critical section (Lock first, defer Unlock
                      next, no other lock call): what Conc.LockedObject assumes of the method. *)
open Model
open Vutil

let parse_op s = match String.split_on_char ':' s with
  | ["g"; k] -> Get (n_of_hex k)
  | ["p"; k; v] -> Put (n_of_hex k, n_of_hex v)
  | ["d"] -> Dump
  | _ -> fail "C35: bad op %s" s

let str_res = function
  | RVal v -> "v:" ^ hex_of_n v
  | RUnit -> "u"
  | RList [] -> "l:-"
  | RList l -> "l:" ^ String.concat "," (List.map (fun (k, v) -> hex_of_n k ^ "=" ^ hex_of_n v) l)
  | RPanic -> "panic"

(* Some r, or None for an observable no specification can produce (corrupt:..., panic) *)
let parse_res s =
  if s = "u" then Some RUnit
  else if s = "l:-" then Some (RList [])
  else if String.length s > 2 && String.sub s 0 2 = "v:" then Some (RVal (n_of_hex (String.sub s 2 (String.length s - 2))))
  else if String.length s > 2 && String.sub s 0 2 = "l:" then
    Some (RList (List.map (fun kv -> match String.split_on_char '=' kv with
        | [k; v] -> (n_of_hex k, n_of_hex v) | _ -> fail "C35: bad list %s" s)
      (String.split_on_char ',' (String.sub s 2 (String.length s - 2)))))
  else None

(* UNTRUSTED search for a linearization (its answer is only used through the proved certificate
   check): depth-first over "which pending record comes next", candidates in the order of the
   array (hint: return stamps), a hash table of the (placed set, specification state) pairs
   already explored.  Returns the positions of the records in linearization order. *)
let lin_find ?(optional : bool array option) (step : 'st -> 'op -> 'st * 'res) (key : 'st -> string) (s0 : 'st)
    (h : (int * int * 'op * 'res) array) (budget : int) : int list option =
  let n = Array.length h in
  (* optional records (pending calls, with the result they eventually returned) may be left out *)
  let opt i = (match optional with Some a -> a.(i) | None -> false) in
  let nmand = (let c = ref 0 in for i = 0 to n - 1 do if not (opt i) then incr c done; !c) in
  let visited = Hashtbl.create 4096 in
  let placed = Bytes.make n '0' in
  let nodes = ref 0 in
  let result = ref None in
  let rec go st cnt acc =
    if !result <> None || !nodes > budget then ()
    else if cnt = nmand then result := Some (List.rev acc)
    else begin
      incr nodes;
      let minret = ref max_int in
      for i = 0 to n - 1 do
        if Bytes.get placed i = '0' then (let (_, r, _, _) = h.(i) in if r < !minret then minret := r)
      done;
      for i = 0 to n - 1 do
        if !result = None && Bytes.get placed i = '0' then begin
          let (c, _, op, res) = h.(i) in
          if c <= !minret then begin
            let (st', r) = step st op in
            if r = res then begin
              Bytes.set placed i '1';
              let k = Bytes.to_string placed ^ key st' in
              if not (Hashtbl.mem visited k) then begin
                Hashtbl.add visited k ();
                go st' (if opt i then cnt else cnt + 1) (i :: acc)
              end;
              Bytes.set placed i '0'
            end
          end
        end
      done
    end in
  go s0 0 [];
  !result

(* the history cut at an instant t: the calls that had returned by t are complete, the calls in
   flight at t are pending, later calls are not there yet.  The cut must be linearizable as a
   history with pending calls: an untrusted search chooses which pending calls take effect (with
   the results they eventually returned), the PROVED pcert check accepts.  Returns
   (number of pending calls, certificate accepted). *)
let cut_check cap (h : ('op, 'res) orec list) key : int * bool =
  let stamps = List.sort compare (List.concat_map (fun e -> [int_of_n e.o_call; int_of_n e.o_ret]) h) in
  if stamps = [] then (0, true) else begin
    let t = List.nth stamps (List.length stamps / 2) in
    let inf = List.fold_left max 0 stamps + 1 in
    let h_c = List.filter (fun e -> int_of_n e.o_ret <= t) h in
    let inflight = List.filter (fun e -> int_of_n e.o_call <= t && int_of_n e.o_ret > t) h in
    if inflight = [] then (0, true) else begin
      let nc = List.length h_c in
      let arr = Array.of_list (List.map (fun e -> (int_of_n e.o_call, int_of_n e.o_ret, e.o_op, e.o_res)) h_c @
                               List.map (fun e -> (int_of_n e.o_call, inf, e.o_op, e.o_res)) inflight) in
      let optional = Array.init (Array.length arr) (fun i -> i >= nc) in
      match lin_find ~optional r_step key (r_new cap) arr 1500000 with
      | None -> (List.length inflight, false)
      | Some l ->
        (* the chosen pending calls, in the order they appear in the linearization *)
        let chosen_pos = List.filter (fun i -> i >= nc) l in
        let inflight_a = Array.of_list inflight in
        let chosen = List.map (fun i -> (drv_nat_of_n (n_of_int (i - nc)), inflight_a.(i - nc).o_res)) chosen_pos in
        let rank i = (let rec go k = function [] -> 0 | x :: r -> if x = i then k else go (k + 1) r in go 0 chosen_pos) in
        let perm = List.map (fun i -> drv_nat_of_n (n_of_int (if i < nc then i else nc + rank i))) l in
        let pend = List.map (fun e -> { pc_call = e.o_call; pc_op = e.o_op }) inflight in
        let inf = n_of_int inf in
        (List.length inflight, lru_pcert cap h_c pend inf chosen perm)
    end
  end

let prog s = if s = "-" then [] else String.split_on_char ',' s

let is_getput = function Dump -> false | _ -> true

let check inp obs =
  match split_ws inp with
  | "seq" :: cap :: ops ->
    let cap = n_of_hex cap in
    let pops = List.map parse_op ops in
    let show l = if l = [] then "-" else String.concat " " (List.map str_res l) in
    let r = show (r_run (r_new cap) pops) in
    let m = show (m_run (m_new cap) pops) in
    let p = show (p_run (p_new cap) pops) in
    (* TSpec: Get/Put results only *)
    let tres = t_run (t_new cap) pops in
    let obs_l = split_ws (if obs = "-" then "" else obs) in
    let t_ok = (List.length obs_l = List.length pops) &&
      List.for_all2 (fun (o, tr) ob -> (not (is_getput o)) || str_res tr = ob)
        (List.combine pops tres) obs_l in
    let prop = (r = obs) && t_ok in
    let eq = (m = obs) && (p = obs) in
    let hits = List.length (List.filter (fun s -> String.length s > 2 && String.sub s 0 2 = "v:" && s <> "v:0") obs_l) in
    let buckets = List.map int_of_n (r_buckets (r_new cap) pops) in
    let hasb b = List.mem b buckets in
    let tags = String.concat "," (List.filter (fun x -> x <> "") [
      "seq"; (if cap = N0 then "cap-default" else "cap-" ^ hex_of_n cap);
      (if hasb 1 then "get-miss" else ""); (if hasb 2 then "get-hit-front" else "");
      (if hasb 3 then "get-hit-moved" else ""); (if hasb 4 then "put-update-front" else "");
      (if hasb 5 then "put-update-moved" else ""); (if hasb 6 then "put-insert" else "");
      (if hasb 7 then "put-insert-evict" else "");
      (if hits > 0 then "hit" else ""); (if List.mem "v:0" obs_l then "miss-or-zero" else "");
      (if List.length pops > int_of_n (if cap = N0 then n_of_int 20 else cap) then "may-evict" else "") ]) in
    { prop_ok = prop; model_eq = eq; nontrivial = List.length pops >= 2; finding = "-"; tags;
      detail = (if prop && eq then "" else
                Printf.sprintf "rspec=[%s] tspec_ok=%b model=[%s] pmodel=[%s]" r t_ok m p) }
  | ("conc" | "concl" | "concg") :: cap :: pre :: progs ->
    let cap = n_of_hex cap in
    let recs = List.map (fun s -> match String.split_on_char '/' s with
        | [tid; c; r; op; res] -> (int_of_string ("0x" ^ tid), n_of_hex c, n_of_hex r, op, res)
        | _ -> fail "C35: bad record %s" s) (split_ws obs) in
    (* the history must consist of the calls of the programs, per thread in program order *)
    let by_tid t = List.map (fun (_, _, _, op, _) -> op)
        (List.sort (fun (_, c1, _, _, _) (_, c2, _, _, _) -> compare (int_of_n c1) (int_of_n c2))
           (List.filter (fun (t', _, _, _, _) -> t' = t) recs)) in
    let progs_ok = by_tid 0xfe = prog pre && by_tid 0xff = ["d"] &&
                   List.for_all (fun x -> x) (List.mapi (fun t p -> by_tid t = prog p) progs) &&
                   List.length recs = List.length (prog pre) + 1 + List.fold_left (fun a p -> a + List.length (prog p)) 0 progs in
    let bad_res = List.filter (fun (_, _, _, _, res) -> parse_res res = None) recs in
    let cut = ref (0, true) in
    let verdict, why =
      if bad_res <> [] then (false, "impossible result " ^ (let (_, _, _, op, res) = List.hd bad_res in op ^ "->" ^ res))
      else begin
        let h = List.map (fun (_, c, r, op, res) ->
            { o_call = c; o_ret = r; o_op = parse_op op;
              o_res = (match parse_res res with Some x -> x | None -> RPanic) }) recs in
        (* the verdict does not depend on the order of the list; the search tries candidates in list
           order, and the order of the return stamps is close to the order of the lock acquisitions *)
        let h = List.stable_sort (fun a b -> compare (int_of_n a.o_ret) (int_of_n b.o_ret)) h in
        let harr = Array.of_list (List.map (fun e -> (int_of_n e.o_call, int_of_n e.o_ret, e.o_op, e.o_res)) h) in
        let key (q : rspec) = String.concat "," (List.map (fun (k, v) -> hex_of_n k ^ "=" ^ hex_of_n v) q.r_items) in
        let cert = (match lin_find r_step key (r_new cap) harr 1500000 with
            | Some l -> lru_cert cap h (List.map (fun i -> drv_nat_of_n (n_of_int i)) l)
            | None -> false) in
        if cert then (cut := cut_check cap h key; (true, ""))
        else
        match lru_lin_complete (n_of_int 3000000) cap h with
        | Some true -> (true, "")
        | Some false -> (false, "history is not linearizable (complete search, proved)")
        | None ->
          (match lru_lin (n_of_int 30000) cap h with
           | Some true -> (true, "")
           | _ -> (false, "no linearization found (certificate search, complete search and memoized search exhausted their budgets)"))
      end in
    (* how concurrent was it: pairs of calls of different threads overlapping in time *)
    let arr = Array.of_list (List.map (fun (t, c, r, _, _) -> (t, int_of_n c, int_of_n r)) recs) in
    let overlaps = ref 0 in
    Array.iteri (fun i (t1, c1, r1) -> Array.iteri (fun j (t2, c2, r2) ->
        if i < j && t1 <> t2 && c1 < r2 && c2 < r1 then incr overlaps) arr) arr;
    let tags = Printf.sprintf "%s,threads-%d,%s" (List.hd (split_ws inp)) (List.length progs)
        ((if !overlaps = 0 then "no-overlap" else if !overlaps < 10 then "overlap-1..9" else "overlap-10+") ^
         (match !cut with (0, _) -> ",cut-no-pending" | (k, true) -> if k < 3 then ",cut-pending-1..2" else ",cut-pending-3+"
                         | (_, false) -> ",cut-unverified")) in
    { prop_ok = verdict; model_eq = progs_ok && snd !cut; nontrivial = !overlaps > 0; finding = "-"; tags;
      detail = (if verdict && progs_ok && snd !cut then "" else why ^ (if progs_ok then "" else " history does not match the programs") ^
                (if snd !cut then "" else " the history cut at its median stamp (with its calls in flight as pending calls) found no accepted certificate")) }
  | ["probe"; meth; hold] ->
    let md = (match meth with "Get" -> lru_mode_get | "Put" -> lru_mode_put
                               | _ -> fail "C35: bad method %s" meth) in
    let hold_x = (hold = "x") in
    let pred_runs = probe_runs md hold_x in
    let ran = (obs <> "blocked") in
    let prop = (obs = "blocked") || (not hold_x && obs = "ran:same") in
    { prop_ok = prop; model_eq = (ran = pred_runs); nontrivial = true; finding = "-";
      tags = "probe," ^ meth ^ "-" ^ hold ^ "-" ^ obs;
      detail = (if prop && ran = pred_runs then "" else
                Printf.sprintf "%s %s while the harness held the %s lock (lock table predicts %s)" meth obs
                  (if hold_x then "exclusive" else "shared") (if pred_runs then "ran" else "blocked")) }
  | "typed" :: kind :: cap :: ops ->
    (* the instantiations of the users of the cache: same specification, keys/values encoded *)
    let cap = n_of_hex cap in
    let pops = List.map parse_op ops in
    let show l = if l = [] then "-" else String.concat " " (List.map str_res l) in
    let r = show (r_run (r_new cap) pops) in
    let p = show (p_run (p_new cap) pops) in
    { prop_ok = (r = obs); model_eq = (p = obs); nontrivial = List.length pops >= 2; finding = "-";
      tags = "typed,typed-" ^ kind;
      detail = (if r = obs && p = obs then "" else Printf.sprintf "rspec=[%s] pmodel=[%s]" r p) }
  | "rl" :: maxr :: ops ->
    (* SlidingWindowRateLimiter with a window that never expires: a counter per id in an LRU cache of
       500 entries; AddRequest = Get, Put count+1; IsLimitExceeded = Get, Put count; answer count > max *)
    let maxr = int_of_n (n_of_hex maxr) in
    let st = ref (r_new (n_of_int 500)) in
    let evicting = ref false in
    let out = List.map (fun o ->
        let id = (match String.split_on_char ':' o with [_; id] -> n_of_hex id | _ -> fail "C35: bad rl op %s" o) in
        let (s1, got) = r_step !st (Get id) in
        let cnt = (match got with RVal v -> int_of_n v | _ -> 0) in
        let full = List.length s1.r_items >= 500 in
        let known = List.exists (fun (k, _) -> k = id) s1.r_items in
        if full && not known then evicting := true;
        if o.[0] = 'a' then begin
          st := fst (r_step s1 (Put (id, n_of_int (cnt + 1)))); "u"
        end else begin
          st := fst (r_step s1 (Put (id, n_of_int cnt))); if cnt > maxr then "b:1" else "b:0"
        end) ops in
    let m = if out = [] then "-" else String.concat " " out in
    { prop_ok = (m = obs); model_eq = (m = obs); nontrivial = List.length ops >= 2; finding = "-";
      tags = "user-ratelimiter" ^ (if !evicting then ",user-ratelimiter-evicts" else "") ^
             (if List.mem "b:1" out then ",user-ratelimiter-exceeded" else "");
      detail = (if m = obs then "" else "the limiter does not behave as a counter per id kept in an LRU cache of 500 entries") }
  | "tc" :: fill :: ops ->
    (* TrieInMemoryCache node cache: LRU cache of 10000 entries *)
    let fill = int_of_n (n_of_hex fill) in
    let st = ref (r_new (n_of_int 10000)) in
    for i = 0 to fill - 1 do st := fst (r_step !st (Put (n_of_int i, n_of_int (i + 1)))) done;
    let out = List.map (fun o ->
        match String.split_on_char ':' o with
        | ["s"; k; v] -> st := fst (r_step !st (Put (n_of_hex k, n_of_hex v))); "u"
        | ["n"; k] -> let (s1, got) = r_step !st (Get (n_of_hex k)) in st := s1; str_res got
        | _ -> fail "C35: bad tc op %s" o) ops in
    let m = if out = [] then "-" else String.concat " " out in
    { prop_ok = (m = obs); model_eq = (m = obs); nontrivial = true; finding = "-";
      tags = "user-triecache" ^ (if fill >= 9998 then ",user-triecache-evicts" else "");
      detail = (if m = obs then "" else "the node cache does not behave as an LRU cache of 10000 entries; model=[" ^ m ^ "]") }
  | ["shape"; meth] ->
    let good = (obs = "1:1:1:0:1:1") in
    let table_ok = lru_discipline_ok in
    { prop_ok = good; model_eq = good || not table_ok; nontrivial = true; finding = "-";
      tags = "shape," ^ meth ^ (if good then "-one-critical-section" else "-bad-shape");
      detail = (if good then "" else
                Printf.sprintf "%s: critical-section shape %s (expected 1:1:1:0:1:1): the method is not one exclusive critical section around its whole body" meth obs) }
  | _ -> fail "C35: bad input %s" inp

(* vm_compute cross-check: a sequential case recomputed inside Coq on all three executable levels *)
let coq_op = function
  | Get k -> "Get " ^ coq_n k
  | Put (k, v) -> Printf.sprintf "Put %s %s" (coq_n k) (coq_n v)
  | Dump -> "Dump"
let coq_res = function
  | RVal v -> "RVal " ^ coq_n v
  | RUnit -> "RUnit"
  | RPanic -> "RPanic"
  | RList l -> "RList [" ^ String.concat "; " (List.map (fun (k, v) -> Printf.sprintf "(%s, %s)" (coq_n k) (coq_n v)) l) ^ "]"
let coq inp obs =
  match split_ws inp with
  | "seq" :: cap :: ops when List.length ops <= 120 ->
    let obs_l = split_ws (if obs = "-" then "" else obs) in
    let parsed = List.map parse_res obs_l in
    if List.length obs_l <> List.length ops || List.exists (fun r -> r = None) parsed then None
    else Some (Printf.sprintf "vm_seq_case %s [%s] [%s]" (coq_n (n_of_hex cap))
                 (String.concat "; " (List.map (fun o -> coq_op (parse_op o)) ops))
                 (String.concat "; " (List.map (function Some r -> coq_res r | None -> "RPanic") parsed)))
  | _ -> None

let () = run_driver ~coq check
