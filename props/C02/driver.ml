(* C02 driver: replays each op sequence on (a) the extracted trie model and (b) the ordered
   byte-string map [run_bmap] (the specification the theorem C02_refines is about), and compares
   both, token by token, with what the Go trie returned.
     prop_ok  = the Go observables equal those of the ordered map
     model_eq = the Go observables equal those of the model of the (repaired) code
   The tag "pinned-eq" records that the observables also equal the model of the pinned tree. *)
open Model
open Vutil

let parse_op s = match String.split_on_char ':' s with
  | ["P"; k; v] -> OpPut (bytes_of_hex k, (if v = "nil" then [] else bytes_of_hex v))
  | ["D"; k] -> OpDel (bytes_of_hex k)
  | ["C"; p] -> OpClear (bytes_of_hex p)
  | ["L"; p; l] -> OpClearLimit (bytes_of_hex p, n_of_hex l)
  | ["G"; k] -> OpGet (bytes_of_hex k)
  | ["N"; k] -> OpNext (bytes_of_hex k)
  | ["K"; p] -> OpKeys (bytes_of_hex p)
  | ["E"] -> OpEntries
  | _ -> fail "C02: bad op %s" s

let op_kind s = String.sub s 0 1

(* Go returns a map: sort by key, one entry per key *)
let canon_listing (e : (byte list * byte list option) list) =
  let e = List.map (fun (k, v) -> (List.map int_of_byte k, (k, v))) e in
  let e = List.stable_sort (fun (a, _) (b, _) -> compare a b) e in
  let rec dedup = function
    | (a, _) :: ((b, _) :: _ as r) when a = b -> dedup r
    | x :: r -> x :: dedup r
    | [] -> [] in
  List.map snd (dedup e)

let str_listing e =
  if e = [] then "()" else
  String.concat "," (List.map (fun (k, v) ->
    hex_of_bytes k ^ "=" ^ (match v with Some v -> hex_of_bytes v | None -> "nil")) e)

let str_out canon = function
  | OutEntries e -> str_listing (if canon then canon_listing e else e)
  | OutLimit (d, a, e) ->
    hex_of_n d ^ "/" ^ (if a then "1" else "0") ^ "/" ^ str_listing (if canon then canon_listing e else e)
  | OutGet None -> "none"
  | OutGet (Some v) -> hex_of_bytes v
  | OutNext None -> "none"
  | OutNext (Some k) -> hex_of_bytes k
  | OutKeys [] -> "()"
  | OutKeys ks -> String.concat "," (List.map hex_of_bytes ks)
  | OutPanic -> "panic"

let first_diff a b =
  let rec go i a b = match a, b with
    | x :: a', y :: b' -> if x = y then go (i + 1) a' b' else Some i
    | [], [] -> None
    | _ -> Some i in
  go 0 a b

let nth_or l i = try List.nth l i with _ -> "<missing>"

let check inp obs =
  match split_ws inp with
  | "seq" :: _ver :: opstrs ->
    let ops = List.map parse_op opstrs in
    let got = if obs = "()" then [] else split_ws obs in
    let spec = List.map (str_out false) (run_bmap [] ops) in
    let pin = List.map (str_out true) (run_trie pinned None ops) in
    let model = List.map (str_out true) (run_trie repaired None ops) in
    let prop_d = first_diff got spec in
    let model_d = first_diff got model in
    let pin_d = first_diff got pin in
    let slug = (match prop_d with
      | Some i when i < List.length ops ->
        let m = bmap_before [] ops (nat_of_int i) and t = trie_before repaired None ops (nat_of_int i) in
        (match int_of_nat (guard_of m t (List.nth ops i)) with
         | 1 -> "get-exhausted-key" | 2 -> "delete-exhausted-key" | 3 -> "prefix-trim"
         | 4 -> "clear-limit-zero" | 5 -> "clear-limit-order" | _ -> "-")
      | _ -> "-") in
    let kinds = List.sort_uniq compare (List.map op_kind opstrs) in
    let tags = List.map (fun k -> "op-" ^ k) kinds
               @ (if pin_d = None then ["pinned-eq"] else ["pinned-differs"])
               @ (match prop_d with Some i -> ["propfail-" ^ op_kind (nth_or opstrs i) ^ "-" ^ slug] | None -> []) in
    let nontrivial = List.length ops >= 3 && List.exists (fun s -> s <> "()" && s <> "none" && s <> "0/1/()" && s <> "0/0/()") spec in
    let detail =
      (match prop_d with
       | Some i -> Printf.sprintf "op#%d %s: go=%s map=%s; " i (nth_or opstrs i) (nth_or got i) (nth_or spec i)
       | None -> "")
      ^ (match model_d with
         | Some i -> Printf.sprintf "op#%d %s: go=%s model=%s" i (nth_or opstrs i) (nth_or got i) (nth_or model i)
         | None -> "") in
    { prop_ok = (prop_d = None); model_eq = (model_d = None); nontrivial; finding = slug;
      tags = String.concat "," tags; detail }
  | _ -> fail "C02: bad input %s" inp

let () = run_driver check
