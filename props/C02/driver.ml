(* C02 driver: replays each op sequence on (a) the extracted trie model and (b) the ordered
   byte-string map [run_bmap] (the specification the theorem C02_refines is about), and compares
   both, token by token, with what the Go trie returned.
     prop_ok  = the Go observables equal those of the ordered map
     model_eq = the Go observables equal those of the model of the (repaired) code, and every
                Descendants counter of the Go trie is exact at the end of the case (token T:ok;
                the model's changed-flag in clearPrefixAtNode is faithful only then)
   Tags: op kinds; "pinned-eq"/"pinned-differs" (model of the pinned tree); one tag per model branch an
   operation ends in (G:/D:/C:/L:/N:/K:/P: ..., computed by walking the model trie before the
   operation); "guard-hit-<slug>" / "guard-agree-<slug>" = an operation lies inside a known-finding
   guard and the Go answer differs from / equals the map's (exactness of the guards, measured);
   "gomap-eq" = the answers equal the ordered map with the Go matching rule (C02_refines_go). *)
open Model
open Vutil

let parse_op s = match String.split_on_char ':' s with
  | ["P"; k; v] -> OpPut (bytes_of_hex k, (if v = "nil" then [] else bytes_of_hex v))
  | ["D"; k] -> OpDel (bytes_of_hex k)
  | ["C"; p] -> OpClear (bytes_of_hex p)
  | ["L"; p; l] -> OpClearLimit (bytes_of_hex p, n_of_hex l)
  | ["G"; k] -> OpGet (bytes_of_hex k)
  | ["N"; k] -> OpNext (bytes_of_hex k)
  | ["K"; p] -> OpKeys (bytes_of_hex p)
  | ["E"] -> OpEntries
  | _ -> fail "C02: bad op %s" s

let op_kind s = String.sub s 0 1

(* Go returns a map: sort by key, one entry per key *)
let canon_listing (e : (byte list * byte list option) list) =
  let e = List.map (fun (k, v) -> (List.map int_of_byte k, (k, v))) e in
  let e = List.stable_sort (fun (a, _) (b, _) -> compare a b) e in
  let rec dedup = function
    | (a, _) :: ((b, _) :: _ as r) when a = b -> dedup r
    | x :: r -> x :: dedup r
    | [] -> [] in
  List.map snd (dedup e)

let str_listing e =
  if e = [] then "()" else
  String.concat "," (List.map (fun (k, v) ->
    hex_of_bytes k ^ "=" ^ (match v with Some v -> hex_of_bytes v | None -> "nil")) e)

let str_out canon = function
  | OutEntries e -> str_listing (if canon then canon_listing e else e)
  | OutLimit (d, a, e) ->
    hex_of_n d ^ "/" ^ (if a then "1" else "0") ^ "/" ^ str_listing (if canon then canon_listing e else e)
  | OutGet None -> "none"
  | OutGet (Some v) -> hex_of_bytes v
  | OutNext None -> "none"
  | OutNext (Some k) -> hex_of_bytes k
  | OutKeys [] -> "()"
  | OutKeys ks -> String.concat "," (List.map hex_of_bytes ks)
  | OutPanic -> "panic"

let first_diff a b =
  let rec go i a b = match a, b with
    | x :: a', y :: b' -> if x = y then go (i + 1) a' b' else Some i
    | [], [] -> None
    | _ -> Some i in
  go 0 a b

let nth_or l i = try List.nth l i with _ -> "<missing>"

(* ---------------- model-branch coverage (tags only) ---------------- *)
let nibs (b : byte list) : int list =
  List.concat_map (fun x -> let v = int_of_byte x in [v / 16; v mod 16]) b
let ikey (k : key) = List.map int_of_nat k
let rec is_pre p k = match p, k with
  | [], _ -> true | x :: p', y :: k' -> x = y && is_pre p' k' | _ :: _, [] -> false
let rec cplen a b = match a, b with x :: a', y :: b' when x = y -> 1 + cplen a' b' | _ -> 0
let rec drop n l = if n <= 0 then l else match l with [] -> [] | _ :: r -> drop (n - 1) r
let child cs i = match List.nth_opt cs i with Some c -> c | None -> None
let nth0 l i = match List.nth_opt l i with Some x -> x | None -> 0
let nchildren cs = List.length (List.filter (fun c -> c <> None) cs)
let rec trim_zero = function [] -> [] | [0] -> [] | x :: r -> x :: trim_zero r
let pk_of = function Leaf (pk, _) -> ikey pk | Branch (pk, _, _) -> ikey pk
(* what handleDeletion does with a branch that has [n] children left and value [ov] *)
let hd_tag cs ov = match nchildren cs, ov with
  | 0, Some _ -> "hd-to-leaf"
  | 1, None -> (match List.find (fun c -> c <> None) cs with
      | Some (Leaf _) -> "hd-merge-leaf" | Some (Branch _) -> "hd-merge-branch" | None -> "hd-keep")
  | 0, None -> "hd-empty"
  | _ -> "hd-keep"
let set_nth cs i c = List.mapi (fun j x -> if j = i then c else x) cs
let dpt d = if d = 0 then "0" else "1"   (* at the root / below it *)

let rec cov_get d t k acc = match t with
  | Leaf (pk, _) -> ("G" ^ dpt d ^ (if ikey pk = k then ":leaf-hit" else ":leaf-miss")) :: acc
  | Branch (pk, ov, cs) ->
    let pk = ikey pk in
    if k = [] then ("G" ^ dpt d ^ ":empty-key" ^ (if pk = [] then "" else "-pk") ^ (if ov = None then "-noval" else "-val")) :: acc
    else if pk = k then ("G" ^ dpt d ^ (if ov = None then ":branch-self-noval" else ":branch-self-val")) :: acc
    else if not (is_pre pk k) then ("G" ^ dpt d ^ ":diverge") :: acc
    else
      let n = List.length pk in
      let ck = drop (n + 1) k in
      (match child cs (nth0 k n) with
       | None -> ("G" ^ dpt d ^ ":child-nil") :: acc
       | Some c -> if ck = [] && pk_of c <> [] then ("G" ^ dpt d ^ ":slot-end") :: acc else cov_get (d + 1) c ck acc)

let rec cov_del d t k acc = match t with
  | Leaf (pk, _) ->
    ("D" ^ dpt d ^ (if k = [] then (if pk = [] then ":leaf-del" else ":leaf-empty-key") else if ikey pk = k then ":leaf-del" else ":leaf-miss")) :: acc
  | Branch (pk, ov, cs) ->
    let pk = ikey pk in
    if k = [] || pk = k then
      ("D" ^ dpt d ^ ":branch-value-" ^ (if ov = None then "absent-" else "") ^ hd_tag cs None) :: acc
    else
      let n = cplen pk k in
      if n < List.length pk then ("D" ^ dpt d ^ ":diverge") :: acc
      else
        let ck = drop (n + 1) k and i = nth0 k n in
        (match child cs i with
         | None -> ("D" ^ dpt d ^ ":child-nil") :: acc
         | Some c ->
           if ck = [] && pk_of c <> [] then ("D" ^ dpt d ^ ":slot-end") :: acc
           else begin
             let acc = (match c with
               | Leaf (cpk, _) when ikey cpk = ck || ck = [] -> ("D" ^ dpt d ^ ":parent-" ^ hd_tag (set_nth cs i None) ov) :: acc
               | _ -> acc) in
             cov_del (d + 1) c ck acc
           end)

let rec cov_clear d t p acc = match t with
  | Leaf (pk, _) -> ("C" ^ dpt d ^ (if is_pre p (ikey pk) then ":leaf-cleared" else ":leaf-keep")) :: acc
  | Branch (pk, ov, cs) ->
    let pk = ikey pk in
    let n = List.length pk in
    if is_pre p pk then ("C" ^ dpt d ^ ":branch-cleared") :: acc
    else if List.length p = n + 1 && is_pre pk p then
      (match child cs (nth0 p n) with
       | None -> ("C" ^ dpt d ^ ":slot-nil") :: acc
       | Some _ -> ("C" ^ dpt d ^ ":slot-" ^ hd_tag (set_nth cs (nth0 p n) None) ov) :: acc)
    else if List.length p <= n || cplen pk p < n then ("C" ^ dpt d ^ ":no-prefix") :: acc
    else
      (match child cs (nth0 p n) with
       | None -> ("C" ^ dpt d ^ ":rec-nil") :: acc
       | Some c ->
         let cp = drop (n + 1) p in
         let acc = (if is_pre cp (pk_of c) then ("C" ^ dpt d ^ ":rec-child-cleared-" ^ hd_tag (set_nth cs (nth0 p n) None) ov) :: acc else acc) in
         cov_clear (d + 1) c cp acc)

let dnl_tag t limit =
  match delete_nodes_limit t limit with
  | (None, _) -> "dnl-all"
  | (Some (Leaf _), _) -> "dnl-partial-to-leaf"
  | (Some (Branch (_, ov, _)), _) -> if ov = None then "dnl-partial-branch" else "dnl-partial-branch-val"

let rec cov_limit d t p limit acc = match t with
  | Leaf (pk, _) -> ("L" ^ dpt d ^ (if is_pre p (ikey pk) then ":leaf-hit" else ":leaf-miss")) :: acc
  | Branch (pk, _, cs) ->
    let pk = ikey pk in
    let n = List.length pk in
    if is_pre p pk then ("L" ^ dpt d ^ ":" ^ dnl_tag t limit) :: acc
    else if List.length p = n + 1 && is_pre pk p then
      (match child cs (nth0 p n) with
       | None -> ("L" ^ dpt d ^ ":slot-nil") :: acc
       | Some c -> ("L" ^ dpt d ^ ":slot-" ^ dnl_tag c limit) :: acc)
    else if List.length p <= n || cplen pk p < n then ("L" ^ dpt d ^ ":no-prefix") :: acc
    else
      (match child cs (nth0 p n) with
       | None -> ("L" ^ dpt d ^ ":rec-nil") :: acc
       | Some c -> cov_limit (d + 1) c (drop (n + 1) p) limit acc)

let rec cmp_l (a : int list) (b : int list) = match a, b with
  | [], [] -> 0 | [], _ -> -1 | _, [] -> 1
  | x :: a', y :: b' -> if x < y then -1 else if x > y then 1 else cmp_l a' b'

let rec cov_next t prefix search acc = match t with
  | Leaf (pk, _) -> (if cmp_l search (prefix @ ikey pk) < 0 then "N:leaf-lt" else "N:leaf-ge") :: acc
  | Branch (pk, ov, cs) ->
    let full = prefix @ ikey pk in
    let c = cmp_l search full in
    let visit start acc =
      let acc = ref acc in
      List.iteri (fun i oc -> if i >= start then match oc with
        | Some ch -> acc := cov_next ch (full @ [i]) search !acc | None -> ()) cs;
      !acc in
    if c < 0 then (if ov <> None then "N:branch-lt-val" :: acc else visit 0 ("N:branch-lt-noval" :: acc))
    else if c = 0 then visit 0 ("N:branch-eq" :: acc)
    else if List.length search <= List.length full then "N:branch-gt-exhausted" :: acc
    else visit (nth0 search (List.length full)) ("N:branch-gt-descend" :: acc)

let rec cov_keys d t k acc = match t with
  | Leaf (pk, _) -> ("K" ^ dpt d ^ (if k = [] || is_pre k (ikey pk) then ":leaf-hit" else ":leaf-miss")) :: acc
  | Branch (pk, _, cs) ->
    let pk = ikey pk in
    if k = [] || is_pre k pk then ("K" ^ dpt d ^ ":all-keys") :: acc
    else if not (is_pre pk k) then ("K" ^ dpt d ^ ":diverge") :: acc
    else
      let r = drop (List.length pk) k in
      (match r with
       | [] -> ("K" ^ dpt d ^ ":panic") :: acc
       | ci :: ck -> (match child cs ci with
           | None -> ("K" ^ dpt d ^ ":child-nil") :: acc
           | Some c -> cov_keys (d + 1) c ck acc))

let rec cov_put d t k acc = match t with
  | Leaf (pk, _) ->
    let pk = ikey pk in
    let n = cplen k pk in
    ("P" ^ dpt d ^ (if pk = k then ":leaf-overwrite"
                    else if List.length k = n then ":leaf-key-inside-leafkey"
                    else if List.length pk = n then ":leaf-leafkey-inside-key"
                    else ":leaf-split")) :: acc
  | Branch (pk, _, cs) ->
    let pk = ikey pk in
    if k = pk then ("P" ^ dpt d ^ ":branch-own-value") :: acc
    else if is_pre pk k then
      let n = List.length pk in
      (match child cs (nth0 k n) with
       | None -> ("P" ^ dpt d ^ ":branch-new-child") :: acc
       | Some c -> cov_put (d + 1) c (drop (n + 1) k) acc)
    else ("P" ^ dpt d ^ (if List.length k <= cplen k pk then ":branch-split-key-inside" else ":branch-split")) :: acc

let cover (t : trie) (o : op) acc =
  match t with
  | None -> (match o with
      | OpPut _ -> "P0:empty" :: acc | OpDel _ -> "D0:empty" :: acc | OpClear _ -> "C0:empty" :: acc
      | OpClearLimit (_, l) -> (if l = N0 then "L0:limit-zero" else "L0:empty") :: acc
      | OpGet _ -> "G0:empty" :: acc | OpNext _ -> "N:empty" :: acc | OpKeys _ -> "K0:empty" :: acc
      | OpEntries -> acc)
  | Some n ->
    (match o with
     | OpPut (k, _) -> cov_put 0 n (nibs k) acc
     | OpDel k -> cov_del 0 n (nibs k) acc
     | OpClear p -> if p = [] then "C0:empty-prefix" :: acc else cov_clear 0 n (trim_zero (nibs p)) acc
     | OpClearLimit (p, l) -> if l = N0 then "L0:limit-zero" :: acc else cov_limit 0 n (trim_zero (nibs p)) l acc
     | OpGet k -> cov_get 0 n (nibs k) acc
     | OpNext k -> cov_next n [] (nibs k) acc
     | OpKeys p -> cov_keys 0 n (if p = [] then [] else trim_zero (nibs p)) acc
     | OpEntries -> acc)

(* guard_of on a limited clear with the limit clamped to (stored keys + 1): the same guard
   (theorem C02_guard_clamp); N.to_nat of a limit like 0xffffffff is not computable in unary *)
let guard_clamped (m : bmap) (t : trie) (o : op) =
  match o with
  | OpClearLimit (p, l) ->
    let c = n_of_int (List.length m + 1) in
    let big = String.length (hex_of_n l) > 7 in
    let l' = if big || int_of_n l > List.length m + 1 then c else l in
    guard_of m t (OpClearLimit (p, l'))
  | _ -> guard_of m t o

let slug_of = function
  | 1 -> "get-exhausted-key" | 2 -> "delete-exhausted-key" | 3 -> "prefix-trim"
  | 4 -> "clear-limit-zero" | 5 -> "clear-limit-order" | _ -> "-"

(* the trailing Descendants token *)
let split_desc got =
  match List.rev got with
  | last :: rest when String.length last >= 2 && String.sub last 0 2 = "T:" -> (List.rev rest, Some last)
  | _ -> (got, None)

let check inp obs =
  match split_ws inp with
  | "seq" :: _ver :: opstrs ->
    let ops = List.map parse_op opstrs in
    let got0 = if obs = "()" then [] else split_ws obs in
    let (got, desc) = split_desc got0 in
    let panicked = List.mem "panic" got in
    let pin = List.map (str_out true) (run_trie pinned None ops) in
    let model = List.map (str_out true) (run_trie repaired None ops) in
    let gomap = List.map (str_out false) (run_gomap [] ops) in
    let model_d = first_diff got model in
    let pin_d = first_diff got pin in
    let desc_ok = (match desc with Some "T:ok" -> true | Some _ -> false | None -> panicked) in
    (* Step by step along the model's states: the map's answer to each operation, per-operation
       coverage, guard exactness.  When the Go answer differs from the map's INSIDE a known-finding guard
       the map is re-synchronised with the state of the model after the operation (a canonical trie again,
       so C02_step applies from there) and the rest of the case is still checked against the map; a
       difference outside every guard is a property failure wherever it occurs. *)
    let cov = ref [] and gtags = ref [] in
    let m = ref [] and t = ref None in
    let spec = ref [] and fails = ref [] in
    let bmap_of_trie (tr : trie) : bmap =
      List.filter_map (fun (k, v) -> match v with Some x -> Some (k, x) | None -> None) (repaired.i_entries tr) in
    let stopped = ref false in
    List.iteri (fun i o ->
      if not !stopped then begin
        cov := cover !t o !cov;
        let g = int_of_nat (guard_clamped !m !t o) in
        let (m', so) = bm_step !m o in
        let (t', mo) = trie_step repaired !t o in
        let stok = str_out false so in
        spec := stok :: !spec;
        let gtok = nth_or got i in
        let differs = (gtok <> stok) in
        if g <> 0 then gtags := ((if differs then "guard-hit-" else "guard-agree-") ^ slug_of g) :: !gtags;
        if differs then fails := (i, g) :: !fails;
        if is_panic mo || gtok = "panic" || gtok = "<missing>" then stopped := true;
        t := t';
        m := (if differs && g <> 0 && gtok = str_out true mo then bmap_of_trie t' else m')
      end) ops;
    let spec = List.rev !spec and fails = List.rev !fails in
    let unguarded = List.filter (fun (_, g) -> g = 0) fails in
    let prop_d = (match unguarded, fails with
      | (i, _) :: _, _ -> Some i
      | [], (i, _) :: _ -> Some i
      | [], [] -> if List.length got <> List.length spec && not panicked then Some (min (List.length got) (List.length spec)) else None) in
    let slug = (match unguarded, fails with
      | _ :: _, _ -> "-"
      | [], (_, g) :: _ -> slug_of g
      | [], [] -> "-") in
    let kinds = List.sort_uniq compare (List.map op_kind opstrs) in
    let tags = List.map (fun k -> "op-" ^ k) kinds
               @ (if pin_d = None then ["pinned-eq"] else ["pinned-differs"])
               @ (if first_diff got gomap = None then ["gomap-eq"] else ["gomap-differs"])
               @ (match desc with Some "T:ok" -> ["desc-ok"] | Some _ -> ["desc-bad"] | None -> ["desc-none"])
               @ List.sort_uniq compare (List.map (fun (i, g) -> "propfail-" ^ op_kind (nth_or opstrs i) ^ "-" ^ slug_of g) fails)
               @ (if List.length fails > 1 then ["resynced-after-finding"] else [])
               @ List.sort_uniq compare !gtags
               @ List.sort_uniq compare !cov in
    let nontrivial = List.length ops >= 3 && List.exists (fun s -> s <> "()" && s <> "none" && s <> "0/1/()" && s <> "0/0/()") spec in
    let detail =
      (match prop_d with
       | Some i -> Printf.sprintf "op#%d %s: go=%s map=%s; " i (nth_or opstrs i) (nth_or got i) (nth_or spec i)
       | None -> "")
      ^ (match model_d with
         | Some i -> Printf.sprintf "op#%d %s: go=%s model=%s" i (nth_or opstrs i) (nth_or got i) (nth_or model i)
         | None -> "")
      ^ (if desc_ok then "" else Printf.sprintf " descendants-counters=%s" (match desc with Some d -> d | None -> "missing")) in
    { prop_ok = (prop_d = None); model_eq = (model_d = None) && desc_ok; nontrivial; finding = slug;
      tags = String.concat "," tags; detail }
  | _ -> fail "C02: bad input %s" inp

(* ---------------- vm_compute cross-check of the extraction ---------------- *)
let coq_opt f = function None -> "None" | Some x -> "(Some " ^ f x ^ ")"
let coq_list f l = "[" ^ String.concat "; " (List.map f l) ^ "]"
let coq_op = function
  | OpPut (k, v) -> Printf.sprintf "OpPut %s %s" (coq_bytes k) (coq_bytes v)
  | OpDel k -> "OpDel " ^ coq_bytes k
  | OpClear p -> "OpClear " ^ coq_bytes p
  | OpClearLimit (p, l) -> Printf.sprintf "OpClearLimit %s %s" (coq_bytes p) (coq_n l)
  | OpGet k -> "OpGet " ^ coq_bytes k
  | OpNext k -> "OpNext " ^ coq_bytes k
  | OpKeys p -> "OpKeys " ^ coq_bytes p
  | OpEntries -> "OpEntries"
let parse_listing s : (byte list * byte list option) list =
  if s = "()" then [] else
  List.map (fun kv -> match String.split_on_char '=' kv with
    | [k; v] -> (bytes_of_hex k, (if v = "nil" then None else Some (bytes_of_hex v)))
    | _ -> raise Exit) (String.split_on_char ',' s)
let coq_listing l = coq_list (fun (k, v) -> Printf.sprintf "(%s, %s)" (coq_bytes k) (coq_opt coq_bytes v)) l
let coq_out kind tok =
  if tok = "panic" then "OutPanic" else
  if tok = "err" || tok = "badop" then raise Exit else
  match kind with
  | "P" | "D" | "C" | "E" -> "OutEntries " ^ coq_listing (parse_listing tok)
  | "L" -> (match String.split_on_char '/' tok with
      | [d; a; e] -> Printf.sprintf "OutLimit %s %s %s" (coq_n (n_of_hex d)) (if a = "1" then "true" else "false")
                       (coq_listing (parse_listing e))
      | _ -> raise Exit)
  | "G" -> "OutGet " ^ (if tok = "none" then "None" else "(Some " ^ coq_bytes (bytes_of_hex tok) ^ ")")
  | "N" -> "OutNext " ^ (if tok = "none" then "None" else "(Some " ^ coq_bytes (bytes_of_hex tok) ^ ")")
  | "K" -> "OutKeys " ^ (if tok = "()" then "[]" else coq_list (fun k -> coq_bytes (bytes_of_hex k)) (String.split_on_char ',' tok))
  | _ -> raise Exit

let coq inp obs =
  match split_ws inp with
  | "seq" :: _ :: opstrs when List.length opstrs <= 40 ->
    (try
      let ops = List.map parse_op opstrs in
      let (got, _) = split_desc (split_ws obs) in
      let kinds = List.map op_kind opstrs in
      let rec zip ks ts = match ks, ts with k :: ks', t :: ts' -> coq_out k t :: zip ks' ts' | _, [] -> [] | [], _ -> raise Exit in
      let expected = "[" ^ String.concat "; " (zip kinds got) ^ "]" in
      let opsS = "[" ^ String.concat "; " (List.map coq_op ops) ^ "]" in
      let v = check inp obs in
      let md = (first_diff got (List.map (str_out true) (run_trie repaired None ops)) = None) in
      Some (Printf.sprintf "let ops := %s in let ex := %s in Bool.eqb (vm_case ops ex) %s && Bool.eqb (vm_case_spec ops ex) %s"
              opsS expected (if md then "true" else "false") (if v.prop_ok then "true" else "false"))
    with Exit -> None)
  | _ -> None

let () = run_driver ~coq check
